(* C08 handler kinds: CH (one control frame through one entry point), CX (inline in ReadData) *)
open Base
open Check
open Frame
open Stream0
open Writer
open Handler

let split c s = String.split_on_char c s
let ni = n_of_int

let hres_of_string (s : string) : hresult option =
  match split ':' s with
  | ["nil"] -> Some HNil
  | ["closed"; code; reason] -> Some (HClosed (ni (int_of_string code), bytes_of_hex reason))
  | ["proto"; name] -> (match K_c03.cerr_of_name name with Some (Some e) -> Some (HProto e) | _ -> None)
  | ["io"; "eof"] -> Some (HIoErr EEOF) | ["io"; "unexpected"] -> Some (HIoErr EUnexpected) | ["io"; "fail"] -> Some (HIoErr EFail)
  | ["notcontrol"] -> Some HNotControl
  | ["overflow"] -> Some HWriteErr
  | _ -> None

let () =
  register "CH" (fun i o -> match i, o with
    | [side; op; payload; key; entry; spec], [log; res] ->
      let state = ni (int_of_string side) and op = ni (int_of_string op) in
      let payload = bytes_of_hex payload in
      let log = bytes_list_of_tok log in
      (match hres_of_string res with
       | None -> Viol ("control handler returned an unclassified result: " ^ res)
       | Some r ->
         let opi = int_of_n op in
         if opi <> 8 && opi <> 9 && opi <> 10 then
           (if r = HNotControl && log = [] then Pass false else Viol "non-control opcode was handled")
         else if not (c08_reply_monitor state op payload log r) then
           Viol "automatic control reply is not the single valid frame RFC 6455 asks for (or wrong result reported)"
         else begin
           let masked = key <> "-" && int_of_string side = 1 in
           let k = if masked then bytes_of_hex key else zero_mask in
           let h = { h_fin = true; h_rsv = BinNums.N0; h_op = op; h_masked = masked; h_mask = k;
                     h_len = z_of_int (List.length payload) } in
           let avail = if masked then Cipher.mask_spec payload k BinNums.N0 else payload in
           let copy_sizes = if entry = "hcm" || entry = "hcm2" then [] else sizes_of_spec spec (List.length payload) in
           let masks = K_writer.masks_of (List.concat log) in
           let d = { d_calls = []; d_fail_at = None } in
           let (mr, d') = handle state masked h avail TEOF copy_sizes masks d in
           if mr <> r then Diff "model handler result differs"
           else if List.concat (dest_log d') <> List.concat log then Diff "model handler reply bytes differ"
           else Pass (payload <> [])
         end)
    | _ -> Diff "malformed line");
  register "CX" (fun i o -> match i, o with
    | [side; op; payload; spec], [log; res] ->
      let state = ni (int_of_string side) and op = ni (int_of_string op) in
      let payload = bytes_of_hex payload in
      let log = bytes_list_of_tok log in
      (* the reply written by ReadData's inline handling, then the data message (ping/pong) or the close result *)
      let r = (match split ':' res with
        | ["data"; "1"; "6869"] -> Some HNil
        | _ -> hres_of_string res) in
      (match r with
       | None -> Viol ("ReadData returned an unclassified result: " ^ res)
       | Some r ->
         if c08_reply_monitor state op payload log r then Pass true
         else Viol "ReadData: inline control handling wrote a wrong reply or returned a wrong result")
    | _ -> Diff "malformed line")
