(* C11, quoted-string extension parameter values (harness/zz_quoted.go).
   A11Q q=<class> <A11 inputs> -> <A11 outputs>
     the agreement run A11 for a case in which some parameter value of the offers or of the
     Negotiate answers lies OUTSIDE the exact write/scan frontier HsAgreeQ.qv_ok (proved exact:
     C11_quoted_value_roundtrip / C11_quoted_value_frontier).  Judged by the A11 monitor
     ("either both sides succeed and report the same subprotocol and the same extensions with the
     same parameters, or both fail") and compared with the same models.  In addition
       - the class the harness computed from the input is re-derived here with the extracted qv_ok
         (a wrong class is a Diff, so a known-finding match cannot be obtained by mislabelling);
       - when both peers succeed the dialer must report nrm_opts of what the upgrader reports
         (theorem C11_both_succeed_dialer_reports_scanned), else Diff.
     A disagreement of the two peers on such a case is finding F23. *)
open Base
open BinNums
open K_c09
open K_c10
open K_c11

let last_of l = List.nth l (List.length l - 1)
let value_class (v : coq_N list) : string =
  if v = [] || HsAgreeQ.qv_ok v then "in"
  else
    let l = int_of_n (last_of v) in
    if l = 34 then "endq" else if l = 127 then "enddel"
    else if List.exists (fun c -> int_of_n c = 92) v then "bsl"
    else "?"

let case_class (dc_toks : string list) (uc_toks : string list) : string =
  let cls = ref "in" in
  let see answer (o : HsHttpHead.hopt) =
    List.iter (fun (_, v) ->
      let c = value_class v in
      let c = if answer && v <> [] && int_of_n (last_of v) = 92 then "bslend" else c in
      if c <> "in" && (!cls = "in" || c = "bslend") then cls := c) o.HsHttpHead.o_params in
  (match dc_toks with
   | [_; exts; _; _; _] -> List.iter (see false) (dec_opts exts)
   | _ -> ());
  (match uc_toks with
   | _ :: _ :: _ :: neg :: _ ->
     (match dec_neg neg with
      | Some t -> List.iter (fun (_, a) -> match a with NAnswer o -> see true o | _ -> ()) t
      | None -> ())
   | _ -> ());
  !cls

let () =
  register "A11Q" (fun i o -> match i with
    | q :: rest when List.length rest >= 22 ->
      let a11 = Hashtbl.find handlers "A11" in
      let cfg = drop_n 7 rest in
      let cls = case_class (take_n 5 cfg) (take_n 9 (drop_n 5 cfg)) in
      if q <> "q=" ^ cls then Diff ("class of the case is " ^ cls ^ " by qv_ok, the harness says " ^ q)
      else if cls = "in" then Diff "A11Q line for a case inside the frontier"
      else
        (match a11 rest o with
         | Viol m ->
           (* a disagreement of two succeeding peers must be the one the theorem predicts *)
           (match o with
            | [_; _; _; _; _; ccls; cproto; cexts; scls; sproto; sexts; _; _]
              when ccls = "ok" && scls = "ok" && cproto = sproto
                   && enc_opts (HsAgreeQ.nrm_opts (dec_opts sexts)) <> cexts ->
              Diff "peers disagree, but the dialer does not report the scanned form of the upgrader's extensions"
            | _ -> Viol (m ^ " [quoted parameter value outside the write/scan frontier, " ^ q ^ "]"))
         | Diff m -> Diff m
         | Pass nt ->
           (match o with
            | [_; _; _; _; _; ccls; _; cexts; scls; _; sexts; _; _] when ccls = "ok" && scls = "ok" ->
              if enc_opts (HsAgreeQ.nrm_opts (dec_opts sexts)) <> cexts
              then Diff "dialer does not report the scanned form of the upgrader's extensions"
              else Pass nt
            | _ -> Pass nt))
    | _ -> Diff "malformed line")
