(* C02 kinds *)
open Base
open Check
open Frame
open Stream0
open Cipher

let ints_spec s = if s = "-" then [4096] else List.map (fun x -> max 1 (int_of_string x)) (String.split_on_char ',' s)

(* split p by sizes cycled (as the harness's writer driver does) *)
let split_cycled (p : 'a list) (sizes : int list) : 'a list list =
  let arr = Array.of_list sizes in
  let rec take k l acc = if k = 0 then (List.rev acc, l) else match l with [] -> (List.rev acc, []) | x :: r -> take (k-1) r (x :: acc) in
  let rec go i l acc = match l with
    | [] -> if i = 0 then [[]] else List.rev acc
    | _ -> let (a, r) = take arr.(i mod Array.length arr) l [] in go (i+1) r (a :: acc) in
  go 0 p []

let () =
  register "C02C" (fun i o -> match i, o with
    | [p; key; off; _al], [out; clean] ->
      let p = bytes_of_hex p and key = bytes_of_hex key and out = bytes_of_hex out in
      let off = n_of_u64_string off in
      if List.length p <= 80 then
        add_coq_case (fun () -> Printf.sprintf "bytes_eqb (cipher %s %s %s) %s && Bool.eqb (c02_monitor %s %s %s %s) %s"
          (cq_bytes p) (cq_bytes key) (cq_n off) (cq_bytes (cipher p key off))
          (cq_bytes p) (cq_bytes key) (cq_n off) (cq_bytes out) (cq_bool (c02_monitor p key off out)));
      if not (c02_monitor p key off out) then Viol "Cipher output is not payload[i] XOR key[(offset+i) mod 4]"
      else if clean <> "1" then Viol "Cipher wrote outside the slice"
      else if cipher p key off <> out then Diff "model cipher differs"
      else Pass (List.length p >= 8)
    | _ -> Diff "malformed line");
  register "C02R" (fun i o -> match i, o with
    | [p; key; spec; tail; bufs], [out; e; again] ->
      let p = bytes_of_hex p and key = bytes_of_hex key and out = bytes_of_hex out in
      let expect = mask_spec p key BinNums.N0 in
      if out <> expect then Viol "CipherReader output differs from the one-shot mask"
      else if e <> (if tail = "fail" || tail = "faildata" then "fail" else "eof") then Viol "CipherReader final error is not the source's"
      else if bytes_of_hex again <> expect then Viol "CipherReader.Reset does not restart the key stream"
      else begin
        (* a source that returns its last bytes together with the error delivers the same bytes and error *)
        let with_data = (tail = "eofdata" || tail = "faildata") in
        let tail = (match tail with "eofdata" -> "eof" | "faildata" -> "fail" | t -> t) in
        let s = { chunks = (match chunks_of_spec ~trailing:(not with_data) spec p with Some cs -> cs | None -> chunk_by (sizes_of_spec spec (List.length p)) p); tl = (if tail = "fail" then TFail else TEOF) } in
        let bl = List.map n_of_int (ints_spec bufs) in
        let (mo, me) = cr_drive (nat_of_int (List.length p + 2)) bl bl { cr_src = s; cr_key = key; cr_pos = BinNums.N0 } [] in
        if mo <> out || me <> Some (if tail = "fail" then EFail else EEOF) then Diff "model cipher reader differs"
        else Pass (List.length p >= 2)
      end
    | _ -> Diff "malformed line");
  register "C02W" (fun i o -> match i, o with
    | [p; key; splits], [writes; intact; dest] ->
      let p = bytes_of_hex p and key = bytes_of_hex key in
      let writes = List.filter (fun x -> x <> []) (bytes_list_of_tok writes) in
      if List.concat writes <> mask_spec p key BinNums.N0 then Viol "CipherWriter output differs from the one-shot mask"
      else if intact <> "1" then Viol "CipherWriter modified the caller's bytes or reported a short write"
      else if dest <> "1" then Viol "destination bytes changed when the caller reused its slice"
      else begin
        let pieces = split_cycled p (ints_spec splits) in
        let mw = List.filter (fun x -> x <> []) (cw_writes pieces { cw_key = key; cw_pos = BinNums.N0 }) in
        if mw <> writes then Diff "model cipher writer differs (per-call bytes)" else Pass (List.length p >= 2)
      end
    | _ -> Diff "malformed line");
  register "C02WS" (fun i o -> match i, o with
    | [p; key; _; _], [got] ->
      let p = bytes_of_hex p and key = bytes_of_hex key in
      if bytes_of_hex got <> mask_spec p key BinNums.N0 then
        Viol "CipherWriter over a destination that accepts a write partially: resumed stream is not the one-shot mask"
      else Pass (List.length p >= 2)
    | _ -> Diff "malformed line");
  register "C02RC" (fun i o -> match i, o with
    | [p; key; _; tail], [out; err] ->
      let p = bytes_of_hex p and key = bytes_of_hex key in
      let want = mask_spec p key BinNums.N0 in
      if bytes_of_hex out <> want then Viol "mask reader drained by io.Copy does not deliver payload[i] XOR key[i mod 4]"
      else if (tail = "fail" || tail = "faildata") <> (err = "fail") || (err <> "fail" && err <> "ok") then Viol "mask reader drained by io.Copy misreports the source's error"
      else Pass (p <> [])
    | _ -> Diff "malformed line");
  register "C02G" (fun i o -> match i, o with
    | [_; _], [out] ->
      if out = "ok" then Pass true
      else Viol ("mask reader on a payload beyond 2^31 bytes: " ^ out)
    | _ -> Diff "malformed line");
  register "C02F" (fun i o -> match i with
    | name :: rest ->
      let (h, r2) = K_c01.hdr_of_toks rest in
      (match r2, o with
       | [p; key], _ ->
         let (g, o2) = K_c01.hdr_of_toks o in
         (match o2 with
          | [gp; caller; alias] ->
            let p = bytes_of_hex p and key = bytes_of_hex key and gp = bytes_of_hex gp and caller = bytes_of_hex caller in
            let f = { f_header = h; f_payload = p } in
            let masking = String.length name >= 4 && String.sub name 0 4 = "Mask" in
            let inplace = (name = "MaskFrameInPlace" || name = "MaskFrameInPlaceWith" || name = "UnmaskFrameInPlace") in
            (* random-key variants: read the key back from the result header *)
            let key = if name = "MaskFrame" || name = "MaskFrameInPlace" then g.h_mask else key in
            let (mg, mcaller) =
              if masking then (if inplace then mask_frame_in_place_with f key else mask_frame_with f key)
              else (if inplace then unmask_frame_in_place f else unmask_frame f) in
            let expect_payload = mask_spec p (if masking then key else h.h_mask) BinNums.N0 in
            if gp <> expect_payload then Viol "frame helper payload is not the RFC mask of the input"
            else if masking && not (g.h_masked && g.h_mask = key) then Viol "Mask* helper did not set the mask fields"
            else if (not masking) && (g.h_masked || g.h_mask <> zero_mask) then Viol "Unmask* helper did not clear the mask fields"
            else if (not inplace) && caller <> p then Viol "copying helper modified the caller's bytes"
            else if (not inplace) && alias = "1" then Viol "copying helper aliases the caller's slice"
            else if inplace && p <> [] && alias <> "1" then Diff "in-place helper does not alias"
            else if not (header_eqb mg.f_header g) || mg.f_payload <> gp || mcaller <> caller then Diff "model frame helper differs"
            else Pass (p <> [])
          | _ -> Diff "malformed line")
       | _ -> Diff "malformed line")
    | _ -> Diff "malformed line")
