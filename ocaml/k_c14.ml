(* C14 kinds: permessage-deflate negotiation (see harness/c14.go for the line formats) *)
open Base
open BinNums
open Negotiate

let split_on c s = String.split_on_char c s

(* <offer> = hexname{;hexkey | ;hexkey=hexval} *)
let offer_of_tok (s : string) : coq_N list * (coq_N list * coq_N list) list =
  match split_on ';' s with
  | [] -> failwith "offer"
  | name :: ps ->
    (bytes_of_hex name,
     List.map (fun p -> match String.index_opt p '=' with
       | Some i -> (bytes_of_hex (String.sub p 0 i), bytes_of_hex (String.sub p (i+1) (String.length p - i - 1)))
       | None -> (bytes_of_hex p, [])) ps)

(* answers: E | Z | P | A<offer>; returns the answer and the name carried by an A *)
let answer_of_tok (s : string) : answer * coq_N list option =
  if s = "E" then (AErr Invalid, None) else if s = "Z" then (AEmpty, None) else if s = "P" then (APanic, None)
  else if String.length s > 0 && s.[0] = 'A' then
    let (n, ps) = offer_of_tok (String.sub s 1 (String.length s - 1)) in (AOpt ps, Some n)
  else failwith "answer"

let params_of a b s c =
  { p_snct = bool_of_tok a; p_cnct = bool_of_tok b; p_smwb = n_of_int (int_of_string s); p_cmwb = n_of_int (int_of_string c) }

(* which clause of well-formedness a parameter list breaks (for the message only) *)
let why_malformed ps =
  if not (List.for_all (fun (k, _) -> List.mem k [k_snct; k_cnct; k_smwb; k_cmwb]) ps) then "unknown"
  else if not (nodupb (keys ps)) then "duplicated"
  else "ill-valued"

(* verdict on the answer of a NEW negotiator to one offer, from the Go observation only *)
let single_verdict (name, ps) (a, aname) : string option =
  let name_ok = match aname with None -> true | Some n -> n = ext_name in
  if not name_ok then Some "accepted option is not named permessage-deflate"
  else if c14_single_monitor name ps a then None
  else Some (match a with
    | AOpt o -> if name <> ext_name then "answered an option that is not permessage-deflate"
                else if not (wf_offer ps) then "offer with " ^ why_malformed ps ^ " parameters was accepted instead of rejected as an error"
                else "answer is not a legal response to the offer (RFC 7692 7.1)"
    | AErr _ -> "well-formed offer (or other extension) rejected as an error"
    | AEmpty -> "offer with " ^ why_malformed ps ^ " parameters was declined silently instead of rejected as an error"
    | APanic -> "Negotiate panicked")

let first_some l = List.fold_left (fun acc x -> match acc with Some _ -> acc | None -> x) None l

let () =
  register "C14N" (fun i o -> match i, o with
    | [a; b; s; c; ops], [answers; states; fresh] ->
      let cfg = params_of a b s c in
      let ops = List.map (fun t -> if t = "R" then None else Some (offer_of_tok (String.sub t 1 (String.length t - 1)))) (split_list ops) in
      let answers = List.map answer_of_tok (split_list answers) in
      let fresh = List.map answer_of_tok (split_list fresh) in
      let states = List.map (fun t -> match split_on ':' t with
        | [acc; a; b; s; c] -> (bool_of_tok acc, params_of a b s c) | _ -> failwith "state") (split_list states) in
      let offers = List.filter_map (fun x -> x) ops in
      if List.length offers <> List.length answers || List.length offers <> List.length fresh
         || List.length ops <> List.length states then Diff "malformed line (lengths)"
      else if not (cfg_ok cfg) then Diff "configuration outside the property's domain"
      else begin
        (* monitors on the Go observations *)
        let singles = List.map2 single_verdict offers fresh in
        (* an offer a new negotiator declines although it is acceptable in the sense of NegotiateSpec.acceptable (the
           configuration and the meaning of the parameter list alone; theorem C14_accepts_iff_acceptable) *)
        let declined_acceptable = List.exists2 (fun (name, ps) (f, _) ->
          f = AEmpty && name = ext_name && NegotiateSpec.acceptable cfg ps) offers fresh in
        match first_some singles with
        | Some msg -> Viol msg
        | None when declined_acceptable ->
          Viol "an acceptable offer is declined (well-formed, and the configuration meets its server window, client window and no-context-takeover requests): not the first acceptable offer is answered"
        | None ->
          let bad_name = List.exists (fun (_, n) -> match n with Some n -> n <> ext_name | None -> false) answers in
          let rec steps ops ans fr = match ops with
            | [] -> []
            | None :: r -> None :: steps r ans fr
            | Some _ :: r -> (match ans, fr with
                | (x, _) :: ans', (f, _) :: fr' -> Some (f, x) :: steps r ans' fr'
                | _ -> failwith "steps") in
          if bad_name then Viol "accepted option is not named permessage-deflate"
          else if not (c14_history_monitor false (steps ops answers fresh)) then
            Viol "history: not exactly the first acceptable offer is answered (or behaviour after Reset differs from new)"
          else begin
            (* the model, step by step *)
            let rec go n ops ans sts = match ops, sts with
              | [], [] -> None
              | None :: r, (acc, p) :: sts' ->
                let n' = reset n in
                if n'.e_accepted <> acc || not (params_eqb n'.e_params p) then Some "model state after Reset differs"
                else go n' r ans sts'
              | Some (name, ps) :: r, (acc, p) :: sts' ->
                (match ans with
                 | (x, _) :: ans' ->
                   let (n', y) = negotiate n name ps in
                   if not (answer_eqb x y) then Some "model answer differs"
                   else if n'.e_accepted <> acc || not (params_eqb n'.e_params p) then Some "model Accepted() state differs"
                   else go n' r ans' sts'
                 | [] -> Some "lengths")
              | _ -> Some "lengths" in
            match go (new_ext cfg) ops answers states with
            | Some msg -> Diff msg
            | None ->
              let fresh_ok = List.for_all2 (fun (name, ps) (f, _) -> answer_eqb f (Negotiate.fresh cfg (name, ps))) offers fresh in
              if not fresh_ok then Diff "model answer of a new negotiator differs"
              else Pass (List.exists (fun (x, _) -> x <> AEmpty) fresh)
          end
      end
    | _ -> Diff "malformed line");
  register "C14P" (fun i o -> match i, o with
    | [off], [ok; a; b; s; c] ->
      let (_, ps) = offer_of_tok off in
      let ok = bool_of_tok ok and p = params_of a b s c in
      if not (c14_parse_monitor ps ok p) then
        Viol (if ok && not (wf_offer ps) then "Parse accepted " ^ why_malformed ps ^ " parameters"
              else if ok then "Parse result is not the meaning of the parameter list"
              else "Parse rejected a well-formed parameter list")
      else
        let (mp, me) = parse ps in
        if (me = None) <> ok then Diff "model Parse verdict differs"
        else if not (params_eqb mp p) then Diff "model Parse result differs"
        else Pass (ps <> [])
    | _ -> Diff "malformed line");
  register "C14O" (fun i o -> match i, o with
    | [a; b; s; c], [enc; ok; a'; b'; s'; c'] ->
      let p = params_of a b s c and back = params_of a' b' s' c' in
      if not (offer_params_ok p) then Diff "parameters outside the domain"
      else if enc = "P" then Viol "Option() panicked on valid parameters"
      else
        let (name, eps) = offer_of_tok enc in
        if name <> ext_name then Viol "Option() is not named permessage-deflate"
        else if not (c14_encode_monitor p eps (bool_of_tok ok) back) then Viol "Parse(Option(p)) is not p / encoding not well-formed"
        else (match option_of p with
          | Some m -> if params_list_eqb m eps then Pass true else Diff "model encoding differs"
          | None -> Diff "model panics")
    | _ -> Diff "malformed line");
  register "C14U" (fun i o -> match i, o with
    | [a; b; s; c; lines], [status; resp; fresh] ->
      let cfg = params_of a b s c in
      let offers = List.concat_map (fun l -> List.map offer_of_tok (split_on ',' l)) (split_on '|' lines) in
      let fresh = List.map answer_of_tok (split_list fresh) in
      let resp = List.map offer_of_tok (split_list resp) in
      let status = int_of_string status in
      if List.length offers <> List.length fresh then Diff "malformed line (lengths)"
      else begin
        match first_some (List.map2 single_verdict offers fresh) with
        | Some msg -> Viol msg
        | None ->
          let rec first = function
            | [] -> None
            | ((AErr _ | AOpt _ | APanic), _ as x) :: _ -> Some x
            | _ :: r -> first r in
          let v = match first fresh with
            | None -> if status = 101 && resp = [] then None else Some "no acceptable offer: expected 101 without Sec-WebSocket-Extensions"
            | Some (AErr _, _) -> if status <> 101 && resp = [] then None else Some "erroneous offer before any acceptable one: handshake must fail"
            | Some (AOpt ans, _) ->
              (match resp with
               | [(n, ps)] when status = 101 -> if n = ext_name && params_list_eqb ps ans then None
                   else Some "response header is not the answer to the first acceptable offer"
               | _ -> Some "expected 101 with exactly one accepted extension")
            | Some _ -> Some "panic" in
          match v with
          | Some msg -> Viol msg
          | None ->
            if List.for_all2 (fun off (f, _) -> answer_eqb f (Negotiate.fresh cfg off)) offers fresh
            then Pass (List.exists (fun (x, _) -> x <> AEmpty) fresh)
            else Diff "model answer of a new negotiator differs"
      end
    | _ -> Diff "malformed line")
