(* RX / RXC: one call of a ReadData-family helper on a frame stream (optionally cut) *)
open Base
open Check
open Frame
open Reader
open Writer
open Handler

let ni = n_of_int

type expect_reply = { e_op : int; e_payload : BinNums.coq_N list; e_any_proto : bool }

let () =
  let rx cut_kind = (fun i o -> match i, o with
    | [side; want; frames; cut; spec; tail], [log; res] ->
      let sidei = int_of_string side in
      let state = ni sidei in
      let fs = K_reader.frames_of_tok frames in
      let log = bytes_list_of_tok log in
      let total = List.length (wire fs) in
      let cutn = if cut = "-" then total else min total (int_of_string cut) in
      let (done_fs, rest) = frames_before (ni cutn) fs in
      let c = { c_state = state; c_check_utf8 = true; c_max = BinNums.Z0; c_ext = false } in
      let sp = spec_run c Datatypes.O None [] done_fs in
      let wanted op = (match want with "text" -> op = 1 | "binary" -> op = 2 | _ -> op = 1 || op = 2) in
      (* walk the spec's events: expected replies and result *)
      let rec walk evs replies = match evs with
        | [] -> (List.rev replies, None)
        | e :: r ->
          let op = int_of_n e.ev_op in
          if op = 9 then walk r ({ e_op = 10; e_payload = e.ev_payload; e_any_proto = false } :: replies)
          else if op = 10 then walk r replies
          else if op = 8 then begin
            let p = e.ev_payload in
            if p = [] then (List.rev ({ e_op = 8; e_payload = []; e_any_proto = false } :: replies), Some "closed:1005:-")
            else begin
              let (code, reason) = parse_close p in
              let valid = List.length p >= 2 && check_close code reason = None in
              if valid then
                (List.rev ({ e_op = 8; e_payload = (match p with a :: b :: _ -> [a; b] | _ -> []); e_any_proto = false } :: replies),
                 Some (Printf.sprintf "closed:%d:%s" (int_of_n code) (hex_of_bytes reason)))
              else (List.rev ({ e_op = 8; e_payload = []; e_any_proto = true } :: replies), Some "proto")
            end
          end
          else if wanted op then (List.rev replies, Some (Printf.sprintf "data:%d:%s" op (hex_of_bytes e.ev_payload)))
          else walk r replies in
      let (exp_replies, exp_res) = walk sp.sr_events [] in
      (* the proved monitor (coq/model/ReadDataGen.v, theorems C05_read_data_violation / C16_read_data_cut)
         on the Go observation, and the model of readData on the same bytes *)
      let wantn = ni (match want with "text" -> 1 | "binary" -> 2 | _ -> 3) in
      let failing = (tail = "fail" || tail = "faildata") in
      let res_class = (match String.split_on_char ':' res with "proto" :: _ | "err" :: "protocol" :: _ -> "proto" | _ -> res) in
      let go_res = (match String.split_on_char ':' res with
        | ["data"; op; p] -> Some (ReadData.RDData (ni (int_of_string op), bytes_of_hex p))
        | ["closed"; c; r] -> Some (ReadData.RDHandler (HClosed (ni (int_of_string c), bytes_of_hex r)))
        | ["proto"; "other"] -> Some (ReadData.RDErr (RProtocol ReservedOp))   (* a header rule; the monitor looks at the class only *)
        | ["proto"; _] -> Some (ReadData.RDHandler (HProto NotInUse))          (* CheckCloseFrameData; class only *)
        | "io" :: e | "err" :: e ->
          (match K_reader.rerror_of_string (String.concat ":" e) with Some e -> Some (ReadData.RDErr e) | None -> None)
        | _ -> None) in
      let judged = (want <> "binary") || sp.sr_out <> OInvalidUtf8 in
      let gen_verdict =
        if not judged then None
        else (match go_res with
          | None -> Some (Viol ("ReadData ended with an unclassified outcome: " ^ res))
          | Some r ->
            if not (ReadDataGen.rx_monitor_gen state wantn fs (ni cutn) failing r log) then
              Some (Viol (if cut_kind then "ReadData on a cut stream contradicts rx_monitor_gen (reply for a cut control frame, incomplete message delivered, or clean EOF inside a frame)"
                          else "ReadData contradicts rx_monitor_gen (replies / result / error class on a violating or incomplete stream)"))
            else begin
              let data = K_reader.take_n cutn (wire fs) in
              let s = K_reader.mk_src data spec tail in
              let masks = K_writer.masks_of (List.concat log) in
              let fuel = nat_of_int (2 * List.length data + 4 * List.length fs + 50) in
              let (mres, mlog) = ReadData.read_data_call fuel wantn state s masks in
              let mres_s = (match mres with
                | ReadData.RDData (op, p) -> Printf.sprintf "data:%d:%s" (int_of_n op) (hex_of_bytes p)
                | ReadData.RDHandler (HClosed (c, r)) -> Printf.sprintf "closed:%d:%s" (int_of_n c) (hex_of_bytes r)
                | ReadData.RDHandler (HProto _) -> "proto"
                | ReadData.RDHandler _ -> "handler"
                | ReadData.RDErr (RProtocol _) -> "proto"
                | ReadData.RDErr (RIo e) -> "io:" ^ K_reader.string_of_rerror (RIo e)
                | ReadData.RDErr ((RMsb | RLenUnexpected) as e) -> "io:" ^ K_reader.string_of_rerror e
                | ReadData.RDErr e -> "err:" ^ K_reader.string_of_rerror e) in
              if not (ReadDataGen.rx_monitor_gen state wantn fs (ni cutn) failing mres mlog) then
                Some (Diff "model of readData does not satisfy rx_monitor_gen (model/spec bug)")
              else if mres_s <> res_class then Some (Diff ("model of readData returns " ^ mres_s ^ ", the code " ^ res_class))
              else if List.concat mlog <> List.concat log then Some (Diff "model of readData writes different replies")
              else None
            end) in
      (match gen_verdict with Some v -> v | None ->
      match sp.sr_out with
       | OClean | OCutMidMessage ->
         (match frames_of (List.concat log) with
          | None -> Viol "ReadData: bytes written are not whole reply frames"
          | Some rf ->
            let reply_ok (ex : expect_reply) (f : pframe) =
              reply_frame_ok state f && int_of_n f.pf_header.h_op = ex.e_op &&
              (if ex.e_any_proto then
                 (let (rc, _) = parse_close (pf_unmasked f) in let rc = int_of_n rc in rc = 1002 || rc = 1007)
               else pf_unmasked f = ex.e_payload) in
            let replies_ok = List.length rf = List.length exp_replies && List.for_all2 reply_ok exp_replies rf in
            let res_class = (match String.split_on_char ':' res with "proto" :: _ -> "proto" | _ -> res) in
            if not replies_ok then
              Viol (if cut_kind then "ReadData on a cut stream: a control frame cut short was answered, or a reply is wrong/missing"
                    else "ReadData: control replies are not exactly those RFC 6455 asks for, in order")
            else (match exp_res with
              | Some er ->
                if res_class <> er then
                  Viol (if cut_kind then "ReadData on a cut stream returned a wrong result" else "ReadData returned the wrong message/result")
                else if cut_kind then Pass true
                else begin
                  (* model of helper.go:readData on the same bytes *)
                  let data = wire fs in
                  let s = K_reader.mk_src data spec tail in
                  let wantn = ni (match want with "text" -> 1 | "binary" -> 2 | _ -> 3) in
                  let masks = K_writer.masks_of (List.concat log) in
                  let fuel = nat_of_int (2 * List.length data + 4 * List.length fs + 50) in
                  let (mres, mlog) = ReadData.read_data_call fuel wantn state s masks in
                  let mres_s = (match mres with
                    | ReadData.RDData (op, p) -> Printf.sprintf "data:%d:%s" (int_of_n op) (hex_of_bytes p)
                    | ReadData.RDHandler (HClosed (c, r)) -> Printf.sprintf "closed:%d:%s" (int_of_n c) (hex_of_bytes r)
                    | ReadData.RDHandler (HProto _) -> "proto"
                    | ReadData.RDHandler _ -> "handler"
                    | ReadData.RDErr e -> "err:" ^ K_reader.string_of_rerror e) in
                  if not (ReadData.rx_monitor state wantn fs mres mlog) then Diff "model of readData does not satisfy the Coq monitor (model/spec bug)"
                  else if mres_s <> res_class then Diff ("model of readData returns " ^ mres_s)
                  else if List.concat mlog <> List.concat log then Diff "model of readData writes different replies"
                  else Pass true
                end
              | None ->
                (* no wanted message (or close) wholly present: must be an error *)
                let is_err = String.length res >= 3 && (String.sub res 0 3 = "io:" || String.sub res 0 4 = "err:") in
                let clean = (res = "io:eof") in
                let failing = (tail = "fail" || tail = "faildata") in
                let open_msg = (sp.sr_out = OCutMidMessage) in
                let hdr_len = (match List.nth_opt fs (List.length done_fs) with
                  | Some f -> List.length (rfc_header (sf_header f)) | None -> 0) in
                let rest_i = int_of_n rest in
                let clean_allowed =
                  (not failing) && (not open_msg) && (rest_i = 0 || rest_i < hdr_len) in
                if not is_err then Viol "ReadData reported success although no complete wanted message was received"
                else if clean && not clean_allowed then Viol "ReadData: a cut message/frame ended in a clean io.EOF"
                else Pass true))
       | _ -> Pass judged)
    | _ -> Diff "malformed line") in
  register "RX" (rx false); register "RXC" (rx true)

let () =
  (* RDL (C05): valid frames, then the header of a frame announcing [ln] bytes (possibly >= 2^32), then a few bytes;
     MaxFrameSize is set and ln exceeds it. "announces more than the configured maximum -> the size error when
     asked for frame k; never delivers a payload byte of the offending frame or of anything after it" *)
  register "RDL" (fun i o -> match i, o with
    | [cfg; frames; hframe; ln; trailing; spec; bufs], [evs; partial; err] ->
      let (c, skip, cb) = K_reader.cfg_of_tok cfg in
      let fs = K_reader.frames_of_tok frames in
      let hf = List.hd (K_reader.frames_of_tok hframe) in
      let lnz = z_of_i64_string ln in
      let evs = K_reader.events_of_tok evs and partial = bytes_of_hex partial in
      let h = { (Reader.sf_header hf) with Check.h_len = lnz } in
      let data = wire fs @ Frame.rfc_header h @ bytes_of_hex trailing in
      let sp = spec_run c Datatypes.O None [] fs in
      let too_large = (match c.c_max with BinNums.Z0 -> false | m -> BinInt.Z.ltb m lnz) in
      let hdr_ok = (match sp.sr_out with
        | OClean -> Check.check_header h c.c_state = None
        | OCutMidMessage -> Check.check_header h (Reader.set_fragmented c.c_state true) = None
        | _ -> false) in
      if not (too_large && hdr_ok) then Pass false
      else if err <> "toolarge" then Viol ("a frame announcing more than MaxFrameSize was not refused with the size error: " ^ err)
      else if not (Reader.evs_match sp.sr_events evs) then Viol "events before an oversized frame are not those of the frames before it"
      else if partial <> sp.sr_partial then Viol "bytes behind the header of an oversized frame were delivered as message data"
      else begin
        let m = K_reader.drive_model (c, skip, cb) data spec "eof" bufs (List.length fs + 1) in
        if not (Reader.evs_eqb m.dr_events evs) then Diff "model events differ"
        else if K_reader.string_of_rerror m.dr_err <> err then Diff ("model final error differs: " ^ K_reader.string_of_rerror m.dr_err)
        else if m.dr_partial <> partial then Diff "model partial bytes differ"
        else Pass true
      end
    | _ -> Diff "malformed line")

let () =
  register "CRS" (fun i o -> match i, o with
    | [_; after; key], [x; y] ->
      if y <> hex_of_bytes (Cipher.mask_spec (bytes_of_hex after) (bytes_of_hex key) BinNums.N0) then Diff "fresh CipherReader output is not the RFC mask"
      else if x <> y then Viol "CipherReader after Reset (same source, same key) differs from a fresh one"
      else Pass true
    | _ -> Diff "malformed line")

let () =
  (* DXM (C17 "caller buffers are never modified"; C10 "the configured ... extensions"): one Dialer value used twice *)
  register "DXM" (fun i o -> match i, o with
    | [_; _], [before; after; offer1; offer2; res1; res2] ->
      if before <> after then Viol "Dial wrote the server's answer into the caller's Dialer.Extensions"
      else if offer1 <> offer2 then Viol "the second handshake of the same Dialer value offered other extensions than the first"
      else if res1 <> res2 then Viol "two identical handshakes of one Dialer value returned different extensions"
      else Pass true
    | _ -> Diff "malformed line")

let () =
  register "W18X" (fun i o -> match i, o with
    | [_; _; _], [intact; a; b] ->
      if intact <> "1" then Viol "Reset / PutWriter wiped the caller's extension slice"
      else if b = "panic" then Diff "fresh writer panicked in the harness scenario"
      else if a <> b then Viol "a reset / pooled writer configured again from the same extension slice differs from a fresh one"
      else Pass true
    | _ -> Diff "malformed line")

let () =
  register "C19W" (fun i o -> match i, o with
    | [role; _; _], [err; intact; races] ->
      if int_of_string races > 0 then Viol (Printf.sprintf "the race detector reported %s data race(s) on a buffer a session had sent from" races)
      else if intact <> "1" then Viol ("the buffer a " ^ role ^ "-side session sent a message from was overwritten by other sessions' use of the byte pool")
      else if err <> "nil" then Diff ("one-shot write failed in the harness: " ^ err)
      else Pass true
    | _ -> Diff "malformed line");
  register "C19G" (fun i o -> match i, o with
    | [_], [same; srv; cli; races] ->
      if int_of_string races > 0 then Viol (Printf.sprintf "the race detector reported %s data race(s) on the precompiled frames" races)
      else if same <> "1" then Viol "a session changed a package-level precompiled frame shared by all sessions"
      else if srv <> "8a00" then Viol "server-side reply to an empty ping is not the unmasked empty pong after other sessions ran"
      else if String.length cli <> 12 || String.sub cli 0 4 <> "8a80" then Viol "client-side reply to an empty ping is not a masked empty pong after other sessions ran"
      else Pass true
    | _ -> Diff "malformed line")

let () =
  (* RDZ (C04 "hand every interleaved control frame ... to the control handler"; "after a message ends the reader is
     ready for the next one"): the handler leaves the payload unread, the Reader skips it. The handler's events carry
     no payload; they are completed from the frames (k-th interleaved control frame) and the line is judged as RD. *)
  register "RDZ" (fun i o -> match i, o with
    | [cfg; frames; cut; spec; tail; bufs], (evs :: rest) ->
      let fs = if frames = "-" then [] else String.split_on_char ',' frames in
      let field k t = List.nth (String.split_on_char '.' t) k in
      let rec inter_payloads openm = function
        | [] -> []
        | f :: r ->
          let op = int_of_string (field 2 f) and fin = (field 0 f = "1") in
          if op >= 8 then (if openm then field 4 f :: inter_payloads openm r else inter_payloads openm r)
          else inter_payloads (not fin) r in
      let pls = ref (inter_payloads false fs) in
      let evl = if evs = "-" then [] else String.split_on_char ',' evs in
      let evl' = List.map (fun e ->
        match String.split_on_char '.' e with
        | [op; "1"; comp; _] when int_of_string op >= 8 ->
          (match !pls with
           | p :: r -> pls := r; String.concat "." [op; "1"; comp; p]
           | [] -> e)
        | _ -> e) evl in
      let cfg' = (match String.split_on_char '.' cfg with
        | [a; b; c; d; e; _] -> String.concat "." [a; b; c; d; e; "1"] | _ -> cfg) in
      (match Hashtbl.find_opt handlers "RD" with
       | Some f -> f [cfg'; frames; cut; spec; tail; bufs] ((if evl' = [] then "-" else String.concat "," evl') :: rest)
       | None -> Diff "no RD handler")
    | _ -> Diff "malformed line")

let () =
  register "DD10H" (fun i o -> match i with
    | [url; _host] -> (match Hashtbl.find_opt handlers "DD10" with Some f -> f [url] o | None -> Diff "no DD10 handler")
    | _ -> Diff "malformed line")

let () =
  (* C13U: "the header handed to the application has RSV1 cleared with the other bits untouched, and RSV1 on a
     continuation or control frame is rejected"; "reports compressed exactly when the first frame had RSV1" *)
  register "C13U" (fun i o -> match i, o with
    | [op; rsv; fin; prev], [direct; via] ->
      let op = int_of_string op and rsv = int_of_string rsv in
      let first = (op = 1 || op = 2) in
      let judge what tok has_len =
        match String.split_on_char '.' tok with
        | f :: r :: o :: rest ->
          let (err, comp) = (match rest with
            | [_m; _l; e; c] when has_len -> (e, c) | [e; c] when not has_len -> (e, c) | _ -> ("?", "?")) in
          if first then begin
            if err <> "nil" then Some (what ^ ": the first frame of a data message was refused")
            else if int_of_string r <> rsv land 3 then Some (what ^ ": RSV1 not cleared or RSV2/RSV3 changed on the first frame")
            else if f <> fin || int_of_string o <> op then Some (what ^ ": fin/opcode of the header changed")
            else if comp <> (if rsv land 4 <> 0 then "1" else "0") then Some (what ^ ": state does not report compressed exactly when the first frame had RSV1")
            else None
          end else if rsv land 4 <> 0 then (if err = "nil" then Some (what ^ ": RSV1 on a continuation or control frame was accepted") else None)
          else begin
            if err <> "nil" then Some (what ^ ": a continuation/control frame without RSV1 was refused")
            else if int_of_string r <> rsv || f <> fin || int_of_string o <> op then Some (what ^ ": header of a continuation/control frame changed")
            else if comp <> prev then Some (what ^ ": a continuation/control frame disturbed the compressed state")
            else None
          end
        | _ -> Some (what ^ ": malformed") in
      (match judge "MessageState.UnsetBits" direct true with
       | Some m -> Viol m
       | None -> if via = "-" then Pass true else (match judge "Reader.NextFrame" via false with Some m -> Viol m | None -> Pass true))
    | _ -> Diff "malformed line")

let () =
  register "C20T" (fun i o -> match i, o with
    | [mode], (out :: cls :: closed :: rest) ->
      if out = "hang" then Viol "wss: Dial was still waiting on a silent peer 3 s after the context ended / the timeout elapsed"
      else if cls = "nil" then Viol "wss: Dial reported success against a peer that never answered"
      else if (mode = "ctxdl" && cls <> "deadline") || (mode = "cancel" && cls <> "canceled") then
        Viol "wss: the context ended before the handshake I/O finished, yet the error is not the context's error"
      else if closed <> "1" then Viol "wss: non-nil error but the conn was not closed"
      else if rest = ["0"] then Viol "wss: Dial returned its error BEFORE the conn was closed (Close left to a goroutine that outlives Dial)"
      else Pass true
    | _ -> Diff "malformed line");
  register "C20S" (fun i o -> match i, o with
    | [tmo; _connect], [out; iserr; armed] ->
      let tmo = int_of_string tmo and armed = int_of_string armed in
      if out = "hang" then Viol "Dial did not return although Dialer.Timeout elapsed on a silent peer"
      else if iserr <> "1" then Viol "Dial reported success against a silent peer"
      else if armed < 0 then Diff "no deadline was armed on the conn"
      else if armed > tmo + 150 then Viol (Printf.sprintf "the deadline armed on the conn is %d ms after the start of Dial although Dialer.Timeout is %d ms (the connect time was added)" armed tmo)
      else Pass true
    | _ -> Diff "malformed line");
  register "C19J" (fun i o -> match i, o with
    | [_; _], [mism; races] ->
      if int_of_string races > 0 then Viol (Printf.sprintf "the race detector reported %s data race(s) between concurrently refused handshakes" races)
      else if int_of_string mism > 0 then Viol (mism ^ " concurrently refused handshake(s) got another response than alone")
      else Pass true
    | _ -> Diff "malformed line");
  register "C19R" (fun i o -> match i, o with
    | [_], [_same; b; f] ->
      if b <> f then Viol "a Writer taken from the pool by another session does not send the frames a fresh Writer sends (state of the previous session leaked)"
      else Pass true
    | _ -> Diff "malformed line")

let () =
  (* RDF (C07 "an invalid message is reported as invalid no later than its end and is never returned as complete") *)
  register "RDF" (fun i o -> match i, o with
    | [_; text; _], [n1; e1; got; _n2; e2] ->
      let text = bytes_of_hex text in
      let valid = Utf8Spec.valid_utf8 text in
      if valid then begin
        if e1 <> "nil" && not (text = [] && e1 = "eof") then Viol ("a valid text message read with io.ReadFull was refused: " ^ e1)
        else if bytes_of_hex got <> text then Viol "a valid text message read with io.ReadFull came back altered"
        else Pass true
      end else begin
        if e1 = "nil" && int_of_string n1 = List.length text then
          Viol "an invalid text message read with io.ReadFull into a buffer of exactly its length came back complete with no error"
        else Pass true
      end
    | _ -> Diff "malformed line")

let () =
  register "FRP" (fun i o -> match i, o with
    | [_; _; _; _], [a; b; fresh_ok] ->
      if fresh_ok <> "1" then Viol "a fresh compression reader does not return the message that was compressed"
      else if a <> b then Viol "compression reader reused through Reset after an abandoned message differs from a fresh one"
      else Pass true
    | _ -> Diff "malformed line")

let () =
  register "C19T" (fun i o -> match i, o with
    | [_; _; _], [mism; races; first] ->
      if int_of_string races > 0 then Viol (Printf.sprintf "the race detector reported %s data race(s) between TLS sessions using the default configuration" races)
      else if int_of_string mism > 0 then Viol (Printf.sprintf "%s TLS session(s) announced another session's server name (first: %s)" mism first)
      else Pass true
    | _ -> Diff "malformed line")

let () =
  register "C19P" (fun i o -> match i, o with
    | [_; _], [bad; races; first] ->
      if int_of_string races > 0 then Viol (Printf.sprintf "the race detector reported %s data race(s) between sessions following a failed one" races)
      else if int_of_string bad > 0 then Viol (Printf.sprintf "%s overlapping session(s) after a failed one did not see the result they see alone (first: %s)" bad first)
      else Pass true
    | _ -> Diff "malformed line")

let () =
  register "C14R" (fun i o -> match i, o with
    | [_; _; _; _], [a; b] ->
      if a = b then Pass true
      else Viol "negotiator reused after Reset with another configuration differs from a fresh one"
    | _ -> Diff "malformed line")

(* HSC: a valid handshake over a transport cut inside the head.  Monitor (C16): an error, no panic / hang, no 101
   written.  Model (when the line carries the bytes that arrived): the outcome class -- and for the server the bytes
   written -- equal those of HsUpgrader.upgrader / HsDialer.dialer_upgrade on the same bytes and tail, and the bytes
   have an incomplete head in the sense of HsCut.head_complete (so C16_upgrader_cut / C16_dialer_cut speak about this
   very case; C16_*_cut_of_valid_* predict io:eof / io:fail and nothing written). *)
let hsc_monitor who cls iserr wrote101 =
  if cls = "panic" || cls = "hang" then Some ("handshake over a cut transport: " ^ cls)
  else if iserr <> "1" then Some "handshake over a cut transport reported success"
  else if String.length who >= 2 && String.sub who 0 2 = "up" && wrote101 = "1"
  then Some "a 101 response was written although the request was cut"
  else None

let () =
  register "HSC" (fun i o -> match i, o with
    | [who; _; _; _], [cls; iserr; wrote101] ->
      (match hsc_monitor who cls iserr wrote101 with Some m -> Viol m | None -> Pass true)
    | [who; _; _; tail; stream; key], [cls; iserr; wrote101; fine; out] ->
      (match hsc_monitor who cls iserr wrote101 with
       | Some m -> Viol m
       | None ->
         let open K_c09 in
         let stream = unhxi stream and tail = tail_of tail in
         let r = reader_of [stream] tail in
         let chat = bytes_of_string "chat" in
         if HsCut.head_complete stream then Diff "the generated cut does not fall inside the head (HsCut.head_complete)"
         else if String.sub who 0 2 = "up" then begin
           let cfg = { HsUpgrader.uc_header = []; uc_protocol = Some (fun t -> t = chat); uc_extension = None;
                       uc_negotiate = None; uc_on_request = (fun _ -> None); uc_on_host = (fun _ -> None);
                       uc_on_header = (fun _ _ -> None); uc_on_before_upgrade = None } in
           let m = HsUpgrader.upgrader (fun _ -> []) cfg default_server_read_buffer r in
           let mcls = class_of_uerr m.HsUpgrader.u_err in
           if mcls <> fine then Diff ("model outcome " ^ mcls ^ ", Go " ^ fine)
           else if String.length mcls >= 3 && String.sub mcls 0 3 = "io:" && m.HsUpgrader.u_out <> unhxi out
           then Diff "model writes nothing, Go wrote bytes"
           else Pass true
         end else begin
           let cfg = { HsDialer.dc_protocols = [chat]; dc_extensions = []; dc_header = []; dc_host = [];
                       dc_on_header = (fun _ _ -> false) } in
           let m = HsDialer.dialer_upgrade cfg (bytes_of_string "example.com") (bytes_of_string "/chat")
                     (unhxi key) K_c10.default_client_read_buffer r in
           let mcls = K_c10.derr_class m.HsDialer.d_err in
           if mcls <> fine then Diff ("model outcome " ^ mcls ^ ", Go " ^ fine) else Pass true
         end)
    | _ -> Diff "malformed line")

(* HSW: the destination fails while the handshake response / request is written (observed only: the handshake
   models have no failing destination).  An error must come back whenever a write was refused. *)
let () =
  register "HSW" (fun i o -> match i, o with
    | [who; _; _], [cls; iserr; calls; refused] ->
      if cls = "panic" || cls = "hang" then Viol ("handshake over a failing destination: " ^ cls)
      else if refused = "1" && iserr <> "1" then
        Viol (if who = "di" then "Dialer.Upgrade reported success although writing the request failed"
              else "Upgrader.Upgrade reported success although writing the response failed")
      else if int_of_string calls = 0 then Diff "the handshake never wrote to the destination"
      else Pass (refused = "1")
    | _ -> Diff "malformed line")

let () =
  register "C17Z" (fun i o -> match i, o with
    | [name; _; _], [intact; aliased; status] ->
      if status = "fault" then Viol "fault: memory returned to the pool was touched (pool_sanitize)"
      else if status <> "ok" && status <> "readerr" then Viol ("panic in " ^ name ^ ": " ^ status)
      else if intact <> "1" then
        Viol (if name = "readmessage" then "a control message payload returned by ReadMessage changed after pooled buffers were recycled"
              else if name = "readmessage-recycle" then "a message payload returned by ReadMessage changed when the caller recycled its []Message slice for later calls"
              else "the caller's slice was modified by a write API documented as non-mutating")
      else if aliased = "1" then Viol "a client-side write handed the caller's own memory to the destination"
      else Pass true
    | _ -> Diff "malformed line")

let () =
  register "DBU2" (fun i o -> match i, o with
    | [_], [plain; debug; called; reqpref; respeq] ->
      if plain <> debug then Viol "DebugUpgrader changes the outcome or the bytes written compared with the plain Upgrader"
      else if called <> "3" then Viol "DebugUpgrader did not report both request and response"
      else if reqpref <> "1" then Viol "DebugUpgrader's OnRequest bytes are not the request bytes received"
      else if respeq <> "1" then Viol "DebugUpgrader's OnResponse bytes are not the bytes written"
      else Pass true
    | _ -> Diff "malformed line");
  register "DBD2" (fun i o -> match i, o with
    | [_], [plain; debug] ->
      if plain <> debug then Viol "DebugDialer changes the outcome, loses post-handshake bytes or misreports request/response"
      else if plain <> "ok:6869:3" then Diff ("plain dialer scenario failed in the harness: " ^ plain)
      else Pass true
    | _ -> Diff "malformed line")

let () =
  register "C02WR" (fun i o -> match i, o with
    | [p; key; key2; _], [o1; o2] ->
      let p = bytes_of_hex p in
      if bytes_of_hex o1 <> Cipher.mask_spec p (bytes_of_hex key) BinNums.N0 then Viol "CipherWriter output differs from the one-shot mask"
      else if bytes_of_hex o2 <> Cipher.mask_spec p (bytes_of_hex key2) BinNums.N0 then
        Viol "CipherWriter after Reset does not restart the key stream at offset 0"
      else Pass true
    | _ -> Diff "malformed line");
  register "C02FB" (fun i o -> match i, o with
    | [name; _; _], [intact; inside] ->
      if intact <> "1" then Viol ("copying helper " ^ name ^ " wrote into the caller's backing array beyond the payload")
      else if inside = "1" then Viol ("copying helper " ^ name ^ " returns a payload that lives in the caller's buffer")
      else Pass true
    | _ -> Diff "malformed line");
  register "WRF" (fun i o -> match i, o with
    | (cfg :: n :: k :: _), [m; _err; buffered; ferr; log] ->
      let mi = int_of_string m in
      let data = K_writer.pat_bytes (int_of_string n) 3 in
      let accepted = K_reader.take_n mi data in
      let log = bytes_list_of_tok log in
      if mi > int_of_string k then Viol "ReadFrom reported more bytes than the source delivered"
      else (match frames_of (List.concat log) with
        | None -> Viol "ReadFrom+Flush: destination bytes are not whole frames"
        | Some fs ->
          let payload = List.concat (List.map pf_unmasked fs) in
          let rec is_prefix a b = match a, b with [], _ -> true | x :: a', y :: b' -> x = y && is_prefix a' b' | _ -> false in
          if not (is_prefix payload accepted) then Viol "ReadFrom sent bytes that are not the accepted ones"
          else if ferr = "nil" && payload <> accepted then
            (* the source failed with bytes still buffered: a successful Flush must send them *)
            Viol "bytes accepted by ReadFrom before its source failed were not sent by the following successful Flush"
          else if ferr = "nil" && fs <> [] && not (List.nth fs (List.length fs - 1)).pf_header.h_fin then
            Viol "a successful Flush after ReadFrom did not end the message with a final frame"
          else Pass (mi > 0))
    | _ -> Diff "malformed line")
