(* kinds added after the tenth round of seeded changes (harness/zs_round10.go) *)
open Base

let () =
  (* C02WB: one big write through the mask writer to a destination that accepts only a part *)
  register "C02WB" (fun i o -> match i, o with
    | [n; take; _], [_k; intact; okmask] ->
      if intact <> "1" then Viol (Printf.sprintf "CipherWriter.Write of %s bytes to a destination accepting %s of them left the caller's slice modified" n take)
      else if okmask <> "1" then Viol "the bytes a partially accepting destination received are not the mask of the prefix written"
      else Pass true
    | _ -> Diff "malformed line")
