(* Reader kinds: RD (drive loop), RM (ReadMessage loop), RC/RMC (cut streams), RS (op scripts), U8R *)
open Base
open Check
open Frame
open Stream0
open Reader
open Utf8Dfa

let split_dot s = String.split_on_char '.' s

let cfg_of_tok s = match split_dot s with
  | [st; sk; ch; mx; ex; cb] ->
    ({ c_state = n_of_int (int_of_string st); c_check_utf8 = (ch = "1"); c_max = z_of_i64_string mx; c_ext = (ex = "1") },
     (sk = "1"), (cb = "1"))
  | _ -> failwith "cfg"

let frame_of_tok t = match split_dot t with
  | [fin; rsv; op; key; pl] ->
    { sf_fin = (fin = "1"); sf_rsv = n_of_int (int_of_string rsv); sf_op = n_of_int (int_of_string op);
      sf_key = (if key = "-" then None else Some (bytes_of_hex key)); sf_payload = bytes_of_hex pl }
  | _ -> failwith "frame"
let frames_of_tok s = if s = "-" then [] else List.map frame_of_tok (String.split_on_char ',' s)

let event_of_tok t = match split_dot t with
  | [op; inter; comp; pl] ->
    { ev_op = n_of_int (int_of_string op); ev_payload = bytes_of_hex pl; ev_inter = (inter = "1"); ev_comp = (comp = "1") }
  | _ -> failwith "event"
let events_of_tok s = if s = "-" then [] else List.map event_of_tok (String.split_on_char ',' s)

let rule_name = function
  | ReservedOp -> "ReservedOp" | ControlTooLong -> "ControlTooLong" | ControlNotFinal -> "ControlNotFinal"
  | RsvWithoutExt -> "RsvWithoutExt" | MaskRequired -> "MaskRequired" | MaskUnexpected -> "MaskUnexpected"
  | ContinuationExpected -> "ContinuationExpected" | ContinuationUnexpected -> "ContinuationUnexpected"

let string_of_rerror = function
  | RIo EEOF -> "eof" | RIo EUnexpected -> "unexpected" | RIo EFail -> "fail"
  | RMsb -> "msb" | RLenUnexpected -> "lenunexpected"
  | RProtocol r -> "protocol:" ^ rule_name r
  | RTooLarge -> "toolarge" | RNoFrameAdvance -> "noadvance" | RInvalidUtf8 -> "invalidutf8"
  | RCompressionBit -> "compbit" | ROutOfFuel -> "fuel"
let string_of_rerror_opt = function None -> "nil" | Some e -> string_of_rerror e

let rerror_of_string s : rerror option = match s with
  | "eof" -> Some (RIo EEOF) | "unexpected" -> Some (RIo EUnexpected) | "fail" -> Some (RIo EFail)
  | "msb" -> Some RMsb | "lenunexpected" -> Some RLenUnexpected | "toolarge" -> Some RTooLarge
  | "noadvance" -> Some RNoFrameAdvance | "invalidutf8" -> Some RInvalidUtf8 | "compbit" -> Some RCompressionBit
  | _ ->
    if String.length s > 9 && String.sub s 0 9 = "protocol:" then
      (match K_c03.rule_of_name (String.sub s 9 (String.length s - 9)) with
       | Some (Some r) -> Some (RProtocol r) | _ -> None)
    else None

(* a source returning its last bytes together with the error ("eofdata"/"faildata") delivers the same
   bytes and the same final error as one returning them separately *)
let mk_src data spec tail =
  { chunks = (match chunks_of_spec ~trailing:(tail <> "eofdata" && tail <> "faildata") spec data with Some cs -> cs | None -> chunk_by (sizes_of_spec spec (List.length data)) data); tl = (if tail = "fail" || tail = "faildata" then TFail else TEOF) }

let rec take_n k l = if k <= 0 then [] else match l with [] -> [] | x :: r -> x :: take_n (k-1) r

let stream_of fs cut =
  let w = wire fs in
  if cut = "-" then w else take_n (int_of_string cut) w

let ints_spec s = if s = "-" then [4096] else List.map (fun x -> max 1 (int_of_string x)) (String.split_on_char ',' s)

let nontrivial_frames fs = List.length fs >= 2

let drive_model (c, skip, cb) data spec tail bufs nframes =
  let s = mk_src data spec tail in
  let r = new_reader s c.c_state skip c.c_check_utf8 c.c_max c.c_ext (if cb then CbReadAll else CbNone) in
  let fuel = nat_of_int (2 * List.length data + 4 * nframes + 50) in
  drive fuel (List.map n_of_int (ints_spec bufs)) r

let () =
  let rd cut_kind = (fun i o -> match i, o with
    | [cfg; frames; cut; spec; tail; bufs], (evs :: partial :: err :: _) ->
      let (c, skip, cb) = cfg_of_tok cfg in
      let fs = frames_of_tok frames in
      let evs = events_of_tok evs and partial = bytes_of_hex partial in
      (match rerror_of_string err with
       | None -> Viol ("reader ended with an unclassified outcome: " ^ err)
       | Some e ->
         let ok =
           if cut_kind then cut_monitor c cb fs (n_of_int (if cut = "-" then List.length (wire fs) else int_of_string cut)) (tail = "fail" || tail = "faildata") evs e
           else reader_monitor c cb fs evs (Some partial) e in
         if not ok then
           Viol (if cut_kind then "cut stream: a truncated frame/message was reported, handed to the control callback, or ended in a clean EOF"
                 else "delivered messages / control events / error do not match the frame-sequence spec")
         else begin
           let data = stream_of fs cut in
           let m = drive_model (c, skip, cb) data spec tail bufs (List.length fs) in
           if not (evs_eqb m.dr_events evs) then Diff "model events differ"
           else if string_of_rerror m.dr_err <> err then Diff ("model final error differs: " ^ string_of_rerror m.dr_err)
           else if m.dr_partial <> partial then Diff "model partial bytes differ"
           else Pass (nontrivial_frames fs)
         end)
    | _ -> Diff "malformed line") in
  register "RD" (rd false);
  register "RC" (rd true);
  let rm cut_kind = (fun i o -> match i, o with
    | [st; frames; cut; spec; tail], [evs; err] ->
      let c = { c_state = n_of_int (int_of_string st); c_check_utf8 = true; c_max = BinNums.Z0; c_ext = false } in
      let fs = frames_of_tok frames in
      let evs = events_of_tok evs in
      (match rerror_of_string err with
       | None -> Viol ("ReadMessage ended with an unclassified outcome: " ^ err)
       | Some e ->
         let ok =
           if cut_kind then cut_monitor c true fs (n_of_int (if cut = "-" then List.length (wire fs) else int_of_string cut)) (tail = "fail" || tail = "faildata") evs e
           else reader_monitor c true fs evs None e in
         if not ok then
           Viol (if cut_kind then "ReadMessage on a cut stream returned a truncated message / control payload or a clean EOF"
                 else "ReadMessage results do not match the frame-sequence spec")
         else begin
           let data = stream_of fs cut in
           let fuel = nat_of_int (2 * List.length data + 4 * List.length fs + 50) in
           let (mevs, me) = read_messages fuel [n_of_int 512] (mk_src data spec tail) c.c_state [] in
           if not (evs_eqb mevs evs) then Diff "model ReadMessage events differ"
           else if string_of_rerror me <> err then Diff ("model ReadMessage error differs: " ^ string_of_rerror me)
           else Pass (nontrivial_frames fs)
         end)
    | _ -> Diff "malformed line") in
  register "RDD" (fun i o -> match i, o with
    | [cfg; frames; spec; tail; bufs; pat], [evs; partial; err] ->
      let (c, skip, cb) = cfg_of_tok cfg in
      let fs = frames_of_tok frames in
      let evs = events_of_tok evs in
      let sp = spec_run c Datatypes.O None [] fs in
      (* expected: every intermediate control event; a completed message only when the pattern read it
         (a 'p' message is reported only when its first read already ended it: left open) *)
      let npat = String.length pat in
      let rec expect k = function
        | [] -> []
        | e :: r -> if e.ev_inter then (if cb then [`Must e] else []) @ expect k r
                    else (match pat.[k mod npat] with 'r' -> [`Must e] | 'p' -> [`May e] | _ -> []) @ expect (k+1) r in
      let rec matches exp obs = match exp, obs with
        | [], [] -> true
        | `Must e :: r, o :: r' -> ev_matches e o && matches r r'
        | `May e :: r, o :: r' -> (ev_matches e o && matches r r') || matches r obs
        | `May _ :: r, [] -> matches r []
        | _, _ -> false in
      (match sp.sr_out with
       | OClean ->
         if err <> "eof" then Viol "discarding/skipping messages: the stream did not end cleanly"
         else if not (matches (expect 0 sp.sr_events) evs) then Viol "after Discard a later message is wrong (skipped bytes leaked or a message was lost)"
         else begin
           let data = wire fs in
           let s = mk_src data spec tail in
           let r = new_reader s c.c_state skip c.c_check_utf8 c.c_max c.c_ext (if cb then CbReadAll else CbNone) in
           let acts = List.init npat (fun k -> match pat.[k] with 'd' -> ADiscard | 'p' -> APartial | _ -> ARead) in
           let m = drive_pat (nat_of_int (2 * List.length data + 4 * List.length fs + 50)) (List.map n_of_int (ints_spec bufs)) acts acts r in
           if not (evs_eqb m.dr_events evs) then Diff "model events differ (discard pattern)"
           else if string_of_rerror m.dr_err <> err then Diff "model final error differs (discard pattern)"
           else Pass (nontrivial_frames fs)
         end
       | out ->
         (* a violation (possibly inside a message being skipped) must still surface as that error *)
         (match rerror_of_string err with
          | Some e when err_matches out e ->
            let data = wire fs in
            let s = mk_src data spec tail in
            let r = new_reader s c.c_state skip c.c_check_utf8 c.c_max c.c_ext (if cb then CbReadAll else CbNone) in
            let acts = List.init npat (fun k -> match pat.[k] with 'd' -> ADiscard | 'p' -> APartial | _ -> ARead) in
            let m = drive_pat (nat_of_int (2 * List.length data + 4 * List.length fs + 50)) (List.map n_of_int (ints_spec bufs)) acts acts r in
            if string_of_rerror m.dr_err <> err then Diff "model final error differs (discard pattern)"
            else if not (evs_eqb m.dr_events evs) then Diff "model events differ (discard pattern)"
            else Pass (nontrivial_frames fs)
          | _ ->
            (match out with
             | OInvalidUtf8 -> Pass false   (* Discard does not validate skipped text: left open *)
             | _ -> Viol "a protocol violation inside a skipped/discarded message was not reported")))
    | _ -> Diff "malformed line");
  register "RM" (rm false);
  register "RMC" (rm true);
  register "RS" (fun i o -> match i, o with
    | [cfg; data; spec; tail; ops], [outs; evs; consumed; comp] ->
      let (c, skip, cb) = cfg_of_tok cfg in
      let data = bytes_of_hex data in
      let s = mk_src data spec tail in
      let r = new_reader s c.c_state skip c.c_check_utf8 c.c_max c.c_ext (if cb then CbReadAll else CbNone) in
      let ops_l = List.map (fun t ->
        if t = "n" then OpNext else if t = "d" then OpDiscard
        else OpRead (n_of_int (int_of_string (String.sub t 1 (String.length t - 1))))) (String.split_on_char ',' ops) in
      let (mouts, r') = run_script ops_l r in
      let hdr_str h = Printf.sprintf "%s/%d/%d/%s/%s/%s" (tok_of_bool h.h_fin) (int_of_n h.h_rsv) (int_of_n h.h_op)
          (tok_of_bool h.h_masked) (hex_of_bytes h.h_mask) (match h.h_len with BinNums.Z0 -> "0" | BinNums.Zpos p -> string_of_n (BinNums.Npos p) | _ -> "neg") in
      let zero = "0/0/0/0/00000000/0" in
      let show = function
        | OutNext (h, e) ->
          let hs = (match e with Some (RIo _) | Some RMsb | Some RLenUnexpected -> zero | _ -> hdr_str h) in
          "n:" ^ hs ^ ":" ^ string_of_rerror_opt e
        | OutRead (d, e) -> "r:" ^ hex_of_bytes d ^ ":" ^ string_of_rerror_opt e
        | OutDiscard e -> "d:" ^ string_of_rerror_opt e in
      let ms = String.concat "," (List.map show mouts) in
      (* Go reports a partially filled header together with header-level errors: compare those loosely *)
      let norm s = String.concat "," (List.map (fun t ->
        match String.split_on_char ':' t with
        | ["n"; _; ("msb" | "lenunexpected" | "eof" | "unexpected" | "fail" as e)] -> "n:" ^ zero ^ ":" ^ e
        | _ -> t) (String.split_on_char ',' s)) in
      if norm ms <> norm outs then Diff ("model script outputs differ: " ^ ms)
      else if not (evs_eqb r'.r_log (events_of_tok evs)) then Diff "model callback log differs"
      else if List.length data - List.length (flat r'.r_src) <> int_of_string consumed then Diff "model consumption differs"
      else if tok_of_bool r'.r_compressed <> comp then Diff "model compressed flag differs"
      else Pass (List.length ops_l >= 3)
    | _ -> Diff "malformed line");
  register "FWR" (fun i o -> match i, o with
    | [_; _; _; _], [wa; wb; ra; rb] ->
      if wa <> wb then Viol "compression writer after Reset differs from a fresh one (result, error or bytes)"
      else if ra <> rb then Viol "decompression reader after Reset differs from a fresh one"
      else Pass true
    | _ -> Diff "malformed line");
  register "U8RS" (fun i o -> match i, o with
    | [_; _; _], [a; f; x; y] ->
      if a <> f then Viol "UTF8Reader after Reset differs from a fresh one (Valid/Accepted/bytes/error)"
      else if x <> y then Viol "CipherReader after Reset differs from a fresh one"
      else Pass true
    | _ -> Diff "malformed line");
  register "U8R" (fun i o -> match i, o with
    | [p; spec; bufs], [out; e; valid; accepted] ->
      let p = bytes_of_hex p in
      (* "!" = the last bytes came together with io.EOF: same bytes, same end for the model *)
      let bang = String.length spec > 0 && spec.[String.length spec - 1] = '!' in
      let spec = if bang then (let s = String.sub spec 0 (String.length spec - 1) in if s = "" then "-" else s) else spec in
      if not (u8_monitor p (e = "eof") (valid = "1")) then Viol "UTF8Reader verdict differs from the definition of UTF-8"
      else begin
        let bl = List.map n_of_int (ints_spec bufs) in
        let u = { u_src = mk_src p spec "eof"; u_state = BinNums.N0; u_accepted = BinNums.N0 } in
        let ((mo, me), u') = u8_drive (nat_of_int (List.length p + 3)) bl bl u [] in
        let mes = (match me with Some (U8Io EEOF) -> "eof" | Some U8Invalid -> "invalidutf8" | _ -> "other") in
        if mo <> bytes_of_hex out || mes <> e then Diff "model UTF8Reader output/error differs"
        else if tok_of_bool (u8_valid u') <> valid || ((not bang) && int_of_n u'.u_accepted <> int_of_string accepted) then
          (* Accepted() counts within the last Read: with data and EOF in one Read it legitimately differs from the
             model's separate EOF read, so it is not compared for "!" sources *)
          Diff "model UTF8Reader Valid/Accepted differs"
        else Pass (List.length p >= 2)
      end
    | _ -> Diff "malformed line")
