(* Writer kinds: WH/WHX (histories), WHF (failing destination), WC (control writer), W18 (reset vs fresh) *)
open Base
open Check
open Frame
open Writer

let pat_bytes n seed = List.init n (fun i -> byte_tab.((seed + 31 * i) mod 251))

let werror_of = function
  | "nil" -> None | "dest" -> Some WDest | "notempty" -> Some WNotEmpty | "ext" -> Some WExt
  | "overflow" -> Some WOverflow | "noprogress" -> Some WNoProgress | "hang" -> Some WHang
  | _ -> Some WNoProgress
let werror_str = function
  | None -> "nil" | Some WDest -> "dest" | Some WNotEmpty -> "notempty" | Some WExt -> "ext"
  | Some WOverflow -> "overflow" | Some WNoProgress -> "noprogress" | Some WHang -> "hang"

let ni = n_of_int
let split c s = String.split_on_char c s

let exts_of s = if s = "-" then [] else List.init (String.length s) (fun i -> s.[i] = '1')

let wop_of_tok (t : string) : wop =
  if t = "ff" then WFlushFragment else if t = "fl" then WFlush else if t = "df" then WDisableFlush
  else if String.length t >= 2 && String.sub t 0 2 = "rs" then
    (match split '/' (String.sub t 2 (String.length t - 2)) with
     | [st; op] -> WReset (ni (int_of_string st), ni (int_of_string op)) | _ -> failwith "rs")
  else if String.length t >= 2 && String.sub t 0 2 = "ro" then WResetOp (ni (int_of_string (String.sub t 2 (String.length t - 2))))
  else
    let body = String.sub t 1 (String.length t - 1) in
    match t.[0] with
    | 'g' -> WGrow (ni (int_of_string body))
    | 'x' -> WSetExt (exts_of body)
    | 'w' | 't' | 'r' ->
      (match split '/' body with
       | n :: seed :: rest ->
         let data = pat_bytes (int_of_string n) (int_of_string seed) in
         (match t.[0], rest with
          | 'w', _ -> WWrite data
          | 't', _ -> WWriteThrough data
          | _, ([spec] | [spec; _]) ->   (* an optional 4th field names the concrete type of the source: not seen by the model *)
            let spec = String.concat "," (split '+' spec) in
            WReadFrom (data, sizes_of_spec spec (List.length data))
          | _ -> failwith "r op")
       | _ -> failwith "op")
    | _ -> failwith ("op " ^ t)

let obs_of_tok (t : string) : wobs =
  match split '.' t with
  | [n; e; p; b; a; s; c] ->
    { o_n = ni (int_of_string n); o_err = werror_of e; o_panic = (if p = "1" then Some PBufTooSmall else None);
      o_buffered = ni (int_of_string b); o_available = ni (int_of_string a); o_size = ni (int_of_string s);
      o_calls = ni (int_of_string c) }
  | _ -> failwith "obs"

let obs_same (m : wobs) (g : wobs) =
  m.o_n = g.o_n && werror_str m.o_err = werror_str g.o_err && (m.o_panic <> None) = (g.o_panic <> None)
  && (g.o_panic <> None || (m.o_buffered = g.o_buffered && m.o_available = g.o_available && m.o_size = g.o_size))
  && m.o_calls = g.o_calls

(* masks of the frames visible in the destination bytes, in order (also of a trailing cut frame) *)
let rec masks_of (bs : BinNums.coq_N list) : BinNums.coq_N list list =
  if bs = [] then [] else
  match rfc_parse bs with
  | PComplete (h, rest) ->
    let n = int_of_z h.h_len in
    let m = if h.h_masked then [h.h_mask] else [] in
    if List.length rest < n then m
    else m @ masks_of (let rec drop k l = if k = 0 then l else match l with [] -> [] | _ :: r -> drop (k-1) r in drop n rest)
  | _ -> []

let mk_writer ctor state op exts masks fail_at =
  let d = { d_calls = []; d_fail_at = fail_at } in
  let n = ni (int_of_string (String.sub ctor 1 (String.length ctor - 1))) in
  let r = match ctor.[0] with
    | 'd' -> new_writer_buffer_size d state op BinNums.N0 masks
    | 's' -> new_writer_size d state op n masks
    | 'b' -> new_writer_buffer_size d state op n masks
    | _ -> new_writer_buffer d state op n masks in
  match r with
  | Datatypes.Coq_inl _ -> None
  | Datatypes.Coq_inr w -> Some (if exts = [] then w else { w with w_exts = exts })

let parse_cfg s = match split '.' s with
  | [ctor; st; op; exts] -> (ctor, ni (int_of_string st), ni (int_of_string op), exts_of exts)
  | _ -> failwith "wcfg"

let has_reset ops = List.exists (function WReset _ | WResetOp _ | WSetExt _ -> true | _ -> false) ops

let () =
  let wh kind = (fun i o -> match i, o with
    | [cfg; ops; fail], ["ctorpanic"; _; _] ->
      let (ctor, st, op, exts) = parse_cfg cfg in
      (match mk_writer ctor st op exts [] None with None -> Pass false | Some _ -> Diff "Go constructor panicked, model did not")
    | [cfg; ops; fail], [obs; log; _sizes] ->
      let (ctor, st, op, exts) = parse_cfg cfg in
      let ops_l = List.map wop_of_tok (split ',' ops) in
      let gobs = List.map obs_of_tok (split ',' obs) in
      let log = bytes_list_of_tok log in
      (* "t<k>" / "d<k>": the destination fails from its k-th write on with a timeout-type error (the models know one
         kind of destination failure: what the writer owes the peer does not depend on the kind) *)
      let fail = if String.length fail > 1 && (fail.[0] = 't' || fail.[0] = 'd') then String.sub fail 1 (String.length fail - 1) else fail in
      let fail_at = if fail = "-" then None else Some (ni (int_of_string fail)) in
      let masks = masks_of (List.concat log) in
      (match mk_writer ctor st op exts masks fail_at with
       | None -> Diff "model constructor panics, Go did not"
       | Some w0 ->
         let nobs = List.length gobs in
         let steps = List.mapi (fun k ob -> { s_op = List.nth ops_l k; s_obs = ob }) gobs in
         let client = Check.st_client st in
         let any_panic = List.exists (fun ob -> ob.o_panic <> None) gobs in
         let any_hang = List.exists (fun ob -> werror_str ob.o_err = "hang") gobs in
         let viol =
           if any_panic then Some "Writer panicked"
           else if any_hang then Some "Writer call did not return (no progress)"
           else if kind = "WHF" then (if c16w_monitor steps log then None else Some "after a failed destination write a later write/flush succeeded or more bytes were sent")
           else if fail = "-" && List.length exts <= 1
                   && List.exists (function WSetExt _ -> true | _ -> false) ops_l
                   && not (List.exists (function WWriteThrough _ -> true | _ -> false) ops_l)
                   && List.for_all (function WSetExt xs -> List.length xs <= 1 | _ -> true) ops_l
                   && List.exists (fun ob -> ob.o_err <> None) gobs then
             (* SetExtensions REPLACES the list: with at most one extension attached at any time and a working
                destination no write or flush has a reason to fail (WriteThrough, which refuses a non-empty
                buffer, is left out) *)
             Some "a write or flush failed although the destination works and at most one extension is attached"
           else if (fail = "-" || List.for_all (fun ob -> ob.o_err = None) gobs)
                   && List.exists (function WSetExt _ | WResetOp _ -> true | _ -> false) ops_l
                   && WriterSeg.c06_segments_apply exts steps then begin
             (* SetExtensions between two messages, ResetOp anywhere: the history is cut at those calls and every
                segment is judged by the history monitor with the opcode, extensions and buffer size in force during
                it. Side conditions (c06_segments_apply) and segmentation (c06_segments_verdict) are the Coq
                definitions of model/WriterSeg.v, extracted; that a correct writer satisfies them is
                C06_history_monitor_set_extensions (props/C06.v). (A destination set to fail later that never failed -
                no error observed - is a working destination.) *)
             let has_x = List.exists (function WSetExt _ -> true | _ -> false) ops_l in
             if List.exists (fun st -> (match st.s_op with WResetOp _ -> true | _ -> false) && int_of_n st.s_obs.o_buffered <> 0) steps
             then Some "ResetOp did not drop the unflushed bytes"
             else if WriterSeg.c06_segments_verdict client op exts w0.w_buflen steps log then None
             else if has_x then Some "with SetExtensions between messages: a message is not one well-formed message carrying exactly the reserved bits of the extensions attached at that time"
             else Some "after ResetOp the writer does not send one well-formed message per flush with the new opcode (stale bytes, wrong opcode or RSV1)"
           end
           (* histories the segmentation does not apply to (Reset, two extensions, SetExtensions inside a message, ...):
              compared with the model only *)
           else if List.exists (function WReset _ | WSetExt _ | WResetOp _ -> true | _ -> false) ops_l || List.length exts > 1 then None
           else if c06_monitor client op (List.exists (fun x -> x) exts) w0.w_buflen steps log then None
           else Some "destination bytes are not one well-formed message per final flush carrying the accepted bytes" in
         (match viol with
          | Some m -> Viol m
          | None ->
            let (mobs, w') = run_wops ops_l w0 in
            if List.length mobs <> nobs then Diff "model stops at a different op"
            else if not (List.for_all2 obs_same mobs gobs) then
              Diff ("model observations differ at op " ^ string_of_int (let rec idx k a b = match a, b with x :: a', y :: b' -> if obs_same x y then idx (k+1) a' b' else k | _ -> k in idx 0 mobs gobs))
            else if dest_log w'.w_dest <> log then Diff "model destination writes differ"
            else Pass (List.length ops_l >= 2))
       )
    | _ -> Diff "malformed line") in
  register "WH" (wh "WH"); register "WHX" (wh "WHX"); register "WHF" (wh "WHF");
  register "WC" (fun i o -> match i, o with
    | [st; op; ctor; writes], ["ctorpanic"; _; _] ->
      let st = ni (int_of_string st) and op = ni (int_of_string op) in
      let d = { d_calls = []; d_fail_at = None } in
      let r = if ctor = "n" then new_control_writer d st op [] else new_control_writer_buffer d st op (ni (int_of_string (String.sub ctor 1 (String.length ctor - 1)))) [] in
      (match r with Datatypes.Coq_inl _ -> Pass false | _ -> Diff "Go constructor panicked, model did not")
    | [st; op; ctor; writes], [outs; ferr; log] ->
      let st = ni (int_of_string st) and op = ni (int_of_string op) in
      let log = bytes_list_of_tok log in
      let ws = List.map (fun t -> match split '/' t with [n; s] -> pat_bytes (int_of_string n) (int_of_string s) | _ -> failwith "w") (split ',' writes) in
      let gouts = List.map (fun t -> match split '.' t with [n; e; c] -> (int_of_string n, e, int_of_string c) | _ -> failwith "o") (split ',' outs) in
      let pairs = List.map2 (fun w (n, e, c) -> (w, { o_n = ni n; o_err = werror_of e; o_panic = None; o_buffered = BinNums.N0; o_available = BinNums.N0; o_size = BinNums.N0; o_calls = ni c })) ws gouts in
      if not (c08_ctl_monitor (Check.st_client st) op pairs log) then Viol "control writer emitted an oversized / non-final / fragmented control frame or lost bytes"
      else if List.exists (fun (w, (n, e, _)) -> e = "nil" && n <> List.length w) (List.combine ws gouts) then Viol "control writer accepted a write partially without error"
      else begin
        let d = { d_calls = []; d_fail_at = None } in
        let masks = masks_of (List.concat log) in
        let r = if ctor = "n" then new_control_writer d st op masks else new_control_writer_buffer d st op (ni (int_of_string (String.sub ctor 1 (String.length ctor - 1)))) masks in
        match r with
        | Datatypes.Coq_inl _ -> Diff "model constructor panics"
        | Datatypes.Coq_inr c0 ->
          let (c1, ok) = List.fold_left2 (fun (c, ok) w (n, e, _) ->
            let (r, c') = control_write w c in
            (c', ok && (match r with Datatypes.Coq_inr (mn, me) -> int_of_n mn = n && werror_str me = e | _ -> false))) (c0, true) ws gouts in
          let (fr, c2) = control_flush c1 in
          if not ok then Diff "model control writes differ"
          else if (match fr with Datatypes.Coq_inr e -> werror_str e <> ferr | _ -> true) then Diff "model control flush differs"
          else if dest_log c2.c_w.w_dest <> log then Diff "model control destination bytes differ"
          else Pass (List.length ws >= 2)
      end
    | _ -> Diff "malformed line");
  register "W18" (fun i o -> match i, o with
    | _, ["bothpanic"; _; _; _] -> Pass false   (* Reset and the fresh constructor both refuse the too-small buffer *)
    | _, ["panic"; _; _; _] -> Viol "Reset/GetWriter panicked where a fresh writer would not"
    | [cfg; h1; fail; mode; st2op2; h2], [oa; la; ob; lb] ->
      let a = List.map obs_of_tok (split ',' oa) and b = List.map obs_of_tok (split ',' ob) in
      let la = bytes_list_of_tok la and lb = bytes_list_of_tok lb in
      let unm l = match frames_of (List.concat l) with
        | Some fs -> Some (List.map (fun f -> ({ f.pf_header with h_mask = [] }, pf_unmasked f)) fs)
        | None -> None in
      if List.exists (fun x -> x.o_panic <> None) a then Viol "writer panicked after reset"
      else if not (wobs_list_eqb a b) then Viol "after Reset/pool reuse the writer does not behave like a fresh one (results or accessors differ)"
      else if unm la = None || unm la <> unm lb then Viol "after Reset/pool reuse the writer sends different frames than a fresh one"
      else Pass true
    | _ -> Diff "malformed line")
