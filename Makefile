# Top-level build of the verification machinery (offline).
export GOFLAGS=-mod=mod
export GOPROXY=off
export GOSUMDB=off
export GOTOOLCHAIN=local

.PHONY: setup coq checker harness clean
setup: harness coq checker

harness:
	mkdir -p coq/gen
	mkdir -p .work
	cp /repo/go.sum harness/go.sum
	cd harness && go build -tags verif -o ../.work/harness-verif .
	./.work/harness-verif consts > coq/gen/Extracted.v.new && mv coq/gen/Extracted.v.new coq/gen/Extracted.v
	./.work/harness-verif translate > coq/gen/Translated.v.new && mv coq/gen/Translated.v.new coq/gen/Translated.v
	./.work/harness-verif translate2 > coq/gen/Translated2.v.new && mv coq/gen/Translated2.v.new coq/gen/Translated2.v
	./.work/harness-verif translate3 > coq/gen/Translated3.v.new && mv coq/gen/Translated3.v.new coq/gen/Translated3.v

coq: harness
	sh tools/mkcoqproject.sh
	cd coq && timeout 3000 make -j16

checker: coq
	sh ocaml/build.sh

clean:
	-cd coq && make clean
	rm -rf .work ocaml/gen ocaml/checker coq/Makefile coq/Makefile.conf
