#!/usr/bin/env python3
"""tools/mkfindings.py - regenerates known_findings.txt (one line per finding) from known_findings.json and
known_findings.d/*.json. Never run by ./check: the listing is committed."""
import json, glob, os
ROOT = os.path.dirname(os.path.dirname(os.path.abspath(__file__)))
paths = [os.path.join(ROOT, 'known_findings.json')] + sorted(glob.glob(os.path.join(ROOT, 'known_findings.d', '*.json')))
out = ['# one line per finding, generated from known_findings.json + known_findings.d/*.json (committed, never written at run time)']
seen = set()
for p in paths:
    if not os.path.exists(p):
        continue
    for f in json.load(open(p)).get('findings', []):
        line = f.get('line')
        if not line:
            line = ('fixed: property=%s %s %s' % (f['property'], f.get('commit', ''), f['what'])) if f.get('status') == 'fixed' \
                else ('open: property=%s %s' % (f['property'], f['what']))
        if line not in seen:
            seen.add(line)
            out.append(line)
out[1:] = sorted(out[1:], key=lambda l: (l.split(' ')[1], l))
open(os.path.join(ROOT, 'known_findings.txt'), 'w').write('\n'.join(out) + '\n')
print(len(out) - 1, 'findings')
