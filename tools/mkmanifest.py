#!/usr/bin/env python3
"""Regenerates MANIFEST.json from tools/manifest_src.py (claimed checks) and properties.jsonl."""
import json, os, sys
ROOT = os.path.dirname(os.path.dirname(os.path.abspath(__file__)))
sys.path.insert(0, os.path.join(ROOT, 'tools'))
from manifest_src import CLAIMED, NOT_APPLICABLE, NOTES
props = [json.loads(l) for l in open(os.path.join(ROOT, 'properties.jsonl'))]
ids = [p['id'] for p in props]
checks = []
for pid in ids:
    if pid not in CLAIMED:
        continue
    c = CLAIMED[pid]
    checks.append({
        'property_id': pid,
        'quick_cmd': './check %s --tier quick' % pid,
        'thorough_cmd': './check %s --tier thorough' % pid,
        'evidence_file': '/verif/evidence/%s.json' % pid,
        'replay_cmd_template': './check %s --replay {path}' % pid,
        'engine': 'coq+go-harness+ocaml-checker',
        'level_claimed': {'category': 'proof', 'text': c['text'], 'design_ref': c['design_ref']},
        'level_note': c['note'],
        'technique': c['technique'],
    })
na = [{'property_id': pid, 'reason': NOT_APPLICABLE.get(pid, 'check not built yet in this session (planned, see DESIGN.md section 4)')}
      for pid in ids if pid not in CLAIMED]
m = {
    'version': 1,
    'setup_cmd': 'make -C /verif setup',
    'hooks': {
        'guard': 'verif',
        'enable': 'go build -tags verif (harness module with replace github.com/gobwas/ws => /repo)',
        'baseline_off_cmd': json.load(open('/root/.vp/BASELINE.json'))['cmd'],
        'source_commits': [l.split()[0] for l in os.popen("git -C /repo log --format='%h %s' | grep -i 'verif hooks'").read().strip().split('\n') if l],
        'add_only': True,
    },
    'engines': [
        {'name': 'coq', 'path': '/verif/coq', 'serves_properties': sorted(CLAIMED), 'kind_free_text': 'Coq 8.16.1 models, specs, proofs; props/Cxx.v holds the theorems'},
        {'name': 'go-harness', 'path': '/verif/harness', 'serves_properties': sorted(CLAIMED), 'kind_free_text': 'drives the real packages built from /repo with -tags verif; prints observations'},
        {'name': 'ocaml-checker', 'path': '/verif/ocaml', 'serves_properties': sorted(CLAIMED), 'kind_free_text': 'extracted Coq models + monitors re-compute every observation'},
    ],
    'checks': checks,
    'notes': NOTES,
    'not_applicable': na,
}
json.dump(m, open(os.path.join(ROOT, 'MANIFEST.json'), 'w'), indent=1)
print('claimed:', ' '.join(sorted(CLAIMED)), '| not claimed:', ' '.join(x['property_id'] for x in na))
