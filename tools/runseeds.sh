#!/bin/sh
# tools/runseeds.sh id...   -- evaluates seeded changes one after the other with tools/seedtest.py in THIS checkout
# (run it from a scratch worktree made by tools/mkworktree.sh, never in parallel in one checkout).
# env: SEEDDIR (directory holding <id>/patch.diff, demo/, notes.md), SEEDRES (results go to .work/$SEEDRES/<id>.json)
ROOT=$(cd "$(dirname "$0")/.." && pwd)
cd "$ROOT"
SEEDRES=${SEEDRES:-seedres}
SEEDDIR=${SEEDDIR:-/tmp/seedout}
mkdir -p .work/$SEEDRES
for s in "$@"; do
  [ -d $SEEDDIR/$s ] || continue
  python3 tools/seedtest.py $SEEDDIR/$s > .work/$SEEDRES/$s.json 2>.work/$SEEDRES/$s.err
  python3 - "$ROOT/.work/$SEEDRES/$s.json" <<'PY'
import json,sys
try:
    r=json.load(open(sys.argv[1]))
    print(r['seed'],'applies',r.get('patch_applies'),'suite',r.get('suite_passes_with_change'),'demo',r.get('demo_passes_without_change'),r.get('demo_fails_with_change'),'DETECTED',r.get('detected'),'input',r.get('detected_with_input'),r.get('check_messages'), flush=True)
except Exception as e:
    print(sys.argv[1],'ERROR',e, flush=True)
PY
done
