#!/bin/sh
# usage: coqgoal.sh proofs/X.v LINE  — prints the goal after LINE (debug aid; scratch file in .work)
cd /verif/coq
mkdir -p ../.work/dbg
head -n "$2" "$1" > ../.work/dbg/Dbg.v
printf '\nShow. Abort.\n' >> ../.work/dbg/Dbg.v
timeout 300 coqc -R . WS -Q ../.work/dbg Dbg ../.work/dbg/Dbg.v 2>&1 | tail -${3:-60}
rm -f ../.work/dbg/Dbg.*  ../.work/dbg/.Dbg*
