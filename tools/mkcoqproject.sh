#!/bin/sh
# Regenerates coq/_CoqProject from the directory contents (so adding a file needs no shared edit).
cd "$(dirname "$0")/../coq"
{ echo "-R . WS"; for d in lib gen model proofs props; do ls $d/*.v 2>/dev/null | sort; done; } > _CoqProject.new
if ! cmp -s _CoqProject.new _CoqProject; then mv _CoqProject.new _CoqProject; coq_makefile -f _CoqProject -o Makefile >/dev/null; else rm _CoqProject.new; fi
[ -f Makefile ] || coq_makefile -f _CoqProject -o Makefile >/dev/null
