from propcfg import PROPS
NOTES = ("Machine-checked proof in Coq 8.16.1 of a hand-written Gallina model per property, tied to /repo on every run by "
         "(A) regeneration of constants/tables from the compiled packages and (B) a correspondence run of the extracted "
         "model and monitors against the real code. See DESIGN.md.")
NOT_APPLICABLE = {}
CLAIMED = {pid: c['claim'] for pid, c in PROPS.items() if 'claim' in c}
