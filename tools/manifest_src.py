NOTES = ("Machine-checked proof in Coq 8.16.1 of a hand-written Gallina model per property, tied to /repo on every run by "
         "(A) regeneration of constants/tables from the compiled packages and (B) a correspondence run of the extracted "
         "model and monitors against the real code. See DESIGN.md.")
NOT_APPLICABLE = {}
COMMON_NOTE = ("Trusted: Coq kernel; extraction (ExtrOcamlBasic only); OCaml glue; Go harness; the hand-written model is tied to the "
               "code by correspondence on generated inputs, not by a translator. No axioms.")
CLAIMED = {
    'C03': {
        'text': ("Theorems for all headers (any int64 length, any state byte, 4-bit opcodes): the cascade accepts iff no owned rule is "
                 "broken and a reported error is a broken rule; for all status codes the accept/refuse sets; close body size and "
                 "parse round-trip for all code/reason pairs. The finite part of the input space is also enumerated completely "
                 "against the real functions."),
        'design_ref': 'DESIGN.md section 4, C03',
        'note': COMMON_NOTE + " utf8.ValidString is represented by the Table 3-7 spec (validated by U8 cases).",
        'technique': 'Coq proof over a Gallina transcription + exhaustive/structured correspondence with the Go code',
    },
}
