#!/bin/sh
# tools/tryseed.sh <seeddir> <prop> [tier]  -- applies the seed's patch to a scratch worktree of /repo (/tmp/mw) and runs the
# check of <prop> against it in THIS checkout; restores evidence afterwards
export GOFLAGS=-mod=mod GOPROXY=off GOSUMDB=off GOTOOLCHAIN=local
ROOT=$(cd "$(dirname "$0")/.." && pwd)
[ -d /tmp/mw ] || git -C /repo worktree add -q --detach /tmp/mw HEAD
git -C /tmp/mw checkout -q -- . ; git -C /tmp/mw clean -fdq
git -C /tmp/mw apply --whitespace=nowarn $1/patch.diff || exit 2
cd "$ROOT"; VERIF_REPO=/tmp/mw ./check $2 --tier ${3:-quick} 2>&1 | grep -v '^WARNING' | tail -8
git -C /tmp/mw checkout -q -- . ; git -C /tmp/mw clean -fdq
git -C "$ROOT" checkout -q -- evidence
