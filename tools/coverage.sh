#!/bin/sh
# tools/coverage.sh [prop...]  — which statements of gobwas/ws do the harness runs execute?
# Builds the harness with Go's coverage instrumentation for the three library packages, runs the
# quick tier of the given properties (default: all), and prints the uncovered blocks with their
# source text. A block that no run executes cannot expose a change made to it: use the list to add cases.
# (race / pool_sanitize builds are not included; they run the same generators.)
set -e
ROOT=$(cd "$(dirname "$0")/.." && pwd)
REPO=${VERIF_REPO:-/repo}
export GOFLAGS=-mod=mod GOPROXY=off GOSUMDB=off GOTOOLCHAIN=local
W=$(mktemp -d /tmp/verifcov.XXXXXX)
trap 'rm -rf "$W"' EXIT
cp -r "$ROOT/harness" "$W/h"
sed -i "s#=> /repo#=> $REPO#" "$W/h/go.mod"
cp "$REPO/go.sum" "$W/h/go.sum"
(cd "$W/h" && go build -tags verif -cover -coverpkg=github.com/gobwas/ws/...,verifharness -o "$W/hc" .)
mkdir "$W/cov"
PROPS=${*:-C01 C02 C03 C04 C05 C06 C07 C08 C09 C10 C11 C12 C13 C14 C15 C16 C17 C18 C19 C20}
for p in $PROPS; do
  GOCOVERDIR="$W/cov" timeout 900 "$W/hc" -seed 1 $p > /dev/null 2>&1 || echo "harness $p exit $?" >&2
done
(cd "$REPO" && go tool covdata textfmt -i="$W/cov" -o "$W/cov.txt")
python3 - "$W/cov.txt" "$REPO" <<'PY'
import sys, re, collections
cov, repo = sys.argv[1], sys.argv[2]
blocks = collections.defaultdict(int); tot = collections.Counter(); hit = collections.Counter()
for l in open(cov):
    m = re.match(r'github.com/gobwas/ws/(\S+?):(\d+)\.(\d+),(\d+)\.(\d+) (\d+) (\d+)', l)
    if not m: continue
    f, l0, c0, l1, c1, n, cnt = m.groups()
    if 'verif_export' in f or f.startswith('example') or f.startswith('tests/'): continue
    key = (f, int(l0), int(l1)); blocks[key] = max(blocks[key], int(cnt)); 
for (f, a, b), cnt in blocks.items():
    tot[f] += 1; hit[f] += cnt > 0
print('file: blocks executed / blocks')
for f in sorted(tot): print('  %-28s %4d / %4d' % (f, hit[f], tot[f]))
print('\nuncovered blocks:')
for (f, a, b), cnt in sorted(blocks.items()):
    if cnt: continue
    src = open('%s/%s' % (repo, f)).read().split('\n')
    print('%s:%d-%d' % (f, a, b))
    for i in range(a, min(b, a + 5) + 1): print('      | ' + src[i - 1])
PY
