#!/usr/bin/env python3
"""tools/mutate.py - mutation testing of the verification machinery against gobwas/ws.

  gen     [--seed N]                       enumerate all mutants -> .work/mut/mutants.jsonl (shuffled, fixed seed)
  tests   [--jobs J] [--limit N]           stage A: build / vet / the library's own test-suite per mutant
                                            -> .work/mut/stageA.jsonl   (status: nobuild | novet | killed | survived)
  checks  --workers DIR[,DIR...] [--limit N] [--minutes M] [--only ID,ID..]
                                            stage B: survivors through `VERIF_REPO=<tree> ./check Cxx` of the
                                            properties relevant to the file (stop at the first detection)
                                            -> .work/mut/stageB.jsonl
  recheck --workers DIR --ids ID,ID..      re-run stage B for the given mutants (after gap closing) -> stageB2.jsonl
  show    ID                               print the diff of one mutant
  apply   ID TREE                          apply one mutant to a scratch tree
  report                                   tools/mutation-results.md from the stage files + tools/mutation-triage.json

A mutant is ONE textual change on a non-test, non-verif_export*.go file of packages ws, wsutil, wsflate.
Operators: ROR (< <= > >= == !=), LCR (&& ||), AOR (+ - += -= ++ --), LIT (integer literal +-1, 0<->1),
NOT (remove a `!`), COND (if-condition -> true / false), DEL (delete a simple statement line),
RETNIL (`return ..., err` -> `return ..., nil`).
Comments, string, rune and raw-string literals are skipped by a small tokeniser; a mutant that does not
gofmt/build/vet cleanly is dropped.
/repo is never modified: every job works in `git -C /repo worktree add /tmp/mutrepo-<k> HEAD` trees.
"""
import sys, os, re, json, random, subprocess, time, shutil, argparse, threading, queue, hashlib

ROOT = os.path.dirname(os.path.dirname(os.path.abspath(__file__)))
REPO = '/repo'
OUT = os.path.join(ROOT, '.work', 'mut')
ENV = dict(os.environ, GOFLAGS='-mod=mod', GOPROXY='off', GOSUMDB='off', GOTOOLCHAIN='local')

FILE_PROPS = {
    'frame.go': ['C01', 'C02', 'C03', 'C08'],
    'check.go': ['C03', 'C05'],
    'cipher.go': ['C02'],
    'read.go': ['C01', 'C15', 'C16'],
    'write.go': ['C01'],
    'util.go': ['C09', 'C10', 'C11', 'C15'],
    'http.go': ['C09', 'C10', 'C11', 'C15'],
    'server.go': ['C09', 'C11'],
    'dialer.go': ['C10', 'C11', 'C20'],
    'nonce.go': ['C09', 'C10'],
    'errors.go': ['C09'],
    'wsutil/reader.go': ['C04', 'C05', 'C07', 'C13', 'C15', 'C16'],
    'wsutil/writer.go': ['C06', 'C08', 'C13', 'C16', 'C18'],
    'wsutil/handler.go': ['C08', 'C16', 'C17'],
    'wsutil/helper.go': ['C04', 'C06', 'C08'],
    'wsutil/cipher.go': ['C02', 'C18'],
    'wsutil/utf8.go': ['C07', 'C18'],
    'wsutil/dialer.go': ['C11'],
    'wsutil/upgrader.go': ['C11'],
    'wsutil/extenstion.go': ['C13'],
    'wsflate/cbuf.go': ['C12', 'C18'],
    'wsflate/reader.go': ['C12', 'C18'],
    'wsflate/writer.go': ['C12', 'C18'],
    'wsflate/helper.go': ['C12', 'C18'],
    'wsflate/extension.go': ['C13', 'C14'],
    'wsflate/parameters.go': ['C14'],
}


def sh(cmd, cwd=None, timeout=600, env=None):
    """run a command in its own process group; on timeout the whole group is killed."""
    import signal
    p = subprocess.Popen(cmd, shell=isinstance(cmd, str), cwd=cwd, env=env or ENV, stdout=subprocess.PIPE,
                         stderr=subprocess.STDOUT, text=True, errors='replace', start_new_session=True)
    try:
        out, _ = p.communicate(timeout=timeout)
        return p.returncode, out
    except subprocess.TimeoutExpired:
        try:
            os.killpg(p.pid, signal.SIGKILL)
        except OSError:
            pass
        try:
            out, _ = p.communicate(timeout=30)
        except Exception:  # noqa
            out = ''
        return 124, (out or '') + '\n[timeout]'


# ------------------------------------------------------------------ tokeniser
def code_mask(src):
    """mask[i] = True when src[i] is Go code (outside comments and string/rune/raw literals)."""
    n = len(src)
    mask = [True] * n
    i = 0
    while i < n:
        c = src[i]
        if c == '/' and i + 1 < n and src[i + 1] == '/':
            j = src.find('\n', i)
            j = n if j < 0 else j
            for k in range(i, j):
                mask[k] = False
            i = j
        elif c == '/' and i + 1 < n and src[i + 1] == '*':
            j = src.find('*/', i + 2)
            j = n if j < 0 else j + 2
            for k in range(i, j):
                mask[k] = False
            i = j
        elif c == '"' or c == "'":
            j = i + 1
            while j < n and src[j] != c and src[j] != '\n':
                j += 2 if src[j] == '\\' else 1
            j = min(j + 1, n)
            for k in range(i, j):
                mask[k] = False
            i = j
        elif c == '`':
            j = src.find('`', i + 1)
            j = n if j < 0 else j + 1
            for k in range(i, j):
                mask[k] = False
            i = j
        else:
            i += 1
    return mask


TOK = re.compile(r'''
    (?P<num>0[xX][0-9a-fA-F_]+|0[bB][01_]+|0[oO]?[0-7_]+(?![0-9.])|[0-9][0-9_]*(?![0-9.eE])|[0-9][0-9_]*\.[0-9]*(?:[eE][-+]?[0-9]+)?)
  | (?P<id>[A-Za-z_][A-Za-z_0-9]*)
  | (?P<op><<=|>>=|&\^=|\.\.\.|&&|\|\||<-|<<|>>|&\^|\+=|-=|\*=|/=|%=|&=|\|=|\^=|\+\+|--|==|!=|<=|>=|:=|[-+*/%&|^<>=!(){}\[\],;.:~])
''', re.X)

ROR = {'<': ['<=', '>'], '<=': ['<'], '>': ['>=', '<'], '>=': ['>'], '==': ['!='], '!=': ['==']}
LCR = {'&&': ['||'], '||': ['&&']}
AOR = {'+': ['-'], '-': ['+'], '+=': ['-='], '-=': ['+='], '++': ['--'], '--': ['++']}
KEYWORDS_NOSTMT = ('return', 'if', 'else', 'for', 'switch', 'case', 'default', 'select', 'go', 'var', 'const',
                   'type', 'func', 'break', 'continue', 'goto', 'fallthrough', 'package', 'import', '}', ')', '{')


def tokens_of_line(line, lmask):
    """tokens (kind, text, start, end) of the code part of one line."""
    out = []
    pos = 0
    n = len(line)
    while pos < n:
        if not lmask[pos] or line[pos].isspace():
            pos += 1
            continue
        m = TOK.match(line, pos)
        if not m:
            pos += 1
            continue
        # a token may not run into masked text
        if not all(lmask[m.start():m.end()]):
            pos += 1
            continue
        out.append((m.lastgroup, m.group(), m.start(), m.end()))
        pos = m.end()
    return out


def enumerate_file(rel, src):
    """all mutants of one file: dicts(file,line,op,orig,repl,col,new_line | delete)."""
    mask = code_mask(src)
    lines = src.split('\n')
    muts = []
    off = 0
    in_import = False
    for ln, line in enumerate(lines, 1):
        lmask = mask[off:off + len(line)]
        off += len(line) + 1
        toks = tokens_of_line(line, lmask)
        if not toks:
            continue
        first = toks[0][1]
        if first == 'import':
            in_import = '(' in [t[1] for t in toks]
            continue
        if in_import:
            if first == ')':
                in_import = False
            continue
        if first == 'package':
            continue

        def add(op, s, e, repl, descr=None):
            nl = line[:s] + repl + line[e:]
            muts.append({'file': rel, 'line': ln, 'col': s + 1, 'op': op, 'orig': line[s:e], 'repl': repl,
                         'old_line': line, 'new_line': nl, 'descr': descr or ('%s -> %s' % (line[s:e], repl))})

        for i, (kind, text, s, e) in enumerate(toks):
            prev = toks[i - 1] if i > 0 else None
            nxt = toks[i + 1] if i + 1 < len(toks) else None
            if kind == 'op':
                if text in ROR:
                    # skip generic-looking / channel arrows are separate tokens already
                    for r in ROR[text]:
                        add('ROR', s, e, r)
                elif text in LCR:
                    for r in LCR[text]:
                        add('LCR', s, e, r)
                elif text in AOR:
                    if text in ('+', '-'):
                        # binary only: previous token must end an operand
                        if prev is None or not (prev[0] in ('num', 'id') and prev[1] not in ('return', 'case') or prev[1] in (')', ']', '}')):
                            continue
                        if not all(lmask[s:e]):
                            continue
                    for r in AOR[text]:
                        add('AOR', s, e, r)
                elif text == '!':
                    add('NOT', s, e, '', 'remove !')
            elif kind == 'num':
                t = text.replace('_', '')
                if '.' in t:
                    continue
                try:
                    if t[:2].lower() == '0x':
                        v = int(t, 16)
                        fmt = lambda x: ('0x%0' + str(len(t) - 2) + 'x') % x
                    elif t[:2].lower() == '0b':
                        v = int(t[2:], 2)
                        fmt = lambda x: '0b' + bin(x)[2:]
                    elif len(t) > 1 and t[0] == '0':
                        v = int(t.lstrip('0oO') or '0', 8)
                        fmt = lambda x: '0' + oct(x)[2:]
                    else:
                        v = int(t)
                        fmt = str
                except ValueError:
                    continue
                cands = [1] if v == 0 else ([0, 2] if v == 1 else [v - 1, v + 1])
                for c in cands:
                    add('LIT', s, e, fmt(c))
        # whole-line operators
        stripped = line.strip()
        code_only = ''.join(ch if m_ else ' ' for ch, m_ in zip(line, lmask)).rstrip()
        # COND: `if [init;] cond {` / `} else if cond {`
        m = re.match(r'^(\s*(?:\}\s*else\s+)?if\s+)(.*?)(\s*\{)\s*$', code_only)
        if m:
            body_s, body_e = m.start(2), code_only.rindex('{')
            while body_e > body_s and line[body_e - 1] == ' ':
                body_e -= 1
            body = line[body_s:body_e]
            # split off an init statement: last ';' at paren depth 0
            depth = 0
            semi = -1
            for k, ch in enumerate(code_only[body_s:body_e]):
                if ch in '([{':
                    depth += 1
                elif ch in ')]}':
                    depth -= 1
                elif ch == ';' and depth == 0:
                    semi = k
            cs = body_s + semi + 1
            while cs < body_e and line[cs] == ' ':
                cs += 1
            cond = line[cs:body_e]
            if cond.strip() and depth == 0 and cond.strip() not in ('true', 'false'):
                for r in ('true', 'false'):
                    muts.append({'file': rel, 'line': ln, 'col': cs + 1, 'op': 'COND', 'orig': cond, 'repl': r,
                                 'old_line': line, 'new_line': line[:cs] + r + line[body_e:],
                                 'descr': 'if-condition `%s` -> %s' % (cond.strip(), r)})
        # RETNIL: `return ..., err` -> `return ..., nil`
        m = re.match(r'^(\s*return\s+(?:.*,\s*)?)err\s*$', code_only)
        if m:
            s = m.end(1)
            muts.append({'file': rel, 'line': ln, 'col': s + 1, 'op': 'RETNIL', 'orig': 'err', 'repl': 'nil',
                         'old_line': line, 'new_line': line[:s] + 'nil' + line[s + 3:], 'descr': 'return err -> return nil'})
        # DEL: simple statement on one line (assignment, call, inc/dec, defer call)
        if first not in KEYWORDS_NOSTMT and toks[-1][1] not in ('{', ',', '(', '||', '&&', '+', '-', '|', '.', '=', ':=', ':') \
                and not stripped.endswith('{') and first != 'defer' or first == 'defer' and toks[-1][1] == ')':
            txt = [t[1] for t in toks]
            depth = 0
            ok = True
            for t in txt:
                if t in ('(', '[', '{'):
                    depth += 1
                elif t in (')', ']', '}'):
                    depth -= 1
                    if depth < 0:
                        ok = False
            is_stmt = any(t in ('=', ':=', '+=', '-=', '|=', '&=', '^=', '<<=', '>>=', '*=', '/=', '%=', '&^=', '++', '--') for t in txt) \
                or (txt[-1] == ')' and toks[0][0] == 'id')
            # struct literal fields / call arguments end with ',' (excluded above); labels end with ':' (excluded)
            if ok and depth == 0 and is_stmt and toks[0][0] == 'id':
                muts.append({'file': rel, 'line': ln, 'col': 1, 'op': 'DEL', 'orig': stripped, 'repl': '',
                             'old_line': line, 'new_line': None, 'descr': 'delete statement `%s`' % stripped})
    return muts


def target_files():
    return [f for f in FILE_PROPS if os.path.exists(os.path.join(REPO, f))]


def mutant_id(m):
    h = hashlib.sha1(('%s:%d:%d:%s:%s' % (m['file'], m['line'], m['col'], m['op'], m['repl'])).encode()).hexdigest()[:8]
    return h


def cmd_gen(args):
    os.makedirs(OUT, exist_ok=True)
    allm = []
    per = {}
    for rel in sorted(target_files()):
        src = open(os.path.join(REPO, rel)).read()
        ms = enumerate_file(rel, src)
        for m in ms:
            m['id'] = mutant_id(m)
        per[rel] = len(ms)
        allm += ms
    rng = random.Random(args.seed)
    # literal tables (a line with more than 6 integer literals): keep 2 LIT mutants of the line
    byline = {}
    for m in allm:
        if m['op'] == 'LIT':
            byline.setdefault((m['file'], m['line']), []).append(m)
    dropped = set()
    for k, ms in sorted(byline.items()):
        if len(ms) > 12:
            keep = set(x['id'] for x in rng.sample(ms, 2))
            dropped |= set(x['id'] for x in ms) - keep
    allm = [m for m in allm if m['id'] not in dropped]
    per = {}
    for m in allm:
        per[m['file']] = per.get(m['file'], 0) + 1
    rng.shuffle(allm)
    with open(os.path.join(OUT, 'mutants.jsonl'), 'w') as f:
        for m in allm:
            f.write(json.dumps(m) + '\n')
    ops = {}
    for m in allm:
        ops[m['op']] = ops.get(m['op'], 0) + 1
    print('mutants:', len(allm), 'ops:', ops)
    for k, v in sorted(per.items()):
        print('  %-24s %d' % (k, v))


DATA = os.path.join(ROOT, 'tools', 'mutation-data')   # committed copies of the stage files


def load(name):
    p = os.path.join(OUT, name)
    if not os.path.exists(p):
        p = os.path.join(DATA, name)
    if not os.path.exists(p):
        return []
    return [json.loads(l) for l in open(p) if l.strip()]


def apply_mutant(tree, m):
    p = os.path.join(tree, m['file'])
    lines = open(os.path.join(REPO, m['file'])).read().split('\n')
    assert lines[m['line'] - 1] == m['old_line'], 'source changed under the mutant'
    if m['new_line'] is None:
        # keep line numbers stable: an empty line
        lines[m['line'] - 1] = ''
    else:
        lines[m['line'] - 1] = m['new_line']
    open(p, 'w').write('\n'.join(lines))


def restore(tree, m):
    shutil.copyfile(os.path.join(REPO, m['file']), os.path.join(tree, m['file']))


def make_tree(k):
    t = '/tmp/mutrepo-%s' % k
    if os.path.isdir(t):
        sh(['git', '-C', REPO, 'worktree', 'remove', '--force', t])
        shutil.rmtree(t, ignore_errors=True)
    rc, out = sh(['git', '-C', REPO, 'worktree', 'add', '--detach', t, 'HEAD'])
    if rc != 0:
        raise SystemExit('cannot create scratch tree: ' + out)
    return t


def drop_tree(t):
    sh(['git', '-C', REPO, 'worktree', 'remove', '--force', t])
    shutil.rmtree(t, ignore_errors=True)
    sh(['git', '-C', REPO, 'worktree', 'prune'])


def pkg_of(rel):
    d = os.path.dirname(rel)
    return './' + d if d else '.'


def norm_vet(out, tree):
    ls = set()
    for l in out.split('\n'):
        l = l.strip().replace(tree + '/', '')
        if not l or l.startswith('#'):
            continue
        ls.add(re.sub(r':\d+:\d+:', ':', l))
    return ls


# ------------------------------------------------------------------ stage A
def stage_a_one(tree, m, vet_base):
    apply_mutant(tree, m)
    try:
        rc, out = sh(['gofmt', '-e', '-l', m['file']], cwd=tree, timeout=60)
        if rc != 0:
            return 'nobuild', out[-300:]
        rc, out = sh('go build ./... && go build -tags verif ./...', cwd=tree, timeout=300)
        if rc != 0:
            return 'nobuild', out[-300:]
        rc, out = sh(['go', 'vet', pkg_of(m['file'])], cwd=tree, timeout=300)
        new = norm_vet(out, tree) - vet_base
        if new:
            return 'novet', ' | '.join(sorted(new))[:300]
        rc, out = sh(['go', 'test', '-vet=off', '-count=1', '-timeout', '90s', './...'], cwd=tree, timeout=240)
        if rc != 0:
            fails = re.findall(r'^(?:--- FAIL: \S+|panic: .*|FAIL\s+\S+.*)$', out, re.M)
            return 'killed', ' | '.join(fails[:4])[:300]
        return 'survived', ''
    finally:
        restore(tree, m)


def cmd_tests(args):
    os.makedirs(OUT, exist_ok=True)
    muts = load('mutants.jsonl')
    if args.limit:
        muts = muts[:args.limit]
    done = {r['id'] for r in load('stageA.jsonl')}
    todo = [m for m in muts if m['id'] not in done]
    print('stage A: %d mutants, %d already done, %d to do' % (len(muts), len(muts) - len(todo), len(todo)), flush=True)
    q = queue.Queue()
    for m in todo:
        q.put(m)
    lock = threading.Lock()
    outf = open(os.path.join(OUT, 'stageA.jsonl'), 'a')
    t_end = time.time() + args.minutes * 60 if args.minutes else None

    def worker(k):
        tree = make_tree('a%d' % k)
        try:
            rc, out = sh(['go', 'vet', './...'], cwd=tree, timeout=600)
            vet_base = norm_vet(out, tree)
            while True:
                if t_end and time.time() > t_end:
                    return
                try:
                    m = q.get_nowait()
                except queue.Empty:
                    return
                t0 = time.time()
                try:
                    st, info = stage_a_one(tree, m, vet_base)
                except Exception as e:   # noqa
                    st, info = 'error', repr(e)[:300]
                with lock:
                    outf.write(json.dumps({'id': m['id'], 'file': m['file'], 'line': m['line'], 'op': m['op'],
                                           'descr': m['descr'], 'status': st, 'info': info,
                                           'secs': round(time.time() - t0, 1)}) + '\n')
                    outf.flush()
        finally:
            drop_tree(tree)

    ths = [threading.Thread(target=worker, args=(k,)) for k in range(args.jobs)]
    for t in ths:
        t.start()
    for t in ths:
        t.join()
    res = load('stageA.jsonl')
    cnt = {}
    for r in res:
        cnt[r['status']] = cnt.get(r['status'], 0) + 1
    print('stage A totals:', cnt)


# ------------------------------------------------------------------ stage B
def run_check(vdir, tree, pid, timeout=1200):
    env = dict(ENV, VERIF_REPO=tree)
    rc, out = sh(['./check', pid], cwd=vdir, timeout=timeout, env=env)
    viol_lines = [l for l in out.split('\n') if l.startswith('VIOLATION ')]
    detail = [l.strip() for l in out.split('\n') if re.match(r'^\s+(violation|proof|correspondence|build):', l)]
    if rc == 124:
        return 'timeout', 'check timed out'
    if not viol_lines and rc == 0:
        return 'clean', ''
    if not viol_lines:
        return 'error', out[-400:]
    with_input = [l for l in viol_lines if not l.rstrip().endswith('no-failing-input-found')]
    kind = 'Viol' if with_input else 'obligation-only'
    return kind, ' | '.join(detail[:3])[:400]


def stage_b_one(vdir, tree, m, props=None):
    apply_mutant(tree, m)
    trail = []
    try:
        for pid in (props or FILE_PROPS[m['file']]):
            t0 = time.time()
            kind, info = run_check(vdir, tree, pid)
            trail.append({'check': pid, 'result': kind, 'secs': round(time.time() - t0, 1), 'info': info})
            if kind in ('Viol', 'obligation-only'):
                return {'verdict': 'detected', 'by': pid, 'how': kind, 'trail': trail}
            if kind == 'timeout':
                # a check that no longer terminates on the mutant: the run is not silent
                return {'verdict': 'detected', 'by': pid, 'how': 'timeout', 'trail': trail}
        return {'verdict': 'UNDETECTED', 'by': None, 'how': None, 'trail': trail}
    finally:
        restore(tree, m)


def stage_b(args, todo, outname, refill=None):
    workers = args.workers.split(',')
    q = queue.Queue()
    for m in todo:
        q.put(m)
    lock = threading.Lock()
    outf = open(os.path.join(OUT, outname), 'a')
    t_end = time.time() + args.minutes * 60 if args.minutes else None

    def worker(k, vdir):
        tree = make_tree('%s%d' % (getattr(args, 'tag', None) or 'b', k))
        try:
            while True:
                if t_end and time.time() > t_end:
                    return
                try:
                    m = q.get_nowait()
                except queue.Empty:
                    if refill is None or not refill(q):
                        return
                    continue
                t0 = time.time()
                try:
                    r = stage_b_one(vdir, tree, m, args.props.split(',') if getattr(args, 'props', None) else None)
                except Exception as e:  # noqa
                    r = {'verdict': 'error', 'by': None, 'how': repr(e)[:300], 'trail': []}
                r.update({'id': m['id'], 'file': m['file'], 'line': m['line'], 'op': m['op'], 'descr': m['descr'],
                          'secs': round(time.time() - t0, 1)})
                with lock:
                    outf.write(json.dumps(r) + '\n')
                    outf.flush()
                    print('%s %s:%d %s => %s %s %s (%.0fs)' % (m['id'], m['file'], m['line'], m['descr'][:50], r['verdict'],
                                                             r['by'] or '', r['how'] or '', r['secs']), flush=True)
        finally:
            # leave the worker's generated Coq files as for the unchanged tree
            drop_tree(tree)

    ths = [threading.Thread(target=worker, args=(k, v)) for k, v in enumerate(workers)]
    for t in ths:
        t.start()
    for t in ths:
        t.join()


def cmd_checks(args):
    muts = load('mutants.jsonl')
    order = {m['id']: i for i, m in enumerate(muts)}
    byid = {m['id']: m for m in muts}
    queued = {r['id'] for r in load('stageB.jsonl')}
    lock = threading.Lock()

    def pending():
        a = load('stageA.jsonl')
        surv = sorted((r['id'] for r in a if r['status'] == 'survived' and r['id'] not in queued), key=lambda i: order[i])
        if args.only:
            surv = [i for i in args.only.split(',') if i in byid and i not in queued]
        return surv

    def refill(q):
        """stage A may still be running: pick up new survivors; wait while it is alive."""
        with lock:
            for _ in range(40):
                if args.limit and len(queued) >= args.limit:
                    return False
                new = pending()
                if new:
                    for i in new:
                        if args.limit and len(queued) >= args.limit:
                            break
                        queued.add(i)
                        q.put(byid[i])
                    return True
                if not args.follow or args.only:
                    return False
                time.sleep(15)
            return False

    first = pending()
    if args.limit:
        first = first[:max(0, args.limit - len(queued))]
    print('stage B: %d done before, %d queued now' % (len(queued), len(first)), flush=True)
    for i in first:
        queued.add(i)
    stage_b(args, [byid[i] for i in first], 'stageB.jsonl', refill)


def cmd_recheck(args):
    muts = {m['id']: m for m in load('mutants.jsonl')}
    todo = [muts[i] for i in args.ids.split(',')]
    stage_b(args, todo, args.out)


def cmd_show(args):
    muts = {m['id']: m for m in load('mutants.jsonl')}
    m = muts[args.id]
    print('%s:%d  [%s] %s' % (m['file'], m['line'], m['op'], m['descr']))
    print('- ' + m['old_line'])
    print('+ ' + (m['new_line'] if m['new_line'] is not None else '(deleted)'))
    for r in load('stageB.jsonl') + load('stageB2.jsonl'):
        if r['id'] == m['id']:
            print(json.dumps(r, indent=1))


def cmd_apply(args):
    muts = {m['id']: m for m in load('mutants.jsonl')}
    apply_mutant(args.tree, muts[args.id])
    print('applied', args.id, 'to', args.tree)


# ------------------------------------------------------------------ report
def cmd_report(args):
    muts = load('mutants.jsonl')
    a = {r['id']: r for r in load('stageA.jsonl')}
    b = {r['id']: r for r in load('stageB.jsonl')}
    b2 = {}
    for r in load('stageB2.jsonl'):
        b2[r['id']] = r
    bx = {}
    for r in load('stageBx.jsonl'):
        if r['verdict'] == 'detected' or r['id'] not in bx:
            bx[r['id']] = r
    tri_p = os.path.join(ROOT, 'tools', 'mutation-triage.json')
    tri = json.load(open(tri_p)) if os.path.exists(tri_p) else {}
    files = sorted(FILE_PROPS)
    rows = []
    tot = [0] * 10
    for f in files:
        gen = [m for m in muts if m['file'] == f]
        ev = [m for m in gen if m['id'] in a]
        nb = sum(1 for m in ev if a[m['id']]['status'] in ('nobuild', 'novet', 'error'))
        killed = sum(1 for m in ev if a[m['id']]['status'] == 'killed')
        surv = [m for m in ev if a[m['id']]['status'] == 'survived']
        evb = [m for m in surv if m['id'] in b and b[m['id']]['verdict'] in ('detected', 'UNDETECTED')]
        det = sum(1 for m in evb if b[m['id']]['verdict'] == 'detected')
        und = [m for m in evb if b[m['id']]['verdict'] == 'UNDETECTED']
        eq = sum(1 for m in und if tri.get(m['id'], {}).get('class') == 'equivalent')
        closed = sum(1 for m in und if tri.get(m['id'], {}).get('class') == 'gap-closed')
        opn = sum(1 for m in und if tri.get(m['id'], {}).get('class') == 'gap-open')
        els = sum(1 for m in und if tri.get(m['id'], {}).get('class') == 'detected-elsewhere')
        untri = len(und) - eq - closed - opn - els
        row = [len(gen), len(ev), nb, killed, len(evb), det, els, eq, closed, opn]
        tot = [x + y for x, y in zip(tot, row)]
        rows.append((f, row, untri))
    L = []
    L.append('# Mutation testing of the verification machinery (tools/mutate.py)\n')
    L.append('Source: /repo at `%s`. One textual change per mutant; operators ROR, LCR, AOR, LIT, NOT, COND, DEL, RETNIL '
             '(see the doc string of tools/mutate.py). Mutants were shuffled with a fixed seed and evaluated in that order, '
             'so every file is sampled in proportion to its mutant count.\n' % sh(['git', '-C', REPO, 'rev-parse', '--short', 'HEAD'])[1].strip())
    L.append('Columns: generated = all mutants the operators yield; sampled = put through stage A (build, vet, library test-suite); '
             'invalid = does not build / new vet warning; killed = the library\'s own tests fail; evaluated = test survivors put through '
             'the checks of the file\'s properties; detected = some `./check Cxx` reports it; the last three columns classify the '
             'UNDETECTED survivors after triage.\n')
    L.append('| file | generated | sampled | invalid | killed by tests | survivors evaluated | detected | detected by a check outside the file list | undetected: equivalent / outside | undetected: gap closed | undetected: gap open |')
    L.append('|---|---|---|---|---|---|---|---|---|---|---|')
    for f, row, untri in rows:
        L.append('| %s | %s |' % (f, ' | '.join(str(x) for x in row)) + (' (untriaged %d)' % untri if untri else ''))
    L.append('| **total** | %s |' % ' | '.join('**%d**' % x for x in tot))
    L.append('')
    # detection modes
    how = {}
    bycheck = {}
    for r in b.values():
        if r['verdict'] == 'detected':
            how[r['how']] = how.get(r['how'], 0) + 1
            bycheck[r['by']] = bycheck.get(r['by'], 0) + 1
    L.append('Detected mutants by mode: ' + ', '.join('%s %d' % kv for kv in sorted(how.items())) + '.  ')
    L.append('By first detecting check: ' + ', '.join('%s %d' % kv for kv in sorted(bycheck.items())) + '.\n')
    # by operator
    L.append('| operator | survivors evaluated | detected | undetected |')
    L.append('|---|---|---|---|')
    ops = {}
    for r in b.values():
        if r['verdict'] not in ('detected', 'UNDETECTED'):
            continue
        o = ops.setdefault(r['op'], [0, 0, 0])
        o[0] += 1
        o[1 if r['verdict'] == 'detected' else 2] += 1
    for k, v in sorted(ops.items()):
        L.append('| %s | %d | %d | %d |' % (k, v[0], v[1], v[2]))
    L.append('')
    for cls, title in (('gap-closed', 'Gaps found and closed (undetected before, detected after the additions)'),
                       ('gap-open', 'Gaps left open'),
                       ('detected-elsewhere', 'Undetected by the checks listed for the file, detected by another property\'s check'),
                       ('equivalent', 'Undetected: equivalent, or outside every property')):
        L.append('## ' + title + '\n')
        L.append('| mutant | location | change | ' + ('missing input class / how closed | now detected by |' if cls in ('gap-closed', 'gap-open') else 'reason |'))
        L.append('|---|---|---|---|' + ('---|' if cls in ('gap-closed', 'gap-open') else ''))
        for m in muts:
            t = tri.get(m['id'])
            if not t or t.get('class') != cls or m['id'] not in b or b[m['id']]['verdict'] != 'UNDETECTED':
                continue
            d = m['descr'].replace('|', '\\|').replace('`', "'")
            if cls in ('equivalent', 'detected-elsewhere'):
                L.append('| %s | %s:%d | `%s` | %s |' % (m['id'], m['file'], m['line'], d, t.get('reason', '')))
            else:
                r2 = b2.get(m['id'])
                now = ('%s (%s)' % (r2['by'], r2['how'])) if r2 and r2['verdict'] == 'detected' else ('still undetected' if r2 else 'not re-run')
                L.append('| %s | %s:%d | `%s` | %s | %s |' % (m['id'], m['file'], m['line'], d, t.get('reason', ''), now))
        L.append('')
    notes = os.path.join(ROOT, 'tools', 'mutation-notes.md')
    if os.path.exists(notes):
        L.append(open(notes).read())
    L.append('## All evaluated survivors\n')
    L.append('| mutant | location | op | change | verdict |')
    L.append('|---|---|---|---|---|')
    for m in muts:
        r = b.get(m['id'])
        if not r:
            continue
        v = r['verdict'] if r['verdict'] != 'detected' else 'detected by %s (%s)' % (r['by'], r['how'])
        if r['verdict'] == 'UNDETECTED':
            v += ' - ' + tri.get(m['id'], {}).get('class', 'untriaged')
        L.append('| %s | %s:%d | %s | `%s` | %s |' % (m['id'], m['file'], m['line'], m['op'], m['descr'].replace('|', '\\|').replace('`', "'")[:90], v))
    open(os.path.join(ROOT, 'tools', 'mutation-results.md'), 'w').write('\n'.join(L) + '\n')
    print('\n'.join(L[:40]))


def main():
    ap = argparse.ArgumentParser()
    sub = ap.add_subparsers(dest='cmd')
    p = sub.add_parser('gen'); p.add_argument('--seed', type=int, default=20261001)
    p = sub.add_parser('tests'); p.add_argument('--jobs', type=int, default=8); p.add_argument('--limit', type=int, default=0)
    p.add_argument('--minutes', type=float, default=0)
    p = sub.add_parser('checks'); p.add_argument('--workers', required=True); p.add_argument('--limit', type=int, default=0)
    p.add_argument('--minutes', type=float, default=0); p.add_argument('--only', default=''); p.add_argument('--follow', action='store_true')
    p = sub.add_parser('recheck'); p.add_argument('--workers', required=True); p.add_argument('--ids', required=True)
    p.add_argument('--out', default='stageB2.jsonl'); p.add_argument('--props', default=''); p.add_argument('--tag', default='r'); p.add_argument('--minutes', type=float, default=0)
    p = sub.add_parser('show'); p.add_argument('id')
    p = sub.add_parser('apply'); p.add_argument('id'); p.add_argument('tree')
    sub.add_parser('report')
    args = ap.parse_args()
    if not args.cmd:
        print(__doc__)
        return 2
    return {'gen': cmd_gen, 'tests': cmd_tests, 'checks': cmd_checks, 'recheck': cmd_recheck, 'show': cmd_show,
            'apply': cmd_apply, 'report': cmd_report}[args.cmd](args)


if __name__ == '__main__':
    sys.exit(main() or 0)
