#!/bin/sh
# tools/mkworktree.sh <name> [--detach]
# A scratch git worktree of /verif at /tmp/vw-<name> (branch wt-<name>, or detached), with the
# build output of /verif copied over so that `make setup` there is incremental (about a minute)
# instead of a clean build.  One ./check at a time per worktree (shared build artefacts).
set -e
name=$1
[ -n "$name" ] || { echo "usage: $0 <name> [--detach]"; exit 2; }
W=/tmp/vw-$name
cd /verif
if [ "$2" = "--detach" ]; then
  git worktree add -q --detach "$W" HEAD
else
  git worktree add -q -b "wt-$name" "$W" HEAD
fi
# build output: Coq objects, generated sources, extracted OCaml, checker and harness binaries
rsync -a --include='*/' --include='*.vo' --include='*.vos' --include='*.vok' --include='*.glob' \
      --include='.*.aux' --include='.lia.cache' --exclude='*' coq/ "$W/coq/"
cp -a coq/gen/Extracted.v coq/gen/Translated.v coq/gen/Translated2.v coq/gen/Translated3.v "$W/coq/gen/" 2>/dev/null || true
for f in Makefile Makefile.conf .Makefile.d _CoqProject; do [ -e coq/$f ] && cp -a coq/$f "$W/coq/$f"; done
mkdir -p "$W/.work" "$W/ocaml"
[ -d ocaml/gen ] && cp -a ocaml/gen "$W/ocaml/"
[ -e ocaml/checker ] && cp -a ocaml/checker "$W/ocaml/"
for f in ocaml/*.cm* ocaml/*.o; do [ -e "$f" ] && cp -a "$f" "$W/ocaml/"; done
cp -a .work/harness-verif* "$W/.work/" 2>/dev/null || true
[ -e .work/checker.stamp ] && cp -a .work/checker.stamp "$W/.work/"
cp -a harness/go.sum "$W/harness/" 2>/dev/null || true
# make the copied objects newer than the freshly checked-out sources
find "$W/coq" \( -name '*.vo' -o -name '*.vos' -o -name '*.vok' -o -name '*.glob' -o -name '.*.aux' \) -exec touch {} +
touch "$W"/ocaml/gen/* "$W"/ocaml/checker "$W"/.work/* 2>/dev/null || true
echo "$W"
