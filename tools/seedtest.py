#!/usr/bin/env python3
"""tools/seedtest.py <seed-dir> [<property-id>] [--tier quick|thorough]

Evaluates one seeded change (directory with patch.diff, demo/, notes.md):
  1. scratch git worktree of /repo (outside /repo and /verif), apply patch.diff;
  2. the existing test-suite must still pass with the change;
  3. the demonstration must FAIL with the change and PASS without it;
  4. ./check <property> with VERIF_REPO pointing at the scratch worktree: is it reported?
  5. the worktree and its build output are removed.
Prints a JSON summary; used to fill /verif/seeded/<id>/meta.json.
"""
import sys, os, json, subprocess, shutil, glob, re, time

ROOT = os.path.dirname(os.path.dirname(os.path.abspath(__file__)))
ENV = dict(os.environ, GOFLAGS='-mod=mod', GOPROXY='off', GOSUMDB='off', GOTOOLCHAIN='local')


def sh(cmd, cwd=None, env=None, timeout=1800):
    r = subprocess.run(cmd, shell=True, cwd=cwd, env=env or ENV, stdout=subprocess.PIPE, stderr=subprocess.STDOUT, text=True, timeout=timeout)
    return r.returncode, r.stdout


def place_demo(seed, wt):
    """copy demo files to where notes say; heuristic: *_test.go -> directory named in a '// place:' comment,
    else by package clause."""
    placed = []
    for f in sorted(glob.glob(os.path.join(seed, 'demo', '**', '*'), recursive=True)):
        if os.path.isdir(f) or not f.endswith('.go'):
            continue
        src = open(f, errors='replace').read()
        rel = os.path.relpath(f, os.path.join(seed, 'demo'))
        target_dir = None
        m = re.search(r'^//\s*place(?: in)?:\s*(\S+)', src, re.M | re.I)
        if m:
            target_dir = m.group(1).strip('/')
            if target_dir in ('.', 'root', 'repo'):
                target_dir = ''
        elif os.path.dirname(rel):
            target_dir = os.path.dirname(rel)
        else:
            pm = re.search(r'^package\s+(\w+)', src, re.M)
            pkg = pm.group(1) if pm else 'ws'
            pkg = pkg[:-5] if pkg.endswith('_test') else pkg
            target_dir = {'ws': '', 'wsutil': 'wsutil', 'wsflate': 'wsflate', 'tests': 'tests', 'main': '_seeddemo'}.get(pkg, '')
        dst = os.path.join(wt, target_dir, os.path.basename(f))
        os.makedirs(os.path.dirname(dst), exist_ok=True)
        shutil.copyfile(f, dst)
        placed.append(os.path.relpath(dst, wt))
    return placed


def run_demo(wt, placed):
    dirs = sorted(set(os.path.dirname(p) for p in placed))
    out_all, rc_all = '', 0
    for d in dirs:
        names = [os.path.basename(p) for p in placed if os.path.dirname(p) == d]
        if any(n.endswith('_test.go') for n in names):
            # run only the tests defined in the demo files
            tests = []
            for n in names:
                tests += re.findall(r'^func (Test\w+)', open(os.path.join(wt, d, n)).read(), re.M)
            pat = '^(' + '|'.join(tests) + ')$' if tests else '.'
            # a demonstration may need the race detector (it says so in its first lines: "needs: -race" / "-race")
            race = any('-race' in ''.join(open(os.path.join(wt, d, n), errors='replace').readlines()[:8]) for n in names)
            rc, out = sh("go test %s-vet=off -count=1 -run '%s' ./%s" % ('-race ' if race else '', pat, d or '.'), cwd=wt, timeout=900)
        else:
            rc, out = sh("go run ./%s" % d, cwd=wt, timeout=900)
        out_all += out
        rc_all = rc_all or rc
    return rc_all, out_all


def main():
    args = [a for a in sys.argv[1:] if not a.startswith('--')]
    tier = 'quick'
    if '--tier' in sys.argv:
        tier = sys.argv[sys.argv.index('--tier') + 1]
        args = [a for a in args if a != tier]
    seed = os.path.abspath(args[0])
    pid = args[1] if len(args) > 1 else os.path.basename(seed.rstrip('/'))[:3]
    wt = '/tmp/seedtest-%s-%d' % (os.path.basename(seed), os.getpid())
    res = {'seed': os.path.basename(seed), 'property': pid, 'tier': tier}
    sh('git -C /repo worktree add -q %s HEAD' % wt)
    try:
        # demo on the clean tree
        placed = place_demo(seed, wt)
        res['demo_files'] = placed
        rc0, out0 = run_demo(wt, placed)
        res['demo_passes_without_change'] = (rc0 == 0)
        if rc0 != 0:
            res['demo_clean_output'] = out0[-800:]
        for p in placed:
            os.remove(os.path.join(wt, p))
        rc, out = sh('git apply --whitespace=nowarn %s' % os.path.join(seed, 'patch.diff'), cwd=wt)
        res['patch_applies'] = (rc == 0)
        if rc != 0:
            res['apply_output'] = out[-500:]
            return res
        rc, out = sh('go build ./... && go test -vet=off -count=1 ./...', cwd=wt, timeout=1200)
        res['suite_passes_with_change'] = (rc == 0)
        if rc != 0:
            res['suite_output'] = out[-800:]
        place_demo(seed, wt)
        rc1, out1 = run_demo(wt, placed)
        res['demo_fails_with_change'] = (rc1 != 0)
        for p in placed:
            os.remove(os.path.join(wt, p))
        shutil.rmtree(os.path.join(wt, '_seeddemo'), ignore_errors=True)
        t0 = time.time()
        rc, out = sh('./check %s --tier %s' % (pid, tier), cwd=ROOT, env=dict(ENV, VERIF_REPO=wt), timeout=3500)
        res['check_exit'] = rc
        res['check_wall_s'] = round(time.time() - t0, 1)
        res['check_violation_lines'] = [l for l in out.split('\n') if l.startswith('VIOLATION')][:3]
        res['check_messages'] = [l.strip() for l in out.split('\n') if l.startswith('  ')][:4]
        res['detected'] = (rc == 1 and bool(res['check_violation_lines']))
        res['detected_with_input'] = res['detected'] and any('no-failing-input-found' not in l for l in res['check_violation_lines'])
        # keep the replay of the first violation for meta.json
        m = re.search(r'replay=(\S+)', '\n'.join(res['check_violation_lines']))
        if m and os.path.exists(m.group(1)):
            res['replay_excerpt'] = open(m.group(1)).read()[:600]
    finally:
        sh('git -C /repo worktree remove --force %s' % wt)
        shutil.rmtree(wt, ignore_errors=True)
    return res


if __name__ == '__main__':
    r = main()
    print(json.dumps(r, indent=1))
