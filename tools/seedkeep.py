#!/usr/bin/env python3
"""tools/seedkeep.py <seed-id>...  — copy a CONFIRMED seeded change from /tmp/seedout/<id> and its
evaluation .work/seedres/<id>.json into /verif/seeded/<id>/ (patch.diff, demo/, notes.md, meta.json)."""
import sys, os, json, shutil, re
ROOT = os.path.dirname(os.path.dirname(os.path.abspath(__file__)))
SEEDDIR = os.environ.get('SEEDDIR', '/tmp/seedout')
SEEDRES = os.environ.get('SEEDRES', 'seedres')
PREFIX = os.environ.get('SEEDPREFIX', '')
for sid in sys.argv[1:]:
    src = os.path.join(SEEDDIR, sid)
    rp = os.path.join(ROOT, '.work', SEEDRES, sid + '.json')
    if not (os.path.isdir(src) and os.path.exists(rp)):
        print(sid, 'missing'); continue
    r = json.load(open(rp))
    confirmed = r.get('patch_applies') and r.get('suite_passes_with_change') and r.get('demo_passes_without_change') and r.get('demo_fails_with_change')
    if not confirmed:
        print(sid, 'NOT confirmed, skipped:', {k: r.get(k) for k in ('patch_applies', 'suite_passes_with_change', 'demo_passes_without_change', 'demo_fails_with_change')}); continue
    dst = os.path.join(ROOT, 'seeded', PREFIX + sid)
    shutil.rmtree(dst, ignore_errors=True)
    os.makedirs(dst)
    shutil.copyfile(os.path.join(src, 'patch.diff'), os.path.join(dst, 'patch.diff'))
    if os.path.isdir(os.path.join(src, 'demo')):
        shutil.copytree(os.path.join(src, 'demo'), os.path.join(dst, 'demo'))
    notes = open(os.path.join(src, 'notes.md'), errors='replace').read() if os.path.exists(os.path.join(src, 'notes.md')) else ''
    open(os.path.join(dst, 'notes.md'), 'w').write(notes)
    needs = ''
    m = re.search(r'(?is)(needs|trigger|manifest)[^\n]*\n(.{0,700})', notes)
    if m:
        needs = (m.group(0)[:700]).strip()
    meta = {
        'property': r['property'], 'seed': sid,
        'breaks': 'see notes.md (written by the sub-agent that produced the change, given only the property text and a scratch worktree)',
        'needs_to_manifest': needs,
        'confirmed': {'patch_applies_to_repo_head': True, 'existing_suite_passes_with_change': True,
                      'demo_passes_without_change': True, 'demo_fails_with_change': True,
                      'how': 'tools/seedtest.py: scratch git worktree of /repo, git apply, go test ./..., demo run with and without the change'},
        'check': {'cmd': 'VERIF_REPO=<scratch worktree with patch> ./check %s --tier %s' % (r['property'], r.get('tier', 'quick')),
                  'detected': r.get('detected'), 'with_concrete_failing_input': r.get('detected_with_input'),
                  'violation_lines': r.get('check_violation_lines'), 'messages': r.get('check_messages'),
                  'replay_excerpt': r.get('replay_excerpt', '')[:400], 'wall_s': r.get('check_wall_s')},
    }
    if r.get('first_run') is not None:
        # the same check BEFORE the checks were strengthened for this round (see DESIGN 14)
        meta['check_first_run'] = r['first_run']
    if os.environ.get('SEEDREPOCOMMIT'):
        meta['repo_commit_the_patch_applies_to'] = os.environ['SEEDREPOCOMMIT']
    json.dump(meta, open(os.path.join(dst, 'meta.json'), 'w'), indent=1)
    print(sid, 'kept; detected =', r.get('detected'))
