#!/usr/bin/env python3
"""tools/seedtable.py <seeddir> <first-run results dir> <rerun results dir> <merged dir> <added.json>
Merges the first-run evaluation of a round of seeded changes with the re-run after strengthening
(.work/<dir>/<id>.json, written by tools/seedtest.py) into .work/<merged dir>/<id>.json (field first_run =
{detected, with_input, messages}) and prints the DESIGN.md table of the round. added.json maps seed id ->
text of what was added for a seed the first run missed."""
import sys, os, json, re
ROOT = os.path.dirname(os.path.dirname(os.path.abspath(__file__)))
seeddir, first, rerun, merged, addedp = sys.argv[1:6]
added = json.load(open(addedp)) if os.path.exists(addedp) else {}
prefix = sys.argv[6] if len(sys.argv) > 6 else ''
os.makedirs(os.path.join(ROOT, '.work', merged), exist_ok=True)


def load(d, sid):
    p = os.path.join(ROOT, '.work', d, sid + '.json')
    return json.load(open(p)) if os.path.exists(p) else None


def title(sid):
    p = os.path.join(seeddir, sid, 'notes.md')
    if not os.path.exists(p):
        return ''
    for l in open(p, errors='replace'):
        l = l.strip()
        if l.startswith('#'):
            l = l.lstrip('# ').strip()
            l = re.sub(r'^C\d+b?\s*(\([^)]*\))?\s*[-—:]*\s*', '', l)
            l = re.sub(r'^\((round \d+|first change|second change[^)]*)\)\s*[-—:,]*\s*', '', l)
            return l.replace('|', '/')
    return ''


ids = sorted(d for d in os.listdir(seeddir) if os.path.isdir(os.path.join(seeddir, d)) and re.match(r'C\d\d', d))
n_first = n_corr = n_miss = 0
rows = []
for sid in ids:
    f = load(first, sid)
    r = load(rerun, sid) or f
    if f is None:
        continue
    m = dict(r)
    m['first_run'] = {'detected': f.get('detected'), 'with_input': f.get('detected_with_input'), 'messages': f.get('check_messages')}
    json.dump(m, open(os.path.join(ROOT, '.work', merged, sid + '.json'), 'w'), indent=1)
    msg = ''
    for x in (r.get('check_messages') or []):
        if x.startswith('violation:'):
            msg = x[len('violation:'):].strip()
            break
    if not msg and r.get('check_messages'):
        msg = r['check_messages'][0]
    if f.get('detected_with_input'):
        n_first += 1
        how = 'caught at first run'
    elif f.get('detected'):
        n_corr += 1
        how = 'correspondence only → ' + added.get(sid, '')
    else:
        n_miss += 1
        how = 'MISSED → ' + added.get(sid, '')
    fin = 'reported' if r.get('detected_with_input') else ('obligation only' if r.get('detected') else 'NOT DETECTED')
    rows.append('| %s%s | %s | %s | %s | %s |' % (prefix, sid, r.get('property'), title(sid), msg[:140] if fin == 'reported' else fin, how))
print('first run: %d with input, %d correspondence only, %d missed of %d' % (n_first, n_corr, n_miss, len(rows)))
print('| seed | prop | change (from the seeder\'s notes) | reported as | first run / what was added |')
print('|------|------|----------------------------------|-------------|----------------------------|')
print('\n'.join(rows))
