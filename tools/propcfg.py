"""Per-property configuration of the check driver."""

ALLOWED_AXIOMS = []  # none: every theorem must be "Closed under the global context"

TRUSTED_BASE = [
    "Coq 8.16.1 kernel (coqc); vm_compute used for finite-domain lemmas; no native_compute",
    "Axioms: none declared; Print Assumptions of every theorem in props/ must be 'Closed under the global context'",
    "Extraction: ExtrOcamlBasic only (bool/option/unit/prod/list/sumbool -> OCaml); N/Z/positive/nat stay inductive; no Extract Constant",
    "ocaml/base.ml, ocaml/k_*.ml, ocaml/main.ml: line parsing, dispatch, statistics (hand-written glue)",
    "harness/*.go: case generation, drivers around the real packages, observation printing",
    "check + tools/propcfg.py: orchestration, evidence; coq/gen/Extracted.v produced by `harness consts` from the compiled /repo packages",
    "Hand-written Gallina models in coq/model are tied to /repo only by the correspondence run (tie B) and constant regeneration (tie A)",
]

PROPS = {
    'C03': {
        'rule': ("exhaustive: Fin x Rsv(8) x Op(16) x Masked x 9 length classes x 21 states through ws.CheckHeader; "
                 "all 65536 close codes x reason classes through ws.CheckCloseFrameData; NewCloseFrameBody/Parse* for "
                 "reason lengths 0..130 (ASCII, multi-byte straddling the crop, random); all opcode/status predicates; "
                 "Coq UTF-8 spec vs Go unicode/utf8. distinct = distinct observation lines (hash); non-trivial = "
                 "header breaks >=1 rule / non-empty reason / every close-code case"),
        'exhaustive': True,
        'exhaustive_note': 'the header grid (per length class), the 65536 status codes and the 256 opcodes are enumerated completely',
        'assumptions': ["Go's utf8.ValidString is represented by the Table 3-7 spec valid_utf8 (validated by the U8 cases)",
                        "opcodes are 4-bit values (the theorem's h_op < 16); Length is any int64"],
    },
}
