"""Configuration of the check driver. Per-property settings live in tools/cfg/Cxx.json:
  rule, exhaustive, exhaustive_note, assumptions, trusted (extra trusted-base lines),
  tags (go build tags, default "verif"), env, timeout {quick,thorough}, search_rounds,
  claim {text, design_ref, note, technique}   (-> MANIFEST.json via tools/mkmanifest.py)
"""
import json, os, glob

ALLOWED_AXIOMS = []  # none: every theorem must be "Closed under the global context"

TRUSTED_BASE = [
    "Coq 8.16.1 kernel (coqc); vm_compute used for finite-domain lemmas; no native_compute",
    "Axioms: none declared; Print Assumptions of every theorem in props/ must be 'Closed under the global context'",
    "Extraction: ExtrOcamlBasic only (bool/option/unit/prod/list/sumbool -> OCaml); N/Z/positive/nat stay inductive; no Extract Constant",
    "ocaml/base.ml, ocaml/k_*.ml, ocaml/main.ml: line parsing, dispatch, statistics (hand-written glue)",
    "harness/*.go: case generation, drivers around the real packages, observation printing",
    "check + tools/: orchestration, evidence; coq/gen/Extracted.v produced by `harness consts` from the compiled /repo packages",
    "Hand-written Gallina models in coq/model are tied to /repo only by the correspondence run (tie B) and constant regeneration (tie A)",
]

_D = os.path.join(os.path.dirname(os.path.abspath(__file__)), 'cfg')
PROPS = {}
for _p in sorted(glob.glob(os.path.join(_D, 'C*.json'))):
    PROPS[os.path.basename(_p)[:-5]] = json.load(open(_p))
