(* C16 — Truncated or failing transports never yield a complete-looking message.
   Only statements; each closed by [exact]. Read side: per-operation obligations
   (every chunking, EOF or failing tail); write side: see props with the Writer. *)
Require Import Bytes Stream Utf8Spec Check Frame Cipher Utf8Dfa Extracted Reader
  BytesProofs StreamProofs CheckProofs FrameProofs ReaderLocalProofs ReaderCutProofs.
Open Scope N_scope.

(* ws.ReadFrame: a stream cut inside the header or inside the payload never yields a frame *)
Theorem C16_read_frame_cut : forall s h r, wf_src s -> wf_bytes (flat s) ->
  (rfc_parse (flat s) = PIncomplete \/
   (rfc_parse (flat s) = PComplete h r /\ len r < Z.to_N (h_len h))) ->
  exists e s', read_frame s = (inl (HIo e), s').
Proof. exact read_frame_cut. Qed.
Print Assumptions C16_read_frame_cut.

(* a payload read never reports io.EOF while payload bytes are still owed *)
Theorem C16_no_clean_eof_inside_payload : forall k r, 0 < r_rawN r ->
  snd (fst (raw_read k r)) <> Some EEOF.
Proof. exact raw_read_no_clean_eof. Qed.
Print Assumptions C16_no_clean_eof_inside_payload.

(* discarding / draining a cut payload is an error *)
Theorem C16_drain_cut_is_error : forall r, wf_src (r_src r) -> len (flat (r_src r)) < r_rawN r ->
  fst (raw_drain r) <> None.
Proof. exact raw_drain_cut. Qed.
Print Assumptions C16_drain_cut_is_error.

(* the control callback is never handed a silently shortened payload *)
Theorem C16_callback_not_shortened : forall h m k r, wf_src (r_src r) -> len (flat (r_src r)) < r_rawN r ->
  fst (cb_read_all h m k r) <> None /\ r_log (snd (cb_read_all h m k r)) = r_log r.
Proof. exact cb_read_all_cut. Qed.
Print Assumptions C16_callback_not_shortened.

(* a header cut by the end of the stream is an error, and between the fragments
   of a message never a clean io.EOF *)
Theorem C16_cut_header : forall r, wf_src (r_src r) -> wf_bytes (flat (r_src r)) ->
  rfc_parse (flat (r_src r)) = PIncomplete ->
  exists e, snd (fst (next_frame r)) = Some e /\
            (st_fragmented (r_state r) = true -> tl (r_src r) = TEOF -> e = RIo EUnexpected).
Proof. exact next_frame_cut_header. Qed.
Print Assumptions C16_cut_header.

Example C16_nonvacuous :
  let fs := [mkSF false 0 1 None [97; 98]; mkSF true 0 9 None [1; 2; 3; 4; 5]; mkSF true 0 0 None [99]] in
  let cutw := firstn 8 (wire fs) in
  let d := drive 100 [3] (new_reader (bytewise cutw TEOF) 2 false false 0 false CbReadAll) in
  dr_events d = [] /\ dr_err d = RIo EUnexpected /\ dr_partial d = [97; 98].
Proof. vm_compute. repeat split; reflexivity. Qed.

(* ------------------------------------------------------------------------------------
   Write side.  [op_wf], [steps_of] are defined in proofs/WriterFrameProofs.v, [op_small]
   in proofs/WriterFailProofs.v. *)
Require Import Writer CipherProofs WriterInv WriterFrameProofs WriterFailProofs.

(* for EVERY failing write index (d_fail_at = Some k, any k) and every history without
   Reset from a writer that has not sent anything: once an operation reported the destination
   error every later Write/WriteThrough/FlushFragment/Flush reports an error and NO further
   destination write is attempted; what was delivered is whole frames followed by at most
   the header of one more frame, never a hole *)
Theorem C16_write_side_sticky_failure : forall ops w0,
  w_op w0 < 16 -> w_buf w0 = [] -> Forall wf_key (w_masks w0) -> d_calls (w_dest w0) = [] ->
  Forall op_wf ops -> Forall op_small ops ->
  c16w_monitor (steps_of ops (fst (run_wops ops w0))) (dest_log (w_dest (snd (run_wops ops w0)))) = true.
Proof. exact c16w_monitor_fresh. Qed.
Print Assumptions C16_write_side_sticky_failure.

(* ------------------------------------------------------------------ stream level *)
Require Import ReaderAux ReaderMoreProofs.

(* C16, read side, at stream level ([cut_monitor], coq/model/Reader.v): the Reader.wire
   bytes of a frame sequence the spec accepts completely are cut after ANY number
   [cut] of bytes, the transport then reports io.EOF or fails ([t]), under every
   chunking of the bytes that do arrive and all caller buffer sizes: the canonical
   NextFrame / read-to-EOF loop delivers the frames wholly before the cut exactly
   as the spec says, reports nothing of the cut frame as a message and hands
   nothing of it to the control callback, and its final error is not a clean
   io.EOF — except when the cut falls on a frame boundary, or inside a header,
   outside a message. The fuel bound excludes the out-of-fuel artefact
   wherever the monitor asks for a definite error. *)
Theorem C16_cut_stream : forall c fs cut t s bufs fuel,
  wf_cfg c -> Forall wf_sframe fs -> sr_out (spec_run c 0 None [] fs) = OClean ->
  (cut <= length (Reader.wire fs))%nat ->
  wf_src s -> tl s = t -> flat s = firstn cut (Reader.wire fs) -> (cut + 2 <= fuel)%nat ->
  let d := drive fuel bufs (new_reader s (c_state c) false (c_check_utf8 c) (c_max c) (c_ext c) CbReadAll) in
  cut_monitor c true fs (N.of_nat cut) (match t with TFail => true | TEOF => false end) (dr_events d) (dr_err d) = true.
Proof. exact cut_stream. Qed.
Print Assumptions C16_cut_stream.

(* the same holds for EVERY frame sequence, valid or not: when a frame wholly
   before the cut breaks a rule, the loop stops there with the spec's error class *)
Theorem C16_cut_stream_any : forall c fs cut t s bufs fuel,
  wf_cfg c -> Forall wf_sframe fs -> (cut <= length (Reader.wire fs))%nat ->
  wf_src s -> tl s = t -> flat s = firstn cut (Reader.wire fs) -> (cut + 2 <= fuel)%nat ->
  let d := drive fuel bufs (new_reader s (c_state c) false (c_check_utf8 c) (c_max c) (c_ext c) CbReadAll) in
  cut_monitor c true fs (N.of_nat cut) (match t with TFail => true | TEOF => false end) (dr_events d) (dr_err d) = true.
Proof. exact cut_stream_any. Qed.
Print Assumptions C16_cut_stream_any.

Example C16_cut_stream_nonvacuous :
  let fs := [mkSF false 0 1 None [97; 98]; mkSF true 0 9 None [1; 2; 3; 4; 5]; mkSF true 0 0 None [99];
             mkSF true 0 2 None [1; 2; 3]] in
  let c := mkCfg 2 false 0 false in
  let run (cut : nat) (t : tail) :=
    drive (cut + 2) [3] (new_reader (mkSrc (chunk_by [3; 1; 4] (firstn cut (Reader.wire fs))) t)
                                    (c_state c) false (c_check_utf8 c) (c_max c) (c_ext c) CbReadAll) in
  let done := [mkEv 9 [1; 2; 3; 4; 5] true false; mkEv 1 [97; 98; 99] false false] in
  sr_out (spec_run c 0 None [] fs) = OClean /\ length (Reader.wire fs) = 19%nat /\
  (* cut inside the payload of the last frame *)
  dr_events (run 18%nat TEOF) = done /\ dr_err (run 18%nat TEOF) = RIo EUnexpected /\
  cut_monitor c true fs 18 false (dr_events (run 18%nat TEOF)) (dr_err (run 18%nat TEOF)) = true /\
  (* the monitor refuses a shortened message, a lost event and a clean end there *)
  cut_monitor c true fs 18 false (done ++ [mkEv 2 [1; 2] false false]) (RIo EUnexpected) = false /\
  cut_monitor c true fs 18 false [mkEv 1 [97; 98; 99] false false] (RIo EUnexpected) = false /\
  cut_monitor c true fs 18 false done (RIo EEOF) = false /\
  (* cut at the frame boundary before it: clean EOF, but not with a failing transport *)
  dr_err (run 14%nat TEOF) = RIo EEOF /\ dr_err (run 14%nat TFail) = RIo EFail /\
  cut_monitor c true fs 14 true done (RIo EEOF) = false /\
  (* cut inside the message: the ping was delivered, the message was not *)
  dr_events (run 11%nat TFail) = [mkEv 9 [1; 2; 3; 4; 5] true false] /\ dr_err (run 11%nat TFail) = RIo EFail.
Proof. vm_compute. repeat split; reflexivity. Qed.

(* ------------------------------------------------------------------ control handlers *)
Require Import Handler HandlerCutProofs.

(* wsutil.ControlHandler.Handle on a source that ends (io.EOF or failure) BEFORE the announced
   payload length: for either side (every state), ping / pong / close, announced length 1..125,
   ANY bytes delivered (fewer than announced), any source ciphering, io.Copy chunking and mask
   oracle: the handler returns the I/O error (io.EOF only when not a single payload byte came,
   io.ErrUnexpectedEOF otherwise, the transport's error for a failing one) and NOTHING is written
   to the destination: no pong echoing a shortened payload, no close reply. *)
Theorem C16_handler_cut_payload : forall state unmask h avail t copy_sizes masks res d',
  (h_op h = 8 \/ h_op h = 9 \/ h_op h = 10) ->
  0 < Z.to_N (h_len h) -> Z.to_N (h_len h) <= 125 -> len avail < Z.to_N (h_len h) ->
  handle state unmask h avail t copy_sizes masks (mkDest [] None) = (res, d') ->
  res = HIoErr (match t with TFail => EFail | TEOF => if len avail =? 0 then EEOF else EUnexpected end) /\
  dest_log d' = [].
Proof. exact handle_cut_payload. Qed.
Print Assumptions C16_handler_cut_payload.

Example C16_handler_cut_nonvacuous :
  handle 1 true (mkHeader true 0 9 true [1; 2; 3; 4] 5) [1; 2; 3] TEOF [2] [] (mkDest [] None)
    = (HIoErr EUnexpected, mkDest [] None) /\
  handle 2 false (mkHeader true 0 8 false zero_mask 2) [3] TFail [] [] (mkDest [] None)
    = (HIoErr EFail, mkDest [] None) /\
  handle 2 false (mkHeader true 0 10 false zero_mask 4) [] TEOF [] [] (mkDest [] None)
    = (HIoErr EEOF, mkDest [] None) /\
  (* with the whole payload the same ping is answered *)
  fst (handle 1 true (mkHeader true 0 9 true [1; 2; 3; 4] 3) [1; 2; 3] TEOF [2] [] (mkDest [] None)) = HNil.
Proof. vm_compute. repeat split; reflexivity. Qed.

(* ------------------------------------------------------------------ the ReadData family *)
Require Import ReadData ReadDataGen ReadDataGenProofs.

(* wsutil.ReadData / ReadClientData / ReadServerData / … (helper.go:readData, model
   [read_data_call]) on a CUT stream: the wire bytes of a frame sequence the spec accepts
   completely are cut after ANY number [cut] of bytes strictly inside the stream, the transport
   then reports io.EOF or fails ([t]); both sides, every wanted kind, every chunking of the bytes
   that do arrive, every list of masking keys. ONE call meets [rx_monitor_gen]
   (coq/model/ReadDataGen.v), which runs the frame-sequence spec over the frames that arrived
   COMPLETELY ([frames_before]) and nothing else:
   * the replies written are exactly those the walk asks for the control frames among them, up
     to the first wanted complete message / close — a control frame whose payload is cut is
     never answered, a shortened ping payload is never echoed;
   * the result is the first wanted message (peer's close, invalid-close error) that is complete
     within the first [cut] bytes, if there is one; otherwise it is an ERROR, never data — a
     message that is incomplete on the wire is never returned — and the error is not a clean
     io.EOF, except when the transport ends (io.EOF) exactly at a frame boundary outside a
     message (then it IS io.EOF) — or inside a header outside a message, where the class is left
     open as in [cut_monitor] (ws.ReadHeader reports io.EOF when the stream ends exactly
     between the fixed and the extended part of a header). *)
Theorem C16_read_data_cut : forall state want fs cut t s masks fuel,
  (state = 1 \/ state = 2) -> Forall wf_sframe fs -> Forall wf_key masks ->
  sr_out (spec_run (mkCfg state true 0 false) 0 None [] fs) = OClean ->
  (cut < length (Reader.wire fs))%nat ->
  wf_src s -> tl s = t -> flat s = firstn cut (Reader.wire fs) -> (cut + 2 <= fuel)%nat ->
  let '(res, log) := read_data_call fuel want state s masks in
  rx_monitor_gen state want fs (N.of_nat cut) (match t with TFail => true | TEOF => false end) res log = true.
Proof. exact read_data_cut. Qed.
Print Assumptions C16_read_data_cut.

(* the same monitor holds for EVERY frame sequence (valid or not) and every cut, the complete
   stream included (cut = |wire fs|): when a frame wholly before the cut breaks a header rule the
   call stops there with the spec's error class. Proviso: Discard does not validate UTF-8, so
   when text is NOT wanted the frames before the cut must not hold an invalid text message
   (the spec checks every text message; with text wanted there is no proviso). *)
Theorem C16_read_data_cut_any : forall state want fs cut t s masks fuel,
  (state = 1 \/ state = 2) -> Forall wf_sframe fs -> Forall wf_key masks ->
  (cut <= length (Reader.wire fs))%nat ->
  wf_src s -> tl s = t -> flat s = firstn cut (Reader.wire fs) -> (cut + 2 <= fuel)%nat ->
  (N.land want 1 <> 0 \/
   sr_out (spec_run (mkCfg state true 0 false) 0 None [] (fst (frames_before (N.of_nat cut) fs))) <> OInvalidUtf8) ->
  let '(res, log) := read_data_call fuel want state s masks in
  rx_monitor_gen state want fs (N.of_nat cut) (match t with TFail => true | TEOF => false end) res log = true.
Proof. exact read_data_meets_spec_gen. Qed.
Print Assumptions C16_read_data_cut_any.

(* the class of the error, on ANY source (arbitrary bytes, any chunking, either tail): the model's
   out-of-fuel artefact does not occur, and an I/O error returned by the call is the transport's
   own failure exactly when the transport fails, io.EOF / io.ErrUnexpectedEOF when it ends. With
   C16_read_data_cut (no clean io.EOF inside a frame or a message): on a stream cut by an ending
   transport an I/O error is io.ErrUnexpectedEOF, on a failing one the transport's error. *)
Theorem C16_read_data_error_class : forall fuel want state s masks,
  wf_src s -> (length (flat s) + 2 <= fuel)%nat ->
  forall e, fst (read_data_call fuel want state s masks) = RDErr e ->
  e <> ROutOfFuel /\
  forall x, e = RIo x -> match tl s with TFail => x = EFail | TEOF => x <> EFail end.
Proof. exact read_data_error_class. Qed.
Print Assumptions C16_read_data_error_class.

(* C16 for the ReadData family, spelled out with the exact error: on a cut VALID stream the error
   is ALWAYS an I/O error — the bytes of a cut frame that did arrive never cause a protocol or
   UTF-8 error — namely the transport's own failure when it fails, and when it ends:
   io.ErrUnexpectedEOF, or io.EOF only if the frames before the cut end outside a message and
   the cut falls on that frame boundary or inside the following header. (Proof: coupling of the
   call on the cut source with the call on the complete stream, proofs/ReadDataCutIoProofs.v;
   the fuel bound is the one of the complete stream.) *)
Require Import ReadDataCutIoProofs.
Theorem C16_read_data_cut_spelled : forall state want fs cut t s masks fuel,
  (state = 1 \/ state = 2) -> Forall wf_sframe fs -> Forall wf_key masks ->
  sr_out (spec_run (mkCfg state true 0 false) 0 None [] fs) = OClean ->
  (cut < length (Reader.wire fs))%nat ->
  wf_src s -> tl s = t -> flat s = firstn cut (Reader.wire fs) -> (length (Reader.wire fs) + 2 <= fuel)%nat ->
  let '(res, log) := read_data_call fuel want state s masks in
  let '(done, rest) := frames_before (N.of_nat cut) fs in
  let sp := spec_run (mkCfg state true 0 false) 0 None [] done in
  let hdr_len := match nth_error fs (length done) with
                 | Some f => len (rfc_header (sf_header f)) | None => 0 end in
  exists rf, frames_of (concat log) = Some rf /\
    xreplies_ok state (fst (rx_walk want (sr_events sp) [])) rf = true /\
    match snd (rx_walk want (sr_events sp) []) with
    | Some xr => rx_result_matches (Some xr) res = true
    | None => exists x, res = RDErr (RIo x) /\
        match t with
        | TFail => x = EFail
        | TEOF => x = EUnexpected \/ (x = EEOF /\ sr_out sp = OClean /\ (rest = 0 \/ rest < hdr_len))
        end
    end.
Proof. exact read_data_cut_spelled. Qed.
Print Assumptions C16_read_data_cut_spelled.

Example C16_read_data_cut_nonvacuous :
  let k1 := [17; 34; 51; 68] in let k2 := [255; 0; 128; 7] in
  let fs := [mkSF true 0 9 (Some k1) [1; 2; 3];               (* ping before anything: pong [1;2;3] *)
             mkSF false 0 1 (Some k1) [226; 130];             (* text, fragmented: not wanted, skipped *)
             mkSF true 0 9 (Some k2) [4];                     (* ping inside it: answered *)
             mkSF true 0 0 (Some k1) [172; 104; 105];
             mkSF true 0 2 (Some k2) [7; 8; 9; 10];           (* binary: wanted — the cut falls inside its payload *)
             mkSF true 0 9 (Some k1) [5]] in
  let run (cut : nat) (t : tail) :=
    read_data_call (cut + 2) 2 1 (mkSrc (chunk_by [3; 1; 7; 2; 2; 9; 1; 1; 4; 30] (firstn cut (Reader.wire fs))) t) [] in
  let pongs := [[138; 3; 1; 2; 3]; [138; 1; 4]] in
  sr_out (spec_run (mkCfg 1 true 0 false) 0 None [] fs) = OClean /\ length (Reader.wire fs) = 50%nat /\
  (* cut inside the payload of the wanted message (bytes 39..42) *)
  run 41%nat TEOF = (RDErr (RIo EUnexpected), pongs) /\ run 41%nat TFail = (RDErr (RIo EFail), pongs) /\
  rx_monitor_gen 1 2 fs 41 false (RDErr (RIo EUnexpected)) pongs = true /\
  (* the monitor refuses the shortened message, a clean end, a lost and a surplus reply *)
  rx_monitor_gen 1 2 fs 41 false (RDData 2 [7; 8]) pongs = false /\
  rx_monitor_gen 1 2 fs 41 false (RDErr (RIo EEOF)) pongs = false /\
  rx_monitor_gen 1 2 fs 41 false (RDErr (RIo EUnexpected)) [[138; 3; 1; 2; 3]] = false /\
  rx_monitor_gen 1 2 fs 41 false (RDErr (RIo EUnexpected)) (pongs ++ [[138; 1; 5]]) = false /\
  (* cut inside the payload of the ping interleaved in the skipped message: it is not answered *)
  run 23%nat TEOF = (RDErr (RIo EUnexpected), [[138; 3; 1; 2; 3]]) /\
  rx_monitor_gen 1 2 fs 23 false (RDErr (RIo EUnexpected)) pongs = false /\
  (* cut at the frame boundary before the wanted message: clean io.EOF, not with a failing transport *)
  run 33%nat TEOF = (RDErr (RIo EEOF), pongs) /\ run 33%nat TFail = (RDErr (RIo EFail), pongs) /\
  rx_monitor_gen 1 2 fs 33 true (RDErr (RIo EEOF)) pongs = false /\
  (* the message complete within the cut is delivered *)
  run 44%nat TEOF = (RDData 2 [7; 8; 9; 10], pongs).
Proof. vm_compute. repeat split; reflexivity. Qed.

(* ======================================================================================
   Handshakes over a cut transport ("... and handshakes return an error").
   The request / response reaches Upgrader.Upgrade / Dialer.Upgrade as a bufio.Reader of any
   size B >= 1 over any chunking of the bytes that arrived, and then the transport reports
   io.EOF or fails ([HsBufio.reader], tail TEof / TFail); configurations are arbitrary.
   [head_complete bs] (model/HsCut.v): in terms of the models' line reader, bs has a first
   line terminated by LF and, behind it, LF-terminated lines one of which readLine returns
   empty ("\n" or "\r\n"); [head_length bs] = the number of bytes up to and including that
   line.  The models have no failing destination: the write side of a handshake is decided
   on observations only (kind HSW). *)
Require Import HsBase64 HsSha1 HsBufio HsHttpHead HsHttp HsUpgrader HsUpgraderProofs
        HsDialer HsDialerProofs HsCut HsCutProofs.

(* plain reading of "the head is complete": somewhere an LF is directly followed by LF or CR LF *)
Theorem C16_head_complete_plain : forall bs, head_complete bs = has_lf_blank bs.
Proof. exact head_complete_plain. Qed.
Print Assumptions C16_head_complete_plain.

(* every cut strictly inside the head leaves an incomplete head *)
Theorem C16_cut_inside_head_incomplete : forall bs h k,
  head_length bs = Some h -> (k < h)%nat -> head_complete (firstn k bs) = false.
Proof. exact cut_inside_head_incomplete. Qed.
Print Assumptions C16_cut_inside_head_incomplete.

(* server: the stream ends or fails before the head is complete => an error is returned (one of
   the Go code's, never the model's out-of-fuel value) and no 101 response is written (the
   proviso of C09_never_101_on_failure: no user callback itself asks for status 101) *)
Theorem C16_upgrader_cut : forall stext cfg B r, 1 <= B ->
  head_complete (HsBufio.flat r) = false ->
  (exists e, u_err (upgrader stext cfg B r) = Some e /\ e <> EFuel)
  /\ ((forall rj, from_callback cfg rj -> status_of rj <> 101) ->
      is_101 (u_out (upgrader stext cfg B r)) = false).
Proof. exact upgrader_cut. Qed.
Print Assumptions C16_upgrader_cut.

(* ... in particular at every offset k inside the head of any byte string that has one *)
Theorem C16_upgrader_cut_offsets : forall stext cfg B req h k r, 1 <= B ->
  head_length req = Some h -> (k < h)%nat -> HsBufio.flat r = firstn k req ->
  (exists e, u_err (upgrader stext cfg B r) = Some e /\ e <> EFuel)
  /\ ((forall rj, from_callback cfg rj -> status_of rj <> 101) ->
      is_101 (u_out (upgrader stext cfg B r)) = false).
Proof. exact upgrader_cut_offsets. Qed.
Print Assumptions C16_upgrader_cut_offsets.

(* a request that SUCCEEDS uncut (reader r0), cut at any offset k inside its head (reader r, any
   chunking, buffer size, tail): exactly the transport's error comes back -- io.EOF or the
   failure -- and nothing at all is written *)
Theorem C16_upgrader_cut_of_valid_request : forall stext cfg B0 r0 B r k, 1 <= B0 -> 1 <= B ->
  u_err (upgrader stext cfg B0 r0) = None -> HsBufio.flat r = firstn k (HsBufio.flat r0) ->
  exists h, head_length (HsBufio.flat r0) = Some h /\
    ((k < h)%nat ->
     u_err (upgrader stext cfg B r) = Some (EIO (r_tail r)) /\ u_out (upgrader stext cfg B r) = []).
Proof. exact upgrader_cut_of_valid_offsets. Qed.
Print Assumptions C16_upgrader_cut_of_valid_request.

(* the exact boundary: once the head is complete the outcome (error, handshake, bytes written) is
   decided, whatever follows and however the stream ends *)
Theorem C16_upgrader_head_decides : forall stext cfg B1 B2 r1 r2 q, 1 <= B1 -> 1 <= B2 ->
  head_complete (HsBufio.flat r1) = true -> HsBufio.flat r2 = HsBufio.flat r1 ++ q ->
  upgrader stext cfg B1 r1 = upgrader stext cfg B2 r2.
Proof. exact upgrader_head_decides. Qed.
Print Assumptions C16_upgrader_head_decides.

(* client: the response ends or fails before its head is complete => Dialer.Upgrade returns an
   error, for every configuration, URL, nonce, buffer size, chunking and tail *)
Theorem C16_dialer_cut : forall cfg url_host uri nonce B r, 1 <= B ->
  head_complete (HsBufio.flat r) = false ->
  exists e, d_err (dialer_upgrade cfg url_host uri nonce B r) = Some e /\ e <> DFuel.
Proof. exact dialer_cut. Qed.
Print Assumptions C16_dialer_cut.

Theorem C16_dialer_cut_offsets : forall cfg url_host uri nonce B resp h k r, 1 <= B ->
  head_length resp = Some h -> (k < h)%nat -> HsBufio.flat r = firstn k resp ->
  exists e, d_err (dialer_upgrade cfg url_host uri nonce B r) = Some e /\ e <> DFuel.
Proof. exact dialer_cut_offsets. Qed.
Print Assumptions C16_dialer_cut_offsets.

(* a response that is ACCEPTED uncut, cut at any offset inside its head: exactly the transport's error *)
Theorem C16_dialer_cut_of_valid_response : forall cfg url_host uri nonce B0 r0 B r k, 1 <= B0 -> 1 <= B ->
  d_err (dialer_upgrade cfg url_host uri nonce B0 r0) = None -> HsBufio.flat r = firstn k (HsBufio.flat r0) ->
  exists h, head_length (HsBufio.flat r0) = Some h /\
    ((k < h)%nat -> d_err (dialer_upgrade cfg url_host uri nonce B r) = Some (DIO (r_tail r))).
Proof. exact dialer_cut_of_valid_offsets. Qed.
Print Assumptions C16_dialer_cut_of_valid_response.

Theorem C16_dialer_head_decides : forall cfg url_host uri nonce B1 B2 r1 r2 q, 1 <= B1 -> 1 <= B2 ->
  head_complete (HsBufio.flat r1) = true -> HsBufio.flat r2 = HsBufio.flat r1 ++ q ->
  d_err (dialer_upgrade cfg url_host uri nonce B1 r1) = d_err (dialer_upgrade cfg url_host uri nonce B2 r2)
  /\ d_hs (dialer_upgrade cfg url_host uri nonce B1 r1) = d_hs (dialer_upgrade cfg url_host uri nonce B2 r2).
Proof. exact dialer_head_decides. Qed.
Print Assumptions C16_dialer_head_decides.

(* non-vacuity: the RFC 6455 sample request (214 bytes, all of them head) and sample response (head of
   159 bytes, one frame behind it).  Uncut both succeed; cut inside the head -- also right behind
   the LF of the last header line (212 / 157) and between the CR and the LF of the blank line
   (213 / 158) -- the transport's error comes back and the server writes nothing; and, as a test
   over this one sample, the same at EVERY offset below the head length, in 5-byte reads with
   io.EOF and in 1-byte reads with a failing transport, through a 16-byte buffer *)
Example C16_handshake_cut_nonvacuous :
  let up k n t := upgrader (fun _ => []) sample_cfg 16 (cut_reader n k sample_request t) in
  let dcfg := mkDcfg [[99; 104; 97; 116]] [] [] [] (fun _ _ => false) in
  let nonce := [100;71;104;108;73;72;78;104;98;88;66;115;90;83;66;117;98;50;53;106;90;81;61;61] in
  let di k n t := dialer_upgrade dcfg [120] [47] nonce 16 (cut_reader n k (c10_sample_resp []) t) in
  let up_io t x := match u_err x, u_out x, t with
                   | Some (EIO TEof), [], TEof | Some (EIO TFail), [], TFail => true | _, _, _ => false end in
  let di_io t x := match d_err x, t with
                   | Some (DIO TEof), TEof | Some (DIO TFail), TFail => true | _, _ => false end in
  head_length sample_request = Some 214%nat /\ length sample_request = 214%nat
  /\ u_err (up 214%nat 1%nat TEof) = None /\ is_101 (u_out (up 214%nat 1%nat TFail)) = true
  /\ (u_err (up 213%nat 1%nat TEof), u_out (up 213%nat 1%nat TEof)) = (Some (EIO TEof), [])
  /\ (u_err (up 212%nat 7%nat TFail), u_out (up 212%nat 7%nat TFail)) = (Some (EIO TFail), [])
  /\ (u_err (up 100%nat 3%nat TEof), u_out (up 100%nat 3%nat TEof)) = (Some (EIO TEof), [])
  /\ u_err (up 0%nat 1%nat TFail) = Some (EIO TFail)
  /\ forallb (fun k => up_io TEof (up k 5%nat TEof) && up_io TFail (up k 1%nat TFail)) (seq 0 214) = true
  /\ head_length (c10_sample_resp []) = Some 159%nat /\ length (c10_sample_resp []) = 163%nat
  /\ d_err (di 163%nat 1%nat TEof) = None /\ d_err (di 159%nat 4%nat TFail) = None
  /\ d_err (di 158%nat 1%nat TEof) = Some (DIO TEof) /\ d_err (di 157%nat 4%nat TFail) = Some (DIO TFail)
  /\ d_err (di 40%nat 1%nat TEof) = Some (DIO TEof) /\ d_err (di 0%nat 1%nat TFail) = Some (DIO TFail)
  /\ forallb (fun k => di_io TEof (di k 5%nat TEof) && di_io TFail (di k 1%nat TFail)) (seq 0 159) = true.
Proof. vm_compute. repeat split; reflexivity. Qed.
