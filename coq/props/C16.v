(* C16 — Truncated or failing transports never yield a complete-looking message.
   Only statements; each closed by [exact]. Read side: per-operation obligations
   (every chunking, EOF or failing tail); write side: see props with the Writer. *)
Require Import Bytes Stream Utf8Spec Check Frame Cipher Utf8Dfa Extracted Reader
  BytesProofs StreamProofs CheckProofs FrameProofs ReaderLocalProofs ReaderCutProofs.
Open Scope N_scope.

(* ws.ReadFrame: a stream cut inside the header or inside the payload never yields a frame *)
Theorem C16_read_frame_cut : forall s h r, wf_src s -> wf_bytes (flat s) ->
  (rfc_parse (flat s) = PIncomplete \/
   (rfc_parse (flat s) = PComplete h r /\ len r < Z.to_N (h_len h))) ->
  exists e s', read_frame s = (inl (HIo e), s').
Proof. exact read_frame_cut. Qed.
Print Assumptions C16_read_frame_cut.

(* a payload read never reports io.EOF while payload bytes are still owed *)
Theorem C16_no_clean_eof_inside_payload : forall k r, 0 < r_rawN r ->
  snd (fst (raw_read k r)) <> Some EEOF.
Proof. exact raw_read_no_clean_eof. Qed.
Print Assumptions C16_no_clean_eof_inside_payload.

(* discarding / draining a cut payload is an error *)
Theorem C16_drain_cut_is_error : forall r, wf_src (r_src r) -> len (flat (r_src r)) < r_rawN r ->
  fst (raw_drain r) <> None.
Proof. exact raw_drain_cut. Qed.
Print Assumptions C16_drain_cut_is_error.

(* the control callback is never handed a silently shortened payload *)
Theorem C16_callback_not_shortened : forall h m k r, wf_src (r_src r) -> len (flat (r_src r)) < r_rawN r ->
  fst (cb_read_all h m k r) <> None /\ r_log (snd (cb_read_all h m k r)) = r_log r.
Proof. exact cb_read_all_cut. Qed.
Print Assumptions C16_callback_not_shortened.

(* a header cut by the end of the stream is an error, and between the fragments
   of a message never a clean io.EOF *)
Theorem C16_cut_header : forall r, wf_src (r_src r) -> wf_bytes (flat (r_src r)) ->
  rfc_parse (flat (r_src r)) = PIncomplete ->
  exists e, snd (fst (next_frame r)) = Some e /\
            (st_fragmented (r_state r) = true -> tl (r_src r) = TEOF -> e = RIo EUnexpected).
Proof. exact next_frame_cut_header. Qed.
Print Assumptions C16_cut_header.

Example C16_nonvacuous :
  let fs := [mkSF false 0 1 None [97; 98]; mkSF true 0 9 None [1; 2; 3; 4; 5]; mkSF true 0 0 None [99]] in
  let cutw := firstn 8 (wire fs) in
  let d := drive 100 [3] (new_reader (bytewise cutw TEOF) 2 false false 0 false CbReadAll) in
  dr_events d = [] /\ dr_err d = RIo EUnexpected /\ dr_partial d = [97; 98].
Proof. vm_compute. repeat split; reflexivity. Qed.

(* ------------------------------------------------------------------------------------
   Write side.  [op_wf], [steps_of] are defined in proofs/WriterFrameProofs.v, [op_small]
   in proofs/WriterFailProofs.v. *)
Require Import Writer CipherProofs WriterInv WriterFrameProofs WriterFailProofs.

(* for EVERY failing write index (d_fail_at = Some k, any k) and every history without
   Reset from a writer that has not sent anything: once an operation reported the destination
   error every later Write/WriteThrough/FlushFragment/Flush reports an error and NO further
   destination write is attempted; what was delivered is whole frames followed by at most
   the header of one more frame, never a hole *)
Theorem C16_write_side_sticky_failure : forall ops w0,
  w_op w0 < 16 -> w_buf w0 = [] -> Forall wf_key (w_masks w0) -> d_calls (w_dest w0) = [] ->
  Forall op_wf ops -> Forall op_small ops ->
  c16w_monitor (steps_of ops (fst (run_wops ops w0))) (dest_log (w_dest (snd (run_wops ops w0)))) = true.
Proof. exact c16w_monitor_fresh. Qed.
Print Assumptions C16_write_side_sticky_failure.
