(* C16 — Truncated or failing transports never yield a complete-looking message.
   Only statements; each closed by [exact]. Read side: per-operation obligations
   (every chunking, EOF or failing tail); write side: see props with the Writer. *)
Require Import Bytes Stream Utf8Spec Check Frame Cipher Utf8Dfa Extracted Reader
  BytesProofs StreamProofs CheckProofs FrameProofs ReaderLocalProofs ReaderCutProofs.
Open Scope N_scope.

(* ws.ReadFrame: a stream cut inside the header or inside the payload never yields a frame *)
Theorem C16_read_frame_cut : forall s h r, wf_src s -> wf_bytes (flat s) ->
  (rfc_parse (flat s) = PIncomplete \/
   (rfc_parse (flat s) = PComplete h r /\ len r < Z.to_N (h_len h))) ->
  exists e s', read_frame s = (inl (HIo e), s').
Proof. exact read_frame_cut. Qed.
Print Assumptions C16_read_frame_cut.

(* a payload read never reports io.EOF while payload bytes are still owed *)
Theorem C16_no_clean_eof_inside_payload : forall k r, 0 < r_rawN r ->
  snd (fst (raw_read k r)) <> Some EEOF.
Proof. exact raw_read_no_clean_eof. Qed.
Print Assumptions C16_no_clean_eof_inside_payload.

(* discarding / draining a cut payload is an error *)
Theorem C16_drain_cut_is_error : forall r, wf_src (r_src r) -> len (flat (r_src r)) < r_rawN r ->
  fst (raw_drain r) <> None.
Proof. exact raw_drain_cut. Qed.
Print Assumptions C16_drain_cut_is_error.

(* the control callback is never handed a silently shortened payload *)
Theorem C16_callback_not_shortened : forall h m k r, wf_src (r_src r) -> len (flat (r_src r)) < r_rawN r ->
  fst (cb_read_all h m k r) <> None /\ r_log (snd (cb_read_all h m k r)) = r_log r.
Proof. exact cb_read_all_cut. Qed.
Print Assumptions C16_callback_not_shortened.

(* a header cut by the end of the stream is an error, and between the fragments
   of a message never a clean io.EOF *)
Theorem C16_cut_header : forall r, wf_src (r_src r) -> wf_bytes (flat (r_src r)) ->
  rfc_parse (flat (r_src r)) = PIncomplete ->
  exists e, snd (fst (next_frame r)) = Some e /\
            (st_fragmented (r_state r) = true -> tl (r_src r) = TEOF -> e = RIo EUnexpected).
Proof. exact next_frame_cut_header. Qed.
Print Assumptions C16_cut_header.

Example C16_nonvacuous :
  let fs := [mkSF false 0 1 None [97; 98]; mkSF true 0 9 None [1; 2; 3; 4; 5]; mkSF true 0 0 None [99]] in
  let cutw := firstn 8 (wire fs) in
  let d := drive 100 [3] (new_reader (bytewise cutw TEOF) 2 false false 0 false CbReadAll) in
  dr_events d = [] /\ dr_err d = RIo EUnexpected /\ dr_partial d = [97; 98].
Proof. vm_compute. repeat split; reflexivity. Qed.

(* ------------------------------------------------------------------------------------
   Write side.  [op_wf], [steps_of] are defined in proofs/WriterFrameProofs.v, [op_small]
   in proofs/WriterFailProofs.v. *)
Require Import Writer CipherProofs WriterInv WriterFrameProofs WriterFailProofs.

(* for EVERY failing write index (d_fail_at = Some k, any k) and every history without
   Reset from a writer that has not sent anything: once an operation reported the destination
   error every later Write/WriteThrough/FlushFragment/Flush reports an error and NO further
   destination write is attempted; what was delivered is whole frames followed by at most
   the header of one more frame, never a hole *)
Theorem C16_write_side_sticky_failure : forall ops w0,
  w_op w0 < 16 -> w_buf w0 = [] -> Forall wf_key (w_masks w0) -> d_calls (w_dest w0) = [] ->
  Forall op_wf ops -> Forall op_small ops ->
  c16w_monitor (steps_of ops (fst (run_wops ops w0))) (dest_log (w_dest (snd (run_wops ops w0)))) = true.
Proof. exact c16w_monitor_fresh. Qed.
Print Assumptions C16_write_side_sticky_failure.

(* ------------------------------------------------------------------ stream level *)
Require Import ReaderAux ReaderMoreProofs.

(* C16, read side, at stream level ([cut_monitor], coq/model/Reader.v): the Reader.wire
   bytes of a frame sequence the spec accepts completely are cut after ANY number
   [cut] of bytes, the transport then reports io.EOF or fails ([t]), under every
   chunking of the bytes that do arrive and all caller buffer sizes: the canonical
   NextFrame / read-to-EOF loop delivers the frames wholly before the cut exactly
   as the spec says, reports nothing of the cut frame as a message and hands
   nothing of it to the control callback, and its final error is not a clean
   io.EOF — except when the cut falls on a frame boundary, or inside a header,
   outside a message. The fuel bound excludes the out-of-fuel artefact
   wherever the monitor asks for a definite error. *)
Theorem C16_cut_stream : forall c fs cut t s bufs fuel,
  wf_cfg c -> Forall wf_sframe fs -> sr_out (spec_run c 0 None [] fs) = OClean ->
  (cut <= length (Reader.wire fs))%nat ->
  wf_src s -> tl s = t -> flat s = firstn cut (Reader.wire fs) -> (cut + 2 <= fuel)%nat ->
  let d := drive fuel bufs (new_reader s (c_state c) false (c_check_utf8 c) (c_max c) (c_ext c) CbReadAll) in
  cut_monitor c true fs (N.of_nat cut) (match t with TFail => true | TEOF => false end) (dr_events d) (dr_err d) = true.
Proof. exact cut_stream. Qed.
Print Assumptions C16_cut_stream.

(* the same holds for EVERY frame sequence, valid or not: when a frame wholly
   before the cut breaks a rule, the loop stops there with the spec's error class *)
Theorem C16_cut_stream_any : forall c fs cut t s bufs fuel,
  wf_cfg c -> Forall wf_sframe fs -> (cut <= length (Reader.wire fs))%nat ->
  wf_src s -> tl s = t -> flat s = firstn cut (Reader.wire fs) -> (cut + 2 <= fuel)%nat ->
  let d := drive fuel bufs (new_reader s (c_state c) false (c_check_utf8 c) (c_max c) (c_ext c) CbReadAll) in
  cut_monitor c true fs (N.of_nat cut) (match t with TFail => true | TEOF => false end) (dr_events d) (dr_err d) = true.
Proof. exact cut_stream_any. Qed.
Print Assumptions C16_cut_stream_any.

Example C16_cut_stream_nonvacuous :
  let fs := [mkSF false 0 1 None [97; 98]; mkSF true 0 9 None [1; 2; 3; 4; 5]; mkSF true 0 0 None [99];
             mkSF true 0 2 None [1; 2; 3]] in
  let c := mkCfg 2 false 0 false in
  let run (cut : nat) (t : tail) :=
    drive (cut + 2) [3] (new_reader (mkSrc (chunk_by [3; 1; 4] (firstn cut (Reader.wire fs))) t)
                                    (c_state c) false (c_check_utf8 c) (c_max c) (c_ext c) CbReadAll) in
  let done := [mkEv 9 [1; 2; 3; 4; 5] true false; mkEv 1 [97; 98; 99] false false] in
  sr_out (spec_run c 0 None [] fs) = OClean /\ length (Reader.wire fs) = 19%nat /\
  (* cut inside the payload of the last frame *)
  dr_events (run 18%nat TEOF) = done /\ dr_err (run 18%nat TEOF) = RIo EUnexpected /\
  cut_monitor c true fs 18 false (dr_events (run 18%nat TEOF)) (dr_err (run 18%nat TEOF)) = true /\
  (* the monitor refuses a shortened message, a lost event and a clean end there *)
  cut_monitor c true fs 18 false (done ++ [mkEv 2 [1; 2] false false]) (RIo EUnexpected) = false /\
  cut_monitor c true fs 18 false [mkEv 1 [97; 98; 99] false false] (RIo EUnexpected) = false /\
  cut_monitor c true fs 18 false done (RIo EEOF) = false /\
  (* cut at the frame boundary before it: clean EOF, but not with a failing transport *)
  dr_err (run 14%nat TEOF) = RIo EEOF /\ dr_err (run 14%nat TFail) = RIo EFail /\
  cut_monitor c true fs 14 true done (RIo EEOF) = false /\
  (* cut inside the message: the ping was delivered, the message was not *)
  dr_events (run 11%nat TFail) = [mkEv 9 [1; 2; 3; 4; 5] true false] /\ dr_err (run 11%nat TFail) = RIo EFail.
Proof. vm_compute. repeat split; reflexivity. Qed.

(* ------------------------------------------------------------------ control handlers *)
Require Import Handler HandlerCutProofs.

(* wsutil.ControlHandler.Handle on a source that ends (io.EOF or failure) BEFORE the announced
   payload length: for either side (every state), ping / pong / close, announced length 1..125,
   ANY bytes delivered (fewer than announced), any source ciphering, io.Copy chunking and mask
   oracle: the handler returns the I/O error (io.EOF only when not a single payload byte came,
   io.ErrUnexpectedEOF otherwise, the transport's error for a failing one) and NOTHING is written
   to the destination: no pong echoing a shortened payload, no close reply. *)
Theorem C16_handler_cut_payload : forall state unmask h avail t copy_sizes masks res d',
  (h_op h = 8 \/ h_op h = 9 \/ h_op h = 10) ->
  0 < Z.to_N (h_len h) -> Z.to_N (h_len h) <= 125 -> len avail < Z.to_N (h_len h) ->
  handle state unmask h avail t copy_sizes masks (mkDest [] None) = (res, d') ->
  res = HIoErr (match t with TFail => EFail | TEOF => if len avail =? 0 then EEOF else EUnexpected end) /\
  dest_log d' = [].
Proof. exact handle_cut_payload. Qed.
Print Assumptions C16_handler_cut_payload.

Example C16_handler_cut_nonvacuous :
  handle 1 true (mkHeader true 0 9 true [1; 2; 3; 4] 5) [1; 2; 3] TEOF [2] [] (mkDest [] None)
    = (HIoErr EUnexpected, mkDest [] None) /\
  handle 2 false (mkHeader true 0 8 false zero_mask 2) [3] TFail [] [] (mkDest [] None)
    = (HIoErr EFail, mkDest [] None) /\
  handle 2 false (mkHeader true 0 10 false zero_mask 4) [] TEOF [] [] (mkDest [] None)
    = (HIoErr EEOF, mkDest [] None) /\
  (* with the whole payload the same ping is answered *)
  fst (handle 1 true (mkHeader true 0 9 true [1; 2; 3; 4] 3) [1; 2; 3] TEOF [2] [] (mkDest [] None)) = HNil.
Proof. vm_compute. repeat split; reflexivity. Qed.

(* ------------------------------------------------------------------ the ReadData family *)
Require Import ReadData ReadDataGen ReadDataGenProofs.

(* wsutil.ReadData / ReadClientData / ReadServerData / … (helper.go:readData, model
   [read_data_call]) on a CUT stream: the wire bytes of a frame sequence the spec accepts
   completely are cut after ANY number [cut] of bytes strictly inside the stream, the transport
   then reports io.EOF or fails ([t]); both sides, every wanted kind, every chunking of the bytes
   that do arrive, every list of masking keys. ONE call meets [rx_monitor_gen]
   (coq/model/ReadDataGen.v), which runs the frame-sequence spec over the frames that arrived
   COMPLETELY ([frames_before]) and nothing else:
   * the replies written are exactly those the walk asks for the control frames among them, up
     to the first wanted complete message / close — a control frame whose payload is cut is
     never answered, a shortened ping payload is never echoed;
   * the result is the first wanted message (peer's close, invalid-close error) that is complete
     within the first [cut] bytes, if there is one; otherwise it is an ERROR, never data — a
     message that is incomplete on the wire is never returned — and the error is not a clean
     io.EOF, except when the transport ends (io.EOF) exactly at a frame boundary outside a
     message (then it IS io.EOF) — or inside a header outside a message, where the class is left
     open as in [cut_monitor] (ws.ReadHeader reports io.EOF when the stream ends exactly
     between the fixed and the extended part of a header). *)
Theorem C16_read_data_cut : forall state want fs cut t s masks fuel,
  (state = 1 \/ state = 2) -> Forall wf_sframe fs -> Forall wf_key masks ->
  sr_out (spec_run (mkCfg state true 0 false) 0 None [] fs) = OClean ->
  (cut < length (Reader.wire fs))%nat ->
  wf_src s -> tl s = t -> flat s = firstn cut (Reader.wire fs) -> (cut + 2 <= fuel)%nat ->
  let '(res, log) := read_data_call fuel want state s masks in
  rx_monitor_gen state want fs (N.of_nat cut) (match t with TFail => true | TEOF => false end) res log = true.
Proof. exact read_data_cut. Qed.
Print Assumptions C16_read_data_cut.

(* the same monitor holds for EVERY frame sequence (valid or not) and every cut, the complete
   stream included (cut = |wire fs|): when a frame wholly before the cut breaks a header rule the
   call stops there with the spec's error class. Proviso: Discard does not validate UTF-8, so
   when text is NOT wanted the frames before the cut must not hold an invalid text message
   (the spec checks every text message; with text wanted there is no proviso). *)
Theorem C16_read_data_cut_any : forall state want fs cut t s masks fuel,
  (state = 1 \/ state = 2) -> Forall wf_sframe fs -> Forall wf_key masks ->
  (cut <= length (Reader.wire fs))%nat ->
  wf_src s -> tl s = t -> flat s = firstn cut (Reader.wire fs) -> (cut + 2 <= fuel)%nat ->
  (N.land want 1 <> 0 \/
   sr_out (spec_run (mkCfg state true 0 false) 0 None [] (fst (frames_before (N.of_nat cut) fs))) <> OInvalidUtf8) ->
  let '(res, log) := read_data_call fuel want state s masks in
  rx_monitor_gen state want fs (N.of_nat cut) (match t with TFail => true | TEOF => false end) res log = true.
Proof. exact read_data_meets_spec_gen. Qed.
Print Assumptions C16_read_data_cut_any.

(* the class of the error, on ANY source (arbitrary bytes, any chunking, either tail): the model's
   out-of-fuel artefact does not occur, and an I/O error returned by the call is the transport's
   own failure exactly when the transport fails, io.EOF / io.ErrUnexpectedEOF when it ends. With
   C16_read_data_cut (no clean io.EOF inside a frame or a message): on a stream cut by an ending
   transport an I/O error is io.ErrUnexpectedEOF, on a failing one the transport's error. *)
Theorem C16_read_data_error_class : forall fuel want state s masks,
  wf_src s -> (length (flat s) + 2 <= fuel)%nat ->
  forall e, fst (read_data_call fuel want state s masks) = RDErr e ->
  e <> ROutOfFuel /\
  forall x, e = RIo x -> match tl s with TFail => x = EFail | TEOF => x <> EFail end.
Proof. exact read_data_error_class. Qed.
Print Assumptions C16_read_data_error_class.

(* C16 for the ReadData family, spelled out with the exact error: on a cut VALID stream the error
   is ALWAYS an I/O error — the bytes of a cut frame that did arrive never cause a protocol or
   UTF-8 error — namely the transport's own failure when it fails, and when it ends:
   io.ErrUnexpectedEOF, or io.EOF only if the frames before the cut end outside a message and
   the cut falls on that frame boundary or inside the following header. (Proof: coupling of the
   call on the cut source with the call on the complete stream, proofs/ReadDataCutIoProofs.v;
   the fuel bound is the one of the complete stream.) *)
Require Import ReadDataCutIoProofs.
Theorem C16_read_data_cut_spelled : forall state want fs cut t s masks fuel,
  (state = 1 \/ state = 2) -> Forall wf_sframe fs -> Forall wf_key masks ->
  sr_out (spec_run (mkCfg state true 0 false) 0 None [] fs) = OClean ->
  (cut < length (Reader.wire fs))%nat ->
  wf_src s -> tl s = t -> flat s = firstn cut (Reader.wire fs) -> (length (Reader.wire fs) + 2 <= fuel)%nat ->
  let '(res, log) := read_data_call fuel want state s masks in
  let '(done, rest) := frames_before (N.of_nat cut) fs in
  let sp := spec_run (mkCfg state true 0 false) 0 None [] done in
  let hdr_len := match nth_error fs (length done) with
                 | Some f => len (rfc_header (sf_header f)) | None => 0 end in
  exists rf, frames_of (concat log) = Some rf /\
    xreplies_ok state (fst (rx_walk want (sr_events sp) [])) rf = true /\
    match snd (rx_walk want (sr_events sp) []) with
    | Some xr => rx_result_matches (Some xr) res = true
    | None => exists x, res = RDErr (RIo x) /\
        match t with
        | TFail => x = EFail
        | TEOF => x = EUnexpected \/ (x = EEOF /\ sr_out sp = OClean /\ (rest = 0 \/ rest < hdr_len))
        end
    end.
Proof. exact read_data_cut_spelled. Qed.
Print Assumptions C16_read_data_cut_spelled.

Example C16_read_data_cut_nonvacuous :
  let k1 := [17; 34; 51; 68] in let k2 := [255; 0; 128; 7] in
  let fs := [mkSF true 0 9 (Some k1) [1; 2; 3];               (* ping before anything: pong [1;2;3] *)
             mkSF false 0 1 (Some k1) [226; 130];             (* text, fragmented: not wanted, skipped *)
             mkSF true 0 9 (Some k2) [4];                     (* ping inside it: answered *)
             mkSF true 0 0 (Some k1) [172; 104; 105];
             mkSF true 0 2 (Some k2) [7; 8; 9; 10];           (* binary: wanted — the cut falls inside its payload *)
             mkSF true 0 9 (Some k1) [5]] in
  let run (cut : nat) (t : tail) :=
    read_data_call (cut + 2) 2 1 (mkSrc (chunk_by [3; 1; 7; 2; 2; 9; 1; 1; 4; 30] (firstn cut (Reader.wire fs))) t) [] in
  let pongs := [[138; 3; 1; 2; 3]; [138; 1; 4]] in
  sr_out (spec_run (mkCfg 1 true 0 false) 0 None [] fs) = OClean /\ length (Reader.wire fs) = 50%nat /\
  (* cut inside the payload of the wanted message (bytes 39..42) *)
  run 41%nat TEOF = (RDErr (RIo EUnexpected), pongs) /\ run 41%nat TFail = (RDErr (RIo EFail), pongs) /\
  rx_monitor_gen 1 2 fs 41 false (RDErr (RIo EUnexpected)) pongs = true /\
  (* the monitor refuses the shortened message, a clean end, a lost and a surplus reply *)
  rx_monitor_gen 1 2 fs 41 false (RDData 2 [7; 8]) pongs = false /\
  rx_monitor_gen 1 2 fs 41 false (RDErr (RIo EEOF)) pongs = false /\
  rx_monitor_gen 1 2 fs 41 false (RDErr (RIo EUnexpected)) [[138; 3; 1; 2; 3]] = false /\
  rx_monitor_gen 1 2 fs 41 false (RDErr (RIo EUnexpected)) (pongs ++ [[138; 1; 5]]) = false /\
  (* cut inside the payload of the ping interleaved in the skipped message: it is not answered *)
  run 23%nat TEOF = (RDErr (RIo EUnexpected), [[138; 3; 1; 2; 3]]) /\
  rx_monitor_gen 1 2 fs 23 false (RDErr (RIo EUnexpected)) pongs = false /\
  (* cut at the frame boundary before the wanted message: clean io.EOF, not with a failing transport *)
  run 33%nat TEOF = (RDErr (RIo EEOF), pongs) /\ run 33%nat TFail = (RDErr (RIo EFail), pongs) /\
  rx_monitor_gen 1 2 fs 33 true (RDErr (RIo EEOF)) pongs = false /\
  (* the message complete within the cut is delivered *)
  run 44%nat TEOF = (RDData 2 [7; 8; 9; 10], pongs).
Proof. vm_compute. repeat split; reflexivity. Qed.
