(* C01 — Frame header codec is byte-exact per RFC 6455 §5.2 and its own inverse.
   Only statements; each closed by [exact]. *)
Require Import Bytes Stream Check Frame BytesProofs StreamProofs FrameProofs Extracted ExtractedOk.
Open Scope N_scope.

(* encoder = RFC layout (minimal form by construction of rfc_header), for every
   header of the property's domain *)
Theorem C01_encode_is_rfc_layout : forall h, wf_header h -> write_header h = inr (rfc_header h).
Proof. exact write_header_rfc. Qed.
Print Assumptions C01_encode_is_rfc_layout.

(* the size query reports that same byte count: 2, 4 or 10, plus 4 when masked *)
Theorem C01_size_agrees : forall h, wf_header h ->
  Z.of_nat (length (rfc_header h)) = header_size h /\
  header_size h = ((if (h_len h <=? 125) then 2 else if (h_len h <=? 65535) then 4 else 10)
                   + (if h_masked h then 4 else 0))%Z.
Proof. intros h H. exact (conj (rfc_header_length h H) (header_size_minimal h H)). Qed.
Print Assumptions C01_size_agrees.

(* decoding the encoder's bytes, under ANY transport chunking, returns the
   identical header and consumes not one byte beyond it *)
Theorem C01_decode_encode : forall h rest s, wf_header h -> wf_bytes rest -> wf_src s ->
  flat s = rfc_header h ++ rest ->
  exists s', read_header s = (inr (norm_header h), s') /\ flat s' = rest /\ wf_src s' /\ tl s' = tl s.
Proof. exact read_header_roundtrip. Qed.
Print Assumptions C01_decode_encode.

(* for EVERY byte string and every chunking the low-level decoder agrees with the
   RFC layout: complete -> fields and remainder; top bit set -> error;
   incomplete -> an I/O error (EOF-class on a clean end, the transport's error otherwise) *)
Theorem C01_decoder_is_rfc_parse : forall s, wf_src s -> wf_bytes (flat s) ->
  dec_agrees (flat s) (tl s) (read_header s).
Proof. exact read_header_spec. Qed.
Print Assumptions C01_decoder_is_rfc_parse.

(* the decoder inside the streaming reader decides alike on every input *)
Theorem C01_decoders_agree : forall s, reader_read_header s = read_header s.
Proof. exact reader_read_header_same. Qed.
Print Assumptions C01_decoders_agree.

(* every complete minimally-encoded header parses (success on all encoder outputs) *)
Theorem C01_parse_of_minimal : forall h rest, wf_header h ->
  rfc_parse (rfc_header h ++ rest) = PComplete (norm_header h) rest.
Proof. exact rfc_parse_header. Qed.
Print Assumptions C01_parse_of_minimal.

(* whole-frame write/compile = header bytes followed by the payload *)
Theorem C01_write_frame : forall f, wf_header (f_header f) ->
  write_frame f = inr [rfc_header (f_header f); f_payload f]
  /\ compile_frame f = inr (rfc_header (f_header f) ++ f_payload f).
Proof. exact write_frame_rfc. Qed.
Print Assumptions C01_write_frame.

(* whole-frame read = header codec followed by exactly Length payload bytes *)
Theorem C01_read_frame : forall s h r, wf_src s -> wf_bytes (flat s) ->
  rfc_parse (flat s) = PComplete h r -> Z.to_N (h_len h) <= len r ->
  exists s', read_frame s = (inr (mkFrame h (take (Z.to_N (h_len h)) r)), s')
    /\ flat s' = drop (Z.to_N (h_len h)) r /\ wf_src s' /\ tl s' = tl s.
Proof. exact read_frame_spec. Qed.
Print Assumptions C01_read_frame.

Theorem C01_frame_roundtrip : forall f rest s, wf_header (f_header f) ->
  h_len (f_header f) = Z.of_N (len (f_payload f)) ->
  wf_bytes (f_payload f) -> wf_bytes rest -> wf_src s ->
  flat s = rfc_header (f_header f) ++ f_payload f ++ rest ->
  exists s', read_frame s = (inr (mkFrame (norm_header (f_header f)) (f_payload f)), s')
    /\ flat s' = rest /\ wf_src s' /\ tl s' = tl s.
Proof. exact read_frame_roundtrip. Qed.
Print Assumptions C01_frame_roundtrip.

(* tie A *)
Theorem C01_constants_from_source :
  (ws_len7, ws_len16, ws_len64, wsutil_len7, wsutil_len16, wsutil_len64)
  = (125, 65535, 9223372036854775807, 125, 65535, 9223372036854775807)%Z
  /\ (max_header_size, min_header_size) = (14, 2).
Proof. exact (conj ok_len_thresholds ok_header_sizes). Qed.
Print Assumptions C01_constants_from_source.

Example C01_nonvacuous :
  let h := mkHeader true 5 2 true [1; 2; 3; 4] 65536 in
  wf_headerb h = true /\
  rfc_header h = [128 + 80 + 2; 255; 0; 0; 0; 0; 0; 1; 0; 0; 1; 2; 3; 4] /\
  fst (read_header (bytewise (rfc_header h ++ [9; 9]) TEOF)) = inr h /\
  flat (snd (read_header (bytewise (rfc_header h ++ [9; 9]) TEOF))) = [9; 9] /\
  rfc_parse [129; 127; 128; 0; 0; 0; 0; 0; 0; 0] = PMsb /\
  rfc_parse [129; 126; 0] = PIncomplete.
Proof. vm_compute. repeat split; reflexivity. Qed.

(* ---- tie C: header_size is what write.go's HeaderSize says now (gen/Translated.v is
   translated from the Go source on every run), for every header with an int64 length;
   the rsv byte is read by Rsv1..3 / built by Rsv as the model's bit positions. *)
Require Import Translated TranslatedOk.

Theorem C01_source_header_size : forall h, (- 2 ^ 63 <= h_len h < 2 ^ 63)%Z ->
  g_HeaderSize (hdr_of h) = header_size h.
Proof. exact xl_HeaderSize. Qed.
Print Assumptions C01_source_header_size.

Theorem C01_source_rsv_bits :
  (forall r, r < 256 -> forall fin op masked len,
     let h := g_mk_Header fin (Z.of_N r) op masked len in
     g_Header_Rsv1 h = N.testbit r 2 /\ g_Header_Rsv2 h = N.testbit r 1 /\ g_Header_Rsv3 h = N.testbit r 0) /\
  (forall r1 r2 r3, g_Rsv r1 r2 r3 = (4 * b2z r1 + 2 * b2z r2 + b2z r3)%Z).
Proof. exact (conj xl_Header_Rsv_bits xl_Rsv). Qed.
Print Assumptions C01_source_rsv_bits.

(* ---- tie C3: WriteHeader TRANSLATED from write.go on this run (gen/Translated3.v, memory model lib/GoMem.v):
   the local buffer is a NEW 14-byte array (make), the stores bts[i] |= .., binary.BigEndian.PutUint16/64 into
   bts[2:4] / bts[2:10], copy(bts[n:], h.Mask[:]) go through ALIASING sub-slices of it, and w.Write(bts[:n]) is
   an oracle that records the bytes it is handed.  For every value of the Go type ws.Header (hdr_go: byte-sized
   rsv and opcode, a 4-byte mask, an int64 length), every heap and every writer: no panic; exactly ONE Write,
   of exactly the model's write_header bytes (hence, by C01_write_is_rfc, the RFC 6455 layout for well-formed
   headers); the error returned is the writer's; older memory is untouched (the only change to the heap is the
   new array, whose first bytes are the header).  The ErrHeaderLengthUnexpected branch is dead for int64. *)
Require GoSlices GoMem Translated3 Translated3Ok Translated3Hdr.
Theorem C01_source_write_header : forall wr h w, Translated3Hdr.hdr_go h ->
  exists bs arr, write_header h = inr bs /\
    Translated3.g3_WriteHeader wr (Translated3Hdr.hdr_z h) w =
    GoSlices.Ok (snd (wr (GoMem.w_out w) (Translated3Ok.zb bs)),
                 GoMem.mk_world (GoMem.w_heap w ++ [arr]) (GoMem.w_out w ++ [Translated3Ok.zb bs]))
    /\ length arr = 14%nat /\ firstn (length bs) arr = Translated3Ok.zb bs.
Proof. exact Translated3Hdr.g3_WriteHeader_ok. Qed.
Print Assumptions C01_source_write_header.

Example C01_source_write_header_nonvacuous :
  let h := mkHeader true 5 2 true [1; 2; 3; 4] 70000%Z in
  let wr : GoMem.g_writer Translated3.g_error := fun _ bs => (Z.of_nat (length bs), None) in
  Translated3Hdr.hdr_go h /\
  Translated3.g3_WriteHeader wr (Translated3Hdr.hdr_z h) (GoMem.mk_world [[7]%Z] []) =
  GoSlices.Ok (None, GoMem.mk_world [[7]%Z; [210; 255; 0; 0; 0; 0; 0; 1; 17; 112; 1; 2; 3; 4]%Z]
                                    [[210; 255; 0; 0; 0; 0; 0; 1; 17; 112; 1; 2; 3; 4]%Z])
  /\ write_header h = inr [210; 255; 0; 0; 0; 0; 0; 1; 17; 112; 1; 2; 3; 4].
Proof. vm_compute. repeat split; try reflexivity; try (intro; discriminate); repeat constructor. Qed.

(* ---------------------------------------------------------------------------------------------
   Tie C4 (source level): read.go ReadHeader translated from the Go SOURCE on this run (gen/Translated3.v).
   io.Reader is a STATEFUL oracle (GoMem.g_reader: the history of earlier calls + a function of it);
   io.ReadFull is the library function GoMem.m_io_read_full (io.ReadAtLeast's loop transcribed over that oracle).
   src_reader s0 h is the reader that serves the chunked stream s0 (lib/Stream.v: non-empty chunks, then EOF or
   an error) after the calls in h; src_at s0 h is what is left of the stream.

   C01_source_read_full: over such a reader io.ReadFull into any valid buffer t IS the model's read_full — same
   byte count, same error class (nil / EOF / ErrUnexpectedEOF / the stream's error), same remaining stream;
   the buffer holds the bytes read followed by its old rest; nothing else in the heap changes; no panic, and
   the loop ends within len(t)+2 iterations.

   C01_source_read_header: for EVERY world and EVERY chunking of EVERY byte stream, ReadHeader returns normally
   (no index / slice panic on the 12-byte buffer, neither ReadFull out of fuel), allocates exactly one new array
   and touches no older memory, consumes exactly what read_header consumes, and returns read_header's result:
   the same Header value (Fin, Rsv, OpCode, Masked, Mask, Length) or the same error class (io error of the
   first or second hop, ErrHeaderLengthMSB; ErrHeaderLengthUnexpected is dead code). *)
Require GoSlices GoMem Translated3 Translated3Ok Translated3Hdr Translated4Hdr.
Theorem C01_source_read_full : forall s0 w0 t h cur,
  GoMem.sl_valid w0 t -> wf_src (Translated4Hdr.src_at s0 h) -> GoSlices.go_len cur = GoMem.sl_len t ->
  let '((r, e), s') := read_full (len cur) (Translated4Hdr.src_at s0 h) in
  exists h',
    GoMem.m_io_read_full Translated3.E_io_EOF Translated3.E_io_ErrUnexpectedEOF Translated3.g3_is_eof
      (Translated4Hdr.src_reader s0 h) t (GoMemProofs.sl_put w0 t cur) =
    GoSlices.Ok ((Z.of_nat (length r), option_map Translated4Hdr.rerr_go e, Translated4Hdr.src_reader s0 h'),
        GoMemProofs.sl_put w0 t (Translated3Ok.zb r ++ skipn (length r) cur))
    /\ Translated4Hdr.src_at s0 h' = s' /\ wf_src s' /\ (length r <= length cur)%nat
    /\ (e = None -> length r = length cur).
Proof. exact Translated4Hdr.m_io_read_full_ok. Qed.
Print Assumptions C01_source_read_full.

Theorem C01_source_read_header : forall s0 hist w,
  wf_src (Translated4Hdr.src_at s0 hist) -> wf_bytes (flat (Translated4Hdr.src_at s0 hist)) ->
  exists hd err hist' arr,
    Translated3.g3_ReadHeader (Translated4Hdr.src_reader s0 hist) w =
      GoSlices.Ok ((hd, err, Translated4Hdr.src_reader s0 hist'),
                   GoMem.mk_world (GoMem.w_heap w ++ [arr]) (GoMem.w_out w))
    /\ Translated4Hdr.src_at s0 hist' = snd (read_header (Translated4Hdr.src_at s0 hist))
    /\ match fst (read_header (Translated4Hdr.src_at s0 hist)) with
       | inr hm => err = None /\ hd = Translated3Hdr.hdr_z hm
       | inl e => err = Some (Translated4Hdr.herr_go e)
       end.
Proof. exact Translated4Hdr.g3_ReadHeader_ok. Qed.
Print Assumptions C01_source_read_header.

(* a masked text frame header with a 16-bit length (81 FE 01 00, mask 1 2 3 4) followed by one payload byte,
   delivered one byte per Read: Fin, opcode 1, masked, Length 256, Mask 1 2 3 4; the payload byte is left; and a
   stream that ends inside the extended length: ErrUnexpectedEOF *)
Example C01_source_read_header_nonvacuous :
  let s := bytewise [129; 254; 1; 0; 1; 2; 3; 4; 9] TEOF in
  (match Translated3.g3_ReadHeader (Translated4Hdr.src_reader s []) (GoMem.mk_world [[7%Z]] []) with
   | GoSlices.Ok ((hd, err, r'), w') =>
       hd = Translated3.g3_mk_Header true 0%Z 1%Z true [1; 2; 3; 4]%Z 256%Z /\ err = None
       /\ flat (Translated4Hdr.src_at s (GoMem.rd_hist r')) = [9]
       /\ firstn 1 (GoMem.w_heap w') = [[7%Z]] /\ length (GoMem.w_heap w') = 2%nat
   | _ => False
   end)
  /\ fst (read_header s) = inr (mkHeader true 0 1 true [1; 2; 3; 4] 256%Z)
  /\ (match Translated3.g3_ReadHeader (Translated4Hdr.src_reader (whole [129; 126; 1] TEOF) []) (GoMem.mk_world [] []) with
      | GoSlices.Ok ((_, err, _), _) => err = Some Translated3.E_io_ErrUnexpectedEOF
      | _ => False
      end).
Proof. vm_compute. repeat split; reflexivity. Qed.
