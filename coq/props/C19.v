(* C19 — Concurrent connections do not interfere through the library's shared pools.
   PARTIAL: the theorems are about the get/put discipline in the heap + pool machine of
   model/Ownership.v: N sessions (N arbitrary), each a program of micro-steps accepted by the
   typestate checker, interleaved by ANY schedule with ANY assignment of recycled buffers.
   sync.Pool itself, the Go scheduler, math/rand's locked source and the memory model are not in
   the model; actual data races are looked for only by the -race stress harness.
   Only statements; each closed by [exact]. *)
Require Import Bytes LTS Ownership OwnershipProofs.
From Coq Require Import List.
Import ListNotations.
Open Scope nat_scope.

(* ownership_inv: in every reachable state the pool has no duplicates, every live register of
   every session points to an allocated buffer that is NOT in the pool, and no two live
   registers (of the same or of different sessions) point to the same buffer *)
Theorem C19_ownership_inv : forall progs sched st,
  (forall j, disciplined (progs j) = true) -> LTS.run step (ginit progs) sched st ->
  NoDup (g_free st) /\
  (forall l, In l (g_free st) -> l < g_next st) /\
  (forall i r, live (s_ts (g_sess st i) r) = true ->
     exists l, s_regs (g_sess st i) r = Some l /\ l < g_next st /\ ~ In l (g_free st)) /\
  (forall i r j r' l, holds st i r l -> holds st j r' l -> i = j /\ r = r').
Proof. exact reach_ownership_inv. Qed.
Print Assumptions C19_ownership_inv.

(* data-race freedom at buffer granularity: the buffers the next steps of two different
   sessions read or write are disjoint ... *)
Theorem C19_no_conflict : forall progs sched st i j l,
  (forall k, disciplined (progs k) = true) -> LTS.run step (ginit progs) sched st ->
  i <> j -> In l (access st i) -> In l (access st j) -> False.
Proof. exact reach_no_conflict. Qed.
Print Assumptions C19_no_conflict.

(* ... and no step touches a buffer that sits in the pool *)
Theorem C19_no_access_to_pooled : forall progs sched st i l,
  (forall k, disciplined (progs k) = true) -> LTS.run step (ginit progs) sched st ->
  In l (access st i) -> ~ In l (g_free st).
Proof. exact reach_no_access_to_pooled. Qed.
Print Assumptions C19_no_access_to_pooled.

(* noninterference: under any interleaving with any other sessions, session i's transcript
   (what its results read as) and remaining code are those of its own program run alone on
   the heap-free abstract machine for as many steps as i has taken *)
Theorem C19_noninterference : forall progs sched st i, (forall j, disciplined (progs j) = true) ->
  LTS.run step (ginit progs) sched st ->
  exists a, arun (steps_of i sched) (ainit (progs i)) = Some a /\
            transcript st i = a_out a /\ s_code (g_sess st i) = a_code a.
Proof. exact transcript_is_solo. Qed.
Print Assumptions C19_noninterference.

Theorem C19_finished_session_is_solo : forall progs sched st i, (forall j, disciplined (progs j) = true) ->
  LTS.run step (ginit progs) sched st -> s_code (g_sess st i) = [] ->
  solo_transcript (progs i) = Some (transcript st i).
Proof. exact finished_session_is_solo. Qed.
Print Assumptions C19_finished_session_is_solo.

(* two worlds with different other sessions, schedules and pool behaviour: same transcript *)
Theorem C19_two_worlds : forall progs1 progs2 sched1 sched2 st1 st2 i,
  (forall j, disciplined (progs1 j) = true) -> (forall j, disciplined (progs2 j) = true) ->
  progs1 i = progs2 i -> steps_of i sched1 = steps_of i sched2 ->
  LTS.run step (ginit progs1) sched1 st1 -> LTS.run step (ginit progs2) sched2 st2 ->
  transcript st1 i = transcript st2 i.
Proof. exact two_worlds. Qed.
Print Assumptions C19_two_worlds.

(* the invariant is inductive for every step from every state that satisfies it (so the
   theorems above also hold from any well-formed non-empty pool, not only from ginit) *)
Theorem C19_invariant_inductive : forall st lab st', Inv st -> step st lab = Some st' -> Inv st'.
Proof. exact step_Inv. Qed.
Print Assumptions C19_invariant_inductive.

(* interference IS expressible in the machine: a program that reads a buffer after Put is
   rejected by the discipline and observes the other session's bytes *)
Theorem C19_use_after_put_interferes :
  disciplined uaf_prog = false /\
  solo_transcript uaf_prog = Some [[1%N]] /\
  exists st, grun (ginit uaf_progs) uaf_sched = Some st /\ transcript st 0 = [[9%N]].
Proof. exact use_after_put_interferes. Qed.
Print Assumptions C19_use_after_put_interferes.

(* non-vacuity: a server-side upgrade and a client-side masked write, interleaved step by step,
   with the second session receiving the very buffer the first one has just returned *)
Example C19_nonvacuous :
  let p0 := path_upgrade [71;69;84;32;99;104;97;116]%N [ICopy 4 4] [49;48;49]%N in
  let p1 := path_write_client [1;2;3]%N [130;131]%N [7;7;7;7]%N in
  let progs := fun i => match i with 0 => p0 | 1 => p1 | _ => [] end in
  let sched := [(0,None);(1,None);(0,None);(0,None);(0,None);(0,None);(0,None);(0,None);(0,None);
                (1,Some 2);(1,None);(1,None);(1,None);(1,None);(1,None);(1,None)] in
  disciplined p0 = true /\ disciplined p1 = true /\
  exists st, grun (ginit progs) sched = Some st /\
    s_code (g_sess st 0) = [] /\ s_code (g_sess st 1) = [] /\
    Some (transcript st 0) = solo_transcript p0 /\ Some (transcript st 1) = solo_transcript p1 /\
    transcript st 1 = [[130;131]; [6;5;4]]%N.
Proof. vm_compute. repeat split. eexists. repeat split. Qed.
