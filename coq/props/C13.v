(* C13 — Compression bit RSV1 is set and accepted only on the first frame of a message.
   Only statements; each closed by [exact]. Receive side here; the send side
   (writer) theorems are added with the Writer model. *)
Require Import Bytes Stream Utf8Spec Check Frame Cipher Utf8Dfa Extracted Reader
  BytesProofs StreamProofs CheckProofs FrameProofs ReaderLocalProofs.
Open Scope N_scope.

(* first frame of a data message: the state becomes "compressed" exactly when
   RSV1 was set; the header handed on has RSV1 cleared and RSV2/RSV3 untouched *)
Theorem C13_first_frame : forall h c, op_is_data (h_op h) = true -> h_op h <> 0 -> h_rsv h < 8 ->
  unset_bits h c = Some (mkHeader (h_fin h) (h_rsv h mod 4) (h_op h) (h_masked h) (h_mask h) (h_len h),
                         4 <=? h_rsv h).
Proof. exact unset_bits_first_data. Qed.
Print Assumptions C13_first_frame.

(* continuation and control frames: RSV1 is rejected; otherwise header and state
   are left exactly as they were (control frames between fragments do not
   disturb the state) *)
Theorem C13_other_frames : forall h c, (op_is_data (h_op h) = false \/ h_op h = 0) -> h_rsv h < 8 ->
  unset_bits h c = if 4 <=? h_rsv h then None else Some (h, c).
Proof. exact unset_bits_other. Qed.
Print Assumptions C13_other_frames.

Example C13_nonvacuous :
  let fs := [mkSF false 4 1 None [97]; mkSF true 0 9 None []; mkSF false 0 0 None [98]; mkSF true 4 0 None [99]] in
  let c := mkCfg 6 false 0 true in
  sr_out (spec_run c 0 None [] fs) = OBadCompression 3 /\
  map ev_comp (sr_events (spec_run c 0 None [] fs)) = [true] /\
  dr_err (drive 100 [3] (new_reader (bytewise (wire fs) TEOF) 6 false false 0 true CbReadAll)) = RCompressionBit.
Proof. vm_compute. repeat split; reflexivity. Qed.

(* ------------------------------------------------------------------------------------
   Last sentence of C13: "a compressed, fragmented, masked message written through the
   writer stack is read back identically through the reader stack".
   Writer model: coq/model/Writer.v (wsutil.Writer + wsflate.MessageState.SetBits as send
   extension); reader model: coq/model/Reader.v (wsutil.Reader + MessageState.UnsetBits as
   receive extension, canonical NextFrame/read-to-EOF loop [drive]).  [wf_key] (4 bytes,
   each < 256) is defined in proofs/CipherProofs.v.

   For EVERY message m (bytes; 2*(14+|m|) <= MaxInt64), opcode text or binary, compressed
   flag c, writer buffer size n, writer side (client = StateClientSide|StateExtended = 6,
   server = StateServerSide|StateExtended = 5), mask oracle (any list of 4-byte keys, the
   zero key when exhausted), and for the message handed to the writer as ANY non-empty list
   of Write calls whose concatenation is m, followed by one Flush (so: whatever the
   fragmentation that the buffer size and the write pattern produce) —
   for EVERY transport chunking s of the bytes the destination received, EVERY sequence of
   caller buffer sizes, and fuel >= 6*|bytes|+8: the reader of the PEER side (server = 5
   for a client writer, client = 6 for a server writer; header checks on, UTF-8 check off,
   no size limit, MessageState attached, recording OnIntermediate) delivers exactly ONE
   event — opcode op, payload m, not intermediate, compressed flag c — and then a clean
   io.EOF with nothing left over. *)
Require Import Writer CipherProofs RoundTripProofs.

Theorem C13_writer_reader_roundtrip :
  forall (client c : bool) (op n : N) (masks : list (list byte)) (pieces : list (list byte)) (m : list byte)
         (w0 : writer) (obs : list wobs) (w' : writer) (s : src) (bufs : list N) (fuel : nat),
  (op = 1 \/ op = 2) -> n + 14 <= 9223372036854775807 -> Forall wf_key masks ->
  wf_bytes m -> 2 * (14 + len m) <= 9223372036854775807 ->
  pieces <> [] -> concat pieces = m ->
  new_writer_size (mkDest [] None) (if client then 6 else 5) op n masks = inr w0 ->
  run_wops (map WWrite pieces ++ [WFlush]) (set_extensions [c] w0) = (obs, w') ->
  let bytes := concat (dest_log (w_dest w')) in
  wf_src s -> tl s = TEOF -> flat s = bytes ->
  (6 * length bytes + 8 <= fuel)%nat ->
  let d := drive fuel bufs (new_reader s (if client then 5 else 6) false false 0 true CbReadAll) in
  dr_events d = [mkEv op m false c] /\ dr_err d = RIo EEOF /\ dr_partial d = [].
Proof. exact writer_reader_roundtrip. Qed.
Print Assumptions C13_writer_reader_roundtrip.

(* the constructor hypothesis above is satisfiable for every positive size: NewWriterSize
   never panics *)
Theorem C13_new_writer_size_total : forall d state op n masks, 0 < n ->
  exists w0, new_writer_size d state op n masks = inr w0.
Proof. exact new_writer_size_ok. Qed.
Print Assumptions C13_new_writer_size_total.

(* the excluded case, no Write call at all: Flush sends nothing and the peer sees a clean
   end of stream without any event (an EMPTY message is sent by Write([]) ; Flush and is
   covered by the round-trip theorem with pieces = [[]]) *)
Theorem C13_flush_without_write_sends_nothing :
  forall (client c : bool) (op n : N) (masks : list (list byte)) (w0 : writer) (s : src) (bufs : list N) (fuel : nat),
  new_writer_size (mkDest [] None) (if client then 6 else 5) op n masks = inr w0 ->
  let w' := snd (run_wops [WFlush] (set_extensions [c] w0)) in
  concat (dest_log (w_dest w')) = [] /\
  (wf_src s -> tl s = TEOF -> flat s = [] -> (8 <= fuel)%nat ->
   let d := drive fuel bufs (new_reader s (if client then 5 else 6) false false 0 true CbReadAll) in
   dr_events d = [] /\ dr_err d = RIo EEOF /\ dr_partial d = []).
Proof. exact writer_reader_nothing. Qed.
Print Assumptions C13_flush_without_write_sends_nothing.

(* a concrete instance of the round trip: client writer, buffer of 5, a compressed text
   message of 13 bytes given as three Write calls leaves as three masked fragments of 5, 6
   and 2 bytes in four destination writes (the middle one through WriteThrough: header and
   payload separately; RSV1 on the first only) and comes back as one compressed message,
   the transport delivering 3,1,7,... bytes at a time into caller buffers of 4 and 1 *)
Example C13_roundtrip_instance :
  let m := [104;101;108;108;111;44;32;119;111;114;108;100;33] in
  match new_writer_size (mkDest [] None) 6 1 5 [[1;2;3;4]; [250;0;17;99]; [5;6;7;8]; [9;9;9;9]] with
  | inr w0 =>
    let '(_, w') := run_wops [WWrite (take 2 m); WWrite (take 9 (drop 2 m)); WWrite (drop 11 m); WFlush]
                             (set_extensions [true] w0) in
    let bytes := concat (dest_log (w_dest w')) in
    let d := drive (6 * length bytes + 8) [4; 1]
                   (new_reader (mkSrc (chunk_by [3; 1; 7] bytes) TEOF) 5 false false 0 true CbReadAll) in
    length (dest_log (w_dest w')) = 4%nat /\
    option_map (map (fun f => (h_fin (pf_header f), h_rsv (pf_header f), h_op (pf_header f), len (pf_payload f))))
               (frames_of bytes) = Some [(false, 4, 1, 5); (false, 0, 0, 6); (true, 0, 0, 2)] /\
    dr_events d = [mkEv 1 m false true] /\ dr_err d = RIo EEOF
  | inl _ => False
  end.
Proof. vm_compute. repeat split; reflexivity. Qed.
