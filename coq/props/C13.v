(* C13 — Compression bit RSV1 is set and accepted only on the first frame of a message.
   Only statements; each closed by [exact]. Receive side here; the send side
   (writer) theorems are added with the Writer model. *)
Require Import Bytes Stream Utf8Spec Check Frame Cipher Utf8Dfa Extracted Reader
  BytesProofs StreamProofs CheckProofs FrameProofs ReaderLocalProofs.
Open Scope N_scope.

(* first frame of a data message: the state becomes "compressed" exactly when
   RSV1 was set; the header handed on has RSV1 cleared and RSV2/RSV3 untouched *)
Theorem C13_first_frame : forall h c, op_is_data (h_op h) = true -> h_op h <> 0 -> h_rsv h < 8 ->
  unset_bits h c = Some (mkHeader (h_fin h) (h_rsv h mod 4) (h_op h) (h_masked h) (h_mask h) (h_len h),
                         4 <=? h_rsv h).
Proof. exact unset_bits_first_data. Qed.
Print Assumptions C13_first_frame.

(* continuation and control frames: RSV1 is rejected; otherwise header and state
   are left exactly as they were (control frames between fragments do not
   disturb the state) *)
Theorem C13_other_frames : forall h c, (op_is_data (h_op h) = false \/ h_op h = 0) -> h_rsv h < 8 ->
  unset_bits h c = if 4 <=? h_rsv h then None else Some (h, c).
Proof. exact unset_bits_other. Qed.
Print Assumptions C13_other_frames.

Example C13_nonvacuous :
  let fs := [mkSF false 4 1 None [97]; mkSF true 0 9 None []; mkSF false 0 0 None [98]; mkSF true 4 0 None [99]] in
  let c := mkCfg 6 false 0 true in
  sr_out (spec_run c 0 None [] fs) = OBadCompression 3 /\
  map ev_comp (sr_events (spec_run c 0 None [] fs)) = [true] /\
  dr_err (drive 100 [3] (new_reader (bytewise (wire fs) TEOF) 6 false false 0 true CbReadAll)) = RCompressionBit.
Proof. vm_compute. repeat split; reflexivity. Qed.

(* ------------------------------------------------------------------------------------
   Last sentence of C13: "a compressed, fragmented, masked message written through the
   writer stack is read back identically through the reader stack".
   Writer model: coq/model/Writer.v (wsutil.Writer + wsflate.MessageState.SetBits as send
   extension); reader model: coq/model/Reader.v (wsutil.Reader + MessageState.UnsetBits as
   receive extension, canonical NextFrame/read-to-EOF loop [drive]).  [wf_key] (4 bytes,
   each < 256) is defined in proofs/CipherProofs.v.

   For EVERY message m (bytes; 2*(14+|m|) <= MaxInt64), opcode text or binary, compressed
   flag c, writer buffer size n, writer side (client = StateClientSide|StateExtended = 6,
   server = StateServerSide|StateExtended = 5), mask oracle (any list of 4-byte keys, the
   zero key when exhausted), and for the message handed to the writer as ANY non-empty list
   of Write calls whose concatenation is m, followed by one Flush (so: whatever the
   fragmentation that the buffer size and the write pattern produce) —
   for EVERY transport chunking s of the bytes the destination received, EVERY sequence of
   caller buffer sizes, and fuel >= 6*|bytes|+8: the reader of the PEER side (server = 5
   for a client writer, client = 6 for a server writer; header checks on, UTF-8 check off,
   no size limit, MessageState attached, recording OnIntermediate) delivers exactly ONE
   event — opcode op, payload m, not intermediate, compressed flag c — and then a clean
   io.EOF with nothing left over. *)
Require Import Writer CipherProofs RoundTripProofs.

Theorem C13_writer_reader_roundtrip :
  forall (client c : bool) (op n : N) (masks : list (list byte)) (pieces : list (list byte)) (m : list byte)
         (w0 : writer) (obs : list wobs) (w' : writer) (s : src) (bufs : list N) (fuel : nat),
  (op = 1 \/ op = 2) -> n + 14 <= 9223372036854775807 -> Forall wf_key masks ->
  wf_bytes m -> 2 * (14 + len m) <= 9223372036854775807 ->
  pieces <> [] -> concat pieces = m ->
  new_writer_size (mkDest [] None) (if client then 6 else 5) op n masks = inr w0 ->
  run_wops (map WWrite pieces ++ [WFlush]) (set_extensions [c] w0) = (obs, w') ->
  let bytes := concat (dest_log (w_dest w')) in
  wf_src s -> tl s = TEOF -> flat s = bytes ->
  (6 * length bytes + 8 <= fuel)%nat ->
  let d := drive fuel bufs (new_reader s (if client then 5 else 6) false false 0 true CbReadAll) in
  dr_events d = [mkEv op m false c] /\ dr_err d = RIo EEOF /\ dr_partial d = [].
Proof. exact writer_reader_roundtrip. Qed.
Print Assumptions C13_writer_reader_roundtrip.

(* the constructor hypothesis above is satisfiable for every positive size: NewWriterSize
   never panics *)
Theorem C13_new_writer_size_total : forall d state op n masks, 0 < n ->
  exists w0, new_writer_size d state op n masks = inr w0.
Proof. exact new_writer_size_ok. Qed.
Print Assumptions C13_new_writer_size_total.

(* the excluded case, no Write call at all: Flush sends nothing and the peer sees a clean
   end of stream without any event (an EMPTY message is sent by Write([]) ; Flush and is
   covered by the round-trip theorem with pieces = [[]]) *)
Theorem C13_flush_without_write_sends_nothing :
  forall (client c : bool) (op n : N) (masks : list (list byte)) (w0 : writer) (s : src) (bufs : list N) (fuel : nat),
  new_writer_size (mkDest [] None) (if client then 6 else 5) op n masks = inr w0 ->
  let w' := snd (run_wops [WFlush] (set_extensions [c] w0)) in
  concat (dest_log (w_dest w')) = [] /\
  (wf_src s -> tl s = TEOF -> flat s = [] -> (8 <= fuel)%nat ->
   let d := drive fuel bufs (new_reader s (if client then 5 else 6) false false 0 true CbReadAll) in
   dr_events d = [] /\ dr_err d = RIo EEOF /\ dr_partial d = []).
Proof. exact writer_reader_nothing. Qed.
Print Assumptions C13_flush_without_write_sends_nothing.

(* a concrete instance of the round trip: client writer, buffer of 5, a compressed text
   message of 13 bytes given as three Write calls leaves as three masked fragments of 5, 6
   and 2 bytes in four destination writes (the middle one through WriteThrough: header and
   payload separately; RSV1 on the first only) and comes back as one compressed message,
   the transport delivering 3,1,7,... bytes at a time into caller buffers of 4 and 1 *)
Example C13_roundtrip_instance :
  let m := [104;101;108;108;111;44;32;119;111;114;108;100;33] in
  match new_writer_size (mkDest [] None) 6 1 5 [[1;2;3;4]; [250;0;17;99]; [5;6;7;8]; [9;9;9;9]] with
  | inr w0 =>
    let '(_, w') := run_wops [WWrite (take 2 m); WWrite (take 9 (drop 2 m)); WWrite (drop 11 m); WFlush]
                             (set_extensions [true] w0) in
    let bytes := concat (dest_log (w_dest w')) in
    let d := drive (6 * length bytes + 8) [4; 1]
                   (new_reader (mkSrc (chunk_by [3; 1; 7] bytes) TEOF) 5 false false 0 true CbReadAll) in
    length (dest_log (w_dest w')) = 4%nat /\
    option_map (map (fun f => (h_fin (pf_header f), h_rsv (pf_header f), h_op (pf_header f), len (pf_payload f))))
               (frames_of bytes) = Some [(false, 4, 1, 5); (false, 0, 0, 6); (true, 0, 0, 2)] /\
    dr_events d = [mkEv 1 m false true] /\ dr_err d = RIo EEOF
  | inl _ => False
  end.
Proof. vm_compute. repeat split; reflexivity. Qed.

(* ------------------------------------------------------------------------------------
   The receive half at STREAM level, spelled out (definitions: coq/model/ReaderStream.v and
   coq/model/ReaderStreamC13.v; proofs: coq/proofs/ReaderStreamC13Proofs.v, from
   C04_reader_meets_spec and the frame-sequence spec evaluated on the message's shape).

   ONE DATA MESSAGE, FRAGMENTED ARBITRARILY.  [msg_frames_rsv rsv0 op k0 p0 l]: a first frame
   with opcode [op] (1 = text or 2 = binary), reserved bits [rsv0] (RSV1 = 4, RSV2 = 2,
   RSV3 = 1), masking key [k0], payload [p0]; then for every element of [l] the control frames
   [fr_ctl] the peer sends in between and a continuation frame (opcode 0, NO reserved bit) with
   key [fr_key] and payload [fr_data]; FIN on the last data frame only.  [msg_payload p0 l] is
   the concatenation of the fragment payloads.  Side conditions: frames are well-formed
   objects, masked as the reader's side wants ([mask_ok]), within the size limit, the control
   frames in between are close/ping/pong, final, without reserved bits, at most 125 bytes
   ([ctl_ok]); reserved bits on the first frame need the "extended" bit of ws.State (else
   CheckHeader refuses them: C05).  UTF-8 checking may be off, or on — then a TEXT message is
   assumed valid (the invalid case is C07_text_message_iff_valid).
   The Reader has the wsflate.MessageState attached (c_ext = true, flag initially false), header
   checks on, recording OnIntermediate; side bits [state], [chk], limit [max] arbitrary; [s] is ANY
   transport chunking of the wire bytes, [bufs] ANY caller buffer sizes.
   Then the NextFrame / read-to-EOF loop ends with a clean io.EOF, nothing left over, and has
   delivered EXACTLY: the interleaved control frames in order, each with its exact payload and
   — as the model defines the flag of an intermediate control event: the MessageState flag at
   the time of the callback — the flag b of the message; then ONE data event: opcode [op],
   payload the whole concatenation, flag b — where b = [rsv1_bit rsv0] is the RSV1 bit of the
   FIRST frame.  So the state reports "compressed" exactly when the first frame had RSV1, and
   the control frames between the fragments do not disturb it. *)
Require Import ReaderAux ReaderStream ReaderStreamC13 ReaderStreamC13Proofs.

Theorem C13_message_flag_iff_rsv1 : forall state chk max rsv0 op k0 p0 l s bufs fuel,
  let c := mkCfg state chk max true in
  let fs := msg_frames_rsv rsv0 op k0 p0 l in
  let whole := msg_payload p0 l in
  let b := rsv1_bit rsv0 in
  wf_cfg c -> (op = 1 \/ op = 2) -> (rsv0 = 0 \/ st_extended state = true) ->
  Forall wf_sframe fs ->
  Forall (fun f => mask_ok state f = true /\ too_large c f = false) fs ->
  Forall (fun x => Forall (fun f => ctl_ok f = true) (fr_ctl x)) l ->
  (chk = true -> op = 1 -> valid_utf8 whole = true) ->
  wf_src s -> tl s = TEOF -> flat s = wire fs ->
  (2 * length (wire fs) + 4 * length fs + 8 <= fuel)%nat ->
  let d := drive fuel bufs (new_reader s state false chk max true CbReadAll) in
  dr_err d = RIo EEOF /\ dr_partial d = [] /\
  dr_events d = msg_ctl_events_c b l ++ [mkEv op whole false b].
Proof. exact message_flag_iff_rsv1. Qed.
Print Assumptions C13_message_flag_iff_rsv1.

(* RSV1 ON A LATER FRAME.  The same message [fs0] (extended state), but frame number [i]
   (counted from 0, so 1 <= i: a continuation frame or an interleaved control frame) carries
   the reserved bits [rbad] with RSV1 set ([set_rsv_at i rbad fs0]); any frames [rest] may
   follow.  Then the loop ends with wsflate.ErrUnexpectedCompressionBit; what was delivered is
   exactly the control frames BEFORE frame i (flag b of the message) — no data message at all
   — and the bytes handed out for the unfinished message are exactly the payloads of the data
   frames before frame i: not a byte of the offending frame or of any later frame. *)
Theorem C13_rsv1_on_later_frame_rejected : forall state chk max rsv0 op k0 p0 l i rbad rest s bufs fuel,
  let c := mkCfg state chk max true in
  let fs0 := msg_frames_rsv rsv0 op k0 p0 l in
  let fs := set_rsv_at i rbad fs0 ++ rest in
  let b := rsv1_bit rsv0 in
  wf_cfg c -> (op = 1 \/ op = 2) -> st_extended state = true -> rsv0 < 8 ->
  (1 <= i < length fs0)%nat -> rbad < 8 -> rsv1_bit rbad = true ->
  Forall wf_sframe fs0 -> Forall wf_sframe rest ->
  Forall (fun f => mask_ok state f = true /\ too_large c f = false) fs0 ->
  Forall (fun x => Forall (fun f => ctl_ok f = true) (fr_ctl x)) l ->
  (chk = true -> op = 1 -> valid_utf8 (msg_payload p0 l) = true) ->
  wf_src s -> tl s = TEOF -> flat s = wire fs ->
  (2 * length (wire fs) + 4 * length fs + 8 <= fuel)%nat ->
  let d := drive fuel bufs (new_reader s state false chk max true CbReadAll) in
  dr_err d = RCompressionBit /\
  dr_events d = inter_events b (firstn i fs0) /\ data_events (dr_events d) = [] /\
  dr_partial d = data_bytes_of_frames (firstn i fs0).
Proof. exact rsv1_on_later_frame_rejected. Qed.
Print Assumptions C13_rsv1_on_later_frame_rejected.

(* THE HEADER HANDED TO THE APPLICATION, for ANY Reader state and configuration with the
   MessageState attached: when NextFrame accepts a header [hdr] that starts a data message
   (text/binary opcode), the header it returns is [hdr] with RSV1 cleared and every other field
   — RSV2, RSV3 included: rsv mod 4 — untouched, and the flag becomes the RSV1 bit ... *)
Theorem C13_header_bits_cleared : forall r hdr s1 h r',
  r_ext r = true -> reader_read_header (r_src r) = (inr hdr, s1) -> h_rsv hdr < 8 ->
  op_is_data (h_op hdr) = true -> h_op hdr <> 0 ->
  next_frame r = ((h, None), r') ->
  h = mkHeader (h_fin hdr) (h_rsv hdr mod 4) (h_op hdr) (h_masked hdr) (h_mask hdr) (h_len hdr) /\
  r_compressed r' = (4 <=? h_rsv hdr) /\ r_frame r' = true.
Proof. exact next_frame_first_header. Qed.
Print Assumptions C13_header_bits_cleared.

(* ... and when it accepts a control or continuation header, that header had no RSV1, is
   returned as received, and the flag is left as it was *)
Theorem C13_other_headers_untouched : forall r hdr s1 h r',
  r_ext r = true -> reader_read_header (r_src r) = (inr hdr, s1) -> h_rsv hdr < 8 ->
  (op_is_data (h_op hdr) = false \/ h_op hdr = 0) ->
  next_frame r = ((h, None), r') ->
  h = hdr /\ r_compressed r' = r_compressed r /\ h_rsv hdr < 4.
Proof. exact next_frame_other_header. Qed.
Print Assumptions C13_other_headers_untouched.

(* a server with extensions (state 5), UTF-8 checking on, chunks of 3,1,7,2,... bytes, buffers
   2,5,1; the text "h€!" in three masked fragments with a masked ping before the second.
   (1) RSV1 on the first frame: ping and message delivered with flag true; (2) no RSV1: the
   same with flag false; (3) RSV1 also on the SECOND fragment (frame 2): compression-bit
   error, the ping was logged, no message, exactly the first fragment handed out; (4) RSV1 on
   the ping (frame 1): the error, nothing logged. *)
Example C13_stream_nonvacuous :
  let k1 := [17; 34; 51; 68] in let k2 := [255; 0; 128; 7] in
  let ping := mkSF true 0 9 (Some k2) [1; 2] in
  let l := [mkFrag [ping] (Some k2) [130]; mkFrag [] (Some k1) [172; 33]] in
  let c := mkCfg 5 true 0 true in
  let run fs := let s := mkSrc (chunk_by [3; 1; 7; 2] (wire fs)) TEOF in
                drive (2 * length (wire fs) + 4 * length fs + 8) [2; 5; 1] (new_reader s 5 false true 0 true CbReadAll) in
  let fs1 := msg_frames_rsv 4 1 (Some k1) [104; 226] l in
  let fs2 := msg_frames_rsv 0 1 (Some k1) [104; 226] l in
  (wf_cfg c /\ st_extended 5 = true /\ Forall wf_sframe fs1 /\
   Forall (fun f => mask_ok 5 f = true /\ too_large c f = false) fs1 /\
   Forall (fun x => Forall (fun f => ctl_ok f = true) (fr_ctl x)) l /\
   valid_utf8 (msg_payload [104; 226] l) = true /\
   wf_src (mkSrc (chunk_by [3; 1; 7; 2] (wire fs1)) TEOF) /\
   flat (mkSrc (chunk_by [3; 1; 7; 2] (wire fs1)) TEOF) = wire fs1) /\
  fs1 = [mkSF false 4 1 (Some k1) [104; 226]; ping; mkSF false 0 0 (Some k2) [130]; mkSF true 0 0 (Some k1) [172; 33]] /\
  run fs1 = mkDR [mkEv 9 [1; 2] true true; mkEv 1 [104; 226; 130; 172; 33] false true] [] (RIo EEOF) /\
  run fs2 = mkDR [mkEv 9 [1; 2] true false; mkEv 1 [104; 226; 130; 172; 33] false false] [] (RIo EEOF) /\
  set_rsv_at 2 4 fs1 = [mkSF false 4 1 (Some k1) [104; 226]; ping; mkSF false 4 0 (Some k2) [130]; mkSF true 0 0 (Some k1) [172; 33]] /\
  run (set_rsv_at 2 4 fs1 ++ []) = mkDR [mkEv 9 [1; 2] true true] [104; 226] RCompressionBit /\
  inter_events true (firstn 2 fs1) = [mkEv 9 [1; 2] true true] /\ data_bytes_of_frames (firstn 2 fs1) = [104; 226] /\
  run (set_rsv_at 1 5 fs2 ++ [ping]) = mkDR [] [104; 226] RCompressionBit.
Proof.
  cbv zeta. split.
  - split; [reflexivity|]. split; [reflexivity|]. split.
    { repeat constructor; try reflexivity; try (intro H; discriminate H). }
    split; [repeat constructor|]. split; [repeat constructor|]. split; [reflexivity|].
    split; [vm_compute; repeat constructor; discriminate|]. vm_compute; reflexivity.
  - vm_compute. repeat split; reflexivity.
Qed.

(* ------------------------------------------------------------------------------------
   Send side with SetExtensions BETWEEN messages (and ResetOp): [c13_segments_rsv]
   (model/WriterSeg.v) cuts the history at every SetExtensions / ResetOp; the destination
   calls made during a segment must parse into whole frames, and every message among them
   (the open one at the end included) must carry RSV1 on its FIRST frame exactly when the
   extension list attached during that segment says compressed (and the opcode in force is
   text or binary), every other reserved bit zero.
   It holds of EVERY history over Write/ReadFrom/WriteThrough/FlushFragment/Flush/Grow/
   DisableFlush, SetExtensions (at most one extension, called at rest) and ResetOp from a
   fresh writer ([seg_op], [set_ext_at_rest] in proofs/WriterSegProofs.v; corollary of
   C06_history_monitor_set_extensions). *)
Require Import WriterSeg WriterInv WriterFrameProofs WriterHistProofs WriterResetOpProofs WriterSegProofs.

Theorem C13_set_extensions_rsv1_per_message : forall ops w0,
  writer_inv w0 -> fresh_writer w0 -> w_op w0 < 16 -> Forall wf_key (w_masks w0) ->
  (w_exts w0 = [] \/ exists c, w_exts w0 = [c]) ->
  Forall seg_op ops -> set_ext_at_rest ops w0 -> 28 + 4 * ops_cost ops <= max_int ->
  c13_segments_rsv (client_side (w_state w0)) (w_op w0) (w_exts w0) (w_buflen w0)
    (steps_of ops (fst (run_wops ops w0))) (dest_log (w_dest (snd (run_wops ops w0)))) = true.
Proof. exact c13_segments_hold. Qed.
Print Assumptions C13_set_extensions_rsv1_per_message.
