(* C13 — Compression bit RSV1 is set and accepted only on the first frame of a message.
   Only statements; each closed by [exact]. Receive side here; the send side
   (writer) theorems are added with the Writer model. *)
Require Import Bytes Stream Utf8Spec Check Frame Cipher Utf8Dfa Extracted Reader
  BytesProofs StreamProofs CheckProofs FrameProofs ReaderLocalProofs.
Open Scope N_scope.

(* first frame of a data message: the state becomes "compressed" exactly when
   RSV1 was set; the header handed on has RSV1 cleared and RSV2/RSV3 untouched *)
Theorem C13_first_frame : forall h c, op_is_data (h_op h) = true -> h_op h <> 0 -> h_rsv h < 8 ->
  unset_bits h c = Some (mkHeader (h_fin h) (h_rsv h mod 4) (h_op h) (h_masked h) (h_mask h) (h_len h),
                         4 <=? h_rsv h).
Proof. exact unset_bits_first_data. Qed.
Print Assumptions C13_first_frame.

(* continuation and control frames: RSV1 is rejected; otherwise header and state
   are left exactly as they were (control frames between fragments do not
   disturb the state) *)
Theorem C13_other_frames : forall h c, (op_is_data (h_op h) = false \/ h_op h = 0) -> h_rsv h < 8 ->
  unset_bits h c = if 4 <=? h_rsv h then None else Some (h, c).
Proof. exact unset_bits_other. Qed.
Print Assumptions C13_other_frames.

Example C13_nonvacuous :
  let fs := [mkSF false 4 1 None [97]; mkSF true 0 9 None []; mkSF false 0 0 None [98]; mkSF true 4 0 None [99]] in
  let c := mkCfg 6 false 0 true in
  sr_out (spec_run c 0 None [] fs) = OBadCompression 3 /\
  map ev_comp (sr_events (spec_run c 0 None [] fs)) = [true] /\
  dr_err (drive 100 [3] (new_reader (bytewise (wire fs) TEOF) 6 false false 0 true CbReadAll)) = RCompressionBit.
Proof. vm_compute. repeat split; reflexivity. Qed.
