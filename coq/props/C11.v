(* C11 — Handshake outcome is shared by both peers and independent of transport chunking.
   Only statements; each closed by [exact]. *)
Require Import Bytes HsBase64 HsSha1 HsBufio HsBufioProofs HsHttpHead HsHttp HsUpgrader HsUpgraderProofs
        HsDialer HsDialerProofs HsDebug HsAgreementProofs.
From Coq Require String.
Import String.StringSyntax.
Local Open Scope string_scope.
Local Open Scope list_scope.
Open Scope N_scope.

(* readLine over bufio.Reader over any chunking, for every buffer size B >= 1 (lines longer than B
   included): the line is the flat stream up to its first LF minus the line end, and the reader
   that remains is observationally the rest of the flat stream *)
Theorem C11_readLine_flat : forall B r l rest,
  1 <= B -> split_nl (flat r) = Some (l, rest) ->
  exists r', read_line B r = (LOk (cut_eol l), r') /\ flat r' = rest /\ r_tail r' = r_tail r.
Proof. exact read_line_flat_ok. Qed.
Print Assumptions C11_readLine_flat.

Theorem C11_readLine_flat_error : forall B r,
  1 <= B -> split_nl (flat r) = None -> fst (read_line B r) = LErr (r_tail r) (flat r).
Proof. exact read_line_flat_err. Qed.
Print Assumptions C11_readLine_flat_error.

(* chunking independence, server: error, handshake and bytes written depend only on the flat
   stream (and how it ends), not on the chunking nor on the buffer size *)
Theorem C11_upgrader_chunking_independent : forall stext cfg B1 B2 r1 r2,
  1 <= B1 -> 1 <= B2 -> flat r1 = flat r2 -> r_tail r1 = r_tail r2 ->
  upgrader stext cfg B1 r1 = upgrader stext cfg B2 r2.
Proof. exact upgrader_chunking_independent. Qed.
Print Assumptions C11_upgrader_chunking_independent.

(* chunking independence, client: error, handshake, request written and (on success) the bytes
   that remain readable *)
Theorem C11_dialer_chunking_independent : forall cfg url_host uri nonce B1 B2 r1 r2,
  1 <= B1 -> 1 <= B2 -> flat r1 = flat r2 -> r_tail r1 = r_tail r2 ->
  let a := dialer_upgrade cfg url_host uri nonce B1 r1 in
  let b := dialer_upgrade cfg url_host uri nonce B2 r2 in
  d_err a = d_err b /\ d_hs a = d_hs b /\ d_request a = d_request b
  /\ (d_err a = None -> flat (d_reader a) = flat (d_reader b)).
Proof. exact dialer_chunking_independent. Qed.
Print Assumptions C11_dialer_chunking_independent.

(* every configured size (0 = default, 1, 17, ...) maps to a buffer of at least 16 bytes *)
Theorem C11_buffer_sizes_covered : forall req dflt, 16 <= pool_buf_size req dflt.
Proof. exact pool_buf_size_min. Qed.
Print Assumptions C11_buffer_sizes_covered.

(* a token list written as  join ", "  is scanned back as itself *)
Theorem C11_token_list_roundtrip : forall ps, Forall is_tok ps -> ps <> [] ->
  token_list (join_comma_space ps) = (ps, true).
Proof. exact token_list_roundtrip. Qed.
Print Assumptions C11_token_list_roundtrip.

(* agreement, token-valued subprotocols (configurations without extensions, extra headers and
   objecting callbacks): composing both models over any chunkings and buffer sizes, both
   succeed, report the same subprotocol (the first offered one the selector accepts) and the
   bytes sent after the response are what the client can still read.
   Extension offers (and quoted-string parameter values) are covered by correspondence only. *)
Theorem C11_agreement_tokens : forall stext sel ps host uri nonce B1 B2 r1 r2 trailing,
  1 <= B1 -> 1 <= B2 -> req_ok host uri nonce ps ->
  flat r1 = d_request (dialer_upgrade (dcfg0 ps) host uri nonce B2 r2) ->
  flat r2 = u_out (upgrader stext (ucfg0 sel) B1 r1) ++ trailing ->
  let u := upgrader stext (ucfg0 sel) B1 r1 in
  let d := dialer_upgrade (dcfg0 ps) host uri nonce B2 r2 in
  u_err u = None /\ d_err d = None /\ d_hs d = u_hs u /\ flat (d_reader d) = trailing.
Proof. exact agreement_tokens. Qed.
Print Assumptions C11_agreement_tokens.

(* "or both fail": whatever makes the upgrader answer with an error response (any configuration,
   any request), a dialer reading that response fails too *)
Theorem C11_rejection_makes_dialer_fail : forall stext ucfg B1 r1 rj cfg url_host uri nonce B2 r2 trailing,
  1 <= B1 -> 1 <= B2 ->
  u_err (upgrader stext ucfg B1 r1) = Some (ERej rj) ->
  status_of rj <> 101 -> no_byte 10 (stext (status_of rj)) = true ->
  flat r2 = u_out (upgrader stext ucfg B1 r1) ++ trailing ->
  d_err (dialer_upgrade cfg url_host uri nonce B2 r2) <> None.
Proof. exact rejection_makes_dialer_fail. Qed.
Print Assumptions C11_rejection_makes_dialer_fail.

(* debug wrappers (partial: net/http's ReadRequest / ReadResponse enter as the observed numbers
   k = transport reads performed and n = bytes forming the message): the outcome equals the
   un-wrapped outcome, OnResponse / OnRequest receive the bytes written, and when the parser read
   the whole request OnRequest receives exactly it *)
Theorem C11_debug_upgrader_partial : forall stext cfg B k r, 1 <= B ->
  du_res (debug_upgrader stext cfg B k r) = upgrader stext cfg B r
  /\ du_on_response (debug_upgrader stext cfg B k r) = u_out (upgrader stext cfg B r)
  /\ (r_pending r = [] -> (length (r_chunks r) <= k)%nat -> du_on_request (debug_upgrader stext cfg B k r) = flat r).
Proof. exact debug_upgrader_transparent. Qed.
Print Assumptions C11_debug_upgrader_partial.

(* DebugDialer (after fixes F16/F17): same outcome, OnRequest = the request written, OnResponse =
   the first n bytes received, and when n is where the dialer's own parser stopped, the returned
   buffer followed by the connection yields exactly what the un-wrapped dialer leaves readable *)
Theorem C11_debug_dialer_partial : forall cfg url_host uri nonce B k n r, 1 <= B ->
  let w := debug_dialer cfg url_host uri nonce B k n r in
  let d := dialer_upgrade cfg url_host uri nonce B r in
  dd_err w = d_err d /\ dd_hs w = d_hs d /\ dd_on_request w = d_request d
  /\ (r_pending r = [] -> (n <= length (concat (firstn k (r_chunks r))))%nat ->
      dd_on_response w = firstn n (flat r)
      /\ (d_err d = None -> n = (length (flat r) - length (flat (d_reader d)))%nat ->
          dd_leftover w = flat (d_reader d))).
Proof. exact debug_dialer_transparent. Qed.
Print Assumptions C11_debug_dialer_partial.

(* non-vacuity: dialer offering chat, superchat against an upgrader that accepts only superchat;
   request read 1 byte at a time through 16 bytes, response in 7-byte reads through 17 bytes, one
   frame behind the response *)
Example C11_nonvacuous :
  let ps := [bs "chat"; bs "superchat"] in
  let nonce := bs "dGhlIHNhbXBsZSBub25jZQ==" in
  let sel := Some (fun p => bytes_eqb p (bs "superchat")) in
  let req := write_upgrade_request (dcfg0 ps) (bs "server.example.com") (bs "/chat") nonce in
  let u := upgrader (fun _ => []) (ucfg0 sel) 16 (mkReader [] (map (fun b => [b]) req) TEof) in
  let resp := u_out u ++ [129; 1; 120] in
  let d := dialer_upgrade (dcfg0 ps) (bs "server.example.com") (bs "/chat") nonce 17
             (mkReader [] [firstn 7 resp; firstn 7 (skipn 7 resp); skipn 14 resp] TEof) in
  u_err u = None /\ d_err d = None /\ hs_protocol (u_hs u) = bs "superchat" /\ d_hs d = u_hs u
  /\ flat (d_reader d) = [129; 1; 120]
  /\ token_list (bs "chat, superchat") = (ps, true).
Proof. vm_compute. repeat split; reflexivity. Qed.

(* ====================== extension offers ====================== *)
Require Import HsAgreeExt HsOptionsProofs HsAgreementExtProofs.

(* an option list whose names are tokens and whose parameters are (token attribute, token or
   absent value) pairs [wf_opts], written by httphead.WriteOptions (the value of the
   Sec-WebSocket-Extensions line of both httpWriteUpgradeRequest and httpWriteResponseUpgrade),
   is read back by ScanOptions / ParseOptions as exactly the same list: same options, same
   parameters, same order, nothing merged or dropped (the model's Parameters is the ordered pair
   list of httphead's arr/dyn storage, so this is plain equality; duplicates allowed).  An empty
   list is never written (ParseOptions of the empty value answers false), hence os <> [].
   Not covered: quoted-string values.  The writer escapes only the double quote and DEL, the scanner removes
   every backslash (and RemoveByte drops the byte after a backslash in last-but-one position), so
   e.g. the value  a\b  comes back as  a  (see the Example; a quirk of httphead's writer/scanner
   pair, not reachable with RFC 6455 extension parameters, which are tokens). *)
Theorem C11_option_list_roundtrip : forall os, wf_opts os = true -> os <> [] ->
  parse_options (write_options os) = (os, true).
Proof. exact option_list_roundtrip. Qed.
Print Assumptions C11_option_list_roundtrip.

(* agreement with extension offers: a dialer with subprotocols ps (tokens) and offers exts
   (well-formed as above; duplicates allowed) against an upgrader with a subprotocol selector sel
   and (a) the deprecated Extension filter [ext] — any predicate on the offered option —, and/or
   (b) a Negotiate function [neg] that on each offer returns no error and either declines (zero
   Option) or answers with a well-formed option carrying the name of one of the offers (the echo
   of the offer, or the same name with parameters of its own) [ext_ok]; Negotiate wins when both
   are set.  Over any chunkings and buffer sizes of both directions both sides succeed and return
   the same handshake: the first offered subprotocol the selector accepts, and the extensions
   [agreed_exts]: the accepted offers resp. the non-declining answers, in the client's order, same
   names, same parameters in the same order; the bytes behind the response stay readable.
   Not carried by this theorem: extra headers and objecting callbacks (as in C11_agreement_tokens);
   a Negotiate function returning an error (the upgrader rejects: C11_rejection_makes_dialer_fail);
   an answer whose name no offer carries (next theorem); quoted-string parameter values. *)
Theorem C11_agreement_extensions : forall stext sel ext neg ps exts host uri nonce B1 B2 r1 r2 trailing,
  1 <= B1 -> 1 <= B2 -> req_ok host uri nonce ps -> ext_ok neg exts = true ->
  flat r1 = d_request (dialer_upgrade (dcfgx ps exts) host uri nonce B2 r2) ->
  flat r2 = u_out (upgrader stext (ucfgx sel ext neg) B1 r1) ++ trailing ->
  let u := upgrader stext (ucfgx sel ext neg) B1 r1 in
  let d := dialer_upgrade (dcfgx ps exts) host uri nonce B2 r2 in
  u_err u = None /\ d_err d = None /\ d_hs d = u_hs u
  /\ u_hs u = mkHs (agreed_protocol sel ps) (agreed_exts ext neg exts)
  /\ flat (d_reader d) = trailing.
Proof. exact agreement_extensions. Qed.
Print Assumptions C11_agreement_extensions.

(* the mismatch side of "or both fail": when one of the (well-formed) answers of the Negotiate
   function carries a name that no offer carries, the upgrader still completes the handshake
   (it does not compare answers with offers) and reports those extensions, while the dialer stops
   at the Sec-WebSocket-Extensions line with ErrHandshakeBadExtensions — the client closes the
   connection, so no session runs with differing extension sets *)
Theorem C11_unoffered_extension_makes_dialer_fail :
  forall stext sel ext f ps exts host uri nonce B1 B2 r1 r2 trailing,
  1 <= B1 -> 1 <= B2 -> req_ok host uri nonce ps ->
  wf_opts exts = true -> neg_answers_wf f exts = true ->
  forallb (offered exts) (neg_answers f exts) = false ->
  flat r1 = d_request (dialer_upgrade (dcfgx ps exts) host uri nonce B2 r2) ->
  flat r2 = u_out (upgrader stext (ucfgx sel ext (Some f)) B1 r1) ++ trailing ->
  let u := upgrader stext (ucfgx sel ext (Some f)) B1 r1 in
  let d := dialer_upgrade (dcfgx ps exts) host uri nonce B2 r2 in
  u_err u = None /\ hs_exts (u_hs u) = neg_answers f exts /\ d_err d = Some DBadExtensions.
Proof. exact unoffered_extension_makes_dialer_fail. Qed.
Print Assumptions C11_unoffered_extension_makes_dialer_fail.

(* non-vacuity: the dialer offers  permessage-deflate; client_max_window_bits=10;
   server_no_context_takeover  and  foo; a=1  with subprotocols chat, superchat; the upgrader accepts
   superchat, echoes permessage-deflate and declines foo.  Both directions are delivered one byte at a
   time through 16-byte buffers, one frame behind the response.  The hypotheses of
   C11_agreement_extensions hold, both succeed with superchat and the one extension, parameters in
   order (the value-less one included).  Same offers against a table that answers foo with bar:
   hypotheses of C11_unoffered_extension_makes_dialer_fail, server ok, client ErrHandshakeBadExtensions.
   And the quoted-string value  a\b  that does not survive the writer/scanner pair. *)
Example C11_agreement_extensions_nonvacuous :
  let ps := [bs "chat"; bs "superchat"] in
  let pmd := mkOpt (bs "permessage-deflate")
               [(bs "client_max_window_bits", bs "10"); (bs "server_no_context_takeover", [])] in
  let exts := [pmd; mkOpt (bs "foo") [(bs "a", bs "1")]] in
  let host := bs "server.example.com" in
  let uri := bs "/chat" in
  let nonce := bs "dGhlIHNhbXBsZSBub25jZQ==" in
  let sel := Some (fun p => bytes_eqb p (bs "superchat")) in
  let neg := Some (fun o => if bytes_eqb (o_name o) (bs "permessage-deflate") then NegOk o else NegOk opt_zero) in
  let bytewise := fun l : list byte => mkReader [] (map (fun b => [b]) l) TEof in
  let req := write_upgrade_request (dcfgx ps exts) host uri nonce in
  let u := upgrader (fun _ => []) (ucfgx sel None neg) 16 (bytewise req) in
  let d := dialer_upgrade (dcfgx ps exts) host uri nonce 16 (bytewise (u_out u ++ [129; 1; 120])) in
  let bad := fun o => if bytes_eqb (o_name o) (bs "foo") then NegOk (mkOpt (bs "bar") []) else NegOk o in
  let u' := upgrader (fun _ => []) (ucfgx sel None (Some bad)) 16 (bytewise req) in
  let d' := dialer_upgrade (dcfgx ps exts) host uri nonce 16 (bytewise (u_out u')) in
  req_ok host uri nonce ps
  /\ (ext_ok neg exts = true
      /\ write_options exts
         = bs "permessage-deflate;client_max_window_bits=10;server_no_context_takeover,foo;a=1"
      /\ parse_options (write_options exts) = (exts, true)
      /\ u_err u = None /\ d_err d = None
      /\ hs_protocol (u_hs u) = bs "superchat" /\ hs_exts (u_hs u) = [pmd] /\ d_hs d = u_hs u
      /\ flat (d_reader d) = [129; 1; 120]
      /\ wf_opts exts = true /\ neg_answers_wf bad exts = true
      /\ forallb (offered exts) (neg_answers bad exts) = false
      /\ u_err u' = None /\ hs_exts (u_hs u') = [pmd; mkOpt (bs "bar") []]
      /\ d_err d' = Some DBadExtensions
      /\ parse_options (write_options [mkOpt (bs "x") [(bs "k", [97; 92; 98])]])
         = ([mkOpt (bs "x") [(bs "k", [97])]], true)).
Proof.
  intros ps pmd exts host uri nonce sel neg bytewise req u d bad u' d'. split.
  - unfold req_ok, is_tok, clean, ps, host, uri, nonce.
    repeat (split || constructor); try discriminate; reflexivity.
  - vm_compute. repeat split; reflexivity.
Qed.
