(* C11 — Handshake outcome is shared by both peers and independent of transport chunking.
   Only statements; each closed by [exact]. *)
Require Import Bytes HsBase64 HsSha1 HsBufio HsBufioProofs HsHttpHead HsHttp HsUpgrader HsUpgraderProofs
        HsDialer HsDialerProofs HsDebug HsAgreementProofs.
From Coq Require String.
Import String.StringSyntax.
Local Open Scope string_scope.
Local Open Scope list_scope.
Open Scope N_scope.

(* readLine over bufio.Reader over any chunking, for every buffer size B >= 1 (lines longer than B
   included): the line is the flat stream up to its first LF minus the line end, and the reader
   that remains is observationally the rest of the flat stream *)
Theorem C11_readLine_flat : forall B r l rest,
  1 <= B -> split_nl (flat r) = Some (l, rest) ->
  exists r', read_line B r = (LOk (cut_eol l), r') /\ flat r' = rest /\ r_tail r' = r_tail r.
Proof. exact read_line_flat_ok. Qed.
Print Assumptions C11_readLine_flat.

Theorem C11_readLine_flat_error : forall B r,
  1 <= B -> split_nl (flat r) = None -> fst (read_line B r) = LErr (r_tail r) (flat r).
Proof. exact read_line_flat_err. Qed.
Print Assumptions C11_readLine_flat_error.

(* chunking independence, server: error, handshake and bytes written depend only on the flat
   stream (and how it ends), not on the chunking nor on the buffer size *)
Theorem C11_upgrader_chunking_independent : forall stext cfg B1 B2 r1 r2,
  1 <= B1 -> 1 <= B2 -> flat r1 = flat r2 -> r_tail r1 = r_tail r2 ->
  upgrader stext cfg B1 r1 = upgrader stext cfg B2 r2.
Proof. exact upgrader_chunking_independent. Qed.
Print Assumptions C11_upgrader_chunking_independent.

(* chunking independence, client: error, handshake, request written and (on success) the bytes
   that remain readable *)
Theorem C11_dialer_chunking_independent : forall cfg url_host uri nonce B1 B2 r1 r2,
  1 <= B1 -> 1 <= B2 -> flat r1 = flat r2 -> r_tail r1 = r_tail r2 ->
  let a := dialer_upgrade cfg url_host uri nonce B1 r1 in
  let b := dialer_upgrade cfg url_host uri nonce B2 r2 in
  d_err a = d_err b /\ d_hs a = d_hs b /\ d_request a = d_request b
  /\ (d_err a = None -> flat (d_reader a) = flat (d_reader b)).
Proof. exact dialer_chunking_independent. Qed.
Print Assumptions C11_dialer_chunking_independent.

(* every configured size (0 = default, 1, 17, ...) maps to a buffer of at least 16 bytes *)
Theorem C11_buffer_sizes_covered : forall req dflt, 16 <= pool_buf_size req dflt.
Proof. exact pool_buf_size_min. Qed.
Print Assumptions C11_buffer_sizes_covered.

(* a token list written as  join ", "  is scanned back as itself *)
Theorem C11_token_list_roundtrip : forall ps, Forall is_tok ps -> ps <> [] ->
  token_list (join_comma_space ps) = (ps, true).
Proof. exact token_list_roundtrip. Qed.
Print Assumptions C11_token_list_roundtrip.

(* agreement, token-valued subprotocols (configurations without extensions, extra headers and
   objecting callbacks): composing both models over any chunkings and buffer sizes, both
   succeed, report the same subprotocol (the first offered one the selector accepts) and the
   bytes sent after the response are what the client can still read.
   Extension offers (and quoted-string parameter values) are covered by correspondence only. *)
Theorem C11_agreement_tokens : forall stext sel ps host uri nonce B1 B2 r1 r2 trailing,
  1 <= B1 -> 1 <= B2 -> req_ok host uri nonce ps ->
  flat r1 = d_request (dialer_upgrade (dcfg0 ps) host uri nonce B2 r2) ->
  flat r2 = u_out (upgrader stext (ucfg0 sel) B1 r1) ++ trailing ->
  let u := upgrader stext (ucfg0 sel) B1 r1 in
  let d := dialer_upgrade (dcfg0 ps) host uri nonce B2 r2 in
  u_err u = None /\ d_err d = None /\ d_hs d = u_hs u /\ flat (d_reader d) = trailing.
Proof. exact agreement_tokens. Qed.
Print Assumptions C11_agreement_tokens.

(* "or both fail": whatever makes the upgrader answer with an error response (any configuration,
   any request), a dialer reading that response fails too *)
Theorem C11_rejection_makes_dialer_fail : forall stext ucfg B1 r1 rj cfg url_host uri nonce B2 r2 trailing,
  1 <= B1 -> 1 <= B2 ->
  u_err (upgrader stext ucfg B1 r1) = Some (ERej rj) ->
  status_of rj <> 101 -> no_byte 10 (stext (status_of rj)) = true ->
  flat r2 = u_out (upgrader stext ucfg B1 r1) ++ trailing ->
  d_err (dialer_upgrade cfg url_host uri nonce B2 r2) <> None.
Proof. exact rejection_makes_dialer_fail. Qed.
Print Assumptions C11_rejection_makes_dialer_fail.

(* debug wrappers (partial: net/http's ReadRequest / ReadResponse enter as the observed numbers
   k = transport reads performed and n = bytes forming the message): the outcome equals the
   un-wrapped outcome, OnResponse / OnRequest receive the bytes written, and when the parser read
   the whole request OnRequest receives exactly it *)
Theorem C11_debug_upgrader_partial : forall stext cfg B k r, 1 <= B ->
  du_res (debug_upgrader stext cfg B k r) = upgrader stext cfg B r
  /\ du_on_response (debug_upgrader stext cfg B k r) = u_out (upgrader stext cfg B r)
  /\ (r_pending r = [] -> (length (r_chunks r) <= k)%nat -> du_on_request (debug_upgrader stext cfg B k r) = flat r).
Proof. exact debug_upgrader_transparent. Qed.
Print Assumptions C11_debug_upgrader_partial.

(* DebugDialer (after fixes F16/F17): same outcome, OnRequest = the request written, OnResponse =
   the first n bytes received, and when n is where the dialer's own parser stopped, the returned
   buffer followed by the connection yields exactly what the un-wrapped dialer leaves readable *)
Theorem C11_debug_dialer_partial : forall cfg url_host uri nonce B k n r, 1 <= B ->
  let w := debug_dialer cfg url_host uri nonce B k n r in
  let d := dialer_upgrade cfg url_host uri nonce B r in
  dd_err w = d_err d /\ dd_hs w = d_hs d /\ dd_on_request w = d_request d
  /\ (r_pending r = [] -> (n <= length (concat (firstn k (r_chunks r))))%nat ->
      dd_on_response w = firstn n (flat r)
      /\ (d_err d = None -> n = (length (flat r) - length (flat (d_reader d)))%nat ->
          dd_leftover w = flat (d_reader d))).
Proof. exact debug_dialer_transparent. Qed.
Print Assumptions C11_debug_dialer_partial.

(* non-vacuity: dialer offering chat, superchat against an upgrader that accepts only superchat;
   request read 1 byte at a time through 16 bytes, response in 7-byte reads through 17 bytes, one
   frame behind the response *)
Example C11_nonvacuous :
  let ps := [bs "chat"; bs "superchat"] in
  let nonce := bs "dGhlIHNhbXBsZSBub25jZQ==" in
  let sel := Some (fun p => bytes_eqb p (bs "superchat")) in
  let req := write_upgrade_request (dcfg0 ps) (bs "server.example.com") (bs "/chat") nonce in
  let u := upgrader (fun _ => []) (ucfg0 sel) 16 (mkReader [] (map (fun b => [b]) req) TEof) in
  let resp := u_out u ++ [129; 1; 120] in
  let d := dialer_upgrade (dcfg0 ps) (bs "server.example.com") (bs "/chat") nonce 17
             (mkReader [] [firstn 7 resp; firstn 7 (skipn 7 resp); skipn 14 resp] TEof) in
  u_err u = None /\ d_err d = None /\ hs_protocol (u_hs u) = bs "superchat" /\ d_hs d = u_hs u
  /\ flat (d_reader d) = [129; 1; 120]
  /\ token_list (bs "chat, superchat") = (ps, true).
Proof. vm_compute. repeat split; reflexivity. Qed.

(* ====================== extension offers ====================== *)
Require Import HsAgreeExt HsOptionsProofs HsAgreementExtProofs.

(* an option list whose names are tokens and whose parameters are (token attribute, token or
   absent value) pairs [wf_opts], written by httphead.WriteOptions (the value of the
   Sec-WebSocket-Extensions line of both httpWriteUpgradeRequest and httpWriteResponseUpgrade),
   is read back by ScanOptions / ParseOptions as exactly the same list: same options, same
   parameters, same order, nothing merged or dropped (the model's Parameters is the ordered pair
   list of httphead's arr/dyn storage, so this is plain equality; duplicates allowed).  An empty
   list is never written (ParseOptions of the empty value answers false), hence os <> [].
   Not covered: quoted-string values.  The writer escapes only the double quote and DEL, the scanner removes
   every backslash (and RemoveByte drops the byte after a backslash in last-but-one position), so
   e.g. the value  a\b  comes back as  a  (see the Example; a quirk of httphead's writer/scanner
   pair, not reachable with RFC 6455 extension parameters, which are tokens). *)
Theorem C11_option_list_roundtrip : forall os, wf_opts os = true -> os <> [] ->
  parse_options (write_options os) = (os, true).
Proof. exact option_list_roundtrip. Qed.
Print Assumptions C11_option_list_roundtrip.

(* agreement with extension offers: a dialer with subprotocols ps (tokens) and offers exts
   (well-formed as above; duplicates allowed) against an upgrader with a subprotocol selector sel
   and (a) the deprecated Extension filter [ext] — any predicate on the offered option —, and/or
   (b) a Negotiate function [neg] that on each offer returns no error and either declines (zero
   Option) or answers with a well-formed option carrying the name of one of the offers (the echo
   of the offer, or the same name with parameters of its own) [ext_ok]; Negotiate wins when both
   are set.  Over any chunkings and buffer sizes of both directions both sides succeed and return
   the same handshake: the first offered subprotocol the selector accepts, and the extensions
   [agreed_exts]: the accepted offers resp. the non-declining answers, in the client's order, same
   names, same parameters in the same order; the bytes behind the response stay readable.
   Not carried by this theorem: extra headers and objecting callbacks (as in C11_agreement_tokens);
   a Negotiate function returning an error (the upgrader rejects: C11_rejection_makes_dialer_fail);
   an answer whose name no offer carries (next theorem); quoted-string parameter values. *)
Theorem C11_agreement_extensions : forall stext sel ext neg ps exts host uri nonce B1 B2 r1 r2 trailing,
  1 <= B1 -> 1 <= B2 -> req_ok host uri nonce ps -> ext_ok neg exts = true ->
  flat r1 = d_request (dialer_upgrade (dcfgx ps exts) host uri nonce B2 r2) ->
  flat r2 = u_out (upgrader stext (ucfgx sel ext neg) B1 r1) ++ trailing ->
  let u := upgrader stext (ucfgx sel ext neg) B1 r1 in
  let d := dialer_upgrade (dcfgx ps exts) host uri nonce B2 r2 in
  u_err u = None /\ d_err d = None /\ d_hs d = u_hs u
  /\ u_hs u = mkHs (agreed_protocol sel ps) (agreed_exts ext neg exts)
  /\ flat (d_reader d) = trailing.
Proof. exact agreement_extensions. Qed.
Print Assumptions C11_agreement_extensions.

(* the mismatch side of "or both fail": when one of the (well-formed) answers of the Negotiate
   function carries a name that no offer carries, the upgrader still completes the handshake
   (it does not compare answers with offers) and reports those extensions, while the dialer stops
   at the Sec-WebSocket-Extensions line with ErrHandshakeBadExtensions — the client closes the
   connection, so no session runs with differing extension sets *)
Theorem C11_unoffered_extension_makes_dialer_fail :
  forall stext sel ext f ps exts host uri nonce B1 B2 r1 r2 trailing,
  1 <= B1 -> 1 <= B2 -> req_ok host uri nonce ps ->
  wf_opts exts = true -> neg_answers_wf f exts = true ->
  forallb (offered exts) (neg_answers f exts) = false ->
  flat r1 = d_request (dialer_upgrade (dcfgx ps exts) host uri nonce B2 r2) ->
  flat r2 = u_out (upgrader stext (ucfgx sel ext (Some f)) B1 r1) ++ trailing ->
  let u := upgrader stext (ucfgx sel ext (Some f)) B1 r1 in
  let d := dialer_upgrade (dcfgx ps exts) host uri nonce B2 r2 in
  u_err u = None /\ hs_exts (u_hs u) = neg_answers f exts /\ d_err d = Some DBadExtensions.
Proof. exact unoffered_extension_makes_dialer_fail. Qed.
Print Assumptions C11_unoffered_extension_makes_dialer_fail.

(* non-vacuity: the dialer offers  permessage-deflate; client_max_window_bits=10;
   server_no_context_takeover  and  foo; a=1  with subprotocols chat, superchat; the upgrader accepts
   superchat, echoes permessage-deflate and declines foo.  Both directions are delivered one byte at a
   time through 16-byte buffers, one frame behind the response.  The hypotheses of
   C11_agreement_extensions hold, both succeed with superchat and the one extension, parameters in
   order (the value-less one included).  Same offers against a table that answers foo with bar:
   hypotheses of C11_unoffered_extension_makes_dialer_fail, server ok, client ErrHandshakeBadExtensions.
   And the quoted-string value  a\b  that does not survive the writer/scanner pair. *)
Example C11_agreement_extensions_nonvacuous :
  let ps := [bs "chat"; bs "superchat"] in
  let pmd := mkOpt (bs "permessage-deflate")
               [(bs "client_max_window_bits", bs "10"); (bs "server_no_context_takeover", [])] in
  let exts := [pmd; mkOpt (bs "foo") [(bs "a", bs "1")]] in
  let host := bs "server.example.com" in
  let uri := bs "/chat" in
  let nonce := bs "dGhlIHNhbXBsZSBub25jZQ==" in
  let sel := Some (fun p => bytes_eqb p (bs "superchat")) in
  let neg := Some (fun o => if bytes_eqb (o_name o) (bs "permessage-deflate") then NegOk o else NegOk opt_zero) in
  let bytewise := fun l : list byte => mkReader [] (map (fun b => [b]) l) TEof in
  let req := write_upgrade_request (dcfgx ps exts) host uri nonce in
  let u := upgrader (fun _ => []) (ucfgx sel None neg) 16 (bytewise req) in
  let d := dialer_upgrade (dcfgx ps exts) host uri nonce 16 (bytewise (u_out u ++ [129; 1; 120])) in
  let bad := fun o => if bytes_eqb (o_name o) (bs "foo") then NegOk (mkOpt (bs "bar") []) else NegOk o in
  let u' := upgrader (fun _ => []) (ucfgx sel None (Some bad)) 16 (bytewise req) in
  let d' := dialer_upgrade (dcfgx ps exts) host uri nonce 16 (bytewise (u_out u')) in
  req_ok host uri nonce ps
  /\ (ext_ok neg exts = true
      /\ write_options exts
         = bs "permessage-deflate;client_max_window_bits=10;server_no_context_takeover,foo;a=1"
      /\ parse_options (write_options exts) = (exts, true)
      /\ u_err u = None /\ d_err d = None
      /\ hs_protocol (u_hs u) = bs "superchat" /\ hs_exts (u_hs u) = [pmd] /\ d_hs d = u_hs u
      /\ flat (d_reader d) = [129; 1; 120]
      /\ wf_opts exts = true /\ neg_answers_wf bad exts = true
      /\ forallb (offered exts) (neg_answers bad exts) = false
      /\ u_err u' = None /\ hs_exts (u_hs u') = [pmd; mkOpt (bs "bar") []]
      /\ d_err d' = Some DBadExtensions
      /\ parse_options (write_options [mkOpt (bs "x") [(bs "k", [97; 92; 98])]])
         = ([mkOpt (bs "x") [(bs "k", [97])]], true)).
Proof.
  intros ps pmd exts host uri nonce sel neg bytewise req u d bad u' d'. split.
  - unfold req_ok, is_tok, clean, ps, host, uri, nonce.
    repeat (split || constructor); try discriminate; reflexivity.
  - vm_compute. repeat split; reflexivity.
Qed.

(* ====================== debug wrappers: the full model ====================== *)
Require Import HsDebugFull HsDebugFullProofs.

(* wsutil.DebugDialer as transcribed in model/HsDebugFull.v (wrapped conn, tee buffers, net/http on the
   captured bytes, fallback search for the end of the head, splice-back of prefetched bytes).
   What enters from outside, universally quantified: [parse_head] = the answer of http.ReadResponse +
   body drain on the captured bytes (Some n: ok, n bytes consumed; None: error), [hreads] = the buffer
   sizes of the Read calls net/http's bufio.Reader makes on the tee (how far it reads ahead), [wcut] =
   how the Dialer's bufio.Writer cuts the request into Write calls, [chunks]/[t] = how the conn
   delivers the server's bytes and how it ends, [set_req]/[set_resp] = which callbacks are set.
   For every dialer configuration, URL parts, nonce and buffer size B >= 1: error and Handshake are
   those of the plain Dialer.Upgrade on the same conn, the conn receives exactly the plain dialer's
   request, OnRequest receives exactly that request, OnResponse is called iff it is set. *)
Theorem C11_debug_dialer_transparent :
  forall (parse_head : list byte -> option nat) (wcut : list byte -> list (list byte)),
  (forall x, concat (wcut x) = x) ->
  forall cfg url_host uri nonce B, 1 <= B ->
  forall hreads chunks t set_req set_resp,
  let w := debug_dialer_full parse_head wcut set_req set_resp cfg url_host uri nonce B hreads chunks t in
  let d := dialer_upgrade cfg url_host uri nonce B (mkReader [] chunks t) in
  fd_err w = d_err d /\ fd_hs w = d_hs d
  /\ concat (fd_conn_out w) = d_request d
  /\ fd_on_request w = (if set_req then Some (d_request d) else None)
  /\ (fd_on_response w = None <-> set_resp = false).
Proof. exact debug_dialer_full_transparent. Qed.
Print Assumptions C11_debug_dialer_transparent.

(* OnResponse and the bytes behind the response.  The only hypothesis about net/http: IF the plain
   dialer accepts the response (a 101: no body) AND net/http parsed it without error, THEN what
   net/http consumed ends with the first empty line (LF or CR LF ended) of the bytes captured.
   Nothing is assumed when net/http refuses, nor about how far it reads ahead.
   (1) Success: the stream has a first empty line at offset h; OnResponse receives exactly the first
       h bytes (the head, whatever the line ends); the returned buffer followed by the conn
       [fd_leftover] yields exactly the bytes from offset h on — each once, in order — which is also
       what the plain dialer leaves readable.  Covers: LF-only heads (F16), the dialer's own buffer
       ending exactly at the head and buffers smaller than the prefetched bytes (F17), heads net/http
       refuses and responses arriving in several reads (F22), chunks larger than either buffer.
   (2) Any outcome: OnResponse receives a prefix of what the server sent (nothing invented or
       reordered); (3) when net/http parsed the response, OnResponse receives what net/http consumed
       (head and body as net/http delimits it: the code's definition of "the response" on refusal). *)
Theorem C11_debug_dialer_response_and_leftover :
  forall (parse_head : list byte -> option nat) (wcut : list byte -> list (list byte)),
  (forall x, concat (wcut x) = x) ->
  forall cfg url_host uri nonce B, 1 <= B ->
  forall hreads chunks t,
  (d_err (dialer_upgrade cfg url_host uri nonce B (mkReader [] chunks t)) = None ->
   forall n, parse_head (fst (tee_fetch hreads [] chunks)) = Some n ->
             head_end (fst (tee_fetch hreads [] chunks)) = Some n) ->
  forall set_req,
  let w := debug_dialer_full parse_head wcut set_req true cfg url_host uri nonce B hreads chunks t in
  (d_err (dialer_upgrade cfg url_host uri nonce B (mkReader [] chunks t)) = None ->
     exists h, head_end (concat chunks) = Some h
       /\ fd_on_response w = Some (firstn h (concat chunks))
       /\ fd_leftover w = skipn h (concat chunks)
       /\ fd_leftover w = flat (d_reader (dialer_upgrade cfg url_host uri nonce B (mkReader [] chunks t))))
  /\ (exists resp rest, fd_on_response w = Some resp /\ concat chunks = resp ++ rest)
  /\ (forall n, parse_head (fst (tee_fetch hreads [] chunks)) = Some n ->
                fd_on_response w = Some (firstn n (fst (tee_fetch hreads [] chunks))))
  /\ fd_captured w = fst (tee_fetch hreads [] chunks).
Proof. exact debug_dialer_full_response_and_leftover. Qed.
Print Assumptions C11_debug_dialer_response_and_leftover.

(* without OnResponse the wrapped conn reads the conn itself: buffer and conn are the plain dialer's *)
Theorem C11_debug_dialer_no_response_callback :
  forall (parse_head : list byte -> option nat) (wcut : list byte -> list (list byte))
         cfg url_host uri nonce B hreads chunks t set_req,
  let w := debug_dialer_full parse_head wcut set_req false cfg url_host uri nonce B hreads chunks t in
  let d := dialer_upgrade cfg url_host uri nonce B (mkReader [] chunks t) in
  fd_br w = (if d_returns_br d then Some (r_pending (d_reader d)) else None)
  /\ fd_conn w = r_chunks (d_reader d)
  /\ (d_err d = None -> fd_leftover w = flat (d_reader d)).
Proof. exact debug_dialer_full_no_response_callback. Qed.
Print Assumptions C11_debug_dialer_no_response_callback.

(* wsutil.DebugUpgrader (after fix F24, d4d7004): result (error, Handshake, bytes written) = the plain
   Upgrader's on the same conn, for every configuration, buffer size, chunking, read-ahead and answer
   of net/http's ReadRequest, cutting of writes and callback setting; OnResponse receives exactly the
   bytes written; OnRequest is called iff set.  No byte is invented or lost by the wrapper:
   * net/http parsed the request: OnRequest receives exactly the bytes net/http read (a prefix of the
     client's bytes); the client's bytes are those, then what the Upgrader read from the conn on its
     own, then what the conn still delivers; when the captured bytes hold a complete head (an empty
     line) the Upgrader does not read the conn again: every byte is reported or still unread.
   * net/http refused: the wrapper keeps recording: OnRequest receives the captured bytes followed by
     everything the Upgrader's bufio.Reader took from the conn, and every byte the client sent is
     either in that argument or still unread on the conn.
   * the Upgrader succeeds: the stream has a first empty line at offset h, and (net/http refused, or
     the captured bytes hold a complete head) OnRequest's argument starts with the complete request
     head: its first h bytes are the first h bytes of the stream.
   (As with the plain Upgrader, bytes that arrive in the same reads as the head are read into a buffer
   that is not handed to the caller; RFC 6455 4.1 forbids the client to send them before the
   response.  They are reported to OnRequest.) *)
Theorem C11_debug_upgrader_transparent :
  forall (parse_head : list byte -> option nat) (wcut : list byte -> list (list byte)),
  (forall x, concat (wcut x) = x) ->
  forall stext cfg B, 1 <= B ->
  forall hreads chunks t set_req set_resp,
  let w := debug_upgrader_full parse_head wcut set_req set_resp stext cfg B hreads chunks t in
  let u := upgrader stext cfg B (mkReader [] chunks t) in
  let captured := fst (tee_fetch hreads [] chunks) in
  fu_res w = u
  /\ concat (fu_conn_out w) = u_out u
  /\ fu_on_response w = (if set_resp then Some (u_out u) else None)
  /\ (fu_on_request w = None <-> set_req = false)
  /\ (set_req = false -> exists mid, concat chunks = mid ++ concat (fu_conn w))
  /\ (set_req = true ->
       (parse_head captured <> None ->
          fu_on_request w = Some captured
          /\ (exists mid, concat chunks = captured ++ mid ++ concat (fu_conn w))
          /\ (head_end captured <> None -> concat chunks = captured ++ concat (fu_conn w)))
       /\ (parse_head captured = None ->
            exists taken, fu_on_request w = Some (captured ++ taken)
                          /\ concat chunks = (captured ++ taken) ++ concat (fu_conn w))
       /\ (u_err u = None ->
            exists h, head_end (concat chunks) = Some h
              /\ (parse_head captured = None \/ head_end captured <> None ->
                  exists req, fu_on_request w = Some req /\ (h <= length req)%nat
                              /\ firstn h req = firstn h (concat chunks)))).
Proof. exact debug_upgrader_full_transparent. Qed.
Print Assumptions C11_debug_upgrader_transparent.

(* F24 repaired (replaces C11_debug_upgrader_request_truncated_refuted): when the upgrade succeeds and
   net/http either refused the request or captured a complete head, OnRequest receives bytes that
   start with the whole request head, and every byte of the client is in that argument or still
   unread on the conn. *)
Theorem C11_debug_upgrader_reports_whole_request :
  forall (parse_head : list byte -> option nat) (wcut : list byte -> list (list byte)),
  (forall x, concat (wcut x) = x) ->
  forall stext cfg B, 1 <= B ->
  forall hreads chunks t set_resp,
  let w := debug_upgrader_full parse_head wcut true set_resp stext cfg B hreads chunks t in
  let captured := fst (tee_fetch hreads [] chunks) in
  u_err (upgrader stext cfg B (mkReader [] chunks t)) = None ->
  parse_head captured = None \/ head_end captured <> None ->
  exists h req, head_end (concat chunks) = Some h
    /\ fu_on_request w = Some req
    /\ (h <= length req)%nat /\ firstn h req = firstn h (concat chunks)
    /\ concat chunks = req ++ concat (fu_conn w).
Proof. exact debug_upgrader_full_reports_request. Qed.
Print Assumptions C11_debug_upgrader_reports_whole_request.

(* the witness of F24: a request that ws.Upgrader accepts and net/http refuses (version HTTP/1.10),
   arriving in two reads of 40 and 113 bytes; net/http gives up after the first read.  The repaired
   model reports all 153 bytes; the model of the code before d4d7004 reported the first 40. *)
Example C11_debug_upgrader_F24_witness :
  let req := bs "GET /ws HTTP/1.10" ++ crlf ++ bs "Host: example.com" ++ crlf
             ++ bs "Upgrade: websocket" ++ crlf ++ bs "Connection: Upgrade" ++ crlf
             ++ bs "Sec-WebSocket-Version: 13" ++ crlf
             ++ bs "Sec-WebSocket-Key: dGhlIHNhbXBsZSBub25jZQ==" ++ crlf ++ crlf in
  let chunks := [firstn 40 req; skipn 40 req] in
  let w := debug_upgrader_full (fun _ => None) (fun x => [x]) true true (fun _ => []) (ucfg0 None) 4096 [4096] chunks TEof in
  let w0 := debug_upgrader_full_old (fun x => [x]) true true (fun _ => []) (ucfg0 None) 4096 [4096] chunks TEof in
  length req = 153%nat
  /\ u_err (fu_res w) = None /\ fu_on_request w = Some req /\ fu_conn w = []
  /\ u_err (fu_res w0) = None /\ fu_on_request w0 = Some (firstn 40 req).
Proof. vm_compute. repeat split; reflexivity. Qed.

(* non-vacuity of the dialer theorems.
   (a) a realistic exchange: subprotocols chat, superchat; the response is the upgrader model's, one
       text frame  81 01 78  behind it; the conn delivers 50 bytes, then the rest together with the
       frame; net/http needs two reads (so it has prefetched the frame), answers with the end of the
       head (the hypothesis of the theorem holds by construction: parse_head = head_end); the
       dialer's own buffer is 16 bytes.  Same outcome as the plain dialer, OnRequest = the request,
       OnResponse = the head, the returned buffer holds exactly the frame.
   (b) LF-only head that net/http refuses (HTTP/1.10), delivered 7 bytes at a time through a 16-byte
       buffer, net/http giving up after its first read, two frames behind the head (the second one
       holding an empty line): OnResponse = the head up to its empty line, leftover = both frames. *)
Example C11_debug_dialer_nonvacuous :
  let ps := [bs "chat"; bs "superchat"] in
  let nonce := bs "dGhlIHNhbXBsZSBub25jZQ==" in
  let host := bs "server.example.com" in
  let sel := Some (fun p => bytes_eqb p (bs "superchat")) in
  let req := write_upgrade_request (dcfg0 ps) host (bs "/chat") nonce in
  let u := upgrader (fun _ => []) (ucfg0 sel) 16 (mkReader [] [req] TEof) in
  let frame := [129; 1; 120] in
  let resp := u_out u ++ frame in
  let chunks := [firstn 50 resp; skipn 50 resp] in
  let w := debug_dialer_full head_end (fun x => [x]) true true (dcfg0 ps) host (bs "/chat") nonce 16
             [4096; 4096] chunks TEof in
  let lf := [10] in
  let head2 := bs "HTTP/1.10 101 x" ++ lf ++ bs "Upgrade: websocket" ++ lf ++ bs "Connection: Upgrade" ++ lf
               ++ bs "Sec-WebSocket-Accept: " ++ accept_of_key nonce ++ lf ++ lf in
  let frames2 := [129; 2; 104; 105; 129; 2; 10; 10] in
  let sevens := fix cut (n : nat) (l : list byte) := match n with O => [] | S n' =>
                  match l with [] => [] | _ => firstn 7 l :: cut n' (skipn 7 l) end end in
  let w2 := debug_dialer_full (fun _ => None) (fun x => [x]) true true (dcfg0 []) host (bs "/chat") nonce 16
              [4096] (sevens 40%nat (head2 ++ frames2)) TEof in
  (fd_err w = None /\ hs_protocol (fd_hs w) = bs "superchat"
   /\ fd_on_request w = Some req /\ fd_on_response w = Some (u_out u)
   /\ fd_captured w = resp /\ fd_br w = Some frame /\ fd_conn w = [] /\ fd_leftover w = frame)
  /\ (fd_err w2 = None /\ fd_on_response w2 = Some head2 /\ fd_leftover w2 = frames2
      /\ fd_captured w2 = firstn 7 head2).
Proof. vm_compute. repeat split; reflexivity. Qed.

(* non-vacuity, upgrader: the request of (a) delivered 100 bytes at a time with a masked frame behind
   it in the last chunk; net/http reads until it has the head: OnRequest receives all bytes read
   (request and the frame that came with its last bytes), OnResponse the 101, nothing is left on the
   conn and nothing was read by the Upgrader on its own. *)
Example C11_debug_upgrader_nonvacuous :
  let ps := [bs "chat"; bs "superchat"] in
  let nonce := bs "dGhlIHNhbXBsZSBub25jZQ==" in
  let sel := Some (fun p => bytes_eqb p (bs "superchat")) in
  let req := write_upgrade_request (dcfg0 ps) (bs "server.example.com") (bs "/chat") nonce in
  let frame := [129; 129; 1; 2; 3; 4; 121] in
  let all := req ++ frame in
  let chunks := [firstn 100 all; firstn 100 (skipn 100 all); skipn 200 all] in
  let w := debug_upgrader_full head_end (fun x => [x]) true true (fun _ => []) (ucfg0 sel) 4096
             [4096; 3996; 3896] chunks TEof in
  u_err (fu_res w) = None /\ hs_protocol (u_hs (fu_res w)) = bs "superchat"
  /\ fu_on_request w = Some all /\ fu_on_response w = Some (u_out (fu_res w))
  /\ fu_conn w = [] /\ head_end all = Some (length req).
Proof. vm_compute. repeat split; reflexivity. Qed.
(* ====================== quoted-string parameter values ====================== *)
Require Import HsAgreeQ HsQuotedProofs.

(* the exact set of parameter values that survive httphead's writer / scanner pair [qv_ok]:
   non-empty, and either a token or free of backslashes and not ending in a double quote or DEL
   (every other octet anywhere: 0..31, 128..255, space, separators, interior quotes and DELs).
   For such a value WriteOptions of the one option  name; k=v  is read back by ParseOptions as
   exactly that option ... *)
Theorem C11_quoted_value_roundtrip : forall name k v, tokb name = true -> tokb k = true -> qv_ok v = true ->
  parse_options (write_options [mkOpt name [(k, v)]]) = ([mkOpt name [(k, v)]], true).
Proof. exact quoted_value_roundtrip. Qed.
Print Assumptions C11_quoted_value_roundtrip.

(* ... and for no other non-empty value: the frontier is exact (a value ending in a backslash is
   not even lexed: the closing quote counts as escaped; a value with a backslash elsewhere, or
   ending in a quote or DEL, comes back shorter) *)
Theorem C11_quoted_value_frontier : forall name k v, tokb name = true -> tokb k = true -> v <> [] ->
  parse_options (write_options [mkOpt name [(k, v)]]) = ([mkOpt name [(k, v)]], true) -> qv_ok v = true.
Proof. exact quoted_value_frontier. Qed.
Print Assumptions C11_quoted_value_frontier.

(* whole lists: token names and attributes, values absent / token / quoted inside the frontier
   [qv_opts] come back unchanged; with values that are merely lexable (token, or not ending in a
   backslash) [lx_opts] the list comes back NORMALISED: each value v replaced by nrm_value v = what
   RemoveByte leaves of the escaped form *)
Theorem C11_option_list_roundtrip_quoted : forall os, qv_opts os = true -> os <> [] ->
  parse_options (write_options os) = (os, true).
Proof. exact option_list_roundtrip_q. Qed.
Print Assumptions C11_option_list_roundtrip_quoted.

Theorem C11_option_list_normalised : forall os, lx_opts os = true -> os <> [] ->
  parse_options (write_options os) = (nrm_opts os, true).
Proof. exact option_list_normalised. Qed.
Print Assumptions C11_option_list_normalised.

(* C11_agreement_extensions with wf_param relaxed: parameter values of the client's offers AND of
   the server's answers may be absent, tokens, or arbitrary octet strings inside the frontier qv_ok
   that contain no LF (a raw LF is not escaped by the writer and would end the header line)
   [extq_ok: qv_opts and nl_free on the offers; the Negotiate table returns no error on the offers,
   its non-declining answers are qv_opts, nl_free and carry offered names].  Same conclusion: both
   succeed over any chunkings and buffer sizes, same subprotocol, same extensions with the same
   parameters in the same order, trailing bytes readable. *)
Theorem C11_agreement_extensions_quoted : forall stext sel ext neg ps exts host uri nonce B1 B2 r1 r2 trailing,
  1 <= B1 -> 1 <= B2 -> req_ok host uri nonce ps -> extq_ok neg exts = true ->
  flat r1 = d_request (dialer_upgrade (dcfgx ps exts) host uri nonce B2 r2) ->
  flat r2 = u_out (upgrader stext (ucfgx sel ext neg) B1 r1) ++ trailing ->
  let u := upgrader stext (ucfgx sel ext neg) B1 r1 in
  let d := dialer_upgrade (dcfgx ps exts) host uri nonce B2 r2 in
  u_err u = None /\ d_err d = None /\ d_hs d = u_hs u
  /\ u_hs u = mkHs (agreed_protocol sel ps) (agreed_exts ext neg exts)
  /\ flat (d_reader d) = trailing.
Proof. exact agreement_extensions_quoted. Qed.
Print Assumptions C11_agreement_extensions_quoted.

(* outside the frontier, for every lexable value (token, or not ending in a backslash; no LF) on
   offers and answers [extl_ok]: both peers still succeed, the upgrader reports what its filter /
   Negotiate table selected from the SCANNED offers [seen_exts = agreed_exts on nrm_opts exts], and
   the dialer reports the scanned form of THAT ... *)
Theorem C11_both_succeed_dialer_reports_scanned :
  forall stext sel ext neg ps exts host uri nonce B1 B2 r1 r2 trailing,
  1 <= B1 -> 1 <= B2 -> req_ok host uri nonce ps -> extl_ok neg exts = true ->
  flat r1 = d_request (dialer_upgrade (dcfgx ps exts) host uri nonce B2 r2) ->
  flat r2 = u_out (upgrader stext (ucfgx sel ext neg) B1 r1) ++ trailing ->
  let u := upgrader stext (ucfgx sel ext neg) B1 r1 in
  let d := dialer_upgrade (dcfgx ps exts) host uri nonce B2 r2 in
  u_err u = None /\ d_err d = None
  /\ u_hs u = mkHs (agreed_protocol sel ps) (seen_exts ext neg exts)
  /\ d_hs d = mkHs (agreed_protocol sel ps) (nrm_opts (seen_exts ext neg exts))
  /\ flat (d_reader d) = trailing.
Proof. exact both_succeed_dialer_reports_scanned. Qed.
Print Assumptions C11_both_succeed_dialer_reports_scanned.

(* ... so agreement after normalisation holds exactly when the upgrader's selection is a fixed
   point of write-then-scan (e.g. whenever the scanned offers / the answers are inside qv_ok; the
   offer value  a\b  is seen as  a  by both); it is NOT true in general, see C11_quoted_refuted *)
Theorem C11_agreement_after_normalisation_iff :
  forall stext sel ext neg ps exts host uri nonce B1 B2 r1 r2 trailing,
  1 <= B1 -> 1 <= B2 -> req_ok host uri nonce ps -> extl_ok neg exts = true ->
  flat r1 = d_request (dialer_upgrade (dcfgx ps exts) host uri nonce B2 r2) ->
  flat r2 = u_out (upgrader stext (ucfgx sel ext neg) B1 r1) ++ trailing ->
  let u := upgrader stext (ucfgx sel ext neg) B1 r1 in
  let d := dialer_upgrade (dcfgx ps exts) host uri nonce B2 r2 in
  u_err u = None /\ d_err d = None /\ flat (d_reader d) = trailing
  /\ (d_hs d = u_hs u <-> nrm_opts (seen_exts ext neg exts) = seen_exts ext neg exts).
Proof. exact agreement_iff_stable. Qed.
Print Assumptions C11_agreement_after_normalisation_iff.

(* FINDING F23.  The agreement clause of C11 is false for quoted-string values outside the
   frontier: the dialer offers  x; k=<61 22 22>  (the three octets a, double quote, double quote), the upgrader's
   Extension filter accepts every offer.  All hypotheses of the previous two theorems hold, both
   peers succeed, the upgrader reports k = <61 22> and the dialer reports k = <61>: the wire carries
   the escaped forms and RemoveByte loses the byte behind a backslash in last-but-one position, once
   on each side.  Same with DEL in place of the quote, and with a Negotiate function that answers
   with a value ending in a quote or DEL.  Reproduced on the Go code (observation kind A11Q). *)
Theorem C11_quoted_refuted :
  exists stext sel ext neg ps exts host uri nonce B1 B2 r1 r2 trailing,
  1 <= B1 /\ 1 <= B2 /\ req_ok host uri nonce ps /\ extl_ok neg exts = true
  /\ flat r1 = d_request (dialer_upgrade (dcfgx ps exts) host uri nonce B2 r2)
  /\ flat r2 = u_out (upgrader stext (ucfgx sel ext neg) B1 r1) ++ trailing
  /\ let u := upgrader stext (ucfgx sel ext neg) B1 r1 in
     let d := dialer_upgrade (dcfgx ps exts) host uri nonce B2 r2 in
     u_err u = None /\ d_err d = None
     /\ hs_exts (u_hs u) = [mkOpt (bs "x") [(bs "k", [97; 34])]]
     /\ hs_exts (d_hs d) = [mkOpt (bs "x") [(bs "k", [97])]]
     /\ d_hs d <> u_hs u.
Proof. exact quoted_refuted. Qed.
Print Assumptions C11_quoted_refuted.

(* non-vacuity: the offers  x  with parameters q = <needs, quoting; a=b>, e = <61 22 62> (a, double quote, b),
   z = <00 c8 0d 7f 21>  and  y; t=tok; f  (values with space, comma, semicolon, equals sign, interior
   quote, control bytes, interior DEL) against a Negotiate table that echoes x and answers y with
   y; r=<1 2> : extq_ok holds, both succeed bytewise through 16-byte buffers with exactly those
   extensions.  And qv_ok / nrm_value on samples. *)
Example C11_quoted_nonvacuous :
  let x := mkOpt (bs "x") [(bs "q", bs "needs, quoting; a=b"); (bs "e", [97; 34; 98]); (bs "z", [0; 200; 13; 127; 33])] in
  let y := mkOpt (bs "y") [(bs "t", bs "tok"); (bs "f", [])] in
  let y' := mkOpt (bs "y") [(bs "r", bs "1 2")] in
  let exts := [x; y] in
  let host := bs "server.example.com" in
  let uri := bs "/chat" in
  let nonce := bs "dGhlIHNhbXBsZSBub25jZQ==" in
  let neg := Some (fun o => if bytes_eqb (o_name o) (bs "x") then NegOk o else NegOk y') in
  let bytewise := fun l : list byte => mkReader [] (map (fun b => [b]) l) TEof in
  let req := write_upgrade_request (dcfgx [] exts) host uri nonce in
  let u := upgrader (fun _ => []) (ucfgx None None neg) 16 (bytewise req) in
  let d := dialer_upgrade (dcfgx [] exts) host uri nonce 16 (bytewise (u_out u ++ [129; 1; 120])) in
  req_ok host uri nonce []
  /\ (extq_ok neg exts = true
      /\ u_err u = None /\ d_err d = None /\ hs_exts (u_hs u) = [x; y'] /\ d_hs d = u_hs u
      /\ flat (d_reader d) = [129; 1; 120]
      /\ map qv_ok [bs "a b"; [97; 34; 98]; [97; 34]; [97; 127]; [97; 92; 98]; [97; 92]; []; [10]; bs "tok"]
         = [true; true; false; false; false; false; false; true; true]
      /\ map nrm_value [[97; 34; 34]; [97; 34]; [97; 92; 98]; [92; 32]] = [[97; 34]; [97]; [97]; []]).
Proof.
  intros x y y' exts host uri nonce neg bytewise req u d. split.
  - unfold req_ok, is_tok, clean, host, uri, nonce.
    repeat (split || constructor); try discriminate; reflexivity.
  - vm_compute. repeat split; reflexivity.
Qed.
