(* C11 — Handshake outcome is shared by both peers and independent of transport chunking.
   Only statements; each closed by [exact]. *)
Require Import Bytes HsBase64 HsSha1 HsBufio HsBufioProofs HsHttpHead HsHttp HsUpgrader HsUpgraderProofs
        HsDialer HsDialerProofs HsDebug HsAgreementProofs.
From Coq Require String.
Import String.StringSyntax.
Local Open Scope string_scope.
Local Open Scope list_scope.
Open Scope N_scope.

(* readLine over bufio.Reader over any chunking, for every buffer size B >= 1 (lines longer than B
   included): the line is the flat stream up to its first LF minus the line end, and the reader
   that remains is observationally the rest of the flat stream *)
Theorem C11_readLine_flat : forall B r l rest,
  1 <= B -> split_nl (flat r) = Some (l, rest) ->
  exists r', read_line B r = (LOk (cut_eol l), r') /\ flat r' = rest /\ r_tail r' = r_tail r.
Proof. exact read_line_flat_ok. Qed.
Print Assumptions C11_readLine_flat.

Theorem C11_readLine_flat_error : forall B r,
  1 <= B -> split_nl (flat r) = None -> fst (read_line B r) = LErr (r_tail r) (flat r).
Proof. exact read_line_flat_err. Qed.
Print Assumptions C11_readLine_flat_error.

(* chunking independence, server: error, handshake and bytes written depend only on the flat
   stream (and how it ends), not on the chunking nor on the buffer size *)
Theorem C11_upgrader_chunking_independent : forall stext cfg B1 B2 r1 r2,
  1 <= B1 -> 1 <= B2 -> flat r1 = flat r2 -> r_tail r1 = r_tail r2 ->
  upgrader stext cfg B1 r1 = upgrader stext cfg B2 r2.
Proof. exact upgrader_chunking_independent. Qed.
Print Assumptions C11_upgrader_chunking_independent.

(* chunking independence, client: error, handshake, request written and (on success) the bytes
   that remain readable *)
Theorem C11_dialer_chunking_independent : forall cfg url_host uri nonce B1 B2 r1 r2,
  1 <= B1 -> 1 <= B2 -> flat r1 = flat r2 -> r_tail r1 = r_tail r2 ->
  let a := dialer_upgrade cfg url_host uri nonce B1 r1 in
  let b := dialer_upgrade cfg url_host uri nonce B2 r2 in
  d_err a = d_err b /\ d_hs a = d_hs b /\ d_request a = d_request b
  /\ (d_err a = None -> flat (d_reader a) = flat (d_reader b)).
Proof. exact dialer_chunking_independent. Qed.
Print Assumptions C11_dialer_chunking_independent.

(* every configured size (0 = default, 1, 17, ...) maps to a buffer of at least 16 bytes *)
Theorem C11_buffer_sizes_covered : forall req dflt, 16 <= pool_buf_size req dflt.
Proof. exact pool_buf_size_min. Qed.
Print Assumptions C11_buffer_sizes_covered.

(* a token list written as  join ", "  is scanned back as itself *)
Theorem C11_token_list_roundtrip : forall ps, Forall is_tok ps -> ps <> [] ->
  token_list (join_comma_space ps) = (ps, true).
Proof. exact token_list_roundtrip. Qed.
Print Assumptions C11_token_list_roundtrip.

(* agreement, token-valued subprotocols (configurations without extensions, extra headers and
   objecting callbacks): composing both models over any chunkings and buffer sizes, both
   succeed, report the same subprotocol (the first offered one the selector accepts) and the
   bytes sent after the response are what the client can still read.
   Extension offers (and quoted-string parameter values) are covered by correspondence only. *)
Theorem C11_agreement_tokens : forall stext sel ps host uri nonce B1 B2 r1 r2 trailing,
  1 <= B1 -> 1 <= B2 -> req_ok host uri nonce ps ->
  flat r1 = d_request (dialer_upgrade (dcfg0 ps) host uri nonce B2 r2) ->
  flat r2 = u_out (upgrader stext (ucfg0 sel) B1 r1) ++ trailing ->
  let u := upgrader stext (ucfg0 sel) B1 r1 in
  let d := dialer_upgrade (dcfg0 ps) host uri nonce B2 r2 in
  u_err u = None /\ d_err d = None /\ d_hs d = u_hs u /\ flat (d_reader d) = trailing.
Proof. exact agreement_tokens. Qed.
Print Assumptions C11_agreement_tokens.

(* "or both fail": whatever makes the upgrader answer with an error response (any configuration,
   any request), a dialer reading that response fails too *)
Theorem C11_rejection_makes_dialer_fail : forall stext ucfg B1 r1 rj cfg url_host uri nonce B2 r2 trailing,
  1 <= B1 -> 1 <= B2 ->
  u_err (upgrader stext ucfg B1 r1) = Some (ERej rj) ->
  status_of rj <> 101 -> no_byte 10 (stext (status_of rj)) = true ->
  flat r2 = u_out (upgrader stext ucfg B1 r1) ++ trailing ->
  d_err (dialer_upgrade cfg url_host uri nonce B2 r2) <> None.
Proof. exact rejection_makes_dialer_fail. Qed.
Print Assumptions C11_rejection_makes_dialer_fail.

(* debug wrappers (partial: net/http's ReadRequest / ReadResponse enter as the observed numbers
   k = transport reads performed and n = bytes forming the message): the outcome equals the
   un-wrapped outcome, OnResponse / OnRequest receive the bytes written, and when the parser read
   the whole request OnRequest receives exactly it *)
Theorem C11_debug_upgrader_partial : forall stext cfg B k r, 1 <= B ->
  du_res (debug_upgrader stext cfg B k r) = upgrader stext cfg B r
  /\ du_on_response (debug_upgrader stext cfg B k r) = u_out (upgrader stext cfg B r)
  /\ (r_pending r = [] -> (length (r_chunks r) <= k)%nat -> du_on_request (debug_upgrader stext cfg B k r) = flat r).
Proof. exact debug_upgrader_transparent. Qed.
Print Assumptions C11_debug_upgrader_partial.

(* DebugDialer (after fixes F16/F17): same outcome, OnRequest = the request written, OnResponse =
   the first n bytes received, and when n is where the dialer's own parser stopped, the returned
   buffer followed by the connection yields exactly what the un-wrapped dialer leaves readable *)
Theorem C11_debug_dialer_partial : forall cfg url_host uri nonce B k n r, 1 <= B ->
  let w := debug_dialer cfg url_host uri nonce B k n r in
  let d := dialer_upgrade cfg url_host uri nonce B r in
  dd_err w = d_err d /\ dd_hs w = d_hs d /\ dd_on_request w = d_request d
  /\ (r_pending r = [] -> (n <= length (concat (firstn k (r_chunks r))))%nat ->
      dd_on_response w = firstn n (flat r)
      /\ (d_err d = None -> n = (length (flat r) - length (flat (d_reader d)))%nat ->
          dd_leftover w = flat (d_reader d))).
Proof. exact debug_dialer_transparent. Qed.
Print Assumptions C11_debug_dialer_partial.

(* non-vacuity: dialer offering chat, superchat against an upgrader that accepts only superchat;
   request read 1 byte at a time through 16 bytes, response in 7-byte reads through 17 bytes, one
   frame behind the response *)
Example C11_nonvacuous :
  let ps := [bs "chat"; bs "superchat"] in
  let nonce := bs "dGhlIHNhbXBsZSBub25jZQ==" in
  let sel := Some (fun p => bytes_eqb p (bs "superchat")) in
  let req := write_upgrade_request (dcfg0 ps) (bs "server.example.com") (bs "/chat") nonce in
  let u := upgrader (fun _ => []) (ucfg0 sel) 16 (mkReader [] (map (fun b => [b]) req) TEof) in
  let resp := u_out u ++ [129; 1; 120] in
  let d := dialer_upgrade (dcfg0 ps) (bs "server.example.com") (bs "/chat") nonce 17
             (mkReader [] [firstn 7 resp; firstn 7 (skipn 7 resp); skipn 14 resp] TEof) in
  u_err u = None /\ d_err d = None /\ hs_protocol (u_hs u) = bs "superchat" /\ d_hs d = u_hs u
  /\ flat (d_reader d) = [129; 1; 120]
  /\ token_list (bs "chat, superchat") = (ps, true).
Proof. vm_compute. repeat split; reflexivity. Qed.
