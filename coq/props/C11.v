(* C11 — Handshake outcome is shared by both peers and independent of transport chunking.
   Only statements; each closed by [exact]. *)
Require Import Bytes HsBase64 HsSha1 HsBufio HsBufioProofs HsHttpHead HsHttp HsUpgrader HsUpgraderProofs
        HsDialer HsDialerProofs HsDebug HsAgreementProofs.
From Coq Require String.
Import String.StringSyntax.
Local Open Scope string_scope.
Local Open Scope list_scope.
Open Scope N_scope.

(* readLine over bufio.Reader over any chunking, for every buffer size B >= 1 (lines longer than B
   included): the line is the flat stream up to its first LF minus the line end, and the reader
   that remains is observationally the rest of the flat stream *)
Theorem C11_readLine_flat : forall B r l rest,
  1 <= B -> split_nl (flat r) = Some (l, rest) ->
  exists r', read_line B r = (LOk (cut_eol l), r') /\ flat r' = rest /\ r_tail r' = r_tail r.
Proof. exact read_line_flat_ok. Qed.
Print Assumptions C11_readLine_flat.

Theorem C11_readLine_flat_error : forall B r,
  1 <= B -> split_nl (flat r) = None -> fst (read_line B r) = LErr (r_tail r) (flat r).
Proof. exact read_line_flat_err. Qed.
Print Assumptions C11_readLine_flat_error.

(* chunking independence, server: error, handshake and bytes written depend only on the flat
   stream (and how it ends), not on the chunking nor on the buffer size *)
Theorem C11_upgrader_chunking_independent : forall stext cfg B1 B2 r1 r2,
  1 <= B1 -> 1 <= B2 -> flat r1 = flat r2 -> r_tail r1 = r_tail r2 ->
  upgrader stext cfg B1 r1 = upgrader stext cfg B2 r2.
Proof. exact upgrader_chunking_independent. Qed.
Print Assumptions C11_upgrader_chunking_independent.

(* chunking independence, client: error, handshake, request written and (on success) the bytes
   that remain readable *)
Theorem C11_dialer_chunking_independent : forall cfg url_host uri nonce B1 B2 r1 r2,
  1 <= B1 -> 1 <= B2 -> flat r1 = flat r2 -> r_tail r1 = r_tail r2 ->
  let a := dialer_upgrade cfg url_host uri nonce B1 r1 in
  let b := dialer_upgrade cfg url_host uri nonce B2 r2 in
  d_err a = d_err b /\ d_hs a = d_hs b /\ d_request a = d_request b
  /\ (d_err a = None -> flat (d_reader a) = flat (d_reader b)).
Proof. exact dialer_chunking_independent. Qed.
Print Assumptions C11_dialer_chunking_independent.

(* every configured size (0 = default, 1, 17, ...) maps to a buffer of at least 16 bytes *)
Theorem C11_buffer_sizes_covered : forall req dflt, 16 <= pool_buf_size req dflt.
Proof. exact pool_buf_size_min. Qed.
Print Assumptions C11_buffer_sizes_covered.

(* a token list written as  join ", "  is scanned back as itself *)
Theorem C11_token_list_roundtrip : forall ps, Forall is_tok ps -> ps <> [] ->
  token_list (join_comma_space ps) = (ps, true).
Proof. exact token_list_roundtrip. Qed.
Print Assumptions C11_token_list_roundtrip.

(* agreement, token-valued subprotocols (configurations without extensions, extra headers and
   objecting callbacks): composing both models over any chunkings and buffer sizes, both
   succeed, report the same subprotocol (the first offered one the selector accepts) and the
   bytes sent after the response are what the client can still read.
   Extension offers (and quoted-string parameter values) are covered by correspondence only. *)
Theorem C11_agreement_tokens : forall stext sel ps host uri nonce B1 B2 r1 r2 trailing,
  1 <= B1 -> 1 <= B2 -> req_ok host uri nonce ps ->
  flat r1 = d_request (dialer_upgrade (dcfg0 ps) host uri nonce B2 r2) ->
  flat r2 = u_out (upgrader stext (ucfg0 sel) B1 r1) ++ trailing ->
  let u := upgrader stext (ucfg0 sel) B1 r1 in
  let d := dialer_upgrade (dcfg0 ps) host uri nonce B2 r2 in
  u_err u = None /\ d_err d = None /\ d_hs d = u_hs u /\ flat (d_reader d) = trailing.
Proof. exact agreement_tokens. Qed.
Print Assumptions C11_agreement_tokens.

(* "or both fail": whatever makes the upgrader answer with an error response (any configuration,
   any request), a dialer reading that response fails too *)
Theorem C11_rejection_makes_dialer_fail : forall stext ucfg B1 r1 rj cfg url_host uri nonce B2 r2 trailing,
  1 <= B1 -> 1 <= B2 ->
  u_err (upgrader stext ucfg B1 r1) = Some (ERej rj) ->
  status_of rj <> 101 -> no_byte 10 (stext (status_of rj)) = true ->
  flat r2 = u_out (upgrader stext ucfg B1 r1) ++ trailing ->
  d_err (dialer_upgrade cfg url_host uri nonce B2 r2) <> None.
Proof. exact rejection_makes_dialer_fail. Qed.
Print Assumptions C11_rejection_makes_dialer_fail.

(* debug wrappers (partial: net/http's ReadRequest / ReadResponse enter as the observed numbers
   k = transport reads performed and n = bytes forming the message): the outcome equals the
   un-wrapped outcome, OnResponse / OnRequest receive the bytes written, and when the parser read
   the whole request OnRequest receives exactly it *)
Theorem C11_debug_upgrader_partial : forall stext cfg B k r, 1 <= B ->
  du_res (debug_upgrader stext cfg B k r) = upgrader stext cfg B r
  /\ du_on_response (debug_upgrader stext cfg B k r) = u_out (upgrader stext cfg B r)
  /\ (r_pending r = [] -> (length (r_chunks r) <= k)%nat -> du_on_request (debug_upgrader stext cfg B k r) = flat r).
Proof. exact debug_upgrader_transparent. Qed.
Print Assumptions C11_debug_upgrader_partial.

(* DebugDialer (after fixes F16/F17): same outcome, OnRequest = the request written, OnResponse =
   the first n bytes received, and when n is where the dialer's own parser stopped, the returned
   buffer followed by the connection yields exactly what the un-wrapped dialer leaves readable *)
Theorem C11_debug_dialer_partial : forall cfg url_host uri nonce B k n r, 1 <= B ->
  let w := debug_dialer cfg url_host uri nonce B k n r in
  let d := dialer_upgrade cfg url_host uri nonce B r in
  dd_err w = d_err d /\ dd_hs w = d_hs d /\ dd_on_request w = d_request d
  /\ (r_pending r = [] -> (n <= length (concat (firstn k (r_chunks r))))%nat ->
      dd_on_response w = firstn n (flat r)
      /\ (d_err d = None -> n = (length (flat r) - length (flat (d_reader d)))%nat ->
          dd_leftover w = flat (d_reader d))).
Proof. exact debug_dialer_transparent. Qed.
Print Assumptions C11_debug_dialer_partial.

(* non-vacuity: dialer offering chat, superchat against an upgrader that accepts only superchat;
   request read 1 byte at a time through 16 bytes, response in 7-byte reads through 17 bytes, one
   frame behind the response *)
Example C11_nonvacuous :
  let ps := [bs "chat"; bs "superchat"] in
  let nonce := bs "dGhlIHNhbXBsZSBub25jZQ==" in
  let sel := Some (fun p => bytes_eqb p (bs "superchat")) in
  let req := write_upgrade_request (dcfg0 ps) (bs "server.example.com") (bs "/chat") nonce in
  let u := upgrader (fun _ => []) (ucfg0 sel) 16 (mkReader [] (map (fun b => [b]) req) TEof) in
  let resp := u_out u ++ [129; 1; 120] in
  let d := dialer_upgrade (dcfg0 ps) (bs "server.example.com") (bs "/chat") nonce 17
             (mkReader [] [firstn 7 resp; firstn 7 (skipn 7 resp); skipn 14 resp] TEof) in
  u_err u = None /\ d_err d = None /\ hs_protocol (u_hs u) = bs "superchat" /\ d_hs d = u_hs u
  /\ flat (d_reader d) = [129; 1; 120]
  /\ token_list (bs "chat, superchat") = (ps, true).
Proof. vm_compute. repeat split; reflexivity. Qed.

(* ====================== extension offers ====================== *)
Require Import HsAgreeExt HsOptionsProofs HsAgreementExtProofs.

(* an option list whose names are tokens and whose parameters are (token attribute, token or
   absent value) pairs [wf_opts], written by httphead.WriteOptions (the value of the
   Sec-WebSocket-Extensions line of both httpWriteUpgradeRequest and httpWriteResponseUpgrade),
   is read back by ScanOptions / ParseOptions as exactly the same list: same options, same
   parameters, same order, nothing merged or dropped (the model's Parameters is the ordered pair
   list of httphead's arr/dyn storage, so this is plain equality; duplicates allowed).  An empty
   list is never written (ParseOptions of the empty value answers false), hence os <> [].
   Not covered: quoted-string values.  The writer escapes only the double quote and DEL, the scanner removes
   every backslash (and RemoveByte drops the byte after a backslash in last-but-one position), so
   e.g. the value  a\b  comes back as  a  (see the Example; a quirk of httphead's writer/scanner
   pair, not reachable with RFC 6455 extension parameters, which are tokens). *)
Theorem C11_option_list_roundtrip : forall os, wf_opts os = true -> os <> [] ->
  parse_options (write_options os) = (os, true).
Proof. exact option_list_roundtrip. Qed.
Print Assumptions C11_option_list_roundtrip.

(* agreement with extension offers: a dialer with subprotocols ps (tokens) and offers exts
   (well-formed as above; duplicates allowed) against an upgrader with a subprotocol selector sel
   and (a) the deprecated Extension filter [ext] — any predicate on the offered option —, and/or
   (b) a Negotiate function [neg] that on each offer returns no error and either declines (zero
   Option) or answers with a well-formed option carrying the name of one of the offers (the echo
   of the offer, or the same name with parameters of its own) [ext_ok]; Negotiate wins when both
   are set.  Over any chunkings and buffer sizes of both directions both sides succeed and return
   the same handshake: the first offered subprotocol the selector accepts, and the extensions
   [agreed_exts]: the accepted offers resp. the non-declining answers, in the client's order, same
   names, same parameters in the same order; the bytes behind the response stay readable.
   Not carried by this theorem: extra headers and objecting callbacks (as in C11_agreement_tokens);
   a Negotiate function returning an error (the upgrader rejects: C11_rejection_makes_dialer_fail);
   an answer whose name no offer carries (next theorem); quoted-string parameter values. *)
Theorem C11_agreement_extensions : forall stext sel ext neg ps exts host uri nonce B1 B2 r1 r2 trailing,
  1 <= B1 -> 1 <= B2 -> req_ok host uri nonce ps -> ext_ok neg exts = true ->
  flat r1 = d_request (dialer_upgrade (dcfgx ps exts) host uri nonce B2 r2) ->
  flat r2 = u_out (upgrader stext (ucfgx sel ext neg) B1 r1) ++ trailing ->
  let u := upgrader stext (ucfgx sel ext neg) B1 r1 in
  let d := dialer_upgrade (dcfgx ps exts) host uri nonce B2 r2 in
  u_err u = None /\ d_err d = None /\ d_hs d = u_hs u
  /\ u_hs u = mkHs (agreed_protocol sel ps) (agreed_exts ext neg exts)
  /\ flat (d_reader d) = trailing.
Proof. exact agreement_extensions. Qed.
Print Assumptions C11_agreement_extensions.

(* the mismatch side of "or both fail": when one of the (well-formed) answers of the Negotiate
   function carries a name that no offer carries, the upgrader still completes the handshake
   (it does not compare answers with offers) and reports those extensions, while the dialer stops
   at the Sec-WebSocket-Extensions line with ErrHandshakeBadExtensions — the client closes the
   connection, so no session runs with differing extension sets *)
Theorem C11_unoffered_extension_makes_dialer_fail :
  forall stext sel ext f ps exts host uri nonce B1 B2 r1 r2 trailing,
  1 <= B1 -> 1 <= B2 -> req_ok host uri nonce ps ->
  wf_opts exts = true -> neg_answers_wf f exts = true ->
  forallb (offered exts) (neg_answers f exts) = false ->
  flat r1 = d_request (dialer_upgrade (dcfgx ps exts) host uri nonce B2 r2) ->
  flat r2 = u_out (upgrader stext (ucfgx sel ext (Some f)) B1 r1) ++ trailing ->
  let u := upgrader stext (ucfgx sel ext (Some f)) B1 r1 in
  let d := dialer_upgrade (dcfgx ps exts) host uri nonce B2 r2 in
  u_err u = None /\ hs_exts (u_hs u) = neg_answers f exts /\ d_err d = Some DBadExtensions.
Proof. exact unoffered_extension_makes_dialer_fail. Qed.
Print Assumptions C11_unoffered_extension_makes_dialer_fail.

(* non-vacuity: the dialer offers  permessage-deflate; client_max_window_bits=10;
   server_no_context_takeover  and  foo; a=1  with subprotocols chat, superchat; the upgrader accepts
   superchat, echoes permessage-deflate and declines foo.  Both directions are delivered one byte at a
   time through 16-byte buffers, one frame behind the response.  The hypotheses of
   C11_agreement_extensions hold, both succeed with superchat and the one extension, parameters in
   order (the value-less one included).  Same offers against a table that answers foo with bar:
   hypotheses of C11_unoffered_extension_makes_dialer_fail, server ok, client ErrHandshakeBadExtensions.
   And the quoted-string value  a\b  that does not survive the writer/scanner pair. *)
Example C11_agreement_extensions_nonvacuous :
  let ps := [bs "chat"; bs "superchat"] in
  let pmd := mkOpt (bs "permessage-deflate")
               [(bs "client_max_window_bits", bs "10"); (bs "server_no_context_takeover", [])] in
  let exts := [pmd; mkOpt (bs "foo") [(bs "a", bs "1")]] in
  let host := bs "server.example.com" in
  let uri := bs "/chat" in
  let nonce := bs "dGhlIHNhbXBsZSBub25jZQ==" in
  let sel := Some (fun p => bytes_eqb p (bs "superchat")) in
  let neg := Some (fun o => if bytes_eqb (o_name o) (bs "permessage-deflate") then NegOk o else NegOk opt_zero) in
  let bytewise := fun l : list byte => mkReader [] (map (fun b => [b]) l) TEof in
  let req := write_upgrade_request (dcfgx ps exts) host uri nonce in
  let u := upgrader (fun _ => []) (ucfgx sel None neg) 16 (bytewise req) in
  let d := dialer_upgrade (dcfgx ps exts) host uri nonce 16 (bytewise (u_out u ++ [129; 1; 120])) in
  let bad := fun o => if bytes_eqb (o_name o) (bs "foo") then NegOk (mkOpt (bs "bar") []) else NegOk o in
  let u' := upgrader (fun _ => []) (ucfgx sel None (Some bad)) 16 (bytewise req) in
  let d' := dialer_upgrade (dcfgx ps exts) host uri nonce 16 (bytewise (u_out u')) in
  req_ok host uri nonce ps
  /\ (ext_ok neg exts = true
      /\ write_options exts
         = bs "permessage-deflate;client_max_window_bits=10;server_no_context_takeover,foo;a=1"
      /\ parse_options (write_options exts) = (exts, true)
      /\ u_err u = None /\ d_err d = None
      /\ hs_protocol (u_hs u) = bs "superchat" /\ hs_exts (u_hs u) = [pmd] /\ d_hs d = u_hs u
      /\ flat (d_reader d) = [129; 1; 120]
      /\ wf_opts exts = true /\ neg_answers_wf bad exts = true
      /\ forallb (offered exts) (neg_answers bad exts) = false
      /\ u_err u' = None /\ hs_exts (u_hs u') = [pmd; mkOpt (bs "bar") []]
      /\ d_err d' = Some DBadExtensions
      /\ parse_options (write_options [mkOpt (bs "x") [(bs "k", [97; 92; 98])]])
         = ([mkOpt (bs "x") [(bs "k", [97])]], true)).
Proof.
  intros ps pmd exts host uri nonce sel neg bytewise req u d bad u' d'. split.
  - unfold req_ok, is_tok, clean, ps, host, uri, nonce.
    repeat (split || constructor); try discriminate; reflexivity.
  - vm_compute. repeat split; reflexivity.
Qed.

(* ====================== quoted-string parameter values ====================== *)
Require Import HsAgreeQ HsQuotedProofs.

(* the exact set of parameter values that survive httphead's writer / scanner pair [qv_ok]:
   non-empty, and either a token or free of backslashes and not ending in a double quote or DEL
   (every other octet anywhere: 0..31, 128..255, space, separators, interior quotes and DELs).
   For such a value WriteOptions of the one option  name; k=v  is read back by ParseOptions as
   exactly that option ... *)
Theorem C11_quoted_value_roundtrip : forall name k v, tokb name = true -> tokb k = true -> qv_ok v = true ->
  parse_options (write_options [mkOpt name [(k, v)]]) = ([mkOpt name [(k, v)]], true).
Proof. exact quoted_value_roundtrip. Qed.
Print Assumptions C11_quoted_value_roundtrip.

(* ... and for no other non-empty value: the frontier is exact (a value ending in a backslash is
   not even lexed: the closing quote counts as escaped; a value with a backslash elsewhere, or
   ending in a quote or DEL, comes back shorter) *)
Theorem C11_quoted_value_frontier : forall name k v, tokb name = true -> tokb k = true -> v <> [] ->
  parse_options (write_options [mkOpt name [(k, v)]]) = ([mkOpt name [(k, v)]], true) -> qv_ok v = true.
Proof. exact quoted_value_frontier. Qed.
Print Assumptions C11_quoted_value_frontier.

(* whole lists: token names and attributes, values absent / token / quoted inside the frontier
   [qv_opts] come back unchanged; with values that are merely lexable (token, or not ending in a
   backslash) [lx_opts] the list comes back NORMALISED: each value v replaced by nrm_value v = what
   RemoveByte leaves of the escaped form *)
Theorem C11_option_list_roundtrip_quoted : forall os, qv_opts os = true -> os <> [] ->
  parse_options (write_options os) = (os, true).
Proof. exact option_list_roundtrip_q. Qed.
Print Assumptions C11_option_list_roundtrip_quoted.

Theorem C11_option_list_normalised : forall os, lx_opts os = true -> os <> [] ->
  parse_options (write_options os) = (nrm_opts os, true).
Proof. exact option_list_normalised. Qed.
Print Assumptions C11_option_list_normalised.

(* C11_agreement_extensions with wf_param relaxed: parameter values of the client's offers AND of
   the server's answers may be absent, tokens, or arbitrary octet strings inside the frontier qv_ok
   that contain no LF (a raw LF is not escaped by the writer and would end the header line)
   [extq_ok: qv_opts and nl_free on the offers; the Negotiate table returns no error on the offers,
   its non-declining answers are qv_opts, nl_free and carry offered names].  Same conclusion: both
   succeed over any chunkings and buffer sizes, same subprotocol, same extensions with the same
   parameters in the same order, trailing bytes readable. *)
Theorem C11_agreement_extensions_quoted : forall stext sel ext neg ps exts host uri nonce B1 B2 r1 r2 trailing,
  1 <= B1 -> 1 <= B2 -> req_ok host uri nonce ps -> extq_ok neg exts = true ->
  flat r1 = d_request (dialer_upgrade (dcfgx ps exts) host uri nonce B2 r2) ->
  flat r2 = u_out (upgrader stext (ucfgx sel ext neg) B1 r1) ++ trailing ->
  let u := upgrader stext (ucfgx sel ext neg) B1 r1 in
  let d := dialer_upgrade (dcfgx ps exts) host uri nonce B2 r2 in
  u_err u = None /\ d_err d = None /\ d_hs d = u_hs u
  /\ u_hs u = mkHs (agreed_protocol sel ps) (agreed_exts ext neg exts)
  /\ flat (d_reader d) = trailing.
Proof. exact agreement_extensions_quoted. Qed.
Print Assumptions C11_agreement_extensions_quoted.

(* outside the frontier, for every lexable value (token, or not ending in a backslash; no LF) on
   offers and answers [extl_ok]: both peers still succeed, the upgrader reports what its filter /
   Negotiate table selected from the SCANNED offers [seen_exts = agreed_exts on nrm_opts exts], and
   the dialer reports the scanned form of THAT ... *)
Theorem C11_both_succeed_dialer_reports_scanned :
  forall stext sel ext neg ps exts host uri nonce B1 B2 r1 r2 trailing,
  1 <= B1 -> 1 <= B2 -> req_ok host uri nonce ps -> extl_ok neg exts = true ->
  flat r1 = d_request (dialer_upgrade (dcfgx ps exts) host uri nonce B2 r2) ->
  flat r2 = u_out (upgrader stext (ucfgx sel ext neg) B1 r1) ++ trailing ->
  let u := upgrader stext (ucfgx sel ext neg) B1 r1 in
  let d := dialer_upgrade (dcfgx ps exts) host uri nonce B2 r2 in
  u_err u = None /\ d_err d = None
  /\ u_hs u = mkHs (agreed_protocol sel ps) (seen_exts ext neg exts)
  /\ d_hs d = mkHs (agreed_protocol sel ps) (nrm_opts (seen_exts ext neg exts))
  /\ flat (d_reader d) = trailing.
Proof. exact both_succeed_dialer_reports_scanned. Qed.
Print Assumptions C11_both_succeed_dialer_reports_scanned.

(* ... so agreement after normalisation holds exactly when the upgrader's selection is a fixed
   point of write-then-scan (e.g. whenever the scanned offers / the answers are inside qv_ok; the
   offer value  a\b  is seen as  a  by both); it is NOT true in general, see C11_quoted_refuted *)
Theorem C11_agreement_after_normalisation_iff :
  forall stext sel ext neg ps exts host uri nonce B1 B2 r1 r2 trailing,
  1 <= B1 -> 1 <= B2 -> req_ok host uri nonce ps -> extl_ok neg exts = true ->
  flat r1 = d_request (dialer_upgrade (dcfgx ps exts) host uri nonce B2 r2) ->
  flat r2 = u_out (upgrader stext (ucfgx sel ext neg) B1 r1) ++ trailing ->
  let u := upgrader stext (ucfgx sel ext neg) B1 r1 in
  let d := dialer_upgrade (dcfgx ps exts) host uri nonce B2 r2 in
  u_err u = None /\ d_err d = None /\ flat (d_reader d) = trailing
  /\ (d_hs d = u_hs u <-> nrm_opts (seen_exts ext neg exts) = seen_exts ext neg exts).
Proof. exact agreement_iff_stable. Qed.
Print Assumptions C11_agreement_after_normalisation_iff.

(* FINDING F23.  The agreement clause of C11 is false for quoted-string values outside the
   frontier: the dialer offers  x; k=<61 22 22>  (the three octets a, double quote, double quote), the upgrader's
   Extension filter accepts every offer.  All hypotheses of the previous two theorems hold, both
   peers succeed, the upgrader reports k = <61 22> and the dialer reports k = <61>: the wire carries
   the escaped forms and RemoveByte loses the byte behind a backslash in last-but-one position, once
   on each side.  Same with DEL in place of the quote, and with a Negotiate function that answers
   with a value ending in a quote or DEL.  Reproduced on the Go code (observation kind A11Q). *)
Theorem C11_quoted_refuted :
  exists stext sel ext neg ps exts host uri nonce B1 B2 r1 r2 trailing,
  1 <= B1 /\ 1 <= B2 /\ req_ok host uri nonce ps /\ extl_ok neg exts = true
  /\ flat r1 = d_request (dialer_upgrade (dcfgx ps exts) host uri nonce B2 r2)
  /\ flat r2 = u_out (upgrader stext (ucfgx sel ext neg) B1 r1) ++ trailing
  /\ let u := upgrader stext (ucfgx sel ext neg) B1 r1 in
     let d := dialer_upgrade (dcfgx ps exts) host uri nonce B2 r2 in
     u_err u = None /\ d_err d = None
     /\ hs_exts (u_hs u) = [mkOpt (bs "x") [(bs "k", [97; 34])]]
     /\ hs_exts (d_hs d) = [mkOpt (bs "x") [(bs "k", [97])]]
     /\ d_hs d <> u_hs u.
Proof. exact quoted_refuted. Qed.
Print Assumptions C11_quoted_refuted.

(* non-vacuity: the offers  x  with parameters q = <needs, quoting; a=b>, e = <61 22 62> (a, double quote, b),
   z = <00 c8 0d 7f 21>  and  y; t=tok; f  (values with space, comma, semicolon, equals sign, interior
   quote, control bytes, interior DEL) against a Negotiate table that echoes x and answers y with
   y; r=<1 2> : extq_ok holds, both succeed bytewise through 16-byte buffers with exactly those
   extensions.  And qv_ok / nrm_value on samples. *)
Example C11_quoted_nonvacuous :
  let x := mkOpt (bs "x") [(bs "q", bs "needs, quoting; a=b"); (bs "e", [97; 34; 98]); (bs "z", [0; 200; 13; 127; 33])] in
  let y := mkOpt (bs "y") [(bs "t", bs "tok"); (bs "f", [])] in
  let y' := mkOpt (bs "y") [(bs "r", bs "1 2")] in
  let exts := [x; y] in
  let host := bs "server.example.com" in
  let uri := bs "/chat" in
  let nonce := bs "dGhlIHNhbXBsZSBub25jZQ==" in
  let neg := Some (fun o => if bytes_eqb (o_name o) (bs "x") then NegOk o else NegOk y') in
  let bytewise := fun l : list byte => mkReader [] (map (fun b => [b]) l) TEof in
  let req := write_upgrade_request (dcfgx [] exts) host uri nonce in
  let u := upgrader (fun _ => []) (ucfgx None None neg) 16 (bytewise req) in
  let d := dialer_upgrade (dcfgx [] exts) host uri nonce 16 (bytewise (u_out u ++ [129; 1; 120])) in
  req_ok host uri nonce []
  /\ (extq_ok neg exts = true
      /\ u_err u = None /\ d_err d = None /\ hs_exts (u_hs u) = [x; y'] /\ d_hs d = u_hs u
      /\ flat (d_reader d) = [129; 1; 120]
      /\ map qv_ok [bs "a b"; [97; 34; 98]; [97; 34]; [97; 127]; [97; 92; 98]; [97; 92]; []; [10]; bs "tok"]
         = [true; true; false; false; false; false; false; true; true]
      /\ map nrm_value [[97; 34; 34]; [97; 34]; [97; 92; 98]; [92; 32]] = [[97; 34]; [97]; [97]; []]).
Proof.
  intros x y y' exts host uri nonce neg bytewise req u d. split.
  - unfold req_ok, is_tok, clean, host, uri, nonce.
    repeat (split || constructor); try discriminate; reflexivity.
  - vm_compute. repeat split; reflexivity.
Qed.
