(* C05 — Message reader rejects a protocol violation at the first offending frame.
   Only statements; each closed by [exact]. The stream-level statement (prefix
   delivered as for a valid stream, then the error) is C04_reader_meets_spec in
   props/C04.v, whose spec [spec_run] stops at the first offending frame; here
   are the per-frame obligations it rests on. *)
Require Import Bytes Stream Utf8Spec Check Frame Cipher Utf8Dfa Extracted Reader
  BytesProofs StreamProofs CheckProofs FrameProofs ReaderLocalProofs.
Open Scope N_scope.

(* whatever the reader's state and the transport chunking: a frame whose header
   breaks an owned rule is refused with a protocol error naming a broken rule,
   and only its header bytes have been consumed — no payload byte is read *)
Theorem C05_offending_frame_refused : forall r h rest rl,
  r_skip r = false -> wf_header h -> wf_bytes rest -> wf_src (r_src r) ->
  flat (r_src r) = rfc_header h ++ rest ->
  check_header (norm_header h) (r_state r) = Some rl ->
  exists s', next_frame r = ((norm_header h, Some (RProtocol rl)), set_src r s') /\ flat s' = rest
             /\ In rl (broken (norm_header h) (r_state r)).
Proof. exact next_frame_rejects. Qed.
Print Assumptions C05_offending_frame_refused.

(* a frame announcing more than the configured maximum is refused before any of
   its payload is read *)
Theorem C05_oversized_frame_refused : forall r h rest,
  wf_header h -> wf_bytes rest -> wf_src (r_src r) ->
  flat (r_src r) = rfc_header h ++ rest ->
  (if r_skip r then None else check_header (norm_header h) (r_state r)) = None ->
  (0 < r_max r < h_len h)%Z ->
  exists s', next_frame r = ((norm_header h, Some RTooLarge), set_src r s') /\ flat s' = rest.
Proof. exact next_frame_too_large. Qed.
Print Assumptions C05_oversized_frame_refused.

Example C05_nonvacuous :
  let fs := [mkSF false 0 1 None [97]; mkSF true 0 9 None [1]; mkSF true 0 2 None [98]; mkSF true 0 0 None [99]] in
  let c := mkCfg 2 false 0 false in
  sr_out (spec_run c 0 None [] fs) = OProtocol 2 /\ length (sr_events (spec_run c 0 None [] fs)) = 1%nat /\
  dr_err (drive 100 [3] (new_reader (bytewise (wire fs) TEOF) 2 false false 0 false CbReadAll))
    = RProtocol ContinuationExpected.
Proof. vm_compute. repeat split; reflexivity. Qed.

(* ------------------------------------------------------------------ the stream-level statement, spelled out *)
Require Import ReaderAux ReaderStream ReaderStreamC05.

(* THE STREAM.  [pre ++ f :: post]: any frames [pre], the offending frame [f], anything
   [post] after it; every frame only has to be well-formed as an object ([wf_sframe]:
   field ranges, 4-byte key).  [s] is ANY transport chunking of its wire bytes, [bufs] any
   caller buffer sizes.  The reader's configuration [c] (side and extension bits, UTF-8
   checking, size limit, compression extension) is arbitrary.
   [pre] IS ACCEPTED: the frame-sequence spec run on [pre] alone ends without a violation,
   either between two messages ([open = false], outcome OClean) or with a data message
   still being assembled ([open = true], outcome OCutMidMessage).
   [f] IS REFUSED in that position — position = the ws.State the reader holds when it is
   asked for this frame: its configured bits plus "fragmented" iff a message is open —
     - [broken (sf_header f) st <> []]: some rule of the independent rule set of C03 is
       broken (reserved bits without an extension, a reserved opcode, a fragmented or
       over-125-byte control frame, a continuation with no message open, a new data frame
       while one is open, wrong masking for the side), or
     - [too_large c f]: it announces more than the configured maximum.
   THEN the NextFrame / read-to-EOF loop over wsutil.Reader ends with
     - the protocol error naming EXACTLY the rule ws.CheckHeader reports for this header
       in this state — one of the broken rules — resp., when only the size rule is
       broken, the size error (a header violation takes precedence, as in the code);
     - events (completed messages and control frames, in stream order) exactly those of
       [pre]; the bytes handed out for the unfinished message exactly the fragments of the
       message open at the end of [pre];
     - hence: every data byte delivered (completed messages, then the unfinished one) is a
       data byte of [pre] — all of them, in order, and nothing else: not one payload byte
       of [f] or of [post] is delivered as message data — and the control frames
       delivered are exactly the control frames of [pre]. *)
Theorem C05_stream_violation : forall c pre f post s bufs fuel (open : bool),
  wf_cfg c -> Forall wf_sframe (pre ++ f :: post) -> wf_src s -> tl s = TEOF ->
  flat s = wire (pre ++ f :: post) ->
  (2 * length (wire (pre ++ f :: post)) + 4 * length (pre ++ f :: post) + 8 <= fuel)%nat ->
  sr_out (spec_run c 0 None [] pre) = (if open then OCutMidMessage else OClean) ->
  (broken (sf_header f) (set_fragmented (c_state c) open) <> [] \/ too_large c f = true) ->
  let sp := spec_run c 0 None [] pre in
  let d := drive fuel bufs (new_reader s (c_state c) false (c_check_utf8 c) (c_max c) (c_ext c) CbReadAll) in
  match check_header (sf_header f) (set_fragmented (c_state c) open) with
  | Some rl => dr_err d = RProtocol rl /\ In rl (broken (sf_header f) (set_fragmented (c_state c) open))
  | None => dr_err d = RTooLarge
  end /\
  evs_match (sr_events sp) (dr_events d) = true /\
  dr_partial d = sr_partial sp /\
  data_bytes_of_events (dr_events d) ++ dr_partial d = data_bytes_of_frames pre /\
  ctl_of_events (dr_events d) = ctl_of_frames pre.
Proof. exact stream_violation. Qed.
Print Assumptions C05_stream_violation.

(* the same through helper.go:ReadMessage called repeatedly ([read_messages], see
   C04_read_message_meets_spec: CheckUTF8, no size limit, no extension): the call that
   meets [f] returns the protocol error naming exactly CheckHeader's rule; the
   concatenated results are exactly the events of [pre]; ReadMessage drops the fragments
   of the message open at the end of [pre] together with the error, so the data bytes
   returned are the data bytes of [pre] short of exactly those fragments — again nothing
   of [f] or [post] *)
Theorem C05_read_message_violation : forall state pre f post s bufs fuel (open : bool),
  wf_cfg (mkCfg state true 0 false) -> Forall wf_sframe (pre ++ f :: post) -> wf_src s -> tl s = TEOF ->
  flat s = wire (pre ++ f :: post) ->
  (length (wire (pre ++ f :: post)) + 2 <= fuel)%nat ->
  sr_out (spec_run (mkCfg state true 0 false) 0 None [] pre) = (if open then OCutMidMessage else OClean) ->
  broken (sf_header f) (set_fragmented state open) <> [] ->
  let sp := spec_run (mkCfg state true 0 false) 0 None [] pre in
  let '(evs, e) := read_messages fuel bufs s state [] in
  (exists rl, check_header (sf_header f) (set_fragmented state open) = Some rl /\ e = RProtocol rl /\
              In rl (broken (sf_header f) (set_fragmented state open))) /\
  evs_match (sr_events sp) evs = true /\
  data_bytes_of_events evs ++ sr_partial sp = data_bytes_of_frames pre /\
  ctl_of_events evs = ctl_of_frames pre.
Proof. exact read_message_violation. Qed.
Print Assumptions C05_read_message_violation.

(* a server (frames must be masked), transport chunks of 3,1,7,2,... bytes, caller
   buffers 2,5,1: a text message and a ping are delivered, a binary message is begun, a
   pong arrives inside it, then frame 5 starts a NEW text message while the binary one is
   open. Hypotheses hold; the error names the rule; "x" (120) and the 9 after it never
   show up. Second stream: the limit is 4 bytes and frame 2 announces 5. *)
Example C05_stream_nonvacuous :
  let k1 := [17; 34; 51; 68] in let k2 := [255; 0; 128; 7] in
  let pre := [mkSF true 0 1 (Some k1) [104; 105]; mkSF true 0 9 (Some k2) [1; 2; 3];
              mkSF false 0 2 (Some k2) [7; 8]; mkSF true 0 10 (Some k1) [4]] in
  let f := mkSF true 0 1 (Some k1) [120] in
  let post := [mkSF true 0 0 (Some k2) [9]] in
  let c := mkCfg 1 true 0 false in
  let fs := pre ++ f :: post in
  let s := mkSrc (chunk_by [3; 1; 7; 2] (wire fs)) TEOF in
  let fuel := (2 * length (wire fs) + 4 * length fs + 8)%nat in
  let d := drive fuel [2; 5; 1] (new_reader s 1 false true 0 false CbReadAll) in
  (wf_cfg c /\ Forall wf_sframe fs /\ wf_src s /\ tl s = TEOF /\ flat s = wire fs) /\
  sr_out (spec_run c 0 None [] pre) = OCutMidMessage /\
  broken (sf_header f) (set_fragmented 1 true) = [ContinuationExpected] /\
  dr_err d = RProtocol ContinuationExpected /\
  dr_events d = [mkEv 1 [104; 105] false false; mkEv 9 [1; 2; 3] false false; mkEv 10 [4] true false] /\
  dr_partial d = [7; 8] /\
  data_bytes_of_events (dr_events d) ++ dr_partial d = [104; 105; 7; 8] /\
  data_bytes_of_frames pre = [104; 105; 7; 8] /\
  ctl_of_events (dr_events d) = [(9, [1; 2; 3]); (10, [4])] /\
  read_messages (length (wire fs) + 2) [2; 5; 1] s 1 [] =
    ([mkEv 1 [104; 105] false false; mkEv 9 [1; 2; 3] false false; mkEv 10 [4] true false],
     RProtocol ContinuationExpected) /\
  (let pre2 := [mkSF true 0 1 (Some k1) [104; 105]] in
   let f2 := mkSF true 0 2 (Some k1) [1; 2; 3; 4; 5] in
   let c2 := mkCfg 1 true 4 false in
   let s2 := mkSrc (chunk_by [3; 1; 7; 2] (wire (pre2 ++ f2 :: post))) TEOF in
   let d2 := drive 100 [2; 5; 1] (new_reader s2 1 false true 4 false CbReadAll) in
   sr_out (spec_run c2 0 None [] pre2) = OClean /\ broken (sf_header f2) (set_fragmented 1 false) = [] /\
   too_large c2 f2 = true /\ dr_err d2 = RTooLarge /\ dr_events d2 = [mkEv 1 [104; 105] false false] /\
   dr_partial d2 = []).
Proof.
  cbv zeta. split.
  - split; [reflexivity|]. split.
    { repeat constructor; try reflexivity; try (intro H; discriminate H). }
    split; [vm_compute; repeat constructor; discriminate|]. split; vm_compute; reflexivity.
  - vm_compute. repeat split; reflexivity.
Qed.

(* ------------------------------------------------------------------ the ReadData family *)
Require Import Writer Handler ReadData ReaderAux CipherProofs ReadDataGenProofs.

(* wsutil.ReadData / ReadClientData / ReadServerData / … (helper.go:readData, model
   [read_data_call] in coq/model/ReadData.v) on a stream whose frame [f] breaks a header rule:
   the wire bytes of [pre ++ f :: post], where the frame-sequence spec accepts [pre] (every header
   rule, text messages valid UTF-8; [pre] may end inside a fragmented message) and ws.CheckHeader
   refuses [f]'s header in the state [pre] leaves (fragmented iff [pre] ends inside a message).
   For both sides, every wanted kind, EVERY transport chunking [s] of these bytes and every list of
   masking keys, ONE call:
   * writes exactly the replies the walk [rx_walk] asks for the control frames of [pre] that come
     before the first wanted complete message / close of [pre] (each ping a pong with the identical
     payload, the close echo, the 1002/1007 close for an invalid close — see C04_read_data_meets_spec),
     in stream order, each one well-formed reply frame — control frames interleaved in skipped or
     wanted fragmented messages of [pre] included — and nothing else;
   * returns the first wanted complete message of [pre] (resp. the peer's close / the protocol
     error of an invalid close) if [pre] holds one — exactly as on a valid stream — and otherwise
     a ws.ProtocolError: never data.
   Both the replies and the result are functions of [pre]'s events alone, so no byte of [f]
   or of [post] is delivered as message data or echoed. The fuel bound excludes the out-of-fuel
   artefact. *)
Theorem C05_read_data_violation : forall state want pre f post rl s masks fuel,
  (state = 1 \/ state = 2) -> Forall wf_sframe (pre ++ f :: post) -> Forall wf_key masks ->
  let c := mkCfg state true 0 false in
  let sp := spec_run c 0 None [] pre in
  (sr_out sp = OClean \/ sr_out sp = OCutMidMessage) ->
  check_header (sf_header f)
    (set_fragmented state (match sr_out sp with OCutMidMessage => true | _ => false end)) = Some rl ->
  wf_src s -> tl s = TEOF -> flat s = wire (pre ++ f :: post) ->
  (length (wire (pre ++ f :: post)) + 2 <= fuel)%nat ->
  let '(res, log) := read_data_call fuel want state s masks in
  exists rf, frames_of (concat log) = Some rf /\
    xreplies_ok state (fst (rx_walk want (sr_events sp) [])) rf = true /\
    match snd (rx_walk want (sr_events sp) []) with
    | Some xr => rx_result_matches (Some xr) res = true
    | None => exists rl', res = RDErr (RProtocol rl')
    end.
Proof. exact read_data_violation. Qed.
Print Assumptions C05_read_data_violation.

Example C05_read_data_violation_nonvacuous :
  let k1 := [17; 34; 51; 68] in let k2 := [255; 0; 128; 7] in
  let pre := [mkSF true 0 9 (Some k1) [1; 2; 3];               (* ping before anything: pong [1;2;3] *)
              mkSF false 0 1 (Some k1) [226; 130];             (* text, fragmented: not wanted, skipped *)
              mkSF true 0 9 (Some k2) [4];                     (* ping inside it: still answered *)
              mkSF true 0 0 (Some k1) [172; 104; 105]] in
  let f := mkSF true 0 0 (Some k2) [66; 67] in                 (* a continuation with no message open *)
  let post := [mkSF true 0 2 (Some k2) [7; 8]] in              (* a wanted message behind it: never delivered *)
  let fs := pre ++ f :: post in
  let s := mkSrc (chunk_by [3; 1; 7; 2; 2; 9; 1; 1; 4; 30] (wire fs)) TEOF in
  sr_out (spec_run (mkCfg 1 true 0 false) 0 None [] pre) = OClean /\
  check_header (sf_header f) (set_fragmented 1 false) = Some ContinuationUnexpected /\
  rx_walk 2 (sr_events (spec_run (mkCfg 1 true 0 false) 0 None [] pre)) [] =
    ([mkXR 10 [1; 2; 3] false; mkXR 10 [4] false], None) /\
  read_data_call (length (wire fs) + 2) 2 1 s [] =
    (RDErr (RProtocol ContinuationUnexpected), [[138; 3; 1; 2; 3]; [138; 1; 4]]) /\
  (* text wanted: the message completed before the offending frame is returned as on a valid stream *)
  read_data_call (length (wire fs) + 2) 1 1 s [] =
    (RDData 1 [226; 130; 172; 104; 105], [[138; 3; 1; 2; 3]; [138; 1; 4]]).
Proof. vm_compute. repeat split; reflexivity. Qed.
