(* C05 — Message reader rejects a protocol violation at the first offending frame.
   Only statements; each closed by [exact]. The stream-level statement (prefix
   delivered as for a valid stream, then the error) is C04_reader_meets_spec in
   props/C04.v, whose spec [spec_run] stops at the first offending frame; here
   are the per-frame obligations it rests on. *)
Require Import Bytes Stream Utf8Spec Check Frame Cipher Utf8Dfa Extracted Reader
  BytesProofs StreamProofs CheckProofs FrameProofs ReaderLocalProofs.
Open Scope N_scope.

(* whatever the reader's state and the transport chunking: a frame whose header
   breaks an owned rule is refused with a protocol error naming a broken rule,
   and only its header bytes have been consumed — no payload byte is read *)
Theorem C05_offending_frame_refused : forall r h rest rl,
  r_skip r = false -> wf_header h -> wf_bytes rest -> wf_src (r_src r) ->
  flat (r_src r) = rfc_header h ++ rest ->
  check_header (norm_header h) (r_state r) = Some rl ->
  exists s', next_frame r = ((norm_header h, Some (RProtocol rl)), set_src r s') /\ flat s' = rest
             /\ In rl (broken (norm_header h) (r_state r)).
Proof. exact next_frame_rejects. Qed.
Print Assumptions C05_offending_frame_refused.

(* a frame announcing more than the configured maximum is refused before any of
   its payload is read *)
Theorem C05_oversized_frame_refused : forall r h rest,
  wf_header h -> wf_bytes rest -> wf_src (r_src r) ->
  flat (r_src r) = rfc_header h ++ rest ->
  (if r_skip r then None else check_header (norm_header h) (r_state r)) = None ->
  (0 < r_max r < h_len h)%Z ->
  exists s', next_frame r = ((norm_header h, Some RTooLarge), set_src r s') /\ flat s' = rest.
Proof. exact next_frame_too_large. Qed.
Print Assumptions C05_oversized_frame_refused.

Example C05_nonvacuous :
  let fs := [mkSF false 0 1 None [97]; mkSF true 0 9 None [1]; mkSF true 0 2 None [98]; mkSF true 0 0 None [99]] in
  let c := mkCfg 2 false 0 false in
  sr_out (spec_run c 0 None [] fs) = OProtocol 2 /\ length (sr_events (spec_run c 0 None [] fs)) = 1%nat /\
  dr_err (drive 100 [3] (new_reader (bytewise (wire fs) TEOF) 2 false false 0 false CbReadAll))
    = RProtocol ContinuationExpected.
Proof. vm_compute. repeat split; reflexivity. Qed.
