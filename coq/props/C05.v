(* C05 — Message reader rejects a protocol violation at the first offending frame.
   Only statements; each closed by [exact]. The stream-level statement (prefix
   delivered as for a valid stream, then the error) is C04_reader_meets_spec in
   props/C04.v, whose spec [spec_run] stops at the first offending frame; here
   are the per-frame obligations it rests on. *)
Require Import Bytes Stream Utf8Spec Check Frame Cipher Utf8Dfa Extracted Reader
  BytesProofs StreamProofs CheckProofs FrameProofs ReaderLocalProofs.
Open Scope N_scope.

(* whatever the reader's state and the transport chunking: a frame whose header
   breaks an owned rule is refused with a protocol error naming a broken rule,
   and only its header bytes have been consumed — no payload byte is read *)
Theorem C05_offending_frame_refused : forall r h rest rl,
  r_skip r = false -> wf_header h -> wf_bytes rest -> wf_src (r_src r) ->
  flat (r_src r) = rfc_header h ++ rest ->
  check_header (norm_header h) (r_state r) = Some rl ->
  exists s', next_frame r = ((norm_header h, Some (RProtocol rl)), set_src r s') /\ flat s' = rest
             /\ In rl (broken (norm_header h) (r_state r)).
Proof. exact next_frame_rejects. Qed.
Print Assumptions C05_offending_frame_refused.

(* a frame announcing more than the configured maximum is refused before any of
   its payload is read *)
Theorem C05_oversized_frame_refused : forall r h rest,
  wf_header h -> wf_bytes rest -> wf_src (r_src r) ->
  flat (r_src r) = rfc_header h ++ rest ->
  (if r_skip r then None else check_header (norm_header h) (r_state r)) = None ->
  (0 < r_max r < h_len h)%Z ->
  exists s', next_frame r = ((norm_header h, Some RTooLarge), set_src r s') /\ flat s' = rest.
Proof. exact next_frame_too_large. Qed.
Print Assumptions C05_oversized_frame_refused.

Example C05_nonvacuous :
  let fs := [mkSF false 0 1 None [97]; mkSF true 0 9 None [1]; mkSF true 0 2 None [98]; mkSF true 0 0 None [99]] in
  let c := mkCfg 2 false 0 false in
  sr_out (spec_run c 0 None [] fs) = OProtocol 2 /\ length (sr_events (spec_run c 0 None [] fs)) = 1%nat /\
  dr_err (drive 100 [3] (new_reader (bytewise (wire fs) TEOF) 2 false false 0 false CbReadAll))
    = RProtocol ContinuationExpected.
Proof. vm_compute. repeat split; reflexivity. Qed.

(* ------------------------------------------------------------------ the ReadData family *)
Require Import Writer Handler ReadData ReaderAux CipherProofs ReadDataGenProofs.

(* wsutil.ReadData / ReadClientData / ReadServerData / … (helper.go:readData, model
   [read_data_call] in coq/model/ReadData.v) on a stream whose frame [f] breaks a header rule:
   the wire bytes of [pre ++ f :: post], where the frame-sequence spec accepts [pre] (every header
   rule, text messages valid UTF-8; [pre] may end inside a fragmented message) and ws.CheckHeader
   refuses [f]'s header in the state [pre] leaves (fragmented iff [pre] ends inside a message).
   For both sides, every wanted kind, EVERY transport chunking [s] of these bytes and every list of
   masking keys, ONE call:
   * writes exactly the replies the walk [rx_walk] asks for the control frames of [pre] that come
     before the first wanted complete message / close of [pre] (each ping a pong with the identical
     payload, the close echo, the 1002/1007 close for an invalid close — see C04_read_data_meets_spec),
     in stream order, each one well-formed reply frame — control frames interleaved in skipped or
     wanted fragmented messages of [pre] included — and nothing else;
   * returns the first wanted complete message of [pre] (resp. the peer's close / the protocol
     error of an invalid close) if [pre] holds one — exactly as on a valid stream — and otherwise
     a ws.ProtocolError: never data.
   Both the replies and the result are functions of [pre]'s events alone, so no byte of [f]
   or of [post] is delivered as message data or echoed. The fuel bound excludes the out-of-fuel
   artefact. *)
Theorem C05_read_data_violation : forall state want pre f post rl s masks fuel,
  (state = 1 \/ state = 2) -> Forall wf_sframe (pre ++ f :: post) -> Forall wf_key masks ->
  let c := mkCfg state true 0 false in
  let sp := spec_run c 0 None [] pre in
  (sr_out sp = OClean \/ sr_out sp = OCutMidMessage) ->
  check_header (sf_header f)
    (set_fragmented state (match sr_out sp with OCutMidMessage => true | _ => false end)) = Some rl ->
  wf_src s -> tl s = TEOF -> flat s = wire (pre ++ f :: post) ->
  (length (wire (pre ++ f :: post)) + 2 <= fuel)%nat ->
  let '(res, log) := read_data_call fuel want state s masks in
  exists rf, frames_of (concat log) = Some rf /\
    xreplies_ok state (fst (rx_walk want (sr_events sp) [])) rf = true /\
    match snd (rx_walk want (sr_events sp) []) with
    | Some xr => rx_result_matches (Some xr) res = true
    | None => exists rl', res = RDErr (RProtocol rl')
    end.
Proof. exact read_data_violation. Qed.
Print Assumptions C05_read_data_violation.

Example C05_read_data_violation_nonvacuous :
  let k1 := [17; 34; 51; 68] in let k2 := [255; 0; 128; 7] in
  let pre := [mkSF true 0 9 (Some k1) [1; 2; 3];               (* ping before anything: pong [1;2;3] *)
              mkSF false 0 1 (Some k1) [226; 130];             (* text, fragmented: not wanted, skipped *)
              mkSF true 0 9 (Some k2) [4];                     (* ping inside it: still answered *)
              mkSF true 0 0 (Some k1) [172; 104; 105]] in
  let f := mkSF true 0 0 (Some k2) [66; 67] in                 (* a continuation with no message open *)
  let post := [mkSF true 0 2 (Some k2) [7; 8]] in              (* a wanted message behind it: never delivered *)
  let fs := pre ++ f :: post in
  let s := mkSrc (chunk_by [3; 1; 7; 2; 2; 9; 1; 1; 4; 30] (wire fs)) TEOF in
  sr_out (spec_run (mkCfg 1 true 0 false) 0 None [] pre) = OClean /\
  check_header (sf_header f) (set_fragmented 1 false) = Some ContinuationUnexpected /\
  rx_walk 2 (sr_events (spec_run (mkCfg 1 true 0 false) 0 None [] pre)) [] =
    ([mkXR 10 [1; 2; 3] false; mkXR 10 [4] false], None) /\
  read_data_call (length (wire fs) + 2) 2 1 s [] =
    (RDErr (RProtocol ContinuationUnexpected), [[138; 3; 1; 2; 3]; [138; 1; 4]]) /\
  (* text wanted: the message completed before the offending frame is returned as on a valid stream *)
  read_data_call (length (wire fs) + 2) 1 1 s [] =
    (RDData 1 [226; 130; 172; 104; 105], [[138; 3; 1; 2; 3]; [138; 1; 4]]).
Proof. vm_compute. repeat split; reflexivity. Qed.
