(* C04 — Message reader: a message is the opcode of its first frame and the exact
   concatenation of its fragments' unmasked payloads, with interleaved control
   frames handed to the callback in stream order (carries C05 at stream level,
   C07's message level and C13's receive side).
   Only statements; each closed by [exact].

   Objects (coq/model/Reader.v):  [drive] = the canonical use of wsutil.Reader
   (NextFrame, Read to io.EOF with caller buffers [bufs] used round-robin, repeat),
   [spec_run] = the frame-sequence spec, [reader_monitor] = "observed events,
   bytes handed out for the unfinished message and final error are the spec's".
   [wf_sframe]/[wf_cfg] (coq/proofs/ReaderAux.v): field ranges of a frame
   (rsv < 8, opcode < 16, payload bytes < 256 and at most 2^63-1 of them, 4-byte
   key) and of the reader configuration (side/extension bits only). *)
Require Import Bytes Stream Utf8Spec Check Frame Cipher Utf8Dfa Extracted Reader
  BytesProofs StreamProofs ReaderAux ReaderProofs.
Open Scope N_scope.

(* for EVERY frame sequence (valid or not), every transport chunking [s] of its
   wire bytes, every sequence of caller buffer sizes: the loop delivers exactly
   the events of the spec (messages = first opcode + concatenated unmasked
   fragment payloads, interleaved control frames logged in stream order,
   compressed flag), stops with the error class the spec's outcome names (clean
   EOF, unexpected EOF inside a message, protocol error at the first offending
   frame, size limit, unexpected compression bit, invalid UTF-8), the bytes
   handed out for the unfinished message are the open message's earlier
   fragments, and the fuel bound excludes the out-of-fuel artefact *)
Theorem C04_reader_meets_spec : forall c fs s bufs fuel,
  wf_cfg c -> Forall wf_sframe fs -> wf_src s -> tl s = TEOF -> flat s = wire fs ->
  (2 * length (wire fs) + 4 * length fs + 8 <= fuel)%nat ->
  let d := drive fuel bufs (new_reader s (c_state c) false (c_check_utf8 c) (c_max c) (c_ext c) CbReadAll) in
  reader_monitor c true fs (dr_events d) (Some (dr_partial d)) (dr_err d) = true.
Proof. exact reader_meets_spec. Qed.
Print Assumptions C04_reader_meets_spec.

(* C04 proper, spelled out: on a stream the spec accepts completely, the loop
   ends with a clean io.EOF and has delivered exactly the spec's messages and
   control frames, in order *)
Theorem C04_valid_stream_delivered : forall c fs s bufs fuel,
  wf_cfg c -> Forall wf_sframe fs -> wf_src s -> tl s = TEOF -> flat s = wire fs ->
  (2 * length (wire fs) + 4 * length fs + 8 <= fuel)%nat ->
  sr_out (spec_run c 0 None [] fs) = OClean ->
  let d := drive fuel bufs (new_reader s (c_state c) false (c_check_utf8 c) (c_max c) (c_ext c) CbReadAll) in
  dr_err d = RIo EEOF /\ evs_match (sr_events (spec_run c 0 None [] fs)) (dr_events d) = true.
Proof. exact reader_valid_stream. Qed.
Print Assumptions C04_valid_stream_delivered.

Example C04_nonvacuous :
  let k1 := [17; 34; 51; 68] in let k2 := [255; 0; 128; 7] in
  let fs := [mkSF false 4 1 (Some k1) [226; 130];                 (* text, RSV1, cut inside a code point *)
             mkSF true 0 9 (Some k2) [1; 2; 3; 4; 5; 6; 7; 8; 9];  (* ping in between *)
             mkSF false 0 0 (Some k2) [];
             mkSF true 0 0 (Some k1) [172; 104; 105];
             mkSF true 0 10 (Some k1) [];                          (* pong outside a message *)
             mkSF true 0 2 (Some k2) [0; 255; 254; 1; 2; 3; 4; 5; 6; 7; 8]] in
  let c := mkCfg 5 true 0 true in
  let s := mkSrc (chunk_by [3; 1; 7; 2; 2; 9; 1; 1; 4; 30] (wire fs)) TEOF in
  let fuel := (2 * length (wire fs) + 4 * length fs + 8)%nat in
  let d := drive fuel [2; 5; 1] (new_reader s (c_state c) false (c_check_utf8 c) (c_max c) (c_ext c) CbReadAll) in
  (wf_cfg c /\ Forall wf_sframe fs /\ wf_src s /\ tl s = TEOF /\ flat s = wire fs) /\
  reader_monitor c true fs (dr_events d) (Some (dr_partial d)) (dr_err d) = true /\
  dr_events d = [mkEv 9 [1; 2; 3; 4; 5; 6; 7; 8; 9] true true;
                 mkEv 1 [226; 130; 172; 104; 105] false true;
                 mkEv 10 [] false true;
                 mkEv 2 [0; 255; 254; 1; 2; 3; 4; 5; 6; 7; 8] false false] /\
  dr_err d = RIo EEOF.
Proof.
  cbv zeta. split.
  - split; [reflexivity|]. split.
    { repeat constructor; try reflexivity; try (intro H; discriminate H). }
    split; [vm_compute; repeat constructor; discriminate|]. split; vm_compute; reflexivity.
  - vm_compute. repeat split; reflexivity.
Qed.

(* ------------------------------------------------------------------ the other entry points *)
Require Import ReaderMoreProofs.

(* helper.go:ReadMessage called repeatedly on one connection ([read_messages]:
   every call builds a fresh Reader with CheckUTF8, no size limit, no extension
   and the read-all OnIntermediate on what the previous call left in the source;
   the events of the call that ends in an error are kept, exactly as ReadMessage
   returns the control frames collected so far together with the error): for
   EVERY frame sequence, chunking and buffer sizes the concatenated results are
   exactly the spec's events and the final error has the spec's class *)
Theorem C04_read_message_meets_spec : forall fs state s bufs fuel,
  wf_cfg (mkCfg state true 0 false) -> Forall wf_sframe fs -> wf_src s -> tl s = TEOF -> flat s = wire fs ->
  (length (wire fs) + 2 <= fuel)%nat ->
  let '(evs, e) := read_messages fuel bufs s state [] in
  reader_monitor (mkCfg state true 0 false) true fs evs None e = true.
Proof. exact read_message_meets_spec. Qed.
Print Assumptions C04_read_message_meets_spec.

(* helpers that skip or discard messages ([drive_pat]: per message the caller
   reads it to io.EOF, calls Discard at once, or reads one buffer and then
   Discards; [pat] is used round-robin). [pat_monitor] (ReaderMoreProofs.v):
   the final error is a clean io.EOF and the logged events are, in stream order,
   EVERY intermediate control event of the spec and of the spec's messages
   exactly those whose action was ARead — an APartial message is there exactly
   when the single Read happened to finish it (both accepted), an ADiscard
   message never — each with the spec's opcode, exact payload and flag, and
   nothing else. So on every valid complete stream, every chunking, all buffer
   sizes and every action pattern: skipped bytes never leak into a later
   message, and skipping never loses a control frame or the clean end *)
Theorem C04_discard_patterns : forall c fs s bufs pat fuel,
  wf_cfg c -> Forall wf_sframe fs -> sr_out (spec_run c 0 None [] fs) = OClean ->
  wf_src s -> tl s = TEOF -> flat s = wire fs -> (length (wire fs) + 2 <= fuel)%nat ->
  let d := drive_pat fuel bufs pat pat
             (new_reader s (c_state c) false (c_check_utf8 c) (c_max c) (c_ext c) CbReadAll) in
  pat_monitor c pat fs (dr_events d) (dr_err d) = true.
Proof. exact discard_patterns. Qed.
Print Assumptions C04_discard_patterns.

Example C04_discard_patterns_nonvacuous :
  let k1 := [17; 34; 51; 68] in let k2 := [255; 0; 128; 7] in
  let fs := [mkSF false 4 1 (Some k1) [226; 130];            (* text, fragmented: discarded *)
             mkSF true 0 9 (Some k2) [1; 2; 3];               (* ping inside it: still handed to the callback *)
             mkSF true 0 0 (Some k1) [172; 104; 105];
             mkSF true 0 2 (Some k2) [7; 8; 9];               (* read *)
             mkSF false 0 2 (Some k2) [0; 255; 254; 1; 2];    (* one Read, rest discarded *)
             mkSF true 0 0 (Some k2) [3; 4];
             mkSF true 0 1 (Some k2) [65; 66]] in             (* discarded *)
  let c := mkCfg 5 true 0 true in
  let pat := [ADiscard; ARead; APartial] in
  let s := mkSrc (chunk_by [3; 1; 7; 2; 2; 9; 1; 1; 4; 30] (wire fs)) TEOF in
  let d := drive_pat (length (wire fs) + 2) [2; 5; 1] pat pat
             (new_reader s (c_state c) false (c_check_utf8 c) (c_max c) (c_ext c) CbReadAll) in
  sr_out (spec_run c 0 None [] fs) = OClean /\
  pat_monitor c pat fs (dr_events d) (dr_err d) = true /\
  dr_events d = [mkEv 9 [1; 2; 3] true true; mkEv 2 [7; 8; 9] false false] /\
  (* the monitor is not vacuous: it refuses a leaked or a lost event *)
  pat_monitor c pat fs (dr_events d ++ [mkEv 1 [65; 66] false false]) (dr_err d) = false /\
  pat_monitor c pat fs [mkEv 2 [7; 8; 9] false false] (dr_err d) = false /\
  pat_monitor c pat fs [mkEv 9 [1; 2; 3] true true; mkEv 2 [8; 9] false false] (dr_err d) = false.
Proof. vm_compute. repeat split; reflexivity. Qed.

(* ------------------------------------------------------------------ the ReadData family *)
Require Import Writer Handler ReadData CipherProofs ReadDataProofs.

(* wsutil.ReadData / ReadClientData / ReadClientText / ReadClientBinary / ReadServerData / …
   (helper.go:readData, model [read_data_call] in coq/model/ReadData.v: a fresh Reader with
   CheckUTF8 and the control handler as OnIntermediate; loop NextFrame — control frame: read
   it, Handle it; data frame of an unwanted kind: Discard; wanted: read to io.EOF, return).
   SPEC ([rx_walk] over the frame-sequence spec's events): for each ping a pong with the
   identical payload, nothing for a pong, for a close the echo of its status code (empty
   for an empty close) resp. a 1002/1007 close for an invalid one — and then stop; the
   result is the first data message whose opcode is wanted (first opcode + exact
   concatenated unmasked payload), or the close's code/reason, or the protocol error, or
   an error when the stream ends first. [rx_monitor]: the destination bytes parse into
   exactly these replies, in stream order, each ONE final frame the peer's CheckHeader
   accepts (masked iff we are the client, payload at most 125 bytes, rsv = 0), and the
   result is the expected one.
   For EVERY valid complete frame stream (outcome OClean: all header rules, text messages
   valid UTF-8), both sides, every wanted kind, every transport chunking [s] of its wire
   bytes and every list of well-formed masking keys (short lists fall back to the zero
   key): ONE call meets the monitor — control frames at top level AND interleaved in
   skipped or wanted fragmented messages are answered, in order; skipped messages leak
   nothing; the fuel bound |wire|+2 excludes the out-of-fuel artefact. (The hypothesis on
   [want] is not used by the proof.) *)
Theorem C04_read_data_meets_spec : forall state want fs s masks fuel,
  (state = 1 \/ state = 2) -> (want = 1 \/ want = 2 \/ want = 3) ->
  Forall wf_sframe fs -> Forall wf_key masks ->
  sr_out (spec_run (mkCfg state true 0 false) 0 None [] fs) = OClean ->
  wf_src s -> tl s = TEOF -> flat s = wire fs ->
  (length (wire fs) + 2 <= fuel)%nat ->
  let '(res, log) := read_data_call fuel want state s masks in
  rx_monitor state want fs res log = true.
Proof. exact read_data_meets_spec. Qed.
Print Assumptions C04_read_data_meets_spec.

Example C04_read_data_nonvacuous :
  let k1 := [17; 34; 51; 68] in let k2 := [255; 0; 128; 7] in
  let fs := [mkSF true 0 9 (Some k1) [1; 2; 3];               (* ping before anything: pong [1;2;3] *)
             mkSF false 0 1 (Some k1) [226; 130];             (* text, fragmented: not wanted, skipped *)
             mkSF true 0 9 (Some k2) [4];                     (* ping inside it: still answered *)
             mkSF true 0 0 (Some k1) [172; 104; 105];
             mkSF true 0 10 (Some k2) [9];                    (* pong: nothing *)
             mkSF false 0 2 (Some k2) [7; 8];                 (* binary: wanted *)
             mkSF true 0 9 (Some k2) [];                      (* empty ping inside it *)
             mkSF true 0 0 (Some k2) [9];
             mkSF true 0 8 (Some k1) [3; 232]] in             (* never reached *)
  let s := mkSrc (chunk_by [3; 1; 7; 2; 2; 9; 1; 1; 4; 30] (wire fs)) TEOF in
  let '(res, log) := read_data_call (length (wire fs) + 2) 2 1 s [] in
  sr_out (spec_run (mkCfg 1 true 0 false) 0 None [] fs) = OClean /\
  rx_monitor 1 2 fs res log = true /\
  res = RDData 2 [7; 8; 9] /\
  concat log = [138; 3; 1; 2; 3; 138; 1; 4; 138; 0] /\
  (* the monitor is not vacuous: a lost, an altered, a surplus reply or a wrong result is refused *)
  rx_monitor 1 2 fs res [[138; 3; 1; 2; 3]; [138; 0]] = false /\
  rx_monitor 1 2 fs res [[138; 3; 1; 2; 3]; [138; 1; 5]; [138; 0]] = false /\
  rx_monitor 1 2 fs res (log ++ [[138; 0]]) = false /\
  rx_monitor 1 2 fs (RDData 2 [7; 8]) log = false /\
  (* the same stream, text wanted: the first message is returned, only the first two pings answered *)
  read_data_call (length (wire fs) + 2) 1 1 s [] =
    (RDData 1 [226; 130; 172; 104; 105], [[138; 3; 1; 2; 3]; [138; 1; 4]]).
Proof. vm_compute. repeat split; reflexivity. Qed.

(* ------------------------------------------------------------------ transports with idle reads *)
Require Import ReaderIdle StreamIdleProofs ReaderIdleProofs.

(* io.Reader allows a Read to answer (0, nil) ("discouraged", legal). In the model
   such an idle read is an EMPTY chunk of the chunk list: io.ReadFull (headers,
   the control-frame callback, the drain) steps over it — and, like
   io.ReadAtLeast, reports io.ErrUnexpectedEOF only when BYTES were read before
   the end —; inside a payload the Reader hands "0 bytes, no error" up to its
   caller (coq/model/ReaderIdle.v: [idle_reads s] = number of empty chunks).
   C04_reader_meets_spec without [wf_src]: for EVERY frame sequence, EVERY
   chunking of its wire bytes INCLUDING idle reads anywhere — inside headers,
   masking keys, data and control payloads, between frames, before the last byte,
   between the last byte and the end of the stream — and all caller buffer sizes,
   the NextFrame/read-to-EOF loop yields exactly the spec's events, partial bytes
   and error class; an idle read costs one unit of fuel (bound |wire| + idle
   reads + 2; the old bound 2*|wire| + 4*|frames| + 8 plus the number of idle
   reads suffices a fortiori). *)
Theorem C04_reader_meets_spec_idle : forall c fs s bufs fuel,
  wf_cfg c -> Forall wf_sframe fs -> tl s = TEOF -> flat s = wire fs ->
  (length (wire fs) + idle_reads s + 2 <= fuel)%nat ->
  let d := drive fuel bufs (new_reader s (c_state c) false (c_check_utf8 c) (c_max c) (c_ext c) CbReadAll) in
  reader_monitor c true fs (dr_events d) (Some (dr_partial d)) (dr_err d) = true.
Proof. exact reader_meets_spec_idle. Qed.
Print Assumptions C04_reader_meets_spec_idle.

(* the same for helper.go:ReadMessage called repeatedly (cf. C04_read_message_meets_spec) *)
Theorem C04_read_message_meets_spec_idle : forall fs state s bufs fuel,
  wf_cfg (mkCfg state true 0 false) -> Forall wf_sframe fs -> tl s = TEOF -> flat s = wire fs ->
  (length (wire fs) + idle_reads s + 2 <= fuel)%nat ->
  let '(evs, e) := read_messages fuel bufs s state [] in
  reader_monitor (mkCfg state true 0 false) true fs evs None e = true.
Proof. exact read_message_meets_spec_idle. Qed.
Print Assumptions C04_read_message_meets_spec_idle.

(* C04 proper on a transport with idle reads: a stream the spec accepts completely
   ends with a clean io.EOF, every message and control frame delivered in order *)
Theorem C04_valid_stream_delivered_idle : forall c fs s bufs fuel,
  wf_cfg c -> Forall wf_sframe fs -> tl s = TEOF -> flat s = wire fs ->
  (length (wire fs) + idle_reads s + 2 <= fuel)%nat ->
  sr_out (spec_run c 0 None [] fs) = OClean ->
  let d := drive fuel bufs (new_reader s (c_state c) false (c_check_utf8 c) (c_max c) (c_ext c) CbReadAll) in
  dr_err d = RIo EEOF /\ evs_match (sr_events (spec_run c 0 None [] fs)) (dr_events d) = true.
Proof. exact reader_valid_stream_idle. Qed.
Print Assumptions C04_valid_stream_delivered_idle.

(* idle reads between the last byte and the end of the stream: io.ReadFull has read
   n = 0 bytes when the end comes, which is io.EOF, not io.ErrUnexpectedEOF — the
   loop ends cleanly (an earlier [read_full_aux] took "a chunk was consumed" for
   "bytes were read" and answered RIo EUnexpected here; the real wsutil.Reader over
   {130,1,7},(0,nil),EOF delivers the message and then io.EOF) *)
Example C04_idle_trailing :
  let c := mkCfg 0 true 0 false in
  let fs := [mkSF true 0 2 None [7]] in
  let run s := let d := drive 100 [2] (new_reader s (c_state c) false (c_check_utf8 c) (c_max c) (c_ext c) CbReadAll) in
               (dr_events d, dr_err d, reader_monitor c true fs (dr_events d) (Some (dr_partial d)) (dr_err d)) in
  ends_idle (mkSrc [[130; 1; 7]; []] TEOF) /\
  run (mkSrc [[130; 1; 7]; []] TEOF) = ([mkEv 2 [7] false false], RIo EEOF, true) /\
  run (mkSrc [[130]; []; [1; 7]; []; []] TEOF) = ([mkEv 2 [7] false false], RIo EEOF, true) /\
  (* inside a message the end of the stream stays an unexpected EOF, idle reads or not *)
  (let d := drive 100 [2] (new_reader (mkSrc [[2; 1; 7]; []; []] TEOF) 0 false true 0 false CbReadAll) in
   (dr_events d, dr_partial d, dr_err d)) = ([], [7], RIo EUnexpected) /\
  (* and io.ReadFull itself: (0, nil), EOF = io.EOF; a byte, (0, nil), EOF = io.ErrUnexpectedEOF *)
  fst (read_full 2 (mkSrc [[]] TEOF)) = ([], Some EEOF) /\
  fst (read_full 2 (mkSrc [[]; [5]; []] TEOF)) = ([5], Some EUnexpected).
Proof. cbv zeta. split; [exists [[130; 1; 7]]; reflexivity|]. vm_compute. repeat split; reflexivity. Qed.

Example C04_idle_nonvacuous :
  let k1 := [17; 34; 51; 68] in let k2 := [255; 0; 128; 7] in
  let fs := [mkSF false 0 1 (Some k1) [226; 130];              (* text, cut inside a code point *)
             mkSF true 0 9 (Some k2) [1; 2; 3];                 (* ping in between *)
             mkSF true 0 0 (Some k1) [172; 104; 105];
             mkSF true 0 2 (Some k2) [0; 255]] in
  let c := mkCfg 1 true 0 false in
  (* idle reads inside a header, a masking key, the data payloads, the ping's payload,
     between frames, before the last byte and after it *)
  let s := mkSrc [[1]; []; []; [130; 17; 34]; []; [51; 68; 243]; []; [160]; []; [];
                  [137; 131; 255; 0; 128]; [7; 254]; []; [2; 131; 128]; [];
                  [131; 17; 34; 51; 68; 189]; []; [74]; []; [90; 130; 130; 255; 0; 128; 7; 255]; []; [];
                  [255]; []; []] TEOF in
  let fuel := (length (wire fs) + idle_reads s + 2)%nat in
  let d := drive fuel [2; 7; 1] (new_reader s (c_state c) false (c_check_utf8 c) (c_max c) (c_ext c) CbReadAll) in
  (wf_cfg c /\ Forall wf_sframe fs /\ tl s = TEOF /\ flat s = wire fs /\
   idle_reads s = 14%nat /\ ~ wf_src s /\ ends_idle s) /\
  reader_monitor c true fs (dr_events d) (Some (dr_partial d)) (dr_err d) = true /\
  dr_events d = [mkEv 9 [1; 2; 3] true false;
                 mkEv 1 [226; 130; 172; 104; 105] false false;
                 mkEv 2 [0; 255] false false] /\
  dr_err d = RIo EEOF /\
  (* idle reads do cost fuel: 20 of them inside a 1-byte payload and the old bound
     2*|wire| + 4*|frames| + 8 = 18 alone no longer excludes the out-of-fuel artefact *)
  dr_err (drive (2 * 3 + 4 * 1 + 8) [4]
            (new_reader (mkSrc ([130; 1] :: repeat [] 20 ++ [[7]]) TEOF) 0 false true 0 false CbReadAll)) = ROutOfFuel /\
  read_messages fuel [2; 7; 1] s 1 [] = (dr_events d, RIo EEOF).
Proof.
  cbv zeta. split.
  - split; [reflexivity|]. split.
    { repeat constructor; try reflexivity; try (intro H; discriminate H). }
    split; [reflexivity|]. split; [vm_compute; reflexivity|]. split; [vm_compute; reflexivity|]. split.
    { intros H. inversion H as [|? ? _ H2]. inversion H2 as [|? ? H3 _]. apply H3. reflexivity. }
    eexists. cbn [chunks]. 
    change [[1]; []; []; [130; 17; 34]; []; [51; 68; 243]; []; [160]; []; [];
            [137; 131; 255; 0; 128]; [7; 254]; []; [2; 131; 128]; [];
            [131; 17; 34; 51; 68; 189]; []; [74]; []; [90; 130; 130; 255; 0; 128; 7; 255]; []; [];
            [255]; []; []]
      with ([[1]; []; []; [130; 17; 34]; []; [51; 68; 243]; []; [160]; []; [];
            [137; 131; 255; 0; 128]; [7; 254]; []; [2; 131; 128]; [];
            [131; 17; 34; 51; 68; 189]; []; [74]; []; [90; 130; 130; 255; 0; 128; 7; 255]; []; [];
            [255]; []] ++ [[]]).
    reflexivity.
  - vm_compute. repeat split; reflexivity.
Qed.
