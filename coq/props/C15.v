(* C15 — Total decoding on arbitrary input (message reader part): for ARBITRARY
   bytes from the network — non-minimal length encodings, garbage, a stream
   truncated anywhere, a failing transport — every decoding entry point of
   wsutil.Reader returns a value or an error after finitely many steps, and no
   loop runs without consuming input.
   Only statements; each closed by [exact].

   Objects (coq/model/Reader.v): [next_frame] = Reader.NextFrame, [reader_read] =
   Reader.Read, [discard] = Reader.Discard, [read_to_eof] = "Read until an error"
   with caller buffers used round-robin, [drive] = NextFrame / Read-to-EOF repeated,
   [read_message(s)] = helper.go:ReadMessage (repeated), [run_script] = any
   interleaving of the three methods.  Loops that Go runs "until the stream
   ends" carry explicit fuel in the model and return [ROutOfFuel] when it runs
   out: a hang of the Go loop on some input would show up as a stream on which
   no finite fuel suffices.  The theorems give a fuel bound that depends only on
   the NUMBER OF BYTES left in the source and exclude [ROutOfFuel] for every
   content of those bytes, every chunking ([wf_src]: the transport never
   returns (0, nil)), either tail (io.EOF or a transport error) and every
   reader configuration.
   [rmeasure r] (coq/proofs/ReaderTotalProofs.v) = bytes left in the source,
   plus one while a frame is open. *)
Require Import Bytes Stream Utf8Spec Check Frame Cipher Utf8Dfa Extracted Reader
  BytesProofs StreamProofs ReaderTotalProofs.
Open Scope N_scope.

(* Reader.Read with a non-empty buffer, from EVERY reader state (any flags, any
   callback, any raw.N, reachable or not): the source never grows, the chunk
   invariant is kept, and a call that returns no error has strictly decreased
   the measure — it consumed transport bytes, or it closed the frame it was
   reading, which it cannot do twice in a row *)
Theorem C15_every_read_makes_progress : forall k r d e r',
  wf_src (r_src r) -> 0 < k -> reader_read k r = ((d, e), r') ->
  wf_src (r_src r') /\
  (length (flat (r_src r')) <= length (flat (r_src r)))%nat /\
  e <> Some ROutOfFuel /\
  (e = None -> (rmeasure r' < rmeasure r)%nat).
Proof. exact every_read_makes_progress. Qed.
Print Assumptions C15_every_read_makes_progress.

(* the same without the measure: an error-free Read consumed input, or it is the
   single step from "frame open" to "between fragments" *)
Theorem C15_read_progress_cases : forall k r d r',
  wf_src (r_src r) -> 0 < k -> reader_read k r = ((d, None), r') ->
  (length (flat (r_src r')) < length (flat (r_src r)))%nat \/
  (length (flat (r_src r')) = length (flat (r_src r)) /\ r_frame r = true /\ r_frame r' = false).
Proof. exact read_progress_cases. Qed.
Print Assumptions C15_read_progress_cases.

(* reading a message to its end takes at most [rmeasure r] + 1 calls of Read *)
Theorem C15_read_to_eof_terminates : forall fuel bufs all r racc,
  wf_src (r_src r) -> (rmeasure r < fuel)%nat ->
  snd (fst (read_to_eof fuel bufs all r racc)) <> ROutOfFuel.
Proof. exact read_to_eof_terminates. Qed.
Print Assumptions C15_read_to_eof_terminates.

(* the NextFrame / Read loop on arbitrary bytes: it always ends with an error
   (EOF, unexpected EOF, protocol error, …) after at most |bytes| + 1 rounds *)
Theorem C15_drive_total : forall s state skip chk max ext cb bufs fuel,
  wf_src s -> (length (flat s) + 1 <= fuel)%nat ->
  dr_err (drive fuel bufs (new_reader s state skip chk max ext cb)) <> ROutOfFuel.
Proof. exact drive_total. Qed.
Print Assumptions C15_drive_total.

(* and from any reader state whatsoever *)
Theorem C15_drive_total_any_state : forall r bufs fuel,
  wf_src (r_src r) -> (length (flat (r_src r)) + 1 <= fuel)%nat ->
  dr_err (drive fuel bufs r) <> ROutOfFuel.
Proof. exact drive_total_any_state. Qed.
Print Assumptions C15_drive_total_any_state.

(* Reader.Discard from any state, any source (no assumption on the chunking):
   every iteration of its loop consumes at least a header *)
Theorem C15_discard_total : forall r,
  fst (discard (S (length (flat (r_src r)))) r) <> Some ROutOfFuel.
Proof. exact discard_total. Qed.
Print Assumptions C15_discard_total.

(* helper.go:ReadMessage called until it fails, any ws.State *)
Theorem C15_read_messages_total : forall fuel bufs s state acc,
  wf_src s -> (length (flat s) + 1 <= fuel)%nat ->
  snd (read_messages fuel bufs s state acc) <> ROutOfFuel.
Proof. exact read_messages_total. Qed.
Print Assumptions C15_read_messages_total.

(* any interleaving of NextFrame / Read / Discard on one Reader *)
Theorem C15_run_script_total : forall ops r, wf_src (r_src r) ->
  Forall (fun o => rout_err o <> Some ROutOfFuel) (fst (run_script ops r)).
Proof. exact run_script_total. Qed.
Print Assumptions C15_run_script_total.

(* header decoding looks at no more than 14 bytes, whatever length is announced:
   in the RFC layout relation on arbitrary byte strings … *)
Theorem C15_header_bytes_bounded : forall bs h rest,
  rfc_parse bs = PComplete h rest -> (length bs <= length rest + 14)%nat.
Proof. exact rfc_parse_at_most_14. Qed.
Print Assumptions C15_header_bytes_bounded.

(* … and in ws.ReadHeader itself on any source (no assumption on chunks or bytes) *)
Theorem C15_read_header_bytes_bounded : forall s h s',
  read_header s = (inr h, s') -> (length (flat s) <= length (flat s') + 14)%nat.
Proof. exact read_header_at_most_14. Qed.
Print Assumptions C15_read_header_bytes_bounded.

(* a header announcing 2^63-1 payload bytes with three behind it, then nothing;
   delivered one byte per transport read: the loop stops with unexpected EOF, a
   Discard of the open frame likewise, ReadMessage likewise — with exactly the
   fuel of the theorems; and the first Read makes the measure drop *)
Example C15_nonvacuous :
  let bs := [1; 127; 127; 255; 255; 255; 255; 255; 255; 255; 65; 66; 67] in
  let s := bytewise bs TEOF in
  let r0 := new_reader s 2 false true 0 false CbReadAll in
  let r1 := snd (next_frame r0) in
  let '((d, e), r2) := reader_read 2 r1 in
  wf_src s /\
  dr_err (drive (length bs + 1) [2; 1] r0) = RIo EUnexpected /\
  dr_partial (drive (length bs + 1) [2; 1] r0) = [65; 66; 67] /\
  fst (discard (S (length (flat (r_src r1)))) r1) = Some (RIo EUnexpected) /\
  snd (read_messages (length bs + 1) [2; 1] s 2 []) = RIo EUnexpected /\
  r_rawN r1 = 9223372036854775807 /\ (d, e) = ([65], None) /\
  rmeasure r1 = 4%nat /\ rmeasure r2 = 3%nat.
Proof.
  vm_compute. repeat split; try reflexivity. repeat constructor; discriminate.
Qed.

(* ---------- source level (tie C, second translator): gen/Translated2.v is produced on every
   check by `harness translate2` from the Go text of util.go / http.go; index and slice
   expressions are bounds-CHECKED there (result Panic), loops run on fuel (result OutOfFuel).
   For EVERY []byte value (elements 0..255, length an int) the handshake line parsers and their
   helpers return normally: no index or slice expression is out of range, no loop outlives the
   fuel 65 + len.  (Statement about the translation; trusted: harness/translate2.go, lib/GoSlices.v.) *)
Require Import GoSlices Translated2 Translated2Ok.
From Coq Require String.
Import String.StringSyntax.
Local Open Scope string_scope.

Theorem C15_source_no_panic_line_parsers : forall l : list Z, go_bytes l -> go_fits l ->
  (exists r, g2_httpParseRequestLine l = Ok r) /\ (exists r, g2_httpParseResponseLine l = Ok r) /\
  (exists r, g2_httpParseHeaderLine l = Ok r) /\ (exists r, g2_httpParseVersion l = Ok r).
Proof. exact src_no_panic_parsers. Qed.
Print Assumptions C15_source_no_panic_line_parsers.

Theorem C15_source_no_panic_helpers : forall l : list Z, go_bytes l -> go_fits l ->
  (exists r, g2_asciiToInt l = Ok r) /\ (exists r, g2_btrim l = Ok r) /\
  (exists r, g2_canonicalizeHeaderKey l = Ok r) /\
  (forall c, (0 <= c < 256)%Z -> exists r, g2_bsplit3 l c = Ok r).
Proof. exact src_no_panic_helpers. Qed.
Print Assumptions C15_source_no_panic_helpers.

(* a realistic header line with blanks on both sides of key and value, and the three results are
   pairwise distinct *)
Example C15_source_nonvacuous :
  g2_httpParseHeaderLine (zb (HsHttp.bs " sec-websocket-KEY :" ++ [9%N] ++ HsHttp.bs " dGhlIHNhbXBsZSBub25jZQ==  "))
  = Ok (zb (HsHttp.bs "Sec-Websocket-Key"), zb (HsHttp.bs "dGhlIHNhbXBsZSBub25jZQ=="), true)
  /\ (@Panic unit <> OutOfFuel) /\ (forall a : unit, Ok a <> Panic /\ Ok a <> OutOfFuel).
Proof. split; [vm_compute; reflexivity|]. split; [discriminate|]. intros a; split; discriminate. Qed.
