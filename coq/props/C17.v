(* C17 — Returned data and caller buffers are never aliased to pooled or internal memory.
   PARTIAL: the theorems are about the explicit heap + pool machine of model/Ownership.v and
   the typestate discipline; WHICH Go expression copies (string(x), SelectCopy, Parameters.Copy,
   make+copy) and which aliases (btsToString, sub-slicing) is transcribed by hand in the path_*
   programs — a one-character change in the Go source does not change them.  That part is
   decided only by the poison-and-recheck harness (and the pool_sanitize build).
   Only statements; each closed by [exact]. *)
Require Import Bytes LTS Ownership OwnershipProofs.
From Coq Require Import List.
Import ListNotations.
Open Scope nat_scope.

(* result_owned: in every state reachable under any schedule by any number of sessions running
   programs the discipline accepts, every value that has left a session is an owned copy, or a
   view of a buffer that is not in the pool and that no other live register of any session
   points to *)
Theorem C17_result_owned : forall progs sched st i v,
  (forall j, disciplined (progs j) = true) -> LTS.run step (ginit progs) sched st ->
  In v (s_out (g_sess st i)) ->
  match v with
  | Own _ => True
  | View l _ _ => ~ In l (g_free st) /\ l < g_next st /\
                  exists r, holds st i r l /\ s_ts (g_sess st i) r = THeld KFresh true true /\
                            forall j r', holds st j r' l -> j = i /\ r' = r
  end.
Proof. exact reach_result_owned. Qed.
Print Assumptions C17_result_owned.

(* stable: such a value reads the same bytes after ANY later history of steps by the same or
   other sessions (arbitrary Get / Fill / Mask / Put, any recycling order) *)
Theorem C17_stable : forall progs sched st later st' i v,
  (forall j, disciplined (progs j) = true) -> LTS.run step (ginit progs) sched st ->
  LTS.run step st later st' -> In v (s_out (g_sess st i)) ->
  read_val (g_heap st') v = read_val (g_heap st) v.
Proof. exact reach_stable. Qed.
Print Assumptions C17_stable.

Theorem C17_transcript_stable : forall progs sched st later st' i,
  (forall j, disciplined (progs j) = true) -> LTS.run step (ginit progs) sched st ->
  LTS.run step st later st' -> exists ext, transcript st' i = transcript st i ++ ext.
Proof. exact reach_transcript_stable. Qed.
Print Assumptions C17_transcript_stable.

(* caller_intact: while a caller's slice is live in a call, its cell holds exactly the bytes
   the caller put there (OArg, or the caller's own later OScribble) ... *)
Theorem C17_caller_intact : forall progs sched st i r b l,
  (forall j, disciplined (progs j) = true) -> LTS.run step (ginit progs) sched st ->
  s_ts (g_sess st i) r = TCaller b -> s_regs (g_sess st i) r = Some l -> g_heap st l = b.
Proof. exact reach_caller_intact. Qed.
Print Assumptions C17_caller_intact.

(* ... because no step the discipline accepts changes a caller's slice, except the caller's
   own scribble and the slice going out of scope *)
Theorem C17_only_caller_writes_caller_slice : forall t o t' r b, tnext t o = Some t' -> t r = TCaller b ->
  t' r = TCaller b \/ (exists b', o = OScribble r b') \/ o = ODrop r.
Proof. exact tnext_caller. Qed.
Print Assumptions C17_only_caller_writes_caller_slice.

(* every transcribed library path — for all inputs — follows the discipline *)
Theorem C17_library_paths_disciplined :
  (forall req items resp, disciplined (path_upgrade req items resp) = true) /\
  (forall hdr items, disciplined (path_httpupgrade hdr items) = true) /\
  (forall req resp items, disciplined (path_dial req resp items) = true) /\
  (forall payload, disciplined (path_handle_close payload) = true) /\
  (forall payload, disciplined (path_read_message payload) = true) /\
  (forall p hdr key, disciplined (path_write_client p hdr key) = true) /\
  (forall p hdr, disciplined (path_write_server p hdr) = true) /\
  (forall p key, disciplined (path_cipher_writer p key) = true) /\
  (forall p key, disciplined (path_mask_frame p key) = true) /\
  (forall p junk hdr key client, disciplined (path_writer_write_flush p junk hdr key client) = true).
Proof. exact paths_disciplined. Qed.
Print Assumptions C17_library_paths_disciplined.

(* bytes handed to the destination: the client-side write paths deliver header and masked copy,
   also when the caller overwrites its slice between Write and Flush *)
Theorem C17_destination_bytes : forall p junk hdr key,
  solo_transcript (path_write_client p hdr key) = Some [hdr; sub (xor_key key p) 0 (length p)] /\
  solo_transcript (path_writer_write_flush p junk hdr key false) = Some [hdr; sub p 0 (length p)] /\
  solo_transcript (path_writer_write_flush p junk hdr key true) = Some [hdr; sub (xor_key key p) 0 (length p)].
Proof. exact destination_bytes. Qed.
Print Assumptions C17_destination_bytes.

(* the aliasing mistake IS expressible in the model and is rejected by the discipline *)
Theorem C17_unsafe_variant_rejected : forall payload, disciplined (path_close_unsafe payload) = false.
Proof. exact unsafe_path_rejected. Qed.
Print Assumptions C17_unsafe_variant_rejected.

(* non-vacuity: the poison experiment in the model.  A handshake whose selected subprotocol is
   copied keeps its result while another session recycles and overwrites the pooled buffers;
   the unsafe close-reason view of the pooled buffer turns into the poison. *)
Example C17_nonvacuous :
  poison_experiment (path_upgrade [71;69;84;32;99;104;97;116]%N [ICopy 4 4; ILit [7]%N] [49;48;49]%N) 3 8 170%N
    = ([[99;104;97;116]; [7]; [49;48;49]]%N, [[99;104;97;116]; [7]; [49;48;49]]%N) /\
  poison_experiment (path_close_unsafe [3;232;98;121;101]%N) 3 8 170%N
    = ([[98;121;101]]%N, [[170;170;170]]%N) /\
  poison_experiment (path_read_message [1;2;3]%N) 3 8 170%N = ([[1;2;3]]%N, [[1;2;3]]%N).
Proof. vm_compute. repeat split; reflexivity. Qed.
