(* C20 — Dial honours cancellation at any moment without poisoning or leaking the conn.
   PARTIAL: the theorems decide the protocol logic of Dial / setupContextDeadliner as
   transcribed in model/DialLTS.v (main, watcher, ctx, timer, dialctx, conn, peer; all
   interleavings, any number of handshake I/O operations).  Real time, the scheduler's
   fairness, net.Conn implementations and goroutine exit are not in the model; they are
   covered by the harness (scripted conn, watchdog, goroutine count) only.
   Only statements; each closed by [exact]. *)
From Coq Require Import List Bool.
Require Import LTS DialLTS DialTable DialProofs.
Import ListNotations.

(* err = nil at return: the conn exists, is not closed, its deadline is cleared, and it
   was never poisoned by the watcher *)
Theorem C20_success_clean : forall c tr s, run step (init c) tr s -> returned s = Some ENil ->
  s_conn s = true /\ s_closed s = false /\ s_dl s = DNone /\ s_wctx s = false.
Proof. exact success_clean. Qed.
Print Assumptions C20_success_clean.

(* after Dial returned (nil or not) no step of any continuation, under any interleaving,
   operates on the conn, and the returned error is final *)
Theorem C20_never_touched_again : forall c tr1 s1 e tr2 s2,
  run step (init c) tr1 s1 -> returned s1 = Some e -> run step s1 tr2 s2 ->
  Forall (fun l => touches_conn l = false) tr2 /\ returned s2 = Some e.
Proof. exact never_touched_again. Qed.
Print Assumptions C20_never_touched_again.

(* err <> nil at return: the conn (if the dial phase produced one) has been closed *)
Theorem C20_error_closed : forall c tr s e, run step (init c) tr s -> returned s = Some e ->
  e <> ENil -> s_conn s = true -> s_closed s = true.
Proof. exact error_closed. Qed.
Print Assumptions C20_error_closed.

Theorem C20_no_conn_is_dial_failure : forall c tr s e, run step (init c) tr s ->
  returned s = Some e -> s_conn s = false -> s_hs s = HNone /\ e <> ENil.
Proof. exact noconn_is_dial_failure. Qed.
Print Assumptions C20_no_conn_is_dial_failure.

(* error mapping on the watcher path (ctx != Background), h = what Upgrade itself returned:
   - h is a timeout: dialctx had ended before Upgrade returned and the error is dialctx's;
   - h = nil: the result is nil (watcher took the quit branch, conn never poisoned) or
     dialctx's error (watcher took the ctx branch);
   - any other h is returned as is. *)
Theorem C20_ctx_error : forall c tr s e, run step (init c) tr s -> returned s = Some e -> is_bg c = false ->
  (s_hs s = HRes EIoTimeout ->
     ended (s_dctx_at_hs s) = true /\ e = cerr (s_dctx s) /\ e <> ENil /\ s_wctx s = true) /\
  (s_hs s = HRes ENil ->
     (e = ENil /\ s_wctx s = false) \/ (e = cerr (s_dctx s) /\ e <> ENil /\ s_wctx s = true)) /\
  (s_hs s = HRes EOther -> e = EOther).
Proof. exact ctx_error. Qed.
Print Assumptions C20_ctx_error.

(* once the watcher has observed the end of dialctx (and poisons the conn), Dial cannot
   succeed: non-nil error, conn closed, and the error is dialctx's unless Upgrade failed
   with a non-timeout error of its own *)
Theorem C20_poisoned_never_returned : forall c tr s e, run step (init c) tr s -> returned s = Some e ->
  s_wctx s = true -> e <> ENil /\ s_closed s = true /\ (s_hs s <> HRes EOther -> e = cerr (s_dctx s)).
Proof. exact poisoned_never_returned. Qed.
Print Assumptions C20_poisoned_never_returned.

(* dialctx's error is ctx's error: always when no Timeout-derived deadline exists, and
   whenever ctx ended before the Timeout fired; "canceled" always stems from ctx *)
Theorem C20_dialctx_error_is_ctx_error : forall c tr s, run step (init c) tr s ->
  (has_timer c = false -> s_dctx s = s_ctx s) /\
  (ended (s_ctx s) = true -> ended (s_dctx s) = true) /\
  (s_dctx s = CCanceled -> s_ctx s = CCanceled) /\
  (ended (s_ctx s) = true -> s_timer s <> TFired -> s_dctx s = s_ctx s) /\
  (ended (s_dctx s) = true -> ended (s_ctx s) = true \/ s_timer s = TFired) /\
  (s_timer s = TFired -> ended (s_dctx s) = true).
Proof. exact dctx_relation. Qed.
Print Assumptions C20_dialctx_error_is_ctx_error.

(* the watcher goroutine has sent its single reply, it has been consumed, and the watcher
   has no step left, by the time Dial returns *)
Theorem C20_watcher_finished : forall c tr s e, run step (init c) tr s -> returned s = Some e ->
  s_intr s = IEmpty /\
  (is_bg c = true \/ s_conn s = false -> s_w s = WNone) /\
  (is_bg c = false -> s_conn s = true -> s_w s = WDone).
Proof. exact watcher_finished. Qed.
Print Assumptions C20_watcher_finished.

(* progress: main blocked in an I/O operation and (ctx ended or the Timeout fired): some
   sequence of steps of Dial's own goroutines and of the deadline-honouring conn — none by
   the peer, the clock or the caller — reaches "returned" *)
Theorem C20_progress : forall c tr s, run step (init c) tr s ->
  s_pc s = MBlocked -> (ended (s_ctx s) = true \/ s_timer s = TFired) ->
  exists tr' s', run step s tr' s' /\ is_returned s' = true /\ Forall (fun l => In l system_labels) tr'.
Proof. exact progress_exists. Qed.
Print Assumptions C20_progress.

(* and it is inevitable: there is always an enabled system step, and EVERY sequence of
   system steps has returned within pfuel = 16 steps *)
Theorem C20_progress_inevitable : forall c tr s, run step (init c) tr s ->
  s_pc s = MBlocked -> (ended (s_ctx s) = true \/ s_timer s = TFired) ->
  (exists l s', In l system_labels /\ step s l = Some s') /\
  (forall tr' s', run step s tr' s' -> Forall (fun l => In l system_labels) tr' -> length tr' = pfuel ->
     exists t1 t2 sm, tr' = t1 ++ t2 /\ run step s t1 sm /\ is_returned sm = true).
Proof. exact progress_inevitable. Qed.
Print Assumptions C20_progress_inevitable.

(* the property monitor (the fold the checker evaluates on the logged Go trace) never
   fires on the visible projection of any run of the model *)
Theorem C20_monitor_sound : forall c tr s, run step (init c) tr s -> monitor c (filter visible tr) = VOk.
Proof. exact monitor_sound. Qed.
Print Assumptions C20_monitor_sound.

(* trace inclusion as evaluated by the extracted acceptor is exact: accepted = visible
   projection of a run (soundness), and every run's projection is accepted (completeness) *)
Theorem C20_acceptor_sound : forall c tr, accepts c tr = true ->
  exists full s, run step (init c) full s /\ filter visible full = tr.
Proof. exact acceptor_sound. Qed.
Print Assumptions C20_acceptor_sound.

Theorem C20_acceptor_complete : forall c full s, run step (init c) full s ->
  accepts c (filter visible full) = true /\ In s (accept_states c (filter visible full)).
Proof. exact acceptor_complete. Qed.
Print Assumptions C20_acceptor_complete.

Theorem C20_accepted_trace_safe : forall c tr, accepts c tr = true -> monitor c tr = VOk.
Proof. exact accepted_trace_safe. Qed.
Print Assumptions C20_accepted_trace_safe.

(* why "if the context ended before the handshake I/O finished, the error is the context's
   error" is read as a statement about the ERROR: the select in the watcher may find both
   quit and ctx.Done() ready, so a handshake whose last read completes after cancel() may
   still succeed — with a clean, un-poisoned conn (first sentence of the property). *)
Theorem C20_cancel_completion_race :
  exists s, run step (init race_cfg) race_trace s /\
            returned s = Some ENil /\ s_ctx s = CCanceled /\ s_dctx_at_hs s = CCanceled /\
            s_closed s = false /\ s_dl s = DNone.
Proof. exact cancel_completion_race. Qed.
Print Assumptions C20_cancel_completion_race.

(* non-vacuity: Timeout set, cancellable ctx, silent peer.  The Timeout fires while main is
   blocked in the response read: progress applies (blocked and due), the watcher poisons the
   conn, the read times out, Dial returns DeadlineExceeded on a closed conn, and the logged
   trace is accepted and passes the monitor. *)
Example C20_nonvacuous :
  let c := mkCfg CtxPlain true true in
  let tr := [LDialStart; LDialOk; HSpawn; LIoStart GMain; LIoOk GMain; LIoStart GMain; HTimerFire] in
  let rest := [HWSelCtx; LSetDl GOther DPast; HWSendCtx; LIoTimeout GMain; HCloseQuit; HRecvIntr;
               LClose GMain; LRet EDeadline] in
  (exists s, LTS.exec step (init c) tr = Some s /\ blocked_and_due s = true /\ s_ctx s = CLive) /\
  (exists s, LTS.exec step (init c) (tr ++ rest) = Some s /\ returned s = Some EDeadline /\
             s_closed s = true /\ s_w s = WDone) /\
  accepts c (filter visible (tr ++ rest)) = true /\
  monitor c (filter visible (tr ++ rest)) = VOk /\
  accepts c (filter visible (tr ++ [LSetDl GMain DNone])) = false /\
  monitor c [LDialStart; LDialOk; LIoStart GMain; LCtxCancel; LIoTimeout GMain; LClose GMain; LRet EIoTimeout] = VRawTimeout.
Proof. vm_compute. repeat split; eexists; repeat split; reflexivity. Qed.
