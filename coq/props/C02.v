(* C02 — Payload masking equals the RFC 6455 §5.3 XOR for any offset and chunking.
   Only statements; each closed by [exact]. *)
Require Import Bytes Stream Check Frame Extracted ExtractedOk Cipher BytesProofs StreamProofs CipherProofs.
Require GoSlices GoMem Translated3 Translated3Ok.
Open Scope N_scope.

(* the optimised algorithm (byte head, 16-byte unrolled 64-bit word loop, byte
   tail; table [remain] read from the source) equals the byte-wise XOR for EVERY
   payload, key and offset *)
Theorem C02_cipher_is_xor : forall p key off, wf_bytes p -> wf_key key ->
  cipher p key off = mask_spec p key off.
Proof. exact cipher_is_spec. Qed.
Print Assumptions C02_cipher_is_xor.

Theorem C02_involution : forall p key off, mask_spec (mask_spec p key off) key off = p.
Proof. exact mask_spec_involutive. Qed.
Print Assumptions C02_involution.

(* consecutive chunks with a running offset = one call *)
Theorem C02_chunk_additive : forall a b key off,
  mask_spec (a ++ b) key off = mask_spec a key off ++ mask_spec b key (off + len a).
Proof. exact mask_spec_app. Qed.
Print Assumptions C02_chunk_additive.

(* masking writer: for every split of the payload into writes the destination
   receives, call by call, the masked image; concatenated = one-shot result *)
Theorem C02_writer_any_split : forall ps c, Forall wf_bytes ps -> wf_key (cw_key c) ->
  concat (cw_writes ps c) = mask_spec (concat ps) (cw_key c) (cw_pos c)
  /\ length (cw_writes ps c) = length ps.
Proof. exact cw_writes_spec. Qed.
Print Assumptions C02_writer_any_split.

(* masking reader: for every transport chunking and every sequence of caller
   buffer sizes, reading to the end delivers the one-shot result *)
Theorem C02_reader_any_chunking : forall fuel bufs all c acc,
  wf_src (cr_src c) -> wf_bytes (flat (cr_src c)) -> wf_key (cr_key c) ->
  (length (flat (cr_src c)) < fuel)%nat ->
  cr_drive fuel bufs all c acc =
  (acc ++ mask_spec (flat (cr_src c)) (cr_key c) (cr_pos c),
   Some (match tl (cr_src c) with TEOF => EEOF | TFail => EFail end)).
Proof. exact cr_drive_spec. Qed.
Print Assumptions C02_reader_any_chunking.

(* frame helpers: mask fields set / cleared, payload masked with offset 0;
   copying variants return the caller's bytes unchanged, in-place variants alias *)
Theorem C02_frame_helpers : forall f m, wf_bytes (f_payload f) -> wf_key m ->
  let '(g, caller) := mask_frame_with f m in
  h_masked (f_header g) = true /\ h_mask (f_header g) = m
  /\ f_payload g = mask_spec (f_payload f) m 0 /\ caller = f_payload f
  /\ snd (mask_frame_in_place_with f m) = f_payload g.
Proof.
  intros f m Hp Hk. unfold mask_frame_with, mask_frame_in_place_with. cbn [fst snd f_header f_payload h_masked h_mask].
  rewrite (cipher_is_spec _ _ 0 Hp Hk). repeat split; reflexivity.
Qed.
Print Assumptions C02_frame_helpers.

Theorem C02_unmask_helpers : forall f, wf_bytes (f_payload f) -> wf_key (h_mask (f_header f)) ->
  let '(g, caller) := unmask_frame f in
  h_masked (f_header g) = false /\ h_mask (f_header g) = zero_mask
  /\ f_payload g = mask_spec (f_payload f) (h_mask (f_header f)) 0 /\ caller = f_payload f
  /\ snd (unmask_frame_in_place f) = f_payload g.
Proof.
  intros f Hp Hk. unfold unmask_frame, unmask_frame_in_place. cbn [fst snd f_header f_payload h_masked h_mask].
  rewrite (cipher_is_spec _ _ 0 Hp Hk). repeat split; reflexivity.
Qed.
Print Assumptions C02_unmask_helpers.

Theorem C02_constants_from_source : remain = [0; 3; 2; 1].
Proof. exact ok_remain. Qed.
Print Assumptions C02_constants_from_source.

Example C02_nonvacuous :
  let p := map N.of_nat (seq 0 41) in
  let key := [222; 173; 190; 239] in
  wf_bytesb p = true /\ cipher p key 7 = mask_spec p key 7 /\ nthb (cipher p key 7) 0 = N.lxor 0 239
  /\ fst (cr_drive 100 [3; 5] [3; 5] (mkCR (bytewise p TEOF) key 0) []) = mask_spec p key 0.
Proof. vm_compute. repeat split; reflexivity. Qed.

(* ---- tie C3: Cipher TRANSLATED from the source text of cipher.go on this run (gen/Translated3.v, memory
   model lib/GoMem.v).  For every heap, every valid payload slice into it (any array, offset, len <= cap),
   every byte content p, every 4-byte key and every offset the Go code can handle (cipher_pre: non-negative,
   offset+i does not overflow int), the translated function returns normally — no index/slice panic, no
   loop out of fuel — and afterwards the payload's bytes hold [cipher p key off] = the RFC XOR, every other
   byte of the heap and the write log unchanged (so every alias of the payload sees exactly that). *)
Theorem C02_source_cipher : forall w s p key off,
  GoMem.sl_valid w s -> GoMem.sl_bytes w s = Translated3Ok.zb p -> wf_bytes p -> wf_key key ->
  (GoMem.sl_len s <= Translated3Ok.max_int)%Z -> Translated3Ok.cipher_pre (GoMem.sl_len s) off ->
  Translated3.g3_Cipher s (Translated3Ok.zb key) off w =
  GoSlices.Ok (tt, GoMem.mk_world
        (GoMem.heap_set (GoMem.w_heap w) (GoMem.sl_arr s)
           (firstn (Z.to_nat (GoMem.sl_off s)) (GoMem.arr_of w (GoMem.sl_arr s))
            ++ Translated3Ok.zb (cipher p key (Z.to_N off))
            ++ skipn (Z.to_nat (GoMem.sl_off s + GoMem.sl_len s)) (GoMem.arr_of w (GoMem.sl_arr s))))
        (GoMem.w_out w))
  /\ cipher p key (Z.to_N off) = mask_spec p key (Z.to_N off).
Proof. exact Translated3Ok.g3_Cipher_source. Qed.
Print Assumptions C02_source_cipher.

(* a 41-byte payload at offset 5 of a 64-byte array (cap 59), second array untouched, offset 7 *)
Example C02_source_nonvacuous :
  let p := map N.of_nat (seq 0 41) in
  let key := [222; 173; 190; 239] in
  let arr := (repeat 9 5 ++ Translated3Ok.zb p ++ repeat 9 18)%Z in
  let w := GoMem.mk_world [[1; 2; 3]%Z; arr] [] in
  let s := GoMem.mk_slice 1 5 41 59 in
  GoMem.sl_bytes w s = Translated3Ok.zb p
  /\ Translated3.g3_Cipher s (Translated3Ok.zb key) 7 w =
     GoSlices.Ok (tt, GoMem.mk_world [[1; 2; 3]%Z; (repeat 9 5 ++ Translated3Ok.zb (mask_spec p key 7) ++ repeat 9 18)%Z] []).
Proof. vm_compute. split; reflexivity. Qed.
