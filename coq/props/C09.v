(* C09 — Server handshake succeeds only for compliant requests and answers correctly.
   Only statements; each closed by [exact].  The request reaches Upgrader.Upgrade as a
   bufio.Reader of any size B >= 1 over any chunking of the bytes ([reader]); callbacks are
   arbitrary pure functions; [stext] is net/http's StatusText.  [parse_request], [compliant],
   [callbacks_accept], [protocol_of], [extensions_of], [expected_response], [error_response]
   are the SPEC in model/HsUpgrader.v. *)
Require Import Bytes HsBase64 HsSha1 HsBufio HsHttpHead HsHttp HsUpgrader HsUpgraderProofs.
From Coq Require String.
Import String.StringSyntax.
Local Open Scope string_scope.
Local Open Scope list_scope.
Open Scope N_scope.

(* success <=> the bytes parse as a request /\ it is compliant /\ no callback objects /\
   the subprotocol and extension header values are well-formed *)
Theorem C09_success_iff : forall stext cfg B r, 1 <= B ->
  (u_err (upgrader stext cfg B r) = None <->
   exists q rest p es,
     parse_request (flat r) = Some (q, rest)
     /\ compliant q = true /\ callbacks_accept cfg q = true
     /\ protocol_of cfg q = Some p /\ extensions_of cfg q = inl es).
Proof. exact upgrader_success_iff. Qed.
Print Assumptions C09_success_iff.

(* then the handshake and the bytes written are exactly the 101 response with
   Sec-WebSocket-Accept = base64(SHA-1(key ++ GUID)), selected subprotocol/extensions, extra headers *)
Theorem C09_success_response : forall stext cfg B r q rest p es, 1 <= B ->
  parse_request (flat r) = Some (q, rest) ->
  compliant q = true -> callbacks_accept cfg q = true ->
  protocol_of cfg q = Some p -> extensions_of cfg q = inl es ->
  upgrader stext cfg B r = mkUres (mkHs p es) None (expected_response cfg q p es).
Proof. exact upgrader_success_response. Qed.
Print Assumptions C09_success_response.

(* the subprotocol is the first token, in the client's header order, that the selector accepts *)
Theorem C09_subprotocol_first_accepted : forall check vs,
  Forall (fun v => snd (token_list v) = true) vs ->
  select_protocol_spec check vs
  = Some (first_accepted check (concat (map (fun v => fst (token_list v)) vs))).
Proof. exact protocol_first_accepted. Qed.
Print Assumptions C09_subprotocol_first_accepted.

(* deprecated Extension filter: the options returned for a header value are the offered options the
   filter accepts, in the client's order (so each returned extension occurs in the offer) *)
Theorem C09_extensions_from_offer : forall check v acc,
  fst (select_options check v acc) = acc ++ filter check (fst (parse_options v))
  /\ snd (select_options check v acc) = snd (parse_options v).
Proof. exact select_options_from_offer. Qed.
Print Assumptions C09_extensions_from_offer.

(* failure: nothing is written when the request line could not be read or parsed (and then the
   bytes are not a request); otherwise exactly an HTTP error response with the rejection's
   status (500 for status 0 / a plain error), the caller's extra headers, the rejection's headers
   and the error text as a body whose Content-Length is its length; the rejection is built-in
   or comes from a callback *)
Theorem C09_failure_response : forall stext cfg B r e, 1 <= B ->
  u_err (upgrader stext cfg B r) = Some e ->
  match e with
  | EIO _ => u_out (upgrader stext cfg B r) = [] /\ parse_request (flat r) = None
  | EReqLine => u_out (upgrader stext cfg B r) = [] /\ parse_request (flat r) = None
  | EFuel => False
  | ERej rj =>
      u_out (upgrader stext cfg B r)
      = error_response stext (status_of rj) (uc_header cfg ++ rj_header rj) (rj_reason rj)
      /\ (In rj builtin_rejections \/ from_callback cfg rj)
  end.
Proof. exact upgrader_failure. Qed.
Print Assumptions C09_failure_response.

(* built-in checks answer 400, 405, 505 or 426, the last with Sec-WebSocket-Version: 13 *)
Theorem C09_builtin_status : forall rj, In rj builtin_rejections ->
  (status_of rj = 400 \/ status_of rj = 405 \/ status_of rj = 505
   \/ (status_of rj = 426 /\ rj_header rj = bs "Sec-WebSocket-Version: 13" ++ crlf))
  /\ (status_of rj <> 426 -> rj_header rj = []).
Proof. exact builtin_rejection_status. Qed.
Print Assumptions C09_builtin_status.

(* on failure no 101 is ever written (unless a user callback itself asks for status 101) *)
Theorem C09_never_101_on_failure : forall stext cfg B r e, 1 <= B ->
  (forall rj, from_callback cfg rj -> status_of rj <> 101) ->
  u_err (upgrader stext cfg B r) = Some e ->
  is_101 (u_out (upgrader stext cfg B r)) = false.
Proof. exact upgrader_never_101_on_failure. Qed.
Print Assumptions C09_never_101_on_failure.

(* ---- HTTPUpgrader on net/http's structured request ---- *)
Theorem C09_http_success_iff : forall stext cfg q,
  u_err (http_upgrader stext cfg q) = None <->
  (http_compliant q = true /\ exists p es, http_protocol_of cfg q = Some p /\ http_extensions_of cfg q = inl es).
Proof. exact http_upgrader_success_iff. Qed.
Print Assumptions C09_http_success_iff.

Theorem C09_http_success_response : forall stext cfg q p es,
  http_compliant q = true -> http_protocol_of cfg q = Some p -> http_extensions_of cfg q = inl es ->
  http_upgrader stext cfg q = mkUres (mkHs p es) None (http_expected_response cfg q p es).
Proof. exact http_upgrader_success_response. Qed.
Print Assumptions C09_http_success_response.

Theorem C09_http_failure_response : forall stext cfg q e,
  u_err (http_upgrader stext cfg q) = Some e ->
  exists rj, e = ERej rj
    /\ u_out (http_upgrader stext cfg q)
       = error_response stext (status_of rj) (hc_header cfg ++ rj_header rj) (rj_reason rj)
    /\ (In rj builtin_rejections \/ exists f o, hc_negotiate cfg = Some f /\ f o = NegErr rj).
Proof. exact http_upgrader_failure. Qed.
Print Assumptions C09_http_failure_response.

Theorem C09_http_never_101_on_failure : forall stext cfg q e,
  (forall f o rj, hc_negotiate cfg = Some f -> f o = NegErr rj -> status_of rj <> 101) ->
  u_err (http_upgrader stext cfg q) = Some e ->
  is_101 (u_out (http_upgrader stext cfg q)) = false.
Proof. exact http_upgrader_never_101_on_failure. Qed.
Print Assumptions C09_http_never_101_on_failure.

(* ---- the primitives the SPEC shares with the model, against plain readings ---- *)
(* on ASCII values Go's EqualFold with "websocket"/"upgrade" is ASCII case-insensitive equality *)
Theorem C09_equal_fold_is_ascii_nocase : forall w v,
  forallb (fun c => (97 <=? c) && (c <=? 122)) w = true ->
  forallb (fun c => c <? 128) v = true ->
  equal_fold_word v w = equal_fold_ascii v w.
Proof. exact equal_fold_word_ascii. Qed.
Print Assumptions C09_equal_fold_is_ascii_nocase.

(* asciiToInt (after fix F4a) accepts exactly the decimal numerals that fit an int64, with their value *)
Theorem C09_number_parser : forall l,
  ascii_to_int l =
  match l with
  | [] => None
  | _ => if all_digits l && (dec_z l 0 <=? max_int)%Z then Some (dec_z l 0) else None
  end.
Proof. exact ascii_to_int_spec. Qed.
Print Assumptions C09_number_parser.

(* the parser before F4a, transcribed with 64-bit wrap-around, took "0:1", "9;" and 2^64+101 for 101 *)
Theorem C09_old_number_parser_refuted :
  ascii_to_int_wrap [48; 58; 49] = Some 101%Z
  /\ ascii_to_int_wrap [57; 59] = Some 101%Z
  /\ ascii_to_int_wrap (bs "18446744073709551717") = Some 101%Z.
Proof. exact ascii_to_int_wrap_refuted. Qed.
Print Assumptions C09_old_number_parser_refuted.

(* non-vacuity: the RFC 6455 sample request, delivered one byte per read through a 16-byte
   buffer, with a selector that accepts only "superchat", satisfies every hypothesis and yields
   the RFC's sample accept value; SHA-1 on the FIPS 180 "abc" vector *)
Example C09_nonvacuous :
  let r := mkReader [] (map (fun b => [b]) sample_request) TEof in
  upgrader (fun _ => []) sample_cfg 16 r = mkUres (mkHs (bs "superchat") []) None sample_response
  /\ (exists q rest, parse_request (flat r) = Some (q, rest) /\ compliant q = true
                     /\ callbacks_accept sample_cfg q = true)
  /\ sha1 (bs "abc") = [169;153;62;54;71;6;129;106;186;62;37;113;120;80;194;108;156;208;216;157]
  /\ u_err (upgrader (fun _ => []) sample_cfg 16
              (mkReader [] [bs "GET / HTTP/1.1" ++ crlf ++ bs "Host: x" ++ crlf ++ crlf] TEof))
     = Some (ERej err_bad_upgrade).
Proof.
  vm_compute. split; [reflexivity|]. split; [|split; reflexivity].
  eexists. eexists. split; [reflexivity|]. split; reflexivity.
Qed.

(* ---------- source level (tie C, second translator): the Gallina translation of the CURRENT Go
   text (gen/Translated2.v, `harness translate2`) of the request-line, header-line, version and
   number parsers returns, for EVERY []byte value (elements 0..255, length an int), normally (no
   bounds panic, fuel suffices) and exactly what the hand models used by the theorems above return.
   req_proj / hdr_proj / ver_proj (proofs/Translated2Ok.v) read the Go result tuple as the model's option. *)
Require Import GoSlices Translated2 Translated2Ok.

Theorem C09_source_request_line : forall l : list Z, go_bytes l -> go_fits l ->
  exists r, g2_httpParseRequestLine l = Ok r
            /\ req_proj r = http_parse_request_line ascii_to_int (nb l)
            /\ (snd r = None \/ snd r = Some E_ErrMalformedRequest).
Proof. exact src_request_line. Qed.
Print Assumptions C09_source_request_line.

Theorem C09_source_header_line : forall l : list Z, go_bytes l -> go_fits l ->
  exists r, g2_httpParseHeaderLine l = Ok r /\ hdr_proj r = http_parse_header_line (nb l).
Proof. exact src_header_line. Qed.
Print Assumptions C09_source_header_line.

Theorem C09_source_version : forall l : list Z, go_bytes l -> go_fits l ->
  exists r, g2_httpParseVersion l = Ok r /\ ver_proj r = http_parse_version ascii_to_int (nb l).
Proof. exact src_version. Qed.
Print Assumptions C09_source_version.

Theorem C09_source_number_parser : forall l : list Z, go_bytes l -> go_fits l ->
  g2_asciiToInt l = Ok (match ascii_to_int (nb l) with
                        | Some v => (v, None)
                        | None => (0%Z, Some E_fmt_Errorf)
                        end).
Proof. exact src_number_parser. Qed.
Print Assumptions C09_source_number_parser.

Theorem C09_source_line_helpers : forall l : list Z, go_bytes l -> go_fits l ->
  g2_btrim l = Ok (zb (btrim (nb l))) /\
  g2_canonicalizeHeaderKey l = Ok (zb (canonicalize (nb l))) /\
  (forall c, (0 <= c < 256)%Z ->
     g2_bsplit3 l c = Ok (let '(x, y, z) := bsplit3 (nb l) (Z.to_N c) in (zb x, zb y, zb z))).
Proof. exact src_line_helpers. Qed.
Print Assumptions C09_source_line_helpers.

Theorem C09_source_arith_helpers : forall a b : Z,
  g2_min a b = Ok (Z.min a b) /\ g2_nonZero a b = Ok (if (a =? 0)%Z then b else a) /\
  ((b <= 9223372036854775807)%Z -> g2_pow a b = Ok (pow64 a (Z.to_N b))).
Proof. exact src_arith_helpers. Qed.
Print Assumptions C09_source_arith_helpers.

Example C09_source_nonvacuous :
  g2_httpParseRequestLine (zb (bs "GET /chat?x=1 HTTP/1.1"))
  = Ok (g2_mk_httpRequestLine (zb (bs "GET")) (zb (bs "/chat?x=1")) 1%Z 1%Z, None)
  /\ g2_httpParseRequestLine (zb (bs "GET /chat HTTP/1.:"))
     = Ok (g2_mk_httpRequestLine (zb (bs "GET")) (zb (bs "/chat")) 1%Z 0%Z, Some E_ErrMalformedRequest)
  /\ g2_asciiToInt (zb (bs "9223372036854775808")) = Ok (0%Z, Some E_fmt_Errorf).
Proof. vm_compute. repeat split; reflexivity. Qed.
