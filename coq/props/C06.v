(* C06 — Fragmenting writer emits one well-formed message per flush and loses no byte.
   Only statements; each closed by [exact]. *)
Require Import Bytes Stream Check Frame Cipher Extracted Writer BytesProofs StreamProofs FrameProofs WriterProofs.
Open Scope N_scope.

(* header-space reservation: whatever fits behind the reserved bytes has a header
   that fits them, across the 125/126 and 65535/65536 thresholds, masked or not *)
Theorem C06_reserved_space_suffices : forall state rawlen n,
  n <= rawlen - reserve state rawlen -> w_header_size state n <= reserve state rawlen.
Proof. exact reserve_fits. Qed.
Print Assumptions C06_reserved_space_suffices.

(* a final flush with nothing written emits nothing and changes nothing *)
Theorem C06_flush_nothing : forall w, w_dirty w = false -> w_buf w = [] -> flush w = (inr (w_err w), w).
Proof. exact flush_nothing. Qed.
Print Assumptions C06_flush_nothing.

Example C06_nonvacuous :
  match new_writer_size (mkDest [] None) 2 1 4 [[1;2;3;4]; [5;6;7;8]; [9;9;9;9]] with
  | inr w0 =>
    let ops := [WWrite [10;11;12]; WWrite [13;14;15]; WFlush; WFlush] in
    let '(obs, w1) := run_wops ops w0 in
    c06_monitor true 1 false (w_buflen w0) (map (fun p => mkStep (fst p) (snd p)) (combine ops obs))
                (dest_log (w_dest w1)) = true
    /\ length (dest_log (w_dest w1)) = 2%nat
  | inl _ => False
  end.
Proof. vm_compute. split; reflexivity. Qed.

(* ------------------------------------------------------------------------------------
   Histories.  [writer_inv], [obs_safe], [ops_cost], [no_reset], [max_int] are defined in
   proofs/WriterInv.v; [wf_pframe], [out_frame], [frame_bytes], [wf_writer], [op_wf],
   [steps_of] in proofs/WriterFrameProofs.v; [c06_op], [exts_comp], [fresh_writer] in
   proofs/WriterHistProofs.v. *)
Require Import CipherProofs CheckProofs WriterInv WriterFrameProofs WriterHistProofs.

(* (A) the size invariant: established by every constructor that returns ... *)
Theorem C06_constructors_establish_invariant : forall d state op n masks w,
  n + 14 <= max_int ->
  (new_writer_buffer d state op n masks = inr w \/ new_writer_buffer_size d state op n masks = inr w \/
   new_writer_size d state op n masks = inr w) ->
  w_buflen w = w_rawlen w - reserve (w_state w) (w_rawlen w) /\
  reserve (w_state w) (w_rawlen w) < w_rawlen w /\ len (w_buf w) <= w_buflen w /\
  w_rawlen w <= max_int /\ w_err w <> Some WHang.
Proof.
  intros d state op n masks w Hn H.
  assert (Hi: writer_inv w).
  { destruct H as [H|[H|H]].
    - eapply new_writer_buffer_inv; [|exact H]. lia.
    - eapply new_writer_buffer_size_inv; [|exact H]. lia.
    - eapply new_writer_size_inv; [|exact H]. exact Hn. }
  destruct Hi; auto.
Qed.
Print Assumptions C06_constructors_establish_invariant.

(* ... preserved by every operation except Reset; under it NO operation panics and no
   loop of the model runs out of fuel (Write, Grow, ReadFrom terminate), for every history
   whose sizes stay below 2^61: 28 + 4 * (buffered + sum of Write/ReadFrom/Grow sizes) <= MaxInt64 *)
Theorem C06_no_panic_no_hang : forall ops w, writer_inv w -> no_reset ops = true ->
  28 + 4 * (len (w_buf w) + ops_cost ops) <= max_int ->
  Forall (fun o => o_panic o = None /\ o_err o <> Some WHang) (fst (run_wops ops w)) /\
  writer_inv (snd (run_wops ops w)) /\ length (fst (run_wops ops w)) = length ops.
Proof. exact run_wops_safe. Qed.
Print Assumptions C06_no_panic_no_hang.

(* (B) flushFragment makes exactly ONE destination write and it is one whole frame:
   RFC header (opcode of the fragment, FIN as requested, RSV from the extensions, masked iff
   client with the oracle key) followed by the payload = buffer (masked per RFC 6455 5.3) *)
Theorem C06_flush_is_one_frame : forall fin w h1, writer_inv w -> wf_writer w ->
  set_bits (w_exts w) (mkHeader fin 0 (w_opcode w) false zero_mask (Z.of_N (w_n w))) = Some h1 ->
  let f := mkPF (mkHeader fin (h_rsv h1) (w_opcode w) (client_side (w_state w)) (w_key w) (Z.of_N (len (w_buf w))))
                (if client_side (w_state w) then mask_spec (w_buf w) (w_key w) 0 else w_buf w) in
  flush_fragment_raw fin w =
    (inr (if fst (dest_write (rfc_header (pf_header f) ++ pf_payload f) (w_dest w)) then None else Some WDest),
     with_dest w (snd (dest_write (rfc_header (pf_header f) ++ pf_payload f) (w_dest w))) (w_masks_next w))
  /\ wf_pframe f.
Proof. exact flush_fragment_raw_frame. Qed.
Print Assumptions C06_flush_is_one_frame.

(* WriteThrough makes TWO destination writes, header then payload, together one
   non-final frame carrying p *)
Theorem C06_write_through_is_one_frame : forall p w h1, wf_writer w -> wf_bytes p -> len p <= max_int ->
  w_err w = None -> w_buf w = [] ->
  set_bits (w_exts w) (mkHeader false 0 (w_opcode w) false zero_mask (Z.of_N (len p))) = Some h1 ->
  let f := mkPF (mkHeader false (h_rsv h1) (w_opcode w) (client_side (w_state w)) (w_key w) (Z.of_N (len p)))
                (if client_side (w_state w) then mask_spec p (w_key w) 0 else p) in
  let '(ok1, d1) := dest_write (rfc_header (pf_header f)) (w_dest w) in
  let '(ok, d2) := if ok1 then dest_write (pf_payload f) d1 else (false, d1) in
  write_through p w = ((if ok then len p else 0, if ok then None else Some WDest), wt_result w d2 ok)
  /\ wf_pframe f.
Proof. exact write_through_frame. Qed.
Print Assumptions C06_write_through_is_one_frame.

(* consequently: for EVERY history without Reset (any extensions, any sizes, panics included),
   with a destination that never fails, the bytes sent form whole frames at every call boundary *)
Theorem C06_whole_frames_at_every_call : forall ops w,
  w_op w < 16 -> w_buf w = [] -> Forall wf_key (w_masks w) ->
  d_calls (w_dest w) = [] -> d_fail_at (w_dest w) = None -> Forall op_wf ops ->
  aligned_at_ops (steps_of ops (fst (run_wops ops w))) (dest_log (w_dest (snd (run_wops ops w)))) = true /\
  exists fs, Forall wf_pframe fs /\ frames_of (concat (dest_log (w_dest (snd (run_wops ops w))))) = Some fs.
Proof. exact fresh_whole_frames. Qed.
Print Assumptions C06_whole_frames_at_every_call.

(* (C) the full history statement: the monitor c06_monitor (whole frames per call, one
   well-formed message per final flush carrying exactly the accepted bytes, single frame
   when the data fits, nothing sent by plain writes with flushing disabled, conservation of
   the open message) holds of EVERY history over Write/ReadFrom/WriteThrough/FlushFragment/
   Flush/Grow/DisableFlush from a fresh writer, extensions [] or [c] *)
Theorem C06_history_monitor : forall ops w0 comp,
  writer_inv w0 -> fresh_writer w0 -> w_op w0 < 16 -> Forall wf_key (w_masks w0) ->
  ((w_exts w0 = [] /\ comp = false) \/ w_exts w0 = [comp]) ->
  Forall c06_op ops -> 28 + 4 * ops_cost ops <= max_int ->
  c06_monitor (client_side (w_state w0)) (w_op w0) comp (w_buflen w0)
    (steps_of ops (fst (run_wops ops w0))) (dest_log (w_dest (snd (run_wops ops w0)))) = true.
Proof. exact c06_monitor_holds. Qed.
Print Assumptions C06_history_monitor.

(* ... in particular from every constructor (NewWriterBuffer / NewWriterBufferSize / NewWriterSize) *)
Theorem C06_history_monitor_constructors : forall ops state op n masks exts comp w0,
  (new_writer_buffer (mkDest [] None) state op n masks = inr w0 \/
   new_writer_buffer_size (mkDest [] None) state op n masks = inr w0 \/
   new_writer_size (mkDest [] None) state op n masks = inr w0) ->
  n + 14 <= max_int -> op < 16 -> Forall wf_key masks ->
  ((exts = [] /\ comp = false) \/ exts = [comp]) ->
  Forall c06_op ops -> 28 + 4 * ops_cost ops <= max_int ->
  let w := set_extensions exts w0 in
  c06_monitor (client_side state) op comp (w_buflen w)
    (steps_of ops (fst (run_wops ops w))) (dest_log (w_dest (snd (run_wops ops w)))) = true.
Proof. exact constructors_c06. Qed.
Print Assumptions C06_history_monitor_constructors.

(* ------------------------------------------------------------------------------------
   ReadFrom from a source that FAILS (repaired defect F21: the message is dirty as soon as
   bytes are accepted).  [wopx], [run_wopsx], [as_eof], [fail_src] are defined in
   model/WriterRF.v; [c06_opx] in proofs/WriterReadFromFailProofs.v; [log_bytes], [wire] in
   proofs/WriterFrameProofs.v.  A failing source = any chunking of its bytes [flat s], then
   an error other than io.EOF ([tl s = TFail]). *)
Require Import WriterRF WriterReadFromFailProofs.

(* For EVERY working writer state (size invariant, no sticky error, a destination that does
   not fail, extensions [] or [c]; automatic flushing enabled or not) in which the fragments
   [cur] of the open message have been sent before ([cur] = [] when none):
   ReadFrom accepts ALL the bytes the source delivers before it fails and reports the
   source's error, which is not sticky; what has left meanwhile are whole NON-final frames
   [fs] continuing the message, and no byte is lost (payloads of [fs] ++ buffer = old buffer
   ++ accepted bytes).  If at least one byte was accepted, or the message was dirty already
   (in every reachable state buffered bytes or sent fragments imply dirty), the next Flush
   SENDS a final frame [f]: the frames of the message [cur ++ fs ++ [f]] carry the opcode
   on the first frame only, continuation afterwards, only the last one final, masked iff
   client side, RSV1 only on the first frame of a compressed data message, and their
   unmasked payloads are exactly: what was sent and buffered of the message before ++ the
   accepted bytes.  The writer is then clean: the next message starts with its opcode. *)
Theorem C06_read_from_failing_source_then_flush : forall w cur s comp,
  writer_inv w -> wf_writer w -> w_err w = None -> d_fail_at (w_dest w) = None ->
  ((w_exts w = [] /\ comp = false) \/ w_exts w = [comp]) ->
  msg_frames_ok (client_side (w_state w)) (w_op w) comp true cur = true -> w_fseq w = len cur ->
  wf_src s -> wf_bytes (flat s) -> tl s = TFail ->
  2 * (14 + 2 * (len (w_buf w) + len (flat s))) <= max_int ->
  exists w1 s1 fs,
    read_from s w = (inr (len (flat s), Some WDest), w1, s1) /\
    w_err w1 = None /\
    log_bytes (w_dest w1) = log_bytes (w_dest w) ++ wire fs /\
    Forall wf_pframe fs /\ Forall (fun f => h_fin (pf_header f) = false) fs /\
    msg_frames_ok (client_side (w_state w)) (w_op w) comp true (cur ++ fs) = true /\
    msg_payload fs ++ w_buf w1 = w_buf w ++ flat s /\
    (w_dirty w = true \/ flat s <> [] ->
     exists f w2,
       flush w1 = (inr None, w2) /\
       log_bytes (w_dest w2) = log_bytes (w_dest w) ++ wire (fs ++ [f]) /\
       wf_pframe f /\ h_fin (pf_header f) = true /\
       msg_frames_ok (client_side (w_state w)) (w_op w) comp true (cur ++ fs ++ [f]) = true /\
       msg_payload (cur ++ fs ++ [f]) = msg_payload cur ++ w_buf w ++ flat s /\
       w_buf w2 = [] /\ w_dirty w2 = false /\ w_fseq w2 = 0 /\ w_err w2 = None).
Proof. exact read_from_fail_then_flush. Qed.
Print Assumptions C06_read_from_failing_source_then_flush.

(* in EVERY writer state (failing destination, panics, flushing disabled included): a
   source that fails after delivering at least one byte, or read into a message that is
   dirty already, leaves the writer in exactly the state a source ending with io.EOF after
   the same bytes in the same chunking leaves it in, and the same count is returned; only
   the reported error differs *)
Theorem C06_failing_source_as_eof : forall data sizes w, w_dirty w = true \/ data <> [] ->
  let '(r1, w1, _) := read_from (mkSrc (chunk_by sizes data) TFail) w in
  let '(r2, w2, _) := read_from (mkSrc (chunk_by sizes data) TEOF) w in
  w1 = w2 /\
  match r1, r2 with
  | inl p1, inl p2 => p1 = p2
  | inr (n1, _), inr (n2, _) => n1 = n2
  | _, _ => False
  end.
Proof. exact read_from_failing_source_as_eof. Qed.
Print Assumptions C06_failing_source_as_eof.

(* hence the full history monitor of (C) holds of EVERY history in which ReadFrom may also
   be given failing sources that deliver at least one byte: the observations and the
   destination log are judged as those of the history with io.EOF in place of every failure
   (one well-formed message per final Flush carrying exactly the accepted bytes, ...) *)
Theorem C06_history_monitor_failing_sources : forall xs w0 comp,
  writer_inv w0 -> fresh_writer w0 -> w_op w0 < 16 -> Forall wf_key (w_masks w0) ->
  ((w_exts w0 = [] /\ comp = false) \/ w_exts w0 = [comp]) ->
  Forall c06_opx xs -> 28 + 4 * ops_cost (map as_eof xs) <= max_int ->
  c06_monitor (client_side (w_state w0)) (w_op w0) comp (w_buflen w0)
    (steps_of (map as_eof xs) (fst (run_wopsx xs w0))) (dest_log (w_dest (snd (run_wopsx xs w0)))) = true.
Proof. exact c06_monitor_holds_failing_sources. Qed.
Print Assumptions C06_history_monitor_failing_sources.

(* the instance of F21, as the repaired code behaves (checked against /repo): NewWriterSize(4),
   server side, text; ReadFrom(4 bytes, then a failure) returns (4, error) after the full
   buffer has left as a non-final fragment; Flush sends the EMPTY FINAL frame 80 00 (before
   the repair it sent nothing and the next message continued this one); Write(4 bytes);
   Flush.  Two complete messages on the wire: 01 04 abcd, 80 00 | 81 04 wxyz *)
Example C06_read_from_failing_source_instance :
  match new_writer_size (mkDest [] None) 1 1 4 [] with
  | inr w0 =>
    let xs := [XReadFromFail [97;98;99;100] []; XOp WFlush; XOp (WWrite [119;120;121;122]); XOp WFlush] in
    let '(obs, w1) := run_wopsx xs w0 in
    map o_n obs = [4; 0; 4; 0] /\
    map o_err obs = [Some WDest; None; None; None] /\
    dest_log (w_dest w1) = [[1; 4; 97; 98; 99; 100]; [128; 0]; [129; 4; 119; 120; 121; 122]] /\
    c06_monitor false 1 false (w_buflen w0) (steps_of (map as_eof xs) obs) (dest_log (w_dest w1)) = true
  | inl _ => False
  end.
Proof. vm_compute. repeat split; reflexivity. Qed.

(* ---- tie C: reserve, w_header_size and ceil_pow2 are what wsutil/writer.go says now
   (gen/Translated.v is translated from the Go source on every run): every state byte,
   every non-negative int n (Go int = 64 bit; ceilPowerOfTwo: n < 2^62, where n++ does
   not overflow). *)
Require Import Translated TranslatedOk.

Theorem C06_source_reserve : forall s n, s < 256 -> n < 2 ^ 63 ->
  g_wsutil_reserve (Z.of_N s) (Z.of_N n) = Z.of_N (reserve s n).
Proof. exact xl_wsutil_reserve. Qed.
Print Assumptions C06_source_reserve.

Theorem C06_source_header_size : forall s n, s < 256 -> n < 2 ^ 63 ->
  g_wsutil_headerSize (Z.of_N s) (Z.of_N n) = Z.of_N (w_header_size s n).
Proof. exact xl_wsutil_headerSize. Qed.
Print Assumptions C06_source_header_size.

Theorem C06_source_ceil_pow2 : forall n, n < 2 ^ 62 ->
  g_wsutil_ceilPowerOfTwo (Z.of_N n) = Z.of_N (ceil_pow2 n).
Proof. exact xl_wsutil_ceilPowerOfTwo. Qed.
Print Assumptions C06_source_ceil_pow2.

(* ------------------------------------------------------------------------------------
   SetExtensions between two messages and ResetOp INSIDE histories, any number of them.
   Defined in model/WriterSeg.v (executable; extracted and applied to the observations of
   the Go code by ocaml/k_writer.ml):
     c06_segments_apply exts0 steps   = the side conditions, on operations and observations:
        nothing panicked, no Reset, at most one extension at the start, every SetExtensions
        attaches at most one extension and is called AT REST (before the first operation,
        or with only Flush / FlushFragment / Grow / DisableFlush / SetExtensions / nothing since
        a final Flush that reported no error and left nothing buffered, or since a ResetOp),
        every ResetOp sets a 4-bit opcode;
     c06_segments_verdict client op exts0 buflen0 steps log = the history is cut at every
        SetExtensions and ResetOp; every segment satisfies c06_monitor with the opcode, the
        extension list and the buffer size in force during it, destination calls counted from
        its start, and the destination calls base+1 .. (calls counted after the boundary
        call) as its log - the last segment the whole rest; ResetOp leaves nothing buffered;
     c06_segments_monitor = both.
   Defined in proofs/WriterSegProofs.v:
     seg_op o            = o is in the C06 alphabet, or SetExtensions xs with |xs| <= 1, or
                           ResetOp op' with op' < 16
     at_rest w           = nothing buffered, not dirty, fragment counter 0
     set_ext_at_rest ops w = in the run of ops from w, every SetExtensions finds the model
                           writer at rest. *)
Require Import WriterSeg WriterResetOpProofs WriterSegProofs.

(* for EVERY history over Write/ReadFrom/WriteThrough/FlushFragment/Flush/Grow/DisableFlush,
   SetExtensions (at most one extension) and ResetOp (anywhere, any number), from a fresh
   writer with extensions [] or [c], in which every SetExtensions is called at rest: the
   observations and the destination log of the model satisfy the segment monitor - side
   conditions and verdict. So: every segment is whole frames at every call, one
   well-formed message per final Flush carrying exactly the accepted bytes and exactly the
   reserved bits of the extensions attached at that time (none after SetExtensions()),
   the opcode set by the last ResetOp, and what ResetOp dropped is never sent. *)
Theorem C06_history_monitor_set_extensions : forall ops w0,
  writer_inv w0 -> fresh_writer w0 -> w_op w0 < 16 -> Forall wf_key (w_masks w0) ->
  (w_exts w0 = [] \/ exists c, w_exts w0 = [c]) ->
  Forall seg_op ops -> set_ext_at_rest ops w0 -> 28 + 4 * ops_cost ops <= max_int ->
  c06_segments_monitor (client_side (w_state w0)) (w_op w0) (w_exts w0) (w_buflen w0)
    (steps_of ops (fst (run_wops ops w0))) (dest_log (w_dest (snd (run_wops ops w0)))) = true.
Proof. exact c06_segments_hold. Qed.
Print Assumptions C06_history_monitor_set_extensions.

(* the side conditions are exact on the model side: for EVERY history over the extended
   alphabet (SetExtensions anywhere) they hold of the model's observations if and only if
   every SetExtensions finds the model writer at rest. Hence, whenever the segmentation
   applies to what the model shows, the verdict is true (previous theorem). *)
Theorem C06_segments_apply_iff_at_rest : forall ops w0,
  writer_inv w0 -> fresh_writer w0 -> w_op w0 < 16 -> Forall wf_key (w_masks w0) ->
  (w_exts w0 = [] \/ exists c, w_exts w0 = [c]) ->
  Forall seg_op ops -> 28 + 4 * ops_cost ops <= max_int ->
  (c06_segments_apply (w_exts w0) (steps_of ops (fst (run_wops ops w0))) = true <-> set_ext_at_rest ops w0).
Proof. exact c06_segments_apply_iff. Qed.
Print Assumptions C06_segments_apply_iff_at_rest.

(* NewWriterSize(4), server side, text, MessageState(compressed) attached. Four segments:
   (1) Write 3 + Write 3 + Flush: fragments 41 04 / 00 02 / ... with RSV1 on the first frame
   only; (2) SetExtensions() - the EMPTY list: the next message carries no reserved bit;
   DisableFlush; (3) SetExtensions(uncompressed state): Write 6 grows the buffer, one frame
   81 06; Write 2 left unflushed; (4) ResetOp(binary) drops the 2 bytes: one frame 82 01.
   The hypotheses of the theorem hold, the monitor is true; judged against the log of the
   history in which SetExtensions() does NOT clear the list (seeded defect r6-C06b) it is false. *)
Example C06_set_extensions_nonvacuous :
  match new_writer_size (mkDest [] None) 1 1 4 [] with
  | inr w00 =>
    let w0 := set_extensions [true] w00 in
    let ops := [WWrite [10;11;12]; WWrite [13;14;15]; WFlush;
                WSetExt []; WWrite [1]; WFlush; WDisableFlush;
                WSetExt [false]; WWrite [1;2;3;4;5;6]; WFlush; WWrite [7;8];
                WResetOp 2; WWrite [9]; WFlush] in
    let bad := [WWrite [10;11;12]; WWrite [13;14;15]; WFlush;
                WSetExt [true]; WWrite [1]; WFlush; WDisableFlush;
                WSetExt [false]; WWrite [1;2;3;4;5;6]; WFlush; WWrite [7;8];
                WResetOp 2; WWrite [9]; WFlush] in
    let '(obs, w1) := run_wops ops w0 in
    let '(_, w2) := run_wops bad w0 in
    set_ext_at_rest ops w0 /\
    dest_log (w_dest w1) = [[65;4;10;11;12;13]; [128;2;14;15]; [129;1;1]; [129;6;1;2;3;4;5;6]; [130;1;9]] /\
    c06_segments_monitor false 1 [true] (w_buflen w0) (steps_of ops obs) (dest_log (w_dest w1)) = true /\
    dest_log (w_dest w2) = [[65;4;10;11;12;13]; [128;2;14;15]; [193;1;1]; [129;6;1;2;3;4;5;6]; [130;1;9]] /\
    c06_segments_monitor false 1 [true] (w_buflen w0) (steps_of ops obs) (dest_log (w_dest w2)) = false
  | inl _ => False
  end.
Proof. vm_compute. repeat split; reflexivity. Qed.

(* ... in particular from every constructor (NewWriterBuffer / NewWriterBufferSize /
   NewWriterSize) with the extensions exts = [] or [c] attached before the first operation *)
Theorem C06_history_monitor_set_extensions_constructors : forall ops state op n masks exts w00,
  (new_writer_buffer (mkDest [] None) state op n masks = inr w00 \/
   new_writer_buffer_size (mkDest [] None) state op n masks = inr w00 \/
   new_writer_size (mkDest [] None) state op n masks = inr w00) ->
  n + 14 <= max_int -> op < 16 -> Forall wf_key masks -> (exts = [] \/ exists c, exts = [c]) ->
  Forall seg_op ops -> 28 + 4 * ops_cost ops <= max_int ->
  let w := set_extensions exts w00 in
  set_ext_at_rest ops w ->
  c06_segments_monitor (client_side state) op exts (w_buflen w)
    (steps_of ops (fst (run_wops ops w))) (dest_log (w_dest (snd (run_wops ops w)))) = true.
Proof. exact constructors_c06_segments. Qed.
Print Assumptions C06_history_monitor_set_extensions_constructors.
(* Tie C4 (source level): the leaf accessors of wsutil.Writer translated from the Go SOURCE on this run by
   translator v3 extended to structs that hold slices (gen/Translated3.v; the record carries the slice fields
   raw and buf as (array, offset, len, cap) values).  For every record whose len(buf) and n are the model's
   (writer_counts), in every world: Size, Available, Buffered return the model's w_buflen, w_available, w_n; the
   receiver and the world are unchanged; no panic (the subtraction cannot wrap).  The methods that move bytes
   (flushFragment, Flush, FlushFragment, Write) are NOT translated: they need interface method calls, calls across
   packages and a local struct passed as io.Writer. *)
Require GoSlices GoMem Translated3 Translated4Writer.
Theorem C06_source_accessors : forall c m w, Translated4Writer.writer_counts c m ->
  Translated3.g3_wsutil_Writer_Size c w = GoSlices.Ok ((Z.of_N (w_buflen m), c), w)
  /\ Translated3.g3_wsutil_Writer_Available c w = GoSlices.Ok ((Z.of_N (w_available m), c), w)
  /\ Translated3.g3_wsutil_Writer_Buffered c w = GoSlices.Ok ((Z.of_N (w_n m), c), w).
Proof. exact Translated4Writer.g3_Writer_accessors_ok. Qed.
Print Assumptions C06_source_accessors.

Example C06_source_accessors_nonvacuous :
  let wr : GoMem.g_writer Translated3.g_error := fun _ bs => (GoSlices.go_len bs, None) in
  let c := Translated3.g3_mk_wsutil_Writer wr false (GoMem.mk_slice 0 0 16 16) (GoMem.mk_slice 0 6 10 10) 3%Z true 0%Z None in
  let w := GoMem.mk_world [repeat 0%Z 16] [] in
  Translated3.g3_wsutil_Writer_Available c w = GoSlices.Ok ((7%Z, c), w)
  /\ Translated3.g3_wsutil_Writer_Size c w = GoSlices.Ok ((10%Z, c), w).
Proof. vm_compute. split; reflexivity. Qed.
