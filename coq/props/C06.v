(* C06 — Fragmenting writer emits one well-formed message per flush and loses no byte.
   Only statements; each closed by [exact]. *)
Require Import Bytes Stream Check Frame Cipher Extracted Writer BytesProofs StreamProofs FrameProofs WriterProofs.
Open Scope N_scope.

(* header-space reservation: whatever fits behind the reserved bytes has a header
   that fits them, across the 125/126 and 65535/65536 thresholds, masked or not *)
Theorem C06_reserved_space_suffices : forall state rawlen n,
  n <= rawlen - reserve state rawlen -> w_header_size state n <= reserve state rawlen.
Proof. exact reserve_fits. Qed.
Print Assumptions C06_reserved_space_suffices.

(* a final flush with nothing written emits nothing and changes nothing *)
Theorem C06_flush_nothing : forall w, w_dirty w = false -> w_buf w = [] -> flush w = (inr (w_err w), w).
Proof. exact flush_nothing. Qed.
Print Assumptions C06_flush_nothing.

Example C06_nonvacuous :
  match new_writer_size (mkDest [] None) 2 1 4 [[1;2;3;4]; [5;6;7;8]; [9;9;9;9]] with
  | inr w0 =>
    let ops := [WWrite [10;11;12]; WWrite [13;14;15]; WFlush; WFlush] in
    let '(obs, w1) := run_wops ops w0 in
    c06_monitor true 1 false (w_buflen w0) (map (fun p => mkStep (fst p) (snd p)) (combine ops obs))
                (dest_log (w_dest w1)) = true
    /\ length (dest_log (w_dest w1)) = 2%nat
  | inl _ => False
  end.
Proof. vm_compute. split; reflexivity. Qed.
