(* C07 — Text messages are accepted iff their whole payload is valid UTF-8.
   Only statements; each closed by [exact]. *)
Require Import Bytes Stream Utf8Spec Extracted ExtractedOk Utf8Dfa BytesProofs StreamProofs Utf8Proofs.
Open Scope N_scope.

(* the DFA over the table read from the source on THIS run decides exactly the
   standard definition (Unicode Table 3-7: no overlongs, no surrogates, nothing
   above U+10FFFF), for every byte string *)
Theorem C07_dfa_is_utf8 : forall l, wf_bytes l -> (u8_run 0 l =? 0) = valid_utf8 l.
Proof. exact dfa_correct. Qed.
Print Assumptions C07_dfa_is_utf8.

(* the reject state is reached exactly when no continuation can make the input valid *)
Theorem C07_reject_is_dead : forall l ext, wf_bytes l -> wf_bytes ext ->
  u8_run 0 l = 12 -> valid_utf8 (l ++ ext) = false.
Proof. exact dfa_reject_dead. Qed.
Print Assumptions C07_reject_is_dead.

Theorem C07_live_is_completable : forall l, wf_bytes l -> u8_run 0 l <> 12 ->
  exists ext, wf_bytes ext /\ valid_utf8 (l ++ ext) = true.
Proof. exact dfa_live_completable. Qed.
Print Assumptions C07_live_is_completable.

(* the standalone validating reader: for EVERY transport chunking and every
   sequence of caller buffer sizes, the stream is reported complete-and-valid
   exactly when the whole byte string is valid UTF-8 *)
Theorem C07_reader_any_chunking : forall fuel bufs all s,
  wf_src s -> wf_bytes (flat s) -> tl s = TEOF -> (length (flat s) < fuel)%nat ->
  u8_accepts (u8_drive fuel bufs all (mkU8 s 0 0) []) = valid_utf8 (flat s).
Proof. exact u8_reader_accepts_iff_valid. Qed.
Print Assumptions C07_reader_any_chunking.

(* the table lookup never leaves the table on any reachable state (no panic) *)
Theorem C07_table_index_in_range : forall l b, wf_bytes l -> b < 256 -> u8_index_ok (u8_run 0 l) b = true.
Proof. exact index_never_panics. Qed.
Print Assumptions C07_table_index_in_range.

Theorem C07_constants_from_source : (utf8_accept, utf8_reject) = (0, 12) /\ length utf8d = 364%nat.
Proof. exact (conj ok_utf8_states eq_refl). Qed.
Print Assumptions C07_constants_from_source.

Example C07_nonvacuous :
  valid_utf8 [240; 159; 152; 128] = true /\ valid_utf8 [237; 160; 128] = false /\
  valid_utf8 [192; 175] = false /\ valid_utf8 [244; 144; 128; 128] = false /\
  u8_run 0 [240; 159] = 36 /\
  u8_accepts (u8_drive 10 [1] [1] (mkU8 (bytewise [226; 130; 172] TEOF) 0 0) []) = true.
Proof. vm_compute. repeat split; reflexivity. Qed.
