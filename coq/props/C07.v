(* C07 — Text messages are accepted iff their whole payload is valid UTF-8.
   Only statements; each closed by [exact]. *)
Require Import Bytes Stream Utf8Spec Extracted ExtractedOk Utf8Dfa BytesProofs StreamProofs Utf8Proofs.
Open Scope N_scope.

(* the DFA over the table read from the source on THIS run decides exactly the
   standard definition (Unicode Table 3-7: no overlongs, no surrogates, nothing
   above U+10FFFF), for every byte string *)
Theorem C07_dfa_is_utf8 : forall l, wf_bytes l -> (u8_run 0 l =? 0) = valid_utf8 l.
Proof. exact dfa_correct. Qed.
Print Assumptions C07_dfa_is_utf8.

(* the reject state is reached exactly when no continuation can make the input valid *)
Theorem C07_reject_is_dead : forall l ext, wf_bytes l -> wf_bytes ext ->
  u8_run 0 l = 12 -> valid_utf8 (l ++ ext) = false.
Proof. exact dfa_reject_dead. Qed.
Print Assumptions C07_reject_is_dead.

Theorem C07_live_is_completable : forall l, wf_bytes l -> u8_run 0 l <> 12 ->
  exists ext, wf_bytes ext /\ valid_utf8 (l ++ ext) = true.
Proof. exact dfa_live_completable. Qed.
Print Assumptions C07_live_is_completable.

(* the standalone validating reader: for EVERY transport chunking and every
   sequence of caller buffer sizes, the stream is reported complete-and-valid
   exactly when the whole byte string is valid UTF-8 *)
Theorem C07_reader_any_chunking : forall fuel bufs all s,
  wf_src s -> wf_bytes (flat s) -> tl s = TEOF -> (length (flat s) < fuel)%nat ->
  u8_accepts (u8_drive fuel bufs all (mkU8 s 0 0) []) = valid_utf8 (flat s).
Proof. exact u8_reader_accepts_iff_valid. Qed.
Print Assumptions C07_reader_any_chunking.

(* the table lookup never leaves the table on any reachable state (no panic) *)
Theorem C07_table_index_in_range : forall l b, wf_bytes l -> b < 256 -> u8_index_ok (u8_run 0 l) b = true.
Proof. exact index_never_panics. Qed.
Print Assumptions C07_table_index_in_range.

Theorem C07_constants_from_source : (utf8_accept, utf8_reject) = (0, 12) /\ length utf8d = 364%nat.
Proof. exact (conj ok_utf8_states eq_refl). Qed.
Print Assumptions C07_constants_from_source.

Example C07_nonvacuous :
  valid_utf8 [240; 159; 152; 128] = true /\ valid_utf8 [237; 160; 128] = false /\
  valid_utf8 [192; 175] = false /\ valid_utf8 [244; 144; 128; 128] = false /\
  u8_run 0 [240; 159] = 36 /\
  u8_accepts (u8_drive 10 [1] [1] (mkU8 (bytewise [226; 130; 172] TEOF) 0 0) []) = true.
Proof. vm_compute. repeat split; reflexivity. Qed.

(* ------------------------------------------------------------------ the message level, spelled out *)
Require Import Check Frame Cipher Reader ReaderAux ReaderStream ReaderStreamC07.

(* ONE TEXT MESSAGE, FRAGMENTED ARBITRARILY.  [msg_frames 1 k0 p0 l] (coq/model/ReaderStream.v):
   a first frame with opcode 1 (text), masking key [k0], payload [p0], followed for every
   element of [l] by the control frames [fr_ctl] the peer sends in between and then a
   continuation frame (opcode 0) with key [fr_key] and payload [fr_data]; FIN on the last
   data frame only ([l = []]: a single final text frame).  [msg_payload p0 l] is the
   concatenation of all fragment payloads.  Side conditions: the frames are well-formed
   objects, masked as the reader's side wants ([mask_ok]), within the size limit, and the
   control frames in between are close/ping/pong, final, at most 125 bytes ([ctl_ok]) — so
   the stream breaks no framing rule.  The reader checks UTF-8 and has no extension; its
   side bits [state] and limit [max] are arbitrary.  [s] is ANY transport chunking of the
   wire bytes, [bufs] ANY caller buffer sizes.
   Then, for the NextFrame / read-to-EOF loop:
   - VALID (the concatenation is well-formed UTF-8 by the standard definition
     [valid_utf8], Unicode Table 3-7): clean io.EOF, nothing left over, and the events are
     exactly the interleaved control frames followed by THE message: opcode 1, payload the
     whole concatenation — wherever a fragment, read-buffer or chunk boundary cuts a code point;
   - INVALID: the loop ends with the invalid-UTF-8 error; no data message is ever
     reported (only interleaved control frames, an initial part of them); and the bytes
     handed out before the error are a prefix of the message — the reader never makes up
     or reorders bytes, it just stops;
   - so: "io.EOF and the message was delivered" holds EXACTLY when the concatenation is valid. *)
Theorem C07_text_message_iff_valid : forall state max k0 p0 l s bufs fuel,
  let c := mkCfg state true max false in
  let fs := msg_frames 1 k0 p0 l in
  let whole := msg_payload p0 l in
  wf_cfg c -> Forall wf_sframe fs ->
  Forall (fun f => mask_ok state f = true /\ too_large c f = false) fs ->
  Forall (fun x => Forall (fun f => ctl_ok f = true) (fr_ctl x)) l ->
  wf_src s -> tl s = TEOF -> flat s = wire fs ->
  (2 * length (wire fs) + 4 * length fs + 8 <= fuel)%nat ->
  let d := drive fuel bufs (new_reader s state false true max false CbReadAll) in
  (valid_utf8 whole = true ->
     dr_err d = RIo EEOF /\ dr_partial d = [] /\
     dr_events d = msg_ctl_events l ++ [mkEv 1 whole false false]) /\
  (valid_utf8 whole = false ->
     dr_err d = RInvalidUtf8 /\ data_events (dr_events d) = [] /\
     (exists n, dr_events d = firstn n (msg_ctl_events l)) /\
     exists tail, whole = dr_partial d ++ tail) /\
  ((dr_err d = RIo EEOF /\ In (mkEv 1 whole false false) (dr_events d)) <-> valid_utf8 whole = true).
Proof. exact text_message_iff_valid. Qed.
Print Assumptions C07_text_message_iff_valid.

(* a server, chunks of 3,1,7,2,... bytes, buffers 2,5,1. First message: "h€!" whose
   three-byte code point E2 82 AC is spread over all three fragments, a ping in between:
   delivered whole. Second: the byte FF in the second fragment: invalid-UTF-8 error, the
   ping still logged, no message, and "hij" — a prefix of the message — handed out. *)
Example C07_text_message_nonvacuous :
  let k1 := [17; 34; 51; 68] in let k2 := [255; 0; 128; 7] in
  let ping := mkSF true 0 9 (Some k2) [1; 2] in
  let l1 := [mkFrag [ping] (Some k2) [130]; mkFrag [] (Some k1) [172; 33]] in
  let fs1 := msg_frames 1 (Some k1) [104; 226] l1 in
  let s1 := mkSrc (chunk_by [3; 1; 7; 2] (wire fs1)) TEOF in
  let d1 := drive (2 * length (wire fs1) + 4 * length fs1 + 8) [2; 5; 1] (new_reader s1 1 false true 0 false CbReadAll) in
  let l2 := [mkFrag [ping] (Some k2) [106; 255; 107]; mkFrag [] (Some k1) [108]] in
  let fs2 := msg_frames 1 (Some k1) [104; 105] l2 in
  let s2 := mkSrc (chunk_by [3; 1; 7; 2] (wire fs2)) TEOF in
  let d2 := drive (2 * length (wire fs2) + 4 * length fs2 + 8) [2; 5; 1] (new_reader s2 1 false true 0 false CbReadAll) in
  (wf_cfg (mkCfg 1 true 0 false) /\ Forall wf_sframe fs1 /\
   Forall (fun f => mask_ok 1 f = true /\ too_large (mkCfg 1 true 0 false) f = false) fs1 /\
   Forall (fun x => Forall (fun f => ctl_ok f = true) (fr_ctl x)) l1 /\
   wf_src s1 /\ tl s1 = TEOF /\ flat s1 = wire fs1) /\
  fs1 = [mkSF false 0 1 (Some k1) [104; 226]; ping; mkSF false 0 0 (Some k2) [130]; mkSF true 0 0 (Some k1) [172; 33]] /\
  msg_payload [104; 226] l1 = [104; 226; 130; 172; 33] /\ valid_utf8 (msg_payload [104; 226] l1) = true /\
  d1 = mkDR [mkEv 9 [1; 2] true false; mkEv 1 [104; 226; 130; 172; 33] false false] [] (RIo EEOF) /\
  (Forall wf_sframe fs2 /\ Forall (fun f => mask_ok 1 f = true /\ too_large (mkCfg 1 true 0 false) f = false) fs2 /\
   wf_src s2 /\ flat s2 = wire fs2) /\
  msg_payload [104; 105] l2 = [104; 105; 106; 255; 107; 108] /\ valid_utf8 (msg_payload [104; 105] l2) = false /\
  d2 = mkDR [mkEv 9 [1; 2] true false] [104; 105; 106] RInvalidUtf8.
Proof.
  cbv zeta. split.
  - split; [reflexivity|]. split.
    { repeat constructor; try reflexivity; try (intro H; discriminate H). }
    split; [repeat constructor|]. split; [repeat constructor|].
    split; [vm_compute; repeat constructor; discriminate|]. split; vm_compute; reflexivity.
  - split; [reflexivity|]. split; [reflexivity|]. split; [reflexivity|]. split; [vm_compute; reflexivity|].
    split.
    { split; [repeat constructor; try reflexivity; try (intro H; discriminate H)|].
      split; [repeat constructor|]. split; [vm_compute; repeat constructor; discriminate|].
      vm_compute; reflexivity. }
    split; [reflexivity|]. split; [reflexivity|]. vm_compute. reflexivity.
Qed.

(* ---- tie C3: decode TRANSLATED from wsutil/utf8.go on this run (gen/Translated3.v): table lookups into
   the package array utf8d are CHECKED index expressions.  For every DFA state (multiples of 12 up to 96),
   every codep and every byte: no index-out-of-range panic, the new state is the model's u8_decode — so, by
   C07_dfa_is_table_3_7, the Unicode definition — and is again a DFA state (hence panic-free for ever);
   memory is not touched. *)
Require GoSlices GoMem Translated3 Translated3Ok.
Theorem C07_source_decode : forall st cp b w, In st Translated3Ok.u8_states -> (0 <= b < 256)%Z ->
  exists cp', Translated3.g3_wsutil_decode st cp b w
              = GoSlices.Ok ((cp', Z.of_N (u8_decode (Z.to_N st) (Z.to_N b))), w)
              /\ In (Z.of_N (u8_decode (Z.to_N st) (Z.to_N b))) Translated3Ok.u8_states.
Proof. exact Translated3Ok.g3_wsutil_decode_ok. Qed.
Print Assumptions C07_source_decode.

Example C07_source_decode_nonvacuous :
  Translated3.g3_wsutil_decode 0%Z 0%Z 226%Z (GoMem.mk_world [] []) = GoSlices.Ok ((2%Z, 36%Z), GoMem.mk_world [] [])
  /\ u8_decode 0 226 = 36.
Proof. vm_compute. split; reflexivity. Qed.

(* ---- a STREAM of messages, each judged by itself (the usage of observation kind RDE).
   The caller drives ONE Reader over the whole stream with [judge_stream] (coq/model/ReaderInvalid.v):
   NextFrame; Read with any buffer sizes until an error; io.EOF = the message is delivered (verdict
   VOk opcode bytes); ErrInvalidUTF8 = verdict VInvalid, then Discard, and on with NextFrame.
   [fs] is ANY frame sequence that is well-formed on the wire ([wire_ok c fs]: the frame-sequence
   spec of the same configuration WITHOUT the UTF-8 rule accepts it to its end — header rules in
   the fragmentation state, MaxFrameSize, the RSV1 rule, the stream ends at a message boundary);
   nothing is assumed about payload bytes.  Its messages [messages_of c fs] are that spec's
   events other than interleaved control frames: the data messages with their reassembled
   payloads, and control frames standing outside a message (the Reader hands those out like
   messages), in stream order.  Any configuration [c] with CheckUTF8 on (side/extension bits,
   MaxFrameSize, MessageState attached or not), any transport chunking [s], any caller buffers.
   Then the driver runs to a clean io.EOF and returns EXACTLY ONE verdict per message, in
   order, and the verdict of message k is [verdict_of c] of THAT message alone: VInvalid exactly
   when it is a text message (opcode 1) whose whole payload is not valid UTF-8 (Unicode Table
   3-7, [valid_utf8]) — however it is fragmented, chunked and read —, otherwise VOk with its
   opcode and its exact bytes.  In particular an invalid message never makes a later valid one
   fail, a valid one is never refused because of what came before, and binary messages and
   control frames are never judged. *)
Require Import ReaderInvalid ReaderInvalidProofs.

Theorem C07_stream_of_messages_each_judged : forall c fs s bufs fuel,
  wf_cfg c -> c_check_utf8 c = true -> Forall wf_sframe fs -> wire_ok c fs ->
  wf_src s -> tl s = TEOF -> flat s = wire fs -> (length (wire fs) + 1 <= fuel)%nat ->
  judge_stream fuel bufs (new_reader s (c_state c) false (c_check_utf8 c) (c_max c) (c_ext c) CbReadAll)
  = (map (verdict_of c) (messages_of c fs), RIo EEOF).
Proof. exact stream_of_messages_each_judged. Qed.
Print Assumptions C07_stream_of_messages_each_judged.

(* a server with extension, chunks of 3,1,7,2,..., buffers 2,5,1.  Six messages on one Reader:
   text "hi" | ping | "j" FF "k" | "l" (invalid: rejected inside the second fragment);
   text "h€" (valid); a ping standing alone; text "h" E2 82 in one frame (invalid: detected at its
   very end, frame drained); binary FF | FE (never judged); text "h€" again.
   Verdicts: invalid, ok, ok (the ping), invalid, ok, ok — and they are [verdict_of] of each message. *)
Example C07_stream_of_messages_nonvacuous :
  let k1 := [17; 34; 51; 68] in let k2 := [255; 0; 128; 7] in
  let ping := mkSF true 0 9 (Some k2) [1; 2] in
  let l := [mkFrag [ping] (Some k2) [106; 255; 107]; mkFrag [] (Some k1) [108]] in
  let m1 := ReaderStreamC13.msg_frames_rsv 4 1 (Some k1) [104; 105] l in
  let m2 := [mkSF true 0 1 (Some k2) [104; 226; 130; 172]] in
  let m1b := [mkSF true 0 1 (Some k1) [104; 226; 130]] in
  let m3 := [mkSF false 0 2 (Some k1) [255]; mkSF true 0 0 (Some k2) [254]] in
  let fs := m1 ++ m2 ++ [ping] ++ m1b ++ m3 ++ m2 in
  let c := mkCfg 5 true 0 true in
  let s := mkSrc (chunk_by [3; 1; 7; 2] (wire fs)) TEOF in
  (wf_cfg c /\ Forall wf_sframe fs /\ wire_ok c fs /\ wf_src s /\ flat s = wire fs) /\
  map (fun e => (ev_op e, ev_payload e)) (messages_of c fs) =
    [(1, [104; 105; 106; 255; 107; 108]); (1, [104; 226; 130; 172]); (9, [1; 2]); (1, [104; 226; 130]);
     (2, [255; 254]); (1, [104; 226; 130; 172])] /\
  judge_stream (length (wire fs) + 1) [2; 5; 1] (new_reader s 5 false true 0 true CbReadAll) =
    ([VInvalid; VOk 1 [104; 226; 130; 172]; VOk 9 [1; 2]; VInvalid; VOk 2 [255; 254]; VOk 1 [104; 226; 130; 172]], RIo EEOF) /\
  map (verdict_of c) (messages_of c fs) =
    [VInvalid; VOk 1 [104; 226; 130; 172]; VOk 9 [1; 2]; VInvalid; VOk 2 [255; 254]; VOk 1 [104; 226; 130; 172]].
Proof.
  cbv zeta. split.
  - split; [reflexivity|]. split.
    { repeat constructor; try reflexivity; try (intro H; discriminate H). }
    split; [vm_compute; reflexivity|]. split; [vm_compute; repeat constructor; discriminate|]. vm_compute; reflexivity.
  - split; [vm_compute; reflexivity|]. split; vm_compute; reflexivity.
Qed.

(* "independently of the messages before it", at the level of the spec: a piece [a] of the stream that
   is well-formed on the wire (so it ends at a message boundary) contributes exactly ITS messages,
   whatever follows, and what follows is well-formed / has the messages it would have standing alone.
   Hence, with the theorem above, the verdicts of a ++ b are the verdicts of a followed by those of b. *)
Theorem C07_messages_split : forall c a b, Forall wf_sframe a -> wire_ok c a ->
  messages_of c (a ++ b) = messages_of c a ++ messages_of c b /\ (wire_ok c (a ++ b) <-> wire_ok c b).
Proof. exact messages_of_app. Qed.
Print Assumptions C07_messages_split.

(* ... and ONE structured data message (extension attached; first frame with reserved bits rsv0, any
   fragmentation [l] with control frames in between, every frame fitting the side's mask rule and
   MaxFrameSize) is well-formed on the wire and is its own single message: opcode op, payload the
   concatenation of its fragments — so its verdict is VInvalid exactly when op = 1 and that
   concatenation is not valid UTF-8. *)
Theorem C07_messages_of_one_message : forall c rsv0 op k0 p0 l, c_ext c = true -> (op = 1 \/ op = 2) ->
  (rsv0 = 0 \/ st_extended (c_state c) = true) ->
  let fs := ReaderStreamC13.msg_frames_rsv rsv0 op k0 p0 l in
  Forall wf_sframe fs -> Forall (fun f => mask_ok (c_state c) f = true /\ too_large c f = false) fs ->
  Forall (fun x => Forall (fun f => ctl_ok f = true) (fr_ctl x)) l ->
  wire_ok c fs /\ messages_of c fs = [mkEv op (msg_payload p0 l) false (ReaderStreamC13.rsv1_bit rsv0)].
Proof. exact messages_of_message. Qed.
Print Assumptions C07_messages_of_one_message.
(* Tie C4 (source level): UTF8Reader.Read translated from the Go SOURCE on this run.  u.Source.Read is a
   stateful oracle; on this call it answers (d, n, e): d the bytes it stores at the front of p.  Under the
   io.Reader contract (bytes, at most len(p) of them, 0 <= n <= what it stored), for EVERY world, buffer,
   DFA state, codep, accepted field and answer: no panic, no loop out of fuel; p holds d and nothing else
   changed; the reader has advanced; and what the method returns and leaves in its fields is the model step
   (Utf8Dfa.u8_scan over the n bytes read, as in u8_read): rejected -> (bytes accepted so far, ErrInvalidUTF8),
   state = reject, `accepted` field and codep untouched; otherwise (n, the reader's error), state and
   `accepted` field updated (codep is private).  The new state is again a DFA state. *)
Require Translated4Utf8.
Theorem C07_source_reader_step : forall w u p d n e,
  GoMem.sl_valid w p -> (GoMem.sl_len p <= Translated3Ok.max_int)%Z ->
  In (Translated3.g3_wsutil_UTF8Reader_state u) Translated3Ok.u8_states ->
  GoMem.rd_fun (Translated3.g3_wsutil_UTF8Reader_Source u)
    (GoMem.rd_hist (Translated3.g3_wsutil_UTF8Reader_Source u)) (GoMem.sl_len p) = (d, n, e) ->
  GoSlices.go_bytes d -> (GoSlices.go_len d <= GoMem.sl_len p)%Z -> (0 <= n <= GoSlices.go_len d)%Z ->
  let b := Translated3Ok.nb (firstn (Z.to_nat n) d) in
  let src' := GoMem.rd_next (Translated3.g3_wsutil_UTF8Reader_Source u) (GoMem.sl_len p) in
  let '(st', acc, rej) := u8_scan (Z.to_N (Translated3.g3_wsutil_UTF8Reader_state u)) 0 0 b in
  exists cp',
    Translated3.g3_wsutil_UTF8Reader_Read u p w =
    GoSlices.Ok (if rej
        then (Z.of_N acc, Some Translated3.E_wsutil_ErrInvalidUTF8,
              Translated3.g3_mk_wsutil_UTF8Reader src' (Translated3.g3_wsutil_UTF8Reader_accepted u) (Z.of_N st')
                (Translated3.g3_wsutil_UTF8Reader_codep u))
        else (n, e, Translated3.g3_mk_wsutil_UTF8Reader src' (Z.of_N acc) (Z.of_N st') cp'),
        GoMem.sl_blit w p 0%Z d)
    /\ In (Z.of_N st') Translated3Ok.u8_states.
Proof. exact Translated4Utf8.g3_UTF8Reader_Read_ok. Qed.
Print Assumptions C07_source_reader_step.

(* the reader stores E2 82 AC 41 C3 into a 6-byte window of an 8-byte array: 5 read, 4 accepted, the DFA is
   left inside a sequence (state 24), the guard bytes untouched; the next read delivers C0: rejected with
   0 accepted, state 12, `accepted` field still 4 *)
Example C07_source_reader_nonvacuous :
  let rd : GoMem.g_reader Translated3.g_error :=
    GoMem.mk_reader [] (fun h k => if (length h =? 0)%nat then ([226; 130; 172; 65; 195]%Z, 5%Z, None) else ([192]%Z, 1%Z, None)) in
  let u := Translated3.g3_mk_wsutil_UTF8Reader rd 0%Z 0%Z 0%Z in
  let w := GoMem.mk_world [[7; 7; 7; 7; 7; 7; 7; 7]%Z] [] in
  let p := GoMem.mk_slice 0 1 6 7 in
  match Translated3.g3_wsutil_UTF8Reader_Read u p w with
  | GoSlices.Ok ((n, e, u'), w') =>
      n = 5%Z /\ e = None /\ Translated3.g3_wsutil_UTF8Reader_accepted u' = 4%Z
      /\ Translated3.g3_wsutil_UTF8Reader_state u' = 24%Z
      /\ GoMem.w_heap w' = [[7; 226; 130; 172; 65; 195; 7; 7]%Z]
      /\ match Translated3.g3_wsutil_UTF8Reader_Read u' p w' with
         | GoSlices.Ok ((n2, e2, u2), _) =>
             n2 = 0%Z /\ e2 = Some Translated3.E_wsutil_ErrInvalidUTF8
             /\ Translated3.g3_wsutil_UTF8Reader_state u2 = 12%Z /\ Translated3.g3_wsutil_UTF8Reader_accepted u2 = 4%Z
         | _ => False
         end
  | _ => False
  end.
Proof. vm_compute. repeat split; reflexivity. Qed.

(* The same step with u.Source a reader that serves a chunked stream (Translated4Hdr.src_reader: one read1 of
   lib/Stream.v per call): UTF8Reader.Read IS the model's u8_read — count, error class (the stream's error /
   ErrInvalidUTF8), remaining stream, DFA state and `accepted` field; p holds the chunk read. *)
Require Translated4Hdr Translated4Utf8Src.
Theorem C07_source_reader_read : forall s0 h w p st a0 cp,
  GoMem.sl_valid w p -> (0 < GoMem.sl_len p <= Translated3Ok.max_int)%Z -> In st Translated3Ok.u8_states ->
  wf_src (Translated4Hdr.src_at s0 h) -> wf_bytes (flat (Translated4Hdr.src_at s0 h)) ->
  let u := Translated3.g3_mk_wsutil_UTF8Reader (Translated4Hdr.src_reader s0 h) (Z.of_N a0) st cp in
  let '((n, b, e), m') := u8_read (Z.to_N (GoMem.sl_len p)) (mkU8 (Translated4Hdr.src_at s0 h) (Z.to_N st) a0) in
  exists cp',
    Translated3.g3_wsutil_UTF8Reader_Read u p w =
    GoSlices.Ok ((Z.of_N n, option_map Translated4Utf8Src.u8err_go e,
         Translated3.g3_mk_wsutil_UTF8Reader (Translated4Hdr.src_reader s0 (h ++ [GoMem.sl_len p]))
           (Z.of_N (u_accepted m')) (Z.of_N (u_state m')) cp'),
        GoMem.sl_blit w p 0%Z (Translated3Ok.zb b))
    /\ Translated4Hdr.src_at s0 (h ++ [GoMem.sl_len p]) = u_src m'.
Proof. exact Translated4Utf8Src.g3_UTF8Reader_Read_src. Qed.
Print Assumptions C07_source_reader_read.
