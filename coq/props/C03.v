(* C03 — Header and close-payload validity checks decide exactly the RFC 6455 rules.
   Only statements; each closed by [exact]. *)
Require Import Bytes Utf8Spec Check CheckProofs Extracted ExtractedOk.
Open Scope N_scope.

(* accept <-> no owned rule is broken; for every header (any length in Z, any
   rsv, any mask) with a 4-bit opcode and every state value *)
Theorem C03_header_accept_iff : forall h s, h_op h < 16 ->
  (check_header h s = None <-> broken h s = []).
Proof. exact check_header_none. Qed.
Print Assumptions C03_header_accept_iff.

(* a reported error names a rule that is actually broken *)
Theorem C03_header_error_is_broken : forall h s r, h_op h < 16 ->
  check_header h s = Some r -> In r (broken h s).
Proof. intros h s r Hop H. apply in_broken. exact (check_header_sound h s r Hop H). Qed.
Print Assumptions C03_header_error_is_broken.

Theorem C03_close_accepts : forall c r,
  must_accept c = true -> valid_utf8 r = true -> check_close c r = None.
Proof. exact check_close_accept. Qed.
Print Assumptions C03_close_accepts.

Theorem C03_close_refuses_code : forall c r, must_refuse c = true -> check_close c r <> None.
Proof. exact check_close_refuse_code. Qed.
Print Assumptions C03_close_refuses_code.

Theorem C03_close_refuses_bad_reason : forall c r,
  valid_utf8 r = false -> check_close c r <> None.
Proof. exact check_close_refuse_utf8. Qed.
Print Assumptions C03_close_refuses_bad_reason.

Theorem C03_close_body_size : forall c r, len (new_close_body c r) = N.min (2 + len r) 125.
Proof. exact close_body_len. Qed.
Print Assumptions C03_close_body_size.

Theorem C03_close_body_roundtrip : forall c r, c < 65536 ->
  parse_close (new_close_body c r) = (c, firstn 123 r).
Proof. exact close_body_parse. Qed.
Print Assumptions C03_close_body_roundtrip.

Theorem C03_short_payload_no_code : forall p, (length p < 2)%nat -> parse_close p = (0, []).
Proof. exact parse_close_short. Qed.
Print Assumptions C03_short_payload_no_code.

(* tie A: the constants in /repo's current source are the ones the model uses *)
Theorem C03_constants_from_source :
  (op_continuation, op_text, op_binary, op_close, op_ping, op_pong) = (0, 1, 2, 8, 9, 10)
  /\ (state_server_side, state_client_side, state_extended, state_fragmented) = (1, 2, 4, 8)
  /\ max_control_frame_payload_size = 125
  /\ status_ranges = [0; 999; 1000; 2999; 3000; 3999; 4000; 4999].
Proof. exact (conj ok_opcodes (conj ok_state_bits (conj ok_control_limit ok_status_ranges))). Qed.
Print Assumptions C03_constants_from_source.

(* non-vacuity: a fragmented server state receiving an unmasked reserved-opcode
   frame breaks several rules, the check reports one of them *)
Example C03_nonvacuous :
  let h := mkHeader false 1 11 false [0;0;0;0] 200 in
  h_op h < 16 /\ check_header h 9 = Some ReservedOp /\ length (broken h 9) = 5%nat
  /\ must_accept 3000 = true /\ must_refuse 1005 = true /\ must_refuse 1012 = false.
Proof. vm_compute. repeat split; reflexivity. Qed.
