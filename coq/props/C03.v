(* C03 — Header and close-payload validity checks decide exactly the RFC 6455 rules.
   Only statements; each closed by [exact]. *)
Require Import Bytes Utf8Spec Check CheckProofs Extracted ExtractedOk.
Open Scope N_scope.

(* accept <-> no owned rule is broken; for every header (any length in Z, any
   rsv, any mask) with a 4-bit opcode and every state value *)
Theorem C03_header_accept_iff : forall h s, h_op h < 16 ->
  (check_header h s = None <-> broken h s = []).
Proof. exact check_header_none. Qed.
Print Assumptions C03_header_accept_iff.

(* a reported error names a rule that is actually broken *)
Theorem C03_header_error_is_broken : forall h s r, h_op h < 16 ->
  check_header h s = Some r -> In r (broken h s).
Proof. intros h s r Hop H. apply in_broken. exact (check_header_sound h s r Hop H). Qed.
Print Assumptions C03_header_error_is_broken.

Theorem C03_close_accepts : forall c r,
  must_accept c = true -> valid_utf8 r = true -> check_close c r = None.
Proof. exact check_close_accept. Qed.
Print Assumptions C03_close_accepts.

Theorem C03_close_refuses_code : forall c r, must_refuse c = true -> check_close c r <> None.
Proof. exact check_close_refuse_code. Qed.
Print Assumptions C03_close_refuses_code.

Theorem C03_close_refuses_bad_reason : forall c r,
  valid_utf8 r = false -> check_close c r <> None.
Proof. exact check_close_refuse_utf8. Qed.
Print Assumptions C03_close_refuses_bad_reason.

Theorem C03_close_body_size : forall c r, len (new_close_body c r) = N.min (2 + len r) 125.
Proof. exact close_body_len. Qed.
Print Assumptions C03_close_body_size.

Theorem C03_close_body_roundtrip : forall c r, c < 65536 ->
  parse_close (new_close_body c r) = (c, firstn 123 r).
Proof. exact close_body_parse. Qed.
Print Assumptions C03_close_body_roundtrip.

Theorem C03_short_payload_no_code : forall p, (length p < 2)%nat -> parse_close p = (0, []).
Proof. exact parse_close_short. Qed.
Print Assumptions C03_short_payload_no_code.

(* tie A: the constants in /repo's current source are the ones the model uses *)
Theorem C03_constants_from_source :
  (op_continuation, op_text, op_binary, op_close, op_ping, op_pong) = (0, 1, 2, 8, 9, 10)
  /\ (state_server_side, state_client_side, state_extended, state_fragmented) = (1, 2, 4, 8)
  /\ max_control_frame_payload_size = 125
  /\ status_ranges = [0; 999; 1000; 2999; 3000; 3999; 4000; 4999].
Proof. exact (conj ok_opcodes (conj ok_state_bits (conj ok_control_limit ok_status_ranges))). Qed.
Print Assumptions C03_constants_from_source.

(* non-vacuity: a fragmented server state receiving an unmasked reserved-opcode
   frame breaks several rules, the check reports one of them *)
Example C03_nonvacuous :
  let h := mkHeader false 1 11 false [0;0;0;0] 200 in
  h_op h < 16 /\ check_header h 9 = Some ReservedOp /\ length (broken h 9) = 5%nat
  /\ must_accept 3000 = true /\ must_refuse 1005 = true /\ must_refuse 1012 = false.
Proof. vm_compute. repeat split; reflexivity. Qed.

(* ---- tie C: the model functions above are what the Go SOURCE says now.
   gen/Translated.v is produced on every run by `harness translate` from check.go /
   frame.go as they are in the tree under test; these theorems hold for ALL arguments
   in the range of the Go types (no sampling).  [hdr_of] reads a model header as the
   Go struct (Rsv, OpCode as Z), [rule_err] / [close_err_err] name the Go error
   variable of each model verdict. *)
Require Import Translated TranslatedOk.

Theorem C03_source_check_header : forall h s,
  h_rsv h < 256 -> h_op h < 256 -> s < 256 -> (- 2 ^ 63 <= h_len h < 2 ^ 63)%Z ->
  g_CheckHeader (hdr_of h) (Z.of_N s) = option_map rule_err (check_header h s).
Proof. exact xl_CheckHeader. Qed.
Print Assumptions C03_source_check_header.

(* the reason enters only through utf8.ValidString, represented by valid_utf8
   (the statement holds for any predicate put in its place) *)
Theorem C03_source_check_close : forall c reason, c < 65536 ->
  g_CheckCloseFrameData valid_utf8 (Z.of_N c) reason = option_map close_err_err (check_close c reason).
Proof. exact xl_CheckCloseFrameData. Qed.
Print Assumptions C03_source_check_close.

Theorem C03_source_opcode_predicates : forall c, c < 256 ->
  g_OpCode_IsControl (Z.of_N c) = op_is_control c /\
  g_OpCode_IsData (Z.of_N c) = op_is_data c /\
  g_OpCode_IsReserved (Z.of_N c) = op_is_reserved c.
Proof.
  exact (fun c H => conj (xl_OpCode_IsControl c H) (conj (xl_OpCode_IsData c H) (xl_OpCode_IsReserved c H))).
Qed.
Print Assumptions C03_source_opcode_predicates.

Theorem C03_source_status_predicates : forall c, c < 65536 ->
  (forall lo hi, g_StatusCode_In (Z.of_N c) (g_mk_StatusCodeRange (Z.of_N lo) (Z.of_N hi)) = in_range lo hi c) /\
  g_StatusCode_Empty (Z.of_N c) = (c =? 0) /\
  g_StatusCode_IsNotUsed (Z.of_N c) = sc_not_used c /\
  g_StatusCode_IsProtocolSpec (Z.of_N c) = sc_protocol_spec c /\
  g_StatusCode_IsApplicationSpec (Z.of_N c) = sc_application_spec c /\
  g_StatusCode_IsPrivateSpec (Z.of_N c) = sc_private_spec c /\
  g_StatusCode_IsProtocolDefined (Z.of_N c) = sc_protocol_defined c /\
  g_StatusCode_IsProtocolReserved (Z.of_N c) = sc_protocol_reserved c.
Proof.
  exact (fun c H => conj (xl_StatusCode_In c) (conj (xl_StatusCode_Empty c H) (conj (xl_StatusCode_IsNotUsed c H)
    (conj (xl_StatusCode_IsProtocolSpec c H) (conj (xl_StatusCode_IsApplicationSpec c H)
    (conj (xl_StatusCode_IsPrivateSpec c H) (conj (xl_StatusCode_IsProtocolDefined c H)
    (xl_StatusCode_IsProtocolReserved c H)))))))).
Qed.
Print Assumptions C03_source_status_predicates.

Theorem C03_source_state_predicates : forall s, s < 256 ->
  g_State_ServerSide (Z.of_N s) = st_server s /\ g_State_ClientSide (Z.of_N s) = st_client s /\
  g_State_Extended (Z.of_N s) = st_extended s /\ g_State_Fragmented (Z.of_N s) = st_fragmented s /\
  (forall v, v < 256 ->
     g_State_Is (Z.of_N s) (Z.of_N v) = negb (N.land s v =? 0) /\
     g_State_Set (Z.of_N s) (Z.of_N v) = Z.of_N (N.lor s v) /\
     g_State_Clear (Z.of_N s) (Z.of_N v) = Z.of_N (N.ldiff s v)).
Proof.
  exact (fun s H => conj (xl_State_ServerSide s H) (conj (xl_State_ClientSide s H) (conj (xl_State_Extended s H)
    (conj (xl_State_Fragmented s H) (fun v Hv => conj (xl_State_Is s H v Hv) (conj (xl_State_Set s H v Hv)
    (xl_State_Clear s H v Hv))))))).
Qed.
Print Assumptions C03_source_state_predicates.

(* ---- tie C3: the close-body functions TRANSLATED from frame.go / read.go on this run (gen/Translated3.v,
   memory model lib/GoMem.v: slices alias a heap of byte arrays, strings are immutable values). *)
Require GoSlices GoMem GoMemProofs Translated3 Translated3Ok.

(* ParseCloseFrameData and ParseCloseFrameDataUnsafe: for every heap and every valid payload slice with
   content p: no panic, the result is (code, reason) of the model's parse_close, memory is not changed.
   (btsToString is read as string(b): the Unsafe variant's aliasing of the reason is NOT modelled.) *)
Theorem C03_source_close_body_parse : forall w s p,
  GoMem.sl_valid w s -> GoMem.sl_bytes w s = Translated3Ok.zb p ->
  Translated3.g3_ParseCloseFrameData s w = GoSlices.Ok (Translated3Ok.parse_close_z p, w).
Proof. exact Translated3Ok.g3_ParseCloseFrameData_ok. Qed.
Print Assumptions C03_source_close_body_parse.

Theorem C03_source_close_body_parse_unsafe : forall w s p,
  GoMem.sl_valid w s -> GoMem.sl_bytes w s = Translated3Ok.zb p ->
  Translated3.g3_ParseCloseFrameDataUnsafe s w = GoSlices.Ok (Translated3Ok.parse_close_z p, w).
Proof. exact Translated3Ok.g3_ParseCloseFrameDataUnsafe_ok. Qed.
Print Assumptions C03_source_close_body_parse_unsafe.

(* PutCloseFrameBody(p, code, reason) under its documented precondition len(p) >= 2+len(reason): no panic;
   afterwards p holds code (big endian) ++ reason ++ its old bytes from 2+len(reason) on; nothing else changes *)
Theorem C03_source_close_body_put : forall w s code reason,
  GoMem.sl_valid w s -> code < 65536 -> (2 + Z.of_nat (length reason) <= GoMem.sl_len s)%Z ->
  (GoMem.sl_len s <= Translated3Ok.max_int)%Z ->
  Translated3.g3_PutCloseFrameBody s (Z.of_N code) (Translated3Ok.zb reason) w =
  GoSlices.Ok (tt, GoMemProofs.sl_put w s
    (Translated3Ok.zb (be_bytes 2 code ++ reason) ++ skipn (2 + length reason) (GoMem.sl_bytes w s))).
Proof. exact Translated3Ok.g3_PutCloseFrameBody_ok. Qed.
Print Assumptions C03_source_close_body_put.

(* NewCloseFrameBody(code, reason): for every heap, code and reason string (2+len fits int): no panic; the
   result is a slice over a NEW array holding exactly the model's new_close_body; older memory untouched *)
Theorem C03_source_close_body_new : forall w code reason,
  code < 65536 -> (Z.of_nat (length reason) + 2 <= Translated3Ok.max_int)%Z ->
  Translated3.g3_NewCloseFrameBody (Z.of_N code) (Translated3Ok.zb reason) w =
  GoSlices.Ok (GoMem.mk_slice (length (GoMem.w_heap w)) 0 (Z.of_nat (length (new_close_body code reason)))
                              (Z.of_nat (length (new_close_body code reason))),
               GoMem.mk_world (GoMem.w_heap w ++ [Translated3Ok.zb (new_close_body code reason)]) (GoMem.w_out w)).
Proof. exact Translated3Ok.g3_NewCloseFrameBody_ok. Qed.
Print Assumptions C03_source_close_body_new.

Example C03_source_close_body_nonvacuous :
  let w := GoMem.mk_world [[9; 9; 9]%Z] [] in
  let reason := map N.of_nat (seq 60 130) in
  match Translated3.g3_NewCloseFrameBody 1002%Z (Translated3Ok.zb reason) w with
  | GoSlices.Ok (s, w') =>
      GoMem.sl_len s = 125%Z /\ GoMem.w_heap w' = [[9; 9; 9]%Z; Translated3Ok.zb (new_close_body 1002 reason)]
      /\ Translated3.g3_ParseCloseFrameData s w' = GoSlices.Ok ((1002%Z, Translated3Ok.zb (firstn 123 reason)), w')
  | _ => False
  end.
Proof. vm_compute. repeat split; reflexivity. Qed.
