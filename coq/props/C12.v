Require Import Bytes Flate.
