(* C12 — permessage-deflate payloads round-trip and interoperate with standard DEFLATE.
   Only statements; each closed by [exact].  The library logic (cbuf, Writer, suffixedReader,
   Reader, frame helpers; model/Flate.v, suffixedReader.ReadByte after fix F19) is proved for
   every write/flush pattern, every chunking and every compressor behaviour; the DEFLATE
   engine of the Go standard library is not modelled: its output is checked on every run
   against the RFC 1951 decoder of lib/Inflate.v and against zlib. *)
Require Import Bytes Check Inflate Flate CbufProofs FlateProofs InflateProofs FlateE2EProofs Extracted ExtractedOk.
Require GoSlices GoMem Translated3 Translated3Ok FlateCbufGen Translated4Cbuf.
Open Scope N_scope.

(* (1) cbuf: after any sequence of writes the destination holds everything but the last
   min(4, n) bytes; those are withheld (zero padded as in the code) *)
Theorem C12_cbuf_withholds : forall ws,
  let c := cbuf_writes (cbuf_reset (dst_new None)) ws in
  let s := concat ws in
  let m := Nat.min 4 (length s) in
  d_flat (cb_dst c) = butlastn m s /\ cb_n c = m
  /\ cb_buf c = lastn m s ++ repeat 0 (4 - m) /\ cb_err c = false.
Proof. exact cbuf_withholds. Qed.
Print Assumptions C12_cbuf_withholds.

(* ... whatever the split of the same bytes into Write calls *)
Theorem C12_cbuf_split_independent : forall ws1 ws2, concat ws1 = concat ws2 ->
  let c1 := cbuf_writes (cbuf_reset (dst_new None)) ws1 in
  let c2 := cbuf_writes (cbuf_reset (dst_new None)) ws2 in
  d_flat (cb_dst c1) = d_flat (cb_dst c2) /\ cb_buf c1 = cb_buf c2 /\ cb_n c1 = cb_n c2.
Proof. exact cbuf_split_independent. Qed.
Print Assumptions C12_cbuf_split_independent.

Theorem C12_cbuf_monitor_holds : forall ws,
  let c := cbuf_writes (cbuf_reset (dst_new None)) ws in
  c12_cbuf_monitor ws (d_flat (cb_dst c)) (cb_buf c) (cb_n c) = true.
Proof. exact cbuf_monitor_holds. Qed.
Print Assumptions C12_cbuf_monitor_holds.

(* (2) Writer, for every history of Write/Flush/Close and every behaviour of the
   compressor (what it emits during each call is universally quantified): if the history
   ends in a Flush/Close and no error has been reported, destination ++ 00 00 ff ff is
   exactly what the compressor produced *)
Theorem C12_writer_tail : forall ops,
  let w := fst (fw_run (fw_new (dst_new None)) ops) in
  fw_err w = WNone -> last_is_sync ops = true ->
  d_flat (cb_dst (fw_cbuf w)) ++ compression_tail = raw_output (fw_new (dst_new None)) ops.
Proof. exact writer_tail. Qed.
Print Assumptions C12_writer_tail.

(* a Flush/Close on a compressor that does not itself fail succeeds iff the compressor's
   output so far ends in 00 00 ff ff; otherwise the tail error is reported *)
Theorem C12_writer_tail_exact : forall ops o,
  let w0 := fst (fw_run (fw_new (dst_new None)) ops) in
  let R := raw_output (fw_new (dst_new None)) ops ++ concat (em_chunks (em_of o)) in
  fw_err w0 = WNone -> is_sync o = true -> em_err (em_of o) = false ->
  (snd (snd (fw_step w0 o)) = WNone <-> exists x, R = x ++ compression_tail) /\
  (snd (snd (fw_step w0 o)) <> WNone -> snd (snd (fw_step w0 o)) = WTail).
Proof. exact writer_tail_exact. Qed.
Print Assumptions C12_writer_tail_exact.

(* once an error has been reported every later operation reports it and does nothing *)
Theorem C12_writer_error_sticky : forall ops w, fw_err w <> WNone ->
  fw_run w ops = (w, map (fun _ => (O, fw_err w)) ops).
Proof. exact fw_run_sticky. Qed.
Print Assumptions C12_writer_error_sticky.

(* (3) suffixedReader, for every source that ends with EOF (plain or together with its last
   chunk), every chunking, every sequence of Read(k) / ReadByte requests: what is delivered
   is, piece by piece, source ++ 00 00 ff ff 01 00 00 ff ff; EOF is reported only when all
   of it has been delivered; no error *)
Theorem C12_suffixed_reader : forall s qs, s_end s <> EndFail ->
  c12_sr_monitor (src_rest s ++ compression_read_tail) false (sr_run (sr_new s) qs) = true.
Proof.
  exact (fun s qs H => sr_run_monitor qs (sr_new s) (proj1 (sr_new_ok s H)) (proj2 (sr_new_ok s H))).
Qed.
Print Assumptions C12_suffixed_reader.

(* ... and once all of it has been delivered every request reports EOF *)
Theorem C12_suffixed_reader_eof : forall st q,
  (forall s, sr_src st = Some s -> s_end s <> EndFail) -> (sr_src st <> None -> sr_pos st = O) ->
  sr_rest st = [] -> sr_step st q = (st, ([], REOF)).
Proof. exact sr_eof_at_end. Qed.
Print Assumptions C12_suffixed_reader_eof.

(* a consumer reading k >= 1 bytes at a time until EOF (io.Copy, ReadAll, a decompressor)
   sees exactly source ++ suffix, for every chunking of the source *)
Theorem C12_reader_sees_source_then_suffix : forall s k, s_end s <> EndFail -> (1 <= k)%nat ->
  sr_drain (length (src_rest s) + length (s_chunks s) + 12) (sr_new s) k [] =
  Some (src_rest s ++ compression_read_tail).
Proof. exact sr_drain_source. Qed.
Print Assumptions C12_reader_sees_source_then_suffix.

(* the error of a failing source is passed through, an EOF is not *)
Theorem C12_source_error_passed : forall pos k e,
  sr_read (mkSr (Some (mkSrc [] EndFail)) pos) k = (mkSr (Some (mkSrc [] EndFail)) pos, ([], RErr))
  /\ sr_readbyte (mkSr (Some (mkSrc [] EndFail)) pos) = (mkSr (Some (mkSrc [] EndFail)) pos, (None, RErr))
  /\ (e <> EndFail -> fst (snd (sr_read (mkSr (Some (mkSrc [] e)) pos) k)) = []
                      /\ snd (snd (sr_read (mkSr (Some (mkSrc [] e)) pos) k)) = RNil).
Proof. exact sr_error_passed. Qed.
Print Assumptions C12_source_error_passed.

(* (4) PARTIAL.  The RFC 1951 decoder inverts the stored-block encoder: for every message
   written in any pieces, the sync-flushed stream completed with 00 00 ff ff inflates to the
   message (no final block seen), and so does the stream followed by the reader's suffix
   00 00 ff ff 01 00 00 ff ff and arbitrary trailing bytes (final block seen; fuel bound
   proved, the result is never OutOfFuel).
   GAP: nothing is proved about fixed and dynamic Huffman blocks (no encoder for them in
   Coq, and the statement "x ++ tail ++ suffix decodes as x for every byte-aligned block
   sequence x" is only proved for stored blocks).  For those the decoder is validated on
   every run against zlib's and Go's compressors on all payload classes and levels. *)
Theorem C12_inflate_roundtrip_partial : forall ws junk,
  inflate_stream (stored_stream ws ++ 0 :: sync_tail) = Ok (concat ws, false)
  /\ inflate_stream (stored_stream ws ++ 0 :: sync_tail ++ 1 :: sync_tail ++ junk) = Ok (concat ws, true).
Proof. exact (fun ws junk => conj (inflate_stored_sync ws) (inflate_stored_read_tail ws junk)). Qed.
Print Assumptions C12_inflate_roundtrip_partial.

Theorem C12_inflate_stored_message : forall m junk,
  inflate (stored_sync m) = Some m /\ inflate (stored_message m ++ read_tail ++ junk) = Some m.
Proof. exact (fun m junk => conj (inflate_stored_message m) (inflate_stored_message_read m junk)). Qed.
Print Assumptions C12_inflate_stored_message.

(* (2)+(3)+(4): writer then reader is the identity, with the stored-block compressor as the
   engine of the Writer and the RFC 1951 decoder as the engine of the Reader: every message,
   every way of writing it in pieces, every chunking of the compressed bytes, every read size *)
Theorem C12_writer_reader_identity_stored : forall ws,
  let w := fst (fw_run (fw_new (dst_new None)) (stored_ops ws)) in
  let msg := d_flat (cb_dst (fw_cbuf w)) in
  fw_err w = WNone
  /\ snd (fw_run (fw_new (dst_new None)) (stored_ops ws)) = map (fun p => (length p, WNone)) ws ++ [(O, WNone)]
  /\ msg = stored_stream ws ++ [0]
  /\ inflate (msg ++ compression_tail) = Some (concat ws)
  /\ forall chunks e k, concat chunks = msg -> e <> EndFail -> (1 <= k)%nat ->
       exists stream,
         sr_drain (length msg + length chunks + 12) (sr_new (mkSrc chunks e)) k [] = Some stream
         /\ inflate stream = Some (concat ws).
Proof. exact stored_writer_reader. Qed.
Print Assumptions C12_writer_reader_identity_stored.

(* (5) frame helpers, for every engine pair given as functions *)
Theorem C12_helpers_refuse_nonfinal : forall ct dt f, h_fin (f_hdr f) = false ->
  compress_frame ct f = inr HFragmented /\ decompress_frame dt f = inr HFragmented.
Proof. exact (fun ct dt f H => conj (compress_frame_nonfinal ct f H) (decompress_frame_nonfinal dt f H)). Qed.
Print Assumptions C12_helpers_refuse_nonfinal.

(* a final text/binary frame without the bit: same header except the bit and the length *)
Theorem C12_helper_compress_header : forall ct f c,
  h_fin (f_hdr f) = true -> first_data_op (h_op (f_hdr f)) = true ->
  rsv1 (h_rsv (f_hdr f)) = false -> ct (f_payload f) = Some c ->
  exists h', compress_frame ct f = inl (mkFrame h' c)
    /\ h_fin h' = true /\ h_op h' = h_op (f_hdr f) /\ h_masked h' = h_masked (f_hdr f)
    /\ h_mask h' = h_mask (f_hdr f) /\ h_len h' = Z.of_N (len c)
    /\ rsv1 (h_rsv h') = true
    /\ N.testbit (h_rsv h') 1 = N.testbit (h_rsv (f_hdr f)) 1
    /\ N.testbit (h_rsv h') 0 = N.testbit (h_rsv (f_hdr f)) 0.
Proof. exact compress_frame_data. Qed.
Print Assumptions C12_helper_compress_header.

Theorem C12_helper_roundtrip : forall ct dt f c,
  h_fin (f_hdr f) = true -> first_data_op (h_op (f_hdr f)) = true ->
  h_rsv (f_hdr f) < 8 -> rsv1 (h_rsv (f_hdr f)) = false ->
  h_len (f_hdr f) = Z.of_N (len (f_payload f)) ->
  ct (f_payload f) = Some c -> dt c = Some (f_payload f) ->
  exists g, compress_frame ct f = inl g /\ decompress_frame dt g = inl f.
Proof. exact helper_roundtrip. Qed.
Print Assumptions C12_helper_roundtrip.

Theorem C12_helper_plain_unchanged : forall dt f, h_fin (f_hdr f) = true -> h_rsv (f_hdr f) < 8 ->
  rsv1 (h_rsv (f_hdr f)) = false -> decompress_frame dt f = inl f.
Proof. exact decompress_frame_plain. Qed.
Print Assumptions C12_helper_plain_unchanged.

Theorem C12_helper_bad_bit : forall dt f, h_fin (f_hdr f) = true ->
  first_data_op (h_op (f_hdr f)) = false -> rsv1 (h_rsv (f_hdr f)) = true ->
  decompress_frame dt f = inr HBit.
Proof. exact decompress_frame_badbit. Qed.
Print Assumptions C12_helper_bad_bit.

(* tie A: the two tails in /repo's current source are the ones the model and the decoder use *)
Theorem C12_constants_from_source :
  Extracted.compression_tail = Flate.compression_tail
  /\ Extracted.compression_read_tail = Flate.compression_read_tail
  /\ Flate.compression_tail = sync_tail /\ Flate.compression_read_tail = read_tail.
Proof.
  exact (conj (proj1 ok_compression_tails) (conj (proj2 ok_compression_tails) (conj eq_refl eq_refl))).
Qed.
Print Assumptions C12_constants_from_source.

(* non-vacuity: a fixed-Huffman stream with a back-reference (zlib's output for
   "hello hello hello hello", sync-flushed) inflates; cbuf on three writes; a compressor
   that emits no tail gets the tail error and the error sticks *)
Example C12_nonvacuous :
  inflate [202; 72; 205; 201; 201; 87; 200; 64; 39; 1; 0; 0; 0; 255; 255]
    = Some [104; 101; 108; 108; 111; 32; 104; 101; 108; 108; 111; 32; 104; 101; 108; 108; 111; 32; 104; 101; 108; 108; 111]
  /\ (let c := cbuf_writes (cbuf_reset (dst_new None)) [[1; 2; 3]; [4; 5; 6; 7; 8; 9]; [10]] in
      d_log (cb_dst c) = [[1; 2; 3]; [4; 5]; [6]] /\ cb_buf c = [7; 8; 9; 10] /\ cb_n c = 4%nat)
  /\ snd (fw_run (fw_new (dst_new None))
            [WWrite [1; 2] (mkEm [[1; 2]] 2 false); WFlush (mkEm [] 0 false); WWrite [3] (mkEm [] 0 false)])
     = [(2%nat, WNone); (0%nat, WTail); (0%nat, WTail)]
  /\ sr_run (sr_new (mkSrc [[7]] EndEOF)) [RqByte; RqByte; RqRead 3; RqRead 9; RqByte]
     = [([7], RNil); ([0], RNil); ([0; 255; 255], RNil); ([1; 0; 0; 255; 255], RNil); ([], REOF)].
Proof. vm_compute. repeat split; reflexivity. Qed.

(* ---------------------------------------------------------------------------------------------
   Tie C4 (source level): wsflate/cbuf.go translated from the Go SOURCE on every run (gen/Translated3.v by
   `harness translate3`, memory model lib/GoMem.v).  The object is a record threaded through its
   pointer-receiver methods; its [4]byte field is a slice HANDLE of a heap cell owned by the object, so
   c.buf[:x], copy(c.buf[:], c.buf[x:]) and copy(c.buf[c.n:], tail) act on that cell.  The destination
   io.Writer is an ORACLE (any function of the earlier writes and the bytes of this call), read as the
   destination machine  dw_of wr : log -> bytes -> log ++ [bytes], failed?  of the destination-generic
   form of the cbuf model (model/FlateCbufGen.v; C12_source_cbuf_model_instance: at (dst, dst_write) it IS
   cbuf_write of model/Flate.v, about which C12_cbuf_* above speak).
   cbuf_rep w c g: the handle is a valid 4-byte slice (len = cap = 4) whose cell holds gb_buf g, c.n = gb_n g
   <= 4, c.err != nil iff gb_err g, and the write log of the world is gb_dst g. *)
Theorem C12_source_cbuf_write : forall w c g p pb,
  Translated4Cbuf.cbuf_rep w c g -> GoMem.sl_valid w p ->
  GoMem.sl_arr p <> GoMem.sl_arr (Translated3.g3_wsflate_cbuf_buf c) ->
  (GoMem.sl_len p <= Translated3Ok.max_int)%Z -> GoMem.sl_bytes w p = Translated3Ok.zb pb ->
  let '(g', (n', e')) :=
    FlateCbufGen.gcbuf_write (Translated4Cbuf.dw_of (Translated3.g3_wsflate_cbuf_dst c)) g pb in
  exists err' c',
    Translated3.g3_wsflate_cbuf_Write c p w =
      GoSlices.Ok ((Z.of_nat n', err', c'),
          GoMem.mk_world
            (GoMem.w_heap (GoMemProofs.sl_put w (Translated3.g3_wsflate_cbuf_buf c)
                             (Translated3Ok.zb (FlateCbufGen.gb_buf g'))))
            (FlateCbufGen.gb_dst g'))
    /\ GoSlices.go_is_err err' = e' /\ err' = Translated3.g3_wsflate_cbuf_err c'
    /\ Translated3.g3_wsflate_cbuf_buf c' = Translated3.g3_wsflate_cbuf_buf c
    /\ Translated3.g3_wsflate_cbuf_dst c' = Translated3.g3_wsflate_cbuf_dst c
    /\ Translated4Cbuf.cbuf_rep
         (GoMem.mk_world
            (GoMem.w_heap (GoMemProofs.sl_put w (Translated3.g3_wsflate_cbuf_buf c)
                             (Translated3Ok.zb (FlateCbufGen.gb_buf g'))))
            (FlateCbufGen.gb_dst g')) c' g'
    /\ (FlateCbufGen.gb_err g = true -> c' = c /\ g' = g /\ n' = 0%nat).
Proof. exact Translated4Cbuf.g3_cbuf_Write_ok. Qed.
Print Assumptions C12_source_cbuf_write.

(* reset: the cell is zeroed, count and error cleared, the destination replaced, nothing else changes *)
Theorem C12_source_cbuf_reset : forall w c wr',
  let hb := Translated3.g3_wsflate_cbuf_buf c in
  GoMem.sl_valid w hb -> GoMem.sl_len hb = 4%Z -> GoMem.sl_cap hb = 4%Z ->
  forall g, FlateCbufGen.gb_dst g = GoMem.w_out w ->
  exists c', Translated3.g3_wsflate_cbuf_reset c wr' w =
      GoSlices.Ok (c', GoMemProofs.sl_put w hb
                         (Translated3Ok.zb (FlateCbufGen.gb_buf (FlateCbufGen.gcbuf_reset g (GoMem.w_out w)))))
    /\ Translated3.g3_wsflate_cbuf_buf c' = hb /\ Translated3.g3_wsflate_cbuf_dst c' = wr'
    /\ Translated4Cbuf.cbuf_rep
         (GoMemProofs.sl_put w hb (Translated3Ok.zb (FlateCbufGen.gb_buf (FlateCbufGen.gcbuf_reset g (GoMem.w_out w)))))
         c' (FlateCbufGen.gcbuf_reset g (GoMem.w_out w)).
Proof. exact Translated4Cbuf.g3_cbuf_reset_ok. Qed.
Print Assumptions C12_source_cbuf_reset.

(* the destination-generic model at the concrete destination of model/Flate.v is cbuf_write / cbuf_reset *)
Theorem C12_source_cbuf_model_instance : forall c p d,
  FlateCbufGen.gcbuf_write dst_write (FlateCbufGen.gc_of_cbuf c) p
    = (FlateCbufGen.gc_of_cbuf (fst (cbuf_write c p)), snd (cbuf_write c p))
  /\ FlateCbufGen.gcbuf_reset (FlateCbufGen.gc_of_cbuf c) d = FlateCbufGen.gc_of_cbuf (cbuf_reset d).
Proof. exact (fun c p d => conj (Translated4Cbuf.gcbuf_write_instance c p) (Translated4Cbuf.gcbuf_reset_instance c d)). Qed.
Print Assumptions C12_source_cbuf_model_instance.

(* the cell [1;2;3;0] (offset 1 of a 6-byte array) with 3 held bytes, a 6-byte write from a second array,
   a destination that accepts everything: exactly two destination writes ([1;2;3] then [10;11]), the cell
   becomes [12;13;14;15], the count 4, the guard bytes around the cell and the second array untouched *)
Example C12_source_nonvacuous :
  let wr : GoMem.g_writer Translated3.g_error := fun _ bs => (GoSlices.go_len bs, None) in
  let w := GoMem.mk_world [[9; 1; 2; 3; 0; 9]%Z; [10; 11; 12; 13; 14; 15]%Z] [] in
  Translated3.g3_wsflate_cbuf_Write
    (Translated3.g3_mk_wsflate_cbuf (GoMem.mk_slice 0 1 4 4) 3 wr None) (GoMem.mk_slice 1 0 6 6) w
  = GoSlices.Ok ((6%Z, None, Translated3.g3_mk_wsflate_cbuf (GoMem.mk_slice 0 1 4 4) 4 wr None),
        GoMem.mk_world [[9; 12; 13; 14; 15; 9]%Z; [10; 11; 12; 13; 14; 15]%Z] [[1; 2; 3]%Z; [10; 11]%Z]).
Proof. vm_compute. reflexivity. Qed.
