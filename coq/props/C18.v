(* C18 — Reset or pooled reuse makes writers, readers and negotiators behave as new.
   Only statements; each closed by [exact]. Negotiator: C14_reset_is_new;
   compression writer/reader: C12 (sticky error cleared by Reset is part of the
   Flate model's reset); message reader: C04_reader_meets_spec (the reader is in
   its initial state after every delivered message — the induction invariant). *)
Require Import Bytes Stream Check Frame Cipher Extracted Writer Utf8Dfa Reader
  BytesProofs StreamProofs FrameProofs WriterProofs.
Open Scope N_scope.

(* Reset makes the fragmenting writer LITERALLY the freshly constructed one over a
   buffer of its current size, whatever happened before (buffered data, growth,
   extensions, disabled flushing, other side, an earlier I/O error) ... *)
Theorem C18_writer_reset_is_fresh : forall d state op w,
  reset_writer d state op w = new_writer_buffer d state op (w_rawlen w) (w_masks w).
Proof. exact reset_is_fresh. Qed.
Print Assumptions C18_writer_reset_is_fresh.

(* ... hence every operation sequence after it yields the observations and the
   destination writes a fresh instance yields *)
Theorem C18_writer_after_reset : forall d state op w w' ops,
  reset_writer d state op w = inr w' ->
  exists f, new_writer_buffer d state op (w_rawlen w) (w_masks w) = inr f /\ run_wops ops w' = run_wops ops f.
Proof. exact reset_then_ops. Qed.
Print Assumptions C18_writer_after_reset.

(* the quick opcode reset drops unflushed fragments but keeps extensions and the flush mode *)
Theorem C18_reset_op : forall op w,
  let w' := reset_op op w in
  w_buf w' = [] /\ w_dirty w' = false /\ w_fseq w' = 0 /\ w_op w' = op /\
  w_exts w' = w_exts w /\ w_noflush w' = w_noflush w /\ w_rawlen w' = w_rawlen w /\ w_buflen w' = w_buflen w.
Proof. exact reset_op_spec. Qed.
Print Assumptions C18_reset_op.

(* message reader: reset() restores every per-message field to its initial value *)
Theorem C18_reader_reset : forall s st skip chk mx ext cb r,
  r = new_reader s st skip chk mx ext cb ->
  reset r = r.
Proof. intros; subst; reflexivity. Qed.
Print Assumptions C18_reader_reset.

Example C18_nonvacuous :
  match new_writer_size (mkDest [] (Some 0)) 2 1 5 [] with
  | inr w0 =>
    let '(_, w1) := run_wops [WWrite [1;2;3;4;5;6;7]; WFlush; WDisableFlush; WGrow 100] w0 in
    w_err w1 = Some WDest /\ w_noflush w1 = true /\
    match reset_writer (mkDest [] None) 1 2 w1 with
    | inr w2 => w_err w2 = None /\ w_noflush w2 = false /\ w_buflen w2 = w_rawlen w1 - 4
    | inl _ => False
    end
  | inl _ => False
  end.
Proof. vm_compute. repeat split; reflexivity. Qed.

(* ------------------------------------------------------------------------------------
   ResetOp and SetExtensions INSIDE histories (destination that never fails).
   Defined in proofs/WriterResetOpProofs.v:
     redest w d          = w with destination d, every other field unchanged
     flush_mode b w      = if b then disable_flush w else w
     shift_calls k o     = observation o with its call counter o_calls increased by k
     unshift_calls k o   = ... decreased by k
   [writer_inv], [max_int], [ops_cost] in proofs/WriterInv.v; [steps_of] in proofs/WriterFrameProofs.v;
   [c06_op] (Write/ReadFrom/WriteThrough/FlushFragment/Flush/Grow/DisableFlush with byte payloads)
   in proofs/WriterHistProofs.v. *)
Require Import CipherProofs CheckProofs WriterInv WriterFrameProofs WriterHistProofs WriterResetOpProofs.

(* state level, EVERY continuation h2 (any operations, Reset and SetExtensions included): from any
   writer without a sticky error (size invariant, destination that never fails), after ResetOp op'
   the writer behaves as the writer NewWriterBuffer builds over a buffer of the same length for the
   same side, opcode op' and the remaining mask oracle, given the same extensions and flush mode:
   same results and accessors (call counter shifted), same destination writes, same final state up
   to the destination. What was buffered before (an unfinished message) is never sent. The sticky
   error is NOT cleared by ResetOp, hence the hypothesis (see C18_reset_op_nonvacuous). *)
Theorem C18_reset_op_then_fresh_any_state : forall op' w1 h2,
  writer_inv w1 -> w_err w1 = None -> d_fail_at (w_dest w1) = None ->
  exists f0, new_writer_buffer (mkDest [] None) (w_state w1) op' (w_rawlen w1) (w_masks w1) = inr f0 /\
    let f := flush_mode (w_noflush w1) (set_extensions (w_exts w1) f0) in
    let r := run_wops h2 (reset_op op' w1) in let rf := run_wops h2 f in
    dest_log (w_dest (snd r)) = dest_log (w_dest w1) ++ dest_log (w_dest (snd rf)) /\
    fst r = map (shift_calls (dest_ncalls (w_dest w1))) (fst rf) /\
    snd r = redest (snd rf) (w_dest (snd r)).
Proof. exact reset_op_then_fresh. Qed.
Print Assumptions C18_reset_op_then_fresh_any_state.

(* history level: every history h1 ++ [ResetOp op'] ++ h2 from every constructor, extensions [] or
   [c], h1 over Write/ReadFrom/WriteThrough/FlushFragment/Flush/Grow/DisableFlush (h2 arbitrary):
   h1 runs to its end (w1 = the state it leaves, possibly with a grown buffer, flushing disabled,
   an unfinished message buffered or partly sent), and the observations and destination writes of the
   h2 segment are those of a fresh writer f over a buffer of length w_rawlen w1 running h2 *)
Theorem C18_reset_op_then_fresh : forall h1 h2 op' state op n masks exts comp w00,
  (new_writer_buffer (mkDest [] None) state op n masks = inr w00 \/
   new_writer_buffer_size (mkDest [] None) state op n masks = inr w00 \/
   new_writer_size (mkDest [] None) state op n masks = inr w00) ->
  n + 14 <= max_int -> op < 16 -> Forall wf_key masks ->
  ((exts = [] /\ comp = false) \/ exts = [comp]) ->
  Forall c06_op h1 -> 28 + 4 * ops_cost h1 <= max_int ->
  let w0 := set_extensions exts w00 in
  let w1 := snd (run_wops h1 w0) in
  exists f0, new_writer_buffer (mkDest [] None) (w_state w1) op' (w_rawlen w1) (w_masks w1) = inr f0 /\
    let f := flush_mode (w_noflush w1) (set_extensions (w_exts w1) f0) in
    let r := run_wops (h1 ++ WResetOp op' :: h2) w0 in
    let rf := run_wops h2 f in
    dest_log (w_dest (snd r)) = dest_log (w_dest w1) ++ dest_log (w_dest (snd rf)) /\
    firstn (length h1) (fst r) = fst (run_wops h1 w0) /\
    skipn (S (length h1)) (fst r) = map (shift_calls (dest_ncalls (w_dest w1))) (fst rf) /\
    snd r = redest (snd rf) (w_dest (snd r)).
Proof. exact reset_op_history. Qed.
Print Assumptions C18_reset_op_then_fresh.

(* consequently (C06): the h2 segment (h2 over the C06 operations) satisfies the history monitor
   c06_monitor with the NEW opcode op' — calls counted from the ResetOp, destination log = the
   calls made after it, buffer size = the size after h1 *)
Theorem C06_history_after_reset_op : forall h1 h2 op' state op n masks exts comp w00,
  (new_writer_buffer (mkDest [] None) state op n masks = inr w00 \/
   new_writer_buffer_size (mkDest [] None) state op n masks = inr w00 \/
   new_writer_size (mkDest [] None) state op n masks = inr w00) ->
  n + 14 <= max_int -> op < 16 -> op' < 16 -> Forall wf_key masks ->
  ((exts = [] /\ comp = false) \/ exts = [comp]) ->
  Forall c06_op h1 -> 28 + 4 * ops_cost h1 <= max_int ->
  Forall c06_op h2 -> 28 + 4 * ops_cost h2 <= max_int ->
  let w0 := set_extensions exts w00 in
  let w1 := snd (run_wops h1 w0) in
  let r := run_wops (h1 ++ WResetOp op' :: h2) w0 in
  let k := dest_ncalls (w_dest w1) in
  c06_monitor (client_side state) op' comp (w_buflen w1)
    (steps_of h2 (map (unshift_calls k) (skipn (S (length h1)) (fst r))))
    (drop k (dest_log (w_dest (snd r)))) = true.
Proof. exact history_after_reset_op. Qed.
Print Assumptions C06_history_after_reset_op.

(* SetExtensions xs at a message boundary (nothing buffered, not dirty, fragment counter 0) inside
   a history: the rest of the history is the run of a fresh writer with extensions xs ... *)
Theorem C18_set_ext_at_boundary_then_fresh : forall h1 h2 xs state op n masks exts comp w00,
  (new_writer_buffer (mkDest [] None) state op n masks = inr w00 \/
   new_writer_buffer_size (mkDest [] None) state op n masks = inr w00 \/
   new_writer_size (mkDest [] None) state op n masks = inr w00) ->
  n + 14 <= max_int -> op < 16 -> Forall wf_key masks ->
  ((exts = [] /\ comp = false) \/ exts = [comp]) ->
  Forall c06_op h1 -> 28 + 4 * ops_cost h1 <= max_int ->
  let w0 := set_extensions exts w00 in
  let w1 := snd (run_wops h1 w0) in
  w_buf w1 = [] -> w_dirty w1 = false -> w_fseq w1 = 0 ->
  exists f0, new_writer_buffer (mkDest [] None) (w_state w1) op (w_rawlen w1) (w_masks w1) = inr f0 /\
    let f := flush_mode (w_noflush w1) (set_extensions xs f0) in
    let r := run_wops (h1 ++ WSetExt xs :: h2) w0 in
    let rf := run_wops h2 f in
    dest_log (w_dest (snd r)) = dest_log (w_dest w1) ++ dest_log (w_dest (snd rf)) /\
    firstn (length h1) (fst r) = fst (run_wops h1 w0) /\
    skipn (S (length h1)) (fst r) = map (shift_calls (dest_ncalls (w_dest w1))) (fst rf) /\
    snd r = redest (snd rf) (w_dest (snd r)).
Proof. exact set_ext_history. Qed.
Print Assumptions C18_set_ext_at_boundary_then_fresh.

(* ... and satisfies the history monitor with the NEW compression flag comp' (xs = [] or [comp']);
   stated for SetExtensions right after a final Flush, where the boundary condition always holds *)
Theorem C06_history_after_flush_set_ext : forall h1 h2 xs comp' state op n masks exts comp w00,
  (new_writer_buffer (mkDest [] None) state op n masks = inr w00 \/
   new_writer_buffer_size (mkDest [] None) state op n masks = inr w00 \/
   new_writer_size (mkDest [] None) state op n masks = inr w00) ->
  n + 14 <= max_int -> op < 16 -> Forall wf_key masks ->
  ((exts = [] /\ comp = false) \/ exts = [comp]) -> ((xs = [] /\ comp' = false) \/ xs = [comp']) ->
  Forall c06_op h1 -> 28 + 4 * ops_cost h1 <= max_int ->
  Forall c06_op h2 -> 28 + 4 * ops_cost h2 <= max_int ->
  let w0 := set_extensions exts w00 in
  let w1 := snd (run_wops (h1 ++ [WFlush]) w0) in
  let r := run_wops ((h1 ++ [WFlush]) ++ WSetExt xs :: h2) w0 in
  let k := dest_ncalls (w_dest w1) in
  c06_monitor (client_side state) op comp' (w_buflen w1)
    (steps_of h2 (map (unshift_calls k) (skipn (S (length (h1 ++ [WFlush]))) (fst r))))
    (drop k (dest_log (w_dest (snd r)))) = true.
Proof. exact history_after_flush_set_ext. Qed.
Print Assumptions C06_history_after_flush_set_ext.

(* the same for SetExtensions at ANY point where the boundary condition holds *)
Theorem C06_history_after_set_ext : forall h1 h2 xs comp' state op n masks exts comp w00,
  (new_writer_buffer (mkDest [] None) state op n masks = inr w00 \/
   new_writer_buffer_size (mkDest [] None) state op n masks = inr w00 \/
   new_writer_size (mkDest [] None) state op n masks = inr w00) ->
  n + 14 <= max_int -> op < 16 -> Forall wf_key masks ->
  ((exts = [] /\ comp = false) \/ exts = [comp]) -> ((xs = [] /\ comp' = false) \/ xs = [comp']) ->
  Forall c06_op h1 -> 28 + 4 * ops_cost h1 <= max_int ->
  Forall c06_op h2 -> 28 + 4 * ops_cost h2 <= max_int ->
  let w0 := set_extensions exts w00 in
  let w1 := snd (run_wops h1 w0) in
  w_buf w1 = [] -> w_dirty w1 = false -> w_fseq w1 = 0 ->
  let r := run_wops (h1 ++ WSetExt xs :: h2) w0 in
  let k := dest_ncalls (w_dest w1) in
  c06_monitor (client_side state) op comp' (w_buflen w1)
    (steps_of h2 (map (unshift_calls k) (skipn (S (length h1)) (fst r))))
    (drop k (dest_log (w_dest (snd r)))) = true.
Proof. exact history_after_set_ext. Qed.
Print Assumptions C06_history_after_set_ext.

Example C18_reset_op_nonvacuous :
  let masks := [[1; 2; 3; 4]; [5; 6; 7; 8]; [9; 10; 11; 12]] in
  match new_writer_size (mkDest [] None) 2 1 5 masks with
  | inr w00 =>
    (* three bytes of a text message are buffered, ResetOp 2, then a binary message: ONE masked
       binary frame carrying [9; 8] is all the destination ever sees *)
    (let '(obs, wE) := run_wops ([WWrite [1; 2; 3]] ++ WResetOp 2 :: [WWrite [9; 8]; WFlush]) w00 in
     dest_log (w_dest wE) = [[130; 130; 1; 2; 3; 4; 8; 10]] /\ map o_buffered obs = [3; 0; 2; 0]) /\
    (* the sticky error survives ResetOp: two compression extensions make the first fragment fail
       with the extension error; after ResetOp (and even after removing the extensions) nothing is
       ever sent, while a fresh writer sends the message *)
    (let w0 := set_extensions [true; true] w00 in
     let '(obs, wE) := run_wops ([WWrite [1; 2; 3; 4; 5; 6; 7; 8; 9]] ++ WResetOp 2 :: [WSetExt []; WWrite [9; 8]; WFlush]) w0 in
     dest_log (w_dest wE) = [] /\ w_err wE = Some WExt /\
     match new_writer_buffer (mkDest [] None) 2 2 (w_rawlen w0) masks with
     | inr f0 =>
       let '(_, wf) := run_wops [WSetExt []; WWrite [9; 8]; WFlush] (set_extensions [true; true] f0) in
       dest_log (w_dest wf) = [[130; 130; 1; 2; 3; 4; 8; 10]] /\ w_err wf = None
     | inl _ => False
     end)
  | inl _ => False
  end.
Proof. vm_compute. repeat split; reflexivity. Qed.

(* ------------------------------------------------------------------------------------
   THE MESSAGE READER (wsutil.Reader): "a message reader that has delivered or discarded a
   complete message reads the next message exactly as a new reader would".
   Definitions: coq/model/ReaderStreamC13.v ([at_rest], [fresh_of], [new_reader_ms],
   [with_events_before], [flag_and_log], [reads_on_as_new], [msg_frames_rsv]); proofs:
   coq/proofs/ReaderFreshProofs.v.

   [at_rest r] = "reset r = r and no message is open": opcode, frame, raw.N, the UTF-8 reader
   (source, state, accepted count) have their initial values.  The record of such a Reader is
   LITERALLY the freshly constructed one except for: the cipher reader's key/position and
   "masked" flag left over from the last frame, and what OnIntermediate recorded so far; the
   wsflate.MessageState is an object of its own that the Reader only points to, so a Reader
   built anew ([fresh_of r] = [new_reader_ms] over r's source, State, options and
   MessageState) sees the same flag.

   State level, for EVERY Reader state and configuration (side, SkipHeaderCheck, CheckUTF8,
   MaxFrameSize, extension or not, either OnIntermediate), any source, valid stream or not:
   a Read that returns io.EOF, and a Discard that returns nil, leave the Reader at rest ... *)
Require Import Reader ReaderAux ReaderStream ReaderStreamC13 ReaderFreshProofs.

Theorem C18_reader_at_rest_after_eof : forall k r d r',
  reader_read k r = ((d, Some (RIo EEOF)), r') -> at_rest r'.
Proof. exact read_eof_at_rest. Qed.
Print Assumptions C18_reader_at_rest_after_eof.

Theorem C18_reader_at_rest_after_discard : forall fuel r r', discard fuel r = (None, r') -> at_rest r'.
Proof. exact discard_at_rest. Qed.
Print Assumptions C18_reader_at_rest_after_discard.

(* ... and a Reader at rest is observationally the new one: (1) the NextFrame / read-to-EOF loop
   with any buffers and fuel gives the same result (messages, interleaved control events with
   their flags, leftover bytes, final error), the events coming after what r had logged before;
   (2) EVERY sequence of NextFrame / Read / Discard calls returns the same headers, bytes and
   errors, and leaves the same MessageState flag and the same log (after r's earlier log);
   (3) the same call results also against [new_reader] with a FRESH MessageState — the
   leftover flag never influences a header, a byte or an error; it only shows in the flag
   recorded for a control frame received OUTSIDE a message (wsflate.MessageState.UnsetBits
   leaves the flag alone on control frames, in Go as in the model: see the Example) *)
Theorem C18_reader_at_rest_is_new : forall r, at_rest r ->
  (forall fuel bufs, drive fuel bufs r = with_events_before (r_log r) (drive fuel bufs (fresh_of r))) /\
  (forall ops, fst (run_script ops r) = fst (run_script ops (fresh_of r)) /\
     flag_and_log (snd (run_script ops r)) =
       (fst (flag_and_log (snd (run_script ops (fresh_of r)))),
        r_log r ++ snd (flag_and_log (snd (run_script ops (fresh_of r)))))) /\
  (forall ops, fst (run_script ops r) =
     fst (run_script ops (new_reader (r_src r) (r_state r) (r_skip r) (r_check_utf8 r) (r_max r) (r_ext r) (r_cb r)))).
Proof. exact at_rest_is_new. Qed.
Print Assumptions C18_reader_at_rest_is_new.

(* Stream level.  A stream [m1 ++ rest] that the frame-sequence spec accepts to its end, [m1] =
   ONE data message (text/binary, reserved bits rsv0 on its first frame, fragmented
   arbitrarily, control frames in between: [msg_frames_rsv]), [rest] = whatever frames follow;
   any transport chunking [s]; a Reader of ANY configuration [c] (side/extension bits, CheckUTF8,
   MaxFrameSize, MessageState attached or not; header checks on, recording OnIntermediate).
   (a) After NextFrame and reading the message to io.EOF with ANY caller buffers, and
   (b) after NextFrame, ANY number of Read calls with any buffer sizes [ks] (whether or not they
       reach the end of the message) and then Discard — which returns nil —
   the Reader [r2] satisfies [reads_on_as_new c rest flag r2] (coq/model/ReaderStreamC13.v):
   its source holds exactly the wire bytes of [rest]; it is at rest; the MessageState flag is
   flag = "extension attached and RSV1 on m1's first frame"; the constructor's Reader over that
   source is [new_reader_ms ... flag]; the read loop from r2 equals the read loop from that new
   Reader (for every fuel and buffers: events, leftover, error); and every NextFrame / Read /
   Discard sequence returns from r2 what it returns from [new_reader] over that source. *)
Theorem C18_reader_next_message_as_new : forall c rsv0 op k0 p0 l rest s,
  let m1 := msg_frames_rsv rsv0 op k0 p0 l in
  let flag := c_ext c && rsv1_bit rsv0 in
  wf_cfg c -> (op = 1 \/ op = 2) -> Forall wf_sframe (m1 ++ rest) ->
  Forall (fun x => Forall (fun f => ctl_ok f = true) (fr_ctl x)) l ->
  sr_out (spec_run c 0 None [] (m1 ++ rest)) = OClean ->
  wf_src s -> tl s = TEOF -> flat s = wire (m1 ++ rest) ->
  let r0 := new_reader s (c_state c) false (c_check_utf8 c) (c_max c) (c_ext c) CbReadAll in
  (forall bufs all fuel, (length (wire (m1 ++ rest)) <= fuel)%nat ->
     exists h r1 p r2, next_frame r0 = ((h, None), r1) /\
       read_to_eof fuel bufs all r1 [] = ((p, RIo EEOF), r2) /\ reads_on_as_new c rest flag r2) /\
  (forall ks, exists h outs r2,
     run_script (OpNext :: map OpRead ks ++ [OpDiscard]) r0 = (OutNext h None :: outs ++ [OutDiscard None], r2) /\
     length outs = length ks /\ reads_on_as_new c rest flag r2).
Proof. exact reader_next_message_as_new. Qed.
Print Assumptions C18_reader_next_message_as_new.

(* a server with extensions (state 5), UTF-8 checking on, chunks of 3,1,7,2,...; m1 = the
   compressed text "h€!" in three masked fragments with a ping before the second, m2 = a
   masked binary message, then a ping standing alone.
   (b) NextFrame, Read of ONE byte, Discard: Discard returns nil, the ping of m1 was logged,
       the Reader is at rest with the flag of m1 (true) and the source at m2; the loop from
       there delivers m2 intact (flag false) and the last ping, and is the loop of the new
       Reader over that source and MessageState; every call sequence (here: NextFrame, two
       Reads, NextFrame, Read) returns what it returns from new_reader.
   (a) the same after reading m1 to io.EOF.
   The one trace of the past: the ping AFTER m2 is logged with flag false by both; a ping
   directly after m1 (stream m1 ++ [ping]) is logged with the stale flag true, with flag false
   from a Reader with a fresh MessageState. *)
Example C18_reader_nonvacuous :
  let k1 := [17; 34; 51; 68] in let k2 := [255; 0; 128; 7] in
  let ping := mkSF true 0 9 (Some k2) [1; 2] in
  let l := [mkFrag [ping] (Some k2) [130]; mkFrag [] (Some k1) [172; 33]] in
  let m1 := msg_frames_rsv 4 1 (Some k1) [104; 226] l in
  let m2 := [mkSF true 0 2 (Some k2) [0; 255; 7]] in
  let rest := m2 ++ [ping] in
  let c := mkCfg 5 true 0 true in
  let s := mkSrc (chunk_by [3; 1; 7; 2] (wire (m1 ++ rest))) TEOF in
  let r0 := new_reader s 5 false true 0 true CbReadAll in
  let outs := fst (run_script [OpNext; OpRead 1; OpDiscard] r0) in
  let rb := snd (run_script [OpNext; OpRead 1; OpDiscard] r0) in
  let e1 := snd (fst (next_frame r0)) in
  let ra_res := read_to_eof 100 [2; 5; 1] [2; 5; 1] (snd (next_frame r0)) [] in
  let ra := snd ra_res in
  let script := [OpNext; OpRead 2; OpRead 9; OpNext; OpRead 4] in
  (wf_cfg c /\ Forall wf_sframe (m1 ++ rest) /\ sr_out (spec_run c 0 None [] (m1 ++ rest)) = OClean /\
   wf_src s /\ flat s = wire (m1 ++ rest)) /\
  (map (fun o => match o with OutNext _ e => e | OutRead _ e => e | OutDiscard e => e end) outs = [None; None; None] /\
   at_rest rb /\ flat (r_src rb) = wire rest /\ r_compressed rb = true /\ r_masked rb = true /\
   r_log rb = [mkEv 9 [1; 2] true true] /\
   drive 100 [4; 1] rb = mkDR [mkEv 9 [1; 2] true true; mkEv 2 [0; 255; 7] false false; mkEv 9 [1; 2] false false] [] (RIo EEOF) /\
   drive 100 [4; 1] rb = with_events_before (r_log rb) (drive 100 [4; 1] (new_reader_ms (r_src rb) 5 false true 0 true CbReadAll true)) /\
   fst (run_script script rb) = fst (run_script script (new_reader (r_src rb) 5 false true 0 true CbReadAll))) /\
  (e1 = None /\ fst ra_res = ([104; 226; 130; 172; 33], RIo EEOF) /\ at_rest ra /\ flat (r_src ra) = wire rest /\
   r_compressed ra = true /\
   drive 100 [4; 1] ra = with_events_before (r_log ra) (drive 100 [4; 1] (new_reader_ms (r_src ra) 5 false true 0 true CbReadAll true))) /\
  (let s' := mkSrc (chunk_by [3; 1; 7; 2] (wire (m1 ++ [ping]))) TEOF in
   let r2 := snd (run_script [OpNext; OpDiscard] (new_reader s' 5 false true 0 true CbReadAll)) in
   dr_events (drive 100 [4] r2) = [mkEv 9 [1; 2] true true; mkEv 9 [1; 2] false true] /\
   dr_events (drive 100 [4] (new_reader (r_src r2) 5 false true 0 true CbReadAll)) = [mkEv 9 [1; 2] false false]).
Proof.
  cbv zeta. split.
  - split; [reflexivity|]. split.
    { repeat constructor; try reflexivity; try (intro H; discriminate H). }
    split; [vm_compute; reflexivity|]. split; [vm_compute; repeat constructor; discriminate|]. vm_compute; reflexivity.
  - vm_compute. repeat split; reflexivity.
Qed.

(* ---- Discard after ErrInvalidUTF8 (the usage of observation kind RDE).  A Reader with
   CheckUTF8 on, of ANY other configuration [c] (side/extension bits, MaxFrameSize, MessageState
   attached or not; header checks on, recording OnIntermediate), over ANY transport chunking [s]
   of the wire bytes of [m1 ++ rest]: [m1] ONE data message (opcode 1 or 2 — only text can fail —,
   reserved bits rsv0 on its first frame, fragmented arbitrarily, control frames in between),
   [rest] the frames that follow.  Only the message m1 itself need be WELL-FORMED ON THE WIRE
   ([first_message_ok], coq/model/ReaderInvalid.v): the frame-sequence spec of the same
   configuration with the UTF-8 rule switched off either accepts the whole stream ([wire_ok]) or at
   least gets as far as emitting its first message — every frame up to and including the final
   frame of m1 passes ws.CheckHeader in the fragmentation state it arrives in, the MaxFrameSize
   limit and the RSV1 rule of the extension.  NOTHING is assumed about the payload bytes of m1, and
   NOTHING at all about [rest] beyond its frames being encodable: it may break any rule or end in
   the middle of a message (m1 itself cut short is C16's business).
   The caller calls NextFrame and then Read with ANY buffer sizes ks ++ [k]; the LAST of these
   Reads is the first to report ErrInvalidUTF8 — inside a fragment (rejected byte), at the end of a
   non-final fragment, or at the very end of the message when the frame is already drained
   (raw.N = 0), whichever way the model's Read produces it.
   Then Discard returns nil, and the Reader [r2] it leaves satisfies [reads_on_as_new c rest flag r2]
   exactly as in C18_reader_next_message_as_new: its source holds exactly the wire bytes of [rest]
   (Discard consumed the unread remainder of m1, control frames in between handed to the
   callback, and not one byte more); it is at rest; the MessageState flag is that of m1; the
   NextFrame / read-to-EOF loop from it, and EVERY sequence of NextFrame / Read / Discard calls,
   return what they return from a Reader built anew over that source. *)
Require Import ReaderInvalid ReaderInvalidProofs.

Theorem C18_reader_discard_after_invalid_as_new : forall c rsv0 op k0 p0 l rest s ks k o0 outs d r1,
  let m1 := msg_frames_rsv rsv0 op k0 p0 l in
  let flag := c_ext c && rsv1_bit rsv0 in
  wf_cfg c -> c_check_utf8 c = true -> (op = 1 \/ op = 2) -> Forall wf_sframe (m1 ++ rest) ->
  Forall (fun x => Forall (fun f => ctl_ok f = true) (fr_ctl x)) l ->
  first_message_ok c (m1 ++ rest) ->
  wf_src s -> tl s = TEOF -> flat s = wire (m1 ++ rest) ->
  let r0 := new_reader s (c_state c) false (c_check_utf8 c) (c_max c) (c_ext c) CbReadAll in
  run_script (OpNext :: map OpRead ks ++ [OpRead k]) r0 = (o0 :: outs ++ [OutRead d (Some RInvalidUtf8)], r1) ->
  Forall not_invalid outs ->
  exists r2, run_script [OpDiscard] r1 = ([OutDiscard None], r2) /\ reads_on_as_new c rest flag r2.
Proof. exact reader_discard_after_invalid_first_ok. Qed.
Print Assumptions C18_reader_discard_after_invalid_as_new.

(* a server with extensions (state 5), UTF-8 checking on, chunks of 3,1,7,2,...
   (A) m1 = the compressed text "hi" | ping | "j" FF "k" | "l" in three masked fragments (FF can
       never occur in UTF-8), then the valid text "h€" in one frame, then a ping.  NextFrame, Read 2
       ("hi"), Read 5 (the ping: 0 bytes), Read 2: "j" and ErrInvalidUTF8 INSIDE the non-final
       second fragment (raw.N = 1).  Discard: nil; the source stands at the next message; the next
       NextFrame / Read delivers "h€" with io.EOF — the past error has left no trace — and every
       script returns what it returns from a new Reader over that source.
   (B) m1 = the single unfragmented frame "h" E2 82 (a code point cut short): NextFrame, Read 9:
       "h" and ErrInvalidUTF8 at the very END of the message, the frame fully drained (raw.N = 0,
       frame still set, DFA state 24); Discard: nil, NOT ONE byte read from the source, the Reader at
       rest; the following valid text message is delivered.
   The spec WITH the UTF-8 rule calls both streams invalid; without it, clean.
   (C) m1 of (A) followed by a BROKEN rest: a continuation frame outside a message, then an unfinished
       message.  The spec without the UTF-8 rule stops at frame 4 (OProtocol 4) but has emitted m1: the
       stream is [first_message_ok], not [wire_ok].  Same Reads, ErrInvalidUTF8, Discard: nil, the source
       stands exactly at the broken rest, the Reader is at rest; the next NextFrame reports the protocol
       error, as it does from a new Reader. *)
Example C18_reader_discard_after_invalid_nonvacuous :
  let k1 := [17; 34; 51; 68] in let k2 := [255; 0; 128; 7] in
  let ping := mkSF true 0 9 (Some k2) [1; 2] in
  let l := [mkFrag [ping] (Some k2) [106; 255; 107]; mkFrag [] (Some k1) [108]] in
  let m1 := msg_frames_rsv 4 1 (Some k1) [104; 105] l in
  let m2 := [mkSF true 0 1 (Some k2) [104; 226; 130; 172]] in
  let rest := m2 ++ [ping] in
  let c := mkCfg 5 true 0 true in
  let s := mkSrc (chunk_by [3; 1; 7; 2] (wire (m1 ++ rest))) TEOF in
  let r0 := new_reader s 5 false true 0 true CbReadAll in
  let res := run_script [OpNext; OpRead 2; OpRead 5; OpRead 2] r0 in
  let r1 := snd res in
  let r2 := snd (run_script [OpDiscard] r1) in
  let script := [OpNext; OpRead 9; OpNext; OpRead 4] in
  let errs := map (fun o => match o with OutNext _ e => e | OutRead _ e => e | OutDiscard e => e end) in
  let m1b := msg_frames_rsv 0 1 (Some k1) [104; 226; 130] [] in
  let sb := mkSrc (chunk_by [3; 1; 7; 2] (wire (m1b ++ rest))) TEOF in
  let r0b := new_reader sb 5 false true 0 true CbReadAll in
  let resb := run_script [OpNext; OpRead 9] r0b in
  let r1b := snd resb in
  let r2b := snd (run_script [OpDiscard] r1b) in
  let bad := [mkSF true 0 0 (Some k2) [1]; mkSF false 0 1 (Some k2) [1]] in
  let sc := mkSrc (chunk_by [3; 1; 7; 2] (wire (m1 ++ bad))) TEOF in
  let r0c := new_reader sc 5 false true 0 true CbReadAll in
  let r1c := snd (run_script [OpNext; OpRead 2; OpRead 5; OpRead 2] r0c) in
  let r2c := snd (run_script [OpDiscard] r1c) in
  (wf_cfg c /\ Forall wf_sframe (m1 ++ rest) /\ wire_ok c (m1 ++ rest) /\
   sr_out (spec_run c 0 None [] (m1 ++ rest)) = OInvalidUtf8 /\ wf_src s /\ flat s = wire (m1 ++ rest)) /\
  (errs (fst res) = [None; None; None; Some RInvalidUtf8] /\
   (exists h, fst res = [OutNext h None; OutRead [104; 105] None; OutRead [] None; OutRead [106] (Some RInvalidUtf8)]) /\
   r_rawN r1 = 1 /\ r_u8state r1 = 12 /\
   fst (run_script [OpDiscard] r1) = [OutDiscard None] /\ at_rest r2 /\ flat (r_src r2) = wire rest /\
   r_log r2 = [mkEv 9 [1; 2] true true] /\
   (exists h1 h2, fst (run_script script r2) =
      [OutNext h1 None; OutRead [104; 226; 130; 172] (Some (RIo EEOF)); OutNext h2 None; OutRead [1; 2] (Some (RIo EEOF))]) /\
   fst (run_script script r2) = fst (run_script script (new_reader (r_src r2) 5 false true 0 true CbReadAll))) /\
  (Forall wf_sframe (m1b ++ rest) /\ wire_ok c (m1b ++ rest) /\
   sr_out (spec_run c 0 None [] (m1b ++ rest)) = OInvalidUtf8 /\ wf_src sb /\ flat sb = wire (m1b ++ rest) /\
   errs (fst resb) = [None; Some RInvalidUtf8] /\
   r_rawN r1b = 0 /\ r_frame r1b = true /\ r_u8state r1b = 24 /\ flat (r_src r1b) = wire rest /\
   fst (run_script [OpDiscard] r1b) = [OutDiscard None] /\ at_rest r2b /\ r_src r2b = r_src r1b /\
   (exists h1 h2, fst (run_script script r2b) =
      [OutNext h1 None; OutRead [104; 226; 130; 172] (Some (RIo EEOF)); OutNext h2 None; OutRead [1; 2] (Some (RIo EEOF))])) /\
  (Forall wf_sframe (m1 ++ bad) /\ first_message_ok c (m1 ++ bad) /\
   sr_out (spec_run (no_utf8 c) 0 None [] (m1 ++ bad)) = OProtocol 4 /\ wf_src sc /\ flat sc = wire (m1 ++ bad) /\
   errs (fst (run_script [OpNext; OpRead 2; OpRead 5; OpRead 2] r0c)) = [None; None; None; Some RInvalidUtf8] /\
   fst (run_script [OpDiscard] r1c) = [OutDiscard None] /\ at_rest r2c /\ flat (r_src r2c) = wire bad /\
   errs (fst (run_script [OpNext] r2c)) = [Some (RProtocol ContinuationUnexpected)] /\
   fst (run_script [OpNext] r2c) = fst (run_script [OpNext] (new_reader (r_src r2c) 5 false true 0 true CbReadAll))).
Proof.
  cbv zeta. split; [|split; [|split]].
  4: { split.
       { repeat constructor; try reflexivity; try (intro H; discriminate H). }
       split; [right; vm_compute; discriminate|]. split; [vm_compute; reflexivity|].
       split; [vm_compute; repeat constructor; discriminate|]. split; [vm_compute; reflexivity|].
       split; [vm_compute; reflexivity|]. split; [vm_compute; reflexivity|].
       split; [vm_compute; split; reflexivity|]. split; [vm_compute; reflexivity|].
       split; vm_compute; reflexivity. }
  - split; [reflexivity|]. split.
    { repeat constructor; try reflexivity; try (intro H; discriminate H). }
    split; [vm_compute; reflexivity|]. split; [vm_compute; reflexivity|].
    split; [vm_compute; repeat constructor; discriminate|]. vm_compute; reflexivity.
  - split; [vm_compute; reflexivity|]. split; [eexists; vm_compute; reflexivity|].
    split; [vm_compute; reflexivity|]. split; [vm_compute; reflexivity|]. split; [vm_compute; reflexivity|].
    split; [vm_compute; split; reflexivity|]. split; [vm_compute; reflexivity|]. split; [vm_compute; reflexivity|].
    split; [do 2 eexists; vm_compute; reflexivity|]. vm_compute; reflexivity.
  - split.
    { repeat constructor; try reflexivity; try (intro H; discriminate H). }
    split; [vm_compute; reflexivity|]. split; [vm_compute; reflexivity|].
    split; [vm_compute; repeat constructor; discriminate|]. split; [vm_compute; reflexivity|].
    split; [vm_compute; reflexivity|]. split; [vm_compute; reflexivity|]. split; [vm_compute; reflexivity|].
    split; [vm_compute; reflexivity|]. split; [vm_compute; reflexivity|]. split; [vm_compute; reflexivity|].
    split; [vm_compute; split; reflexivity|]. split; [vm_compute; reflexivity|].
    do 2 eexists; vm_compute; reflexivity.
Qed.

(* State level, the special case "ErrInvalidUTF8 reported at the very end of the message": Read then
   leaves the frame set, raw.N = 0 and State not fragmented (case (B) of the example above).  For EVERY
   Reader state of that kind — whatever its history, configuration, UTF8Reader state and source, valid
   stream or not — Discard (with any fuel >= 1) returns nil, is literally reset(), leaves the source
   untouched (not one byte read), and the Reader is at rest — hence, by C18_reader_at_rest_is_new, behaves
   as the Reader built anew over its source, configuration and MessageState. *)
Theorem C18_reader_discard_drained_is_reset : forall n r,
  r_rawN r = 0 -> st_fragmented (r_state r) = false ->
  discard (S n) r = (None, reset r) /\ r_src (reset r) = r_src r /\ at_rest (reset r).
Proof. exact discard_drained_is_reset. Qed.
Print Assumptions C18_reader_discard_drained_is_reset.
