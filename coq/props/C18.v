(* C18 — Reset or pooled reuse makes writers, readers and negotiators behave as new.
   Only statements; each closed by [exact]. Negotiator: C14_reset_is_new;
   compression writer/reader: C12 (sticky error cleared by Reset is part of the
   Flate model's reset); message reader: C04_reader_meets_spec (the reader is in
   its initial state after every delivered message — the induction invariant). *)
Require Import Bytes Stream Check Frame Cipher Extracted Writer Utf8Dfa Reader
  BytesProofs StreamProofs FrameProofs WriterProofs.
Open Scope N_scope.

(* Reset makes the fragmenting writer LITERALLY the freshly constructed one over a
   buffer of its current size, whatever happened before (buffered data, growth,
   extensions, disabled flushing, other side, an earlier I/O error) ... *)
Theorem C18_writer_reset_is_fresh : forall d state op w,
  reset_writer d state op w = new_writer_buffer d state op (w_rawlen w) (w_masks w).
Proof. exact reset_is_fresh. Qed.
Print Assumptions C18_writer_reset_is_fresh.

(* ... hence every operation sequence after it yields the observations and the
   destination writes a fresh instance yields *)
Theorem C18_writer_after_reset : forall d state op w w' ops,
  reset_writer d state op w = inr w' ->
  exists f, new_writer_buffer d state op (w_rawlen w) (w_masks w) = inr f /\ run_wops ops w' = run_wops ops f.
Proof. exact reset_then_ops. Qed.
Print Assumptions C18_writer_after_reset.

(* the quick opcode reset drops unflushed fragments but keeps extensions and the flush mode *)
Theorem C18_reset_op : forall op w,
  let w' := reset_op op w in
  w_buf w' = [] /\ w_dirty w' = false /\ w_fseq w' = 0 /\ w_op w' = op /\
  w_exts w' = w_exts w /\ w_noflush w' = w_noflush w /\ w_rawlen w' = w_rawlen w /\ w_buflen w' = w_buflen w.
Proof. exact reset_op_spec. Qed.
Print Assumptions C18_reset_op.

(* message reader: reset() restores every per-message field to its initial value *)
Theorem C18_reader_reset : forall s st skip chk mx ext cb r,
  r = new_reader s st skip chk mx ext cb ->
  reset r = r.
Proof. intros; subst; reflexivity. Qed.
Print Assumptions C18_reader_reset.

Example C18_nonvacuous :
  match new_writer_size (mkDest [] (Some 0)) 2 1 5 [] with
  | inr w0 =>
    let '(_, w1) := run_wops [WWrite [1;2;3;4;5;6;7]; WFlush; WDisableFlush; WGrow 100] w0 in
    w_err w1 = Some WDest /\ w_noflush w1 = true /\
    match reset_writer (mkDest [] None) 1 2 w1 with
    | inr w2 => w_err w2 = None /\ w_noflush w2 = false /\ w_buflen w2 = w_rawlen w1 - 4
    | inl _ => False
    end
  | inl _ => False
  end.
Proof. vm_compute. repeat split; reflexivity. Qed.

(* ------------------------------------------------------------------------------------
   ResetOp and SetExtensions INSIDE histories (destination that never fails).
   Defined in proofs/WriterResetOpProofs.v:
     redest w d          = w with destination d, every other field unchanged
     flush_mode b w      = if b then disable_flush w else w
     shift_calls k o     = observation o with its call counter o_calls increased by k
     unshift_calls k o   = ... decreased by k
   [writer_inv], [max_int], [ops_cost] in proofs/WriterInv.v; [steps_of] in proofs/WriterFrameProofs.v;
   [c06_op] (Write/ReadFrom/WriteThrough/FlushFragment/Flush/Grow/DisableFlush with byte payloads)
   in proofs/WriterHistProofs.v. *)
Require Import CipherProofs CheckProofs WriterInv WriterFrameProofs WriterHistProofs WriterResetOpProofs.

(* state level, EVERY continuation h2 (any operations, Reset and SetExtensions included): from any
   writer without a sticky error (size invariant, destination that never fails), after ResetOp op'
   the writer behaves as the writer NewWriterBuffer builds over a buffer of the same length for the
   same side, opcode op' and the remaining mask oracle, given the same extensions and flush mode:
   same results and accessors (call counter shifted), same destination writes, same final state up
   to the destination. What was buffered before (an unfinished message) is never sent. The sticky
   error is NOT cleared by ResetOp, hence the hypothesis (see C18_reset_op_nonvacuous). *)
Theorem C18_reset_op_then_fresh_any_state : forall op' w1 h2,
  writer_inv w1 -> w_err w1 = None -> d_fail_at (w_dest w1) = None ->
  exists f0, new_writer_buffer (mkDest [] None) (w_state w1) op' (w_rawlen w1) (w_masks w1) = inr f0 /\
    let f := flush_mode (w_noflush w1) (set_extensions (w_exts w1) f0) in
    let r := run_wops h2 (reset_op op' w1) in let rf := run_wops h2 f in
    dest_log (w_dest (snd r)) = dest_log (w_dest w1) ++ dest_log (w_dest (snd rf)) /\
    fst r = map (shift_calls (dest_ncalls (w_dest w1))) (fst rf) /\
    snd r = redest (snd rf) (w_dest (snd r)).
Proof. exact reset_op_then_fresh. Qed.
Print Assumptions C18_reset_op_then_fresh_any_state.

(* history level: every history h1 ++ [ResetOp op'] ++ h2 from every constructor, extensions [] or
   [c], h1 over Write/ReadFrom/WriteThrough/FlushFragment/Flush/Grow/DisableFlush (h2 arbitrary):
   h1 runs to its end (w1 = the state it leaves, possibly with a grown buffer, flushing disabled,
   an unfinished message buffered or partly sent), and the observations and destination writes of the
   h2 segment are those of a fresh writer f over a buffer of length w_rawlen w1 running h2 *)
Theorem C18_reset_op_then_fresh : forall h1 h2 op' state op n masks exts comp w00,
  (new_writer_buffer (mkDest [] None) state op n masks = inr w00 \/
   new_writer_buffer_size (mkDest [] None) state op n masks = inr w00 \/
   new_writer_size (mkDest [] None) state op n masks = inr w00) ->
  n + 14 <= max_int -> op < 16 -> Forall wf_key masks ->
  ((exts = [] /\ comp = false) \/ exts = [comp]) ->
  Forall c06_op h1 -> 28 + 4 * ops_cost h1 <= max_int ->
  let w0 := set_extensions exts w00 in
  let w1 := snd (run_wops h1 w0) in
  exists f0, new_writer_buffer (mkDest [] None) (w_state w1) op' (w_rawlen w1) (w_masks w1) = inr f0 /\
    let f := flush_mode (w_noflush w1) (set_extensions (w_exts w1) f0) in
    let r := run_wops (h1 ++ WResetOp op' :: h2) w0 in
    let rf := run_wops h2 f in
    dest_log (w_dest (snd r)) = dest_log (w_dest w1) ++ dest_log (w_dest (snd rf)) /\
    firstn (length h1) (fst r) = fst (run_wops h1 w0) /\
    skipn (S (length h1)) (fst r) = map (shift_calls (dest_ncalls (w_dest w1))) (fst rf) /\
    snd r = redest (snd rf) (w_dest (snd r)).
Proof. exact reset_op_history. Qed.
Print Assumptions C18_reset_op_then_fresh.

(* consequently (C06): the h2 segment (h2 over the C06 operations) satisfies the history monitor
   c06_monitor with the NEW opcode op' — calls counted from the ResetOp, destination log = the
   calls made after it, buffer size = the size after h1 *)
Theorem C06_history_after_reset_op : forall h1 h2 op' state op n masks exts comp w00,
  (new_writer_buffer (mkDest [] None) state op n masks = inr w00 \/
   new_writer_buffer_size (mkDest [] None) state op n masks = inr w00 \/
   new_writer_size (mkDest [] None) state op n masks = inr w00) ->
  n + 14 <= max_int -> op < 16 -> op' < 16 -> Forall wf_key masks ->
  ((exts = [] /\ comp = false) \/ exts = [comp]) ->
  Forall c06_op h1 -> 28 + 4 * ops_cost h1 <= max_int ->
  Forall c06_op h2 -> 28 + 4 * ops_cost h2 <= max_int ->
  let w0 := set_extensions exts w00 in
  let w1 := snd (run_wops h1 w0) in
  let r := run_wops (h1 ++ WResetOp op' :: h2) w0 in
  let k := dest_ncalls (w_dest w1) in
  c06_monitor (client_side state) op' comp (w_buflen w1)
    (steps_of h2 (map (unshift_calls k) (skipn (S (length h1)) (fst r))))
    (drop k (dest_log (w_dest (snd r)))) = true.
Proof. exact history_after_reset_op. Qed.
Print Assumptions C06_history_after_reset_op.

(* SetExtensions xs at a message boundary (nothing buffered, not dirty, fragment counter 0) inside
   a history: the rest of the history is the run of a fresh writer with extensions xs ... *)
Theorem C18_set_ext_at_boundary_then_fresh : forall h1 h2 xs state op n masks exts comp w00,
  (new_writer_buffer (mkDest [] None) state op n masks = inr w00 \/
   new_writer_buffer_size (mkDest [] None) state op n masks = inr w00 \/
   new_writer_size (mkDest [] None) state op n masks = inr w00) ->
  n + 14 <= max_int -> op < 16 -> Forall wf_key masks ->
  ((exts = [] /\ comp = false) \/ exts = [comp]) ->
  Forall c06_op h1 -> 28 + 4 * ops_cost h1 <= max_int ->
  let w0 := set_extensions exts w00 in
  let w1 := snd (run_wops h1 w0) in
  w_buf w1 = [] -> w_dirty w1 = false -> w_fseq w1 = 0 ->
  exists f0, new_writer_buffer (mkDest [] None) (w_state w1) op (w_rawlen w1) (w_masks w1) = inr f0 /\
    let f := flush_mode (w_noflush w1) (set_extensions xs f0) in
    let r := run_wops (h1 ++ WSetExt xs :: h2) w0 in
    let rf := run_wops h2 f in
    dest_log (w_dest (snd r)) = dest_log (w_dest w1) ++ dest_log (w_dest (snd rf)) /\
    firstn (length h1) (fst r) = fst (run_wops h1 w0) /\
    skipn (S (length h1)) (fst r) = map (shift_calls (dest_ncalls (w_dest w1))) (fst rf) /\
    snd r = redest (snd rf) (w_dest (snd r)).
Proof. exact set_ext_history. Qed.
Print Assumptions C18_set_ext_at_boundary_then_fresh.

(* ... and satisfies the history monitor with the NEW compression flag comp' (xs = [] or [comp']);
   stated for SetExtensions right after a final Flush, where the boundary condition always holds *)
Theorem C06_history_after_flush_set_ext : forall h1 h2 xs comp' state op n masks exts comp w00,
  (new_writer_buffer (mkDest [] None) state op n masks = inr w00 \/
   new_writer_buffer_size (mkDest [] None) state op n masks = inr w00 \/
   new_writer_size (mkDest [] None) state op n masks = inr w00) ->
  n + 14 <= max_int -> op < 16 -> Forall wf_key masks ->
  ((exts = [] /\ comp = false) \/ exts = [comp]) -> ((xs = [] /\ comp' = false) \/ xs = [comp']) ->
  Forall c06_op h1 -> 28 + 4 * ops_cost h1 <= max_int ->
  Forall c06_op h2 -> 28 + 4 * ops_cost h2 <= max_int ->
  let w0 := set_extensions exts w00 in
  let w1 := snd (run_wops (h1 ++ [WFlush]) w0) in
  let r := run_wops ((h1 ++ [WFlush]) ++ WSetExt xs :: h2) w0 in
  let k := dest_ncalls (w_dest w1) in
  c06_monitor (client_side state) op comp' (w_buflen w1)
    (steps_of h2 (map (unshift_calls k) (skipn (S (length (h1 ++ [WFlush]))) (fst r))))
    (drop k (dest_log (w_dest (snd r)))) = true.
Proof. exact history_after_flush_set_ext. Qed.
Print Assumptions C06_history_after_flush_set_ext.

(* the same for SetExtensions at ANY point where the boundary condition holds *)
Theorem C06_history_after_set_ext : forall h1 h2 xs comp' state op n masks exts comp w00,
  (new_writer_buffer (mkDest [] None) state op n masks = inr w00 \/
   new_writer_buffer_size (mkDest [] None) state op n masks = inr w00 \/
   new_writer_size (mkDest [] None) state op n masks = inr w00) ->
  n + 14 <= max_int -> op < 16 -> Forall wf_key masks ->
  ((exts = [] /\ comp = false) \/ exts = [comp]) -> ((xs = [] /\ comp' = false) \/ xs = [comp']) ->
  Forall c06_op h1 -> 28 + 4 * ops_cost h1 <= max_int ->
  Forall c06_op h2 -> 28 + 4 * ops_cost h2 <= max_int ->
  let w0 := set_extensions exts w00 in
  let w1 := snd (run_wops h1 w0) in
  w_buf w1 = [] -> w_dirty w1 = false -> w_fseq w1 = 0 ->
  let r := run_wops (h1 ++ WSetExt xs :: h2) w0 in
  let k := dest_ncalls (w_dest w1) in
  c06_monitor (client_side state) op comp' (w_buflen w1)
    (steps_of h2 (map (unshift_calls k) (skipn (S (length h1)) (fst r))))
    (drop k (dest_log (w_dest (snd r)))) = true.
Proof. exact history_after_set_ext. Qed.
Print Assumptions C06_history_after_set_ext.

Example C18_reset_op_nonvacuous :
  let masks := [[1; 2; 3; 4]; [5; 6; 7; 8]; [9; 10; 11; 12]] in
  match new_writer_size (mkDest [] None) 2 1 5 masks with
  | inr w00 =>
    (* three bytes of a text message are buffered, ResetOp 2, then a binary message: ONE masked
       binary frame carrying [9; 8] is all the destination ever sees *)
    (let '(obs, wE) := run_wops ([WWrite [1; 2; 3]] ++ WResetOp 2 :: [WWrite [9; 8]; WFlush]) w00 in
     dest_log (w_dest wE) = [[130; 130; 1; 2; 3; 4; 8; 10]] /\ map o_buffered obs = [3; 0; 2; 0]) /\
    (* the sticky error survives ResetOp: two compression extensions make the first fragment fail
       with the extension error; after ResetOp (and even after removing the extensions) nothing is
       ever sent, while a fresh writer sends the message *)
    (let w0 := set_extensions [true; true] w00 in
     let '(obs, wE) := run_wops ([WWrite [1; 2; 3; 4; 5; 6; 7; 8; 9]] ++ WResetOp 2 :: [WSetExt []; WWrite [9; 8]; WFlush]) w0 in
     dest_log (w_dest wE) = [] /\ w_err wE = Some WExt /\
     match new_writer_buffer (mkDest [] None) 2 2 (w_rawlen w0) masks with
     | inr f0 =>
       let '(_, wf) := run_wops [WSetExt []; WWrite [9; 8]; WFlush] (set_extensions [true; true] f0) in
       dest_log (w_dest wf) = [[130; 130; 1; 2; 3; 4; 8; 10]] /\ w_err wf = None
     | inl _ => False
     end)
  | inl _ => False
  end.
Proof. vm_compute. repeat split; reflexivity. Qed.
