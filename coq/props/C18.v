(* C18 — Reset or pooled reuse makes writers, readers and negotiators behave as new.
   Only statements; each closed by [exact]. Negotiator: C14_reset_is_new;
   compression writer/reader: C12 (sticky error cleared by Reset is part of the
   Flate model's reset); message reader: C04_reader_meets_spec (the reader is in
   its initial state after every delivered message — the induction invariant). *)
Require Import Bytes Stream Check Frame Cipher Extracted Writer Utf8Dfa Reader
  BytesProofs StreamProofs FrameProofs WriterProofs.
Open Scope N_scope.

(* Reset makes the fragmenting writer LITERALLY the freshly constructed one over a
   buffer of its current size, whatever happened before (buffered data, growth,
   extensions, disabled flushing, other side, an earlier I/O error) ... *)
Theorem C18_writer_reset_is_fresh : forall d state op w,
  reset_writer d state op w = new_writer_buffer d state op (w_rawlen w) (w_masks w).
Proof. exact reset_is_fresh. Qed.
Print Assumptions C18_writer_reset_is_fresh.

(* ... hence every operation sequence after it yields the observations and the
   destination writes a fresh instance yields *)
Theorem C18_writer_after_reset : forall d state op w w' ops,
  reset_writer d state op w = inr w' ->
  exists f, new_writer_buffer d state op (w_rawlen w) (w_masks w) = inr f /\ run_wops ops w' = run_wops ops f.
Proof. exact reset_then_ops. Qed.
Print Assumptions C18_writer_after_reset.

(* the quick opcode reset drops unflushed fragments but keeps extensions and the flush mode *)
Theorem C18_reset_op : forall op w,
  let w' := reset_op op w in
  w_buf w' = [] /\ w_dirty w' = false /\ w_fseq w' = 0 /\ w_op w' = op /\
  w_exts w' = w_exts w /\ w_noflush w' = w_noflush w /\ w_rawlen w' = w_rawlen w /\ w_buflen w' = w_buflen w.
Proof. exact reset_op_spec. Qed.
Print Assumptions C18_reset_op.

(* message reader: reset() restores every per-message field to its initial value *)
Theorem C18_reader_reset : forall s st skip chk mx ext cb r,
  r = new_reader s st skip chk mx ext cb ->
  reset r = r.
Proof. intros; subst; reflexivity. Qed.
Print Assumptions C18_reader_reset.

Example C18_nonvacuous :
  match new_writer_size (mkDest [] (Some 0)) 2 1 5 [] with
  | inr w0 =>
    let '(_, w1) := run_wops [WWrite [1;2;3;4;5;6;7]; WFlush; WDisableFlush; WGrow 100] w0 in
    w_err w1 = Some WDest /\ w_noflush w1 = true /\
    match reset_writer (mkDest [] None) 1 2 w1 with
    | inr w2 => w_err w2 = None /\ w_noflush w2 = false /\ w_buflen w2 = w_rawlen w1 - 4
    | inl _ => False
    end
  | inl _ => False
  end.
Proof. vm_compute. repeat split; reflexivity. Qed.
