(* C10 — Client handshake sends a compliant request and accepts only a valid 101.
   Only statements; each closed by [exact].  The response reaches Dialer.Upgrade as a
   bufio.Reader of any size B >= 1 over any chunking ([reader]); url.ParseRequestURI and
   URL.RequestURI() are net/url (their results [url_host], [uri] are inputs), the nonce is an
   input (math/rand).  [parse_response], [response_accepted], [response_extensions],
   [expected_request], [spec_split_host_port] are the SPEC in model/HsDialer.v. *)
Require Import Bytes HsBase64 HsSha1 HsBufio HsHttpHead HsHttp HsDialer HsUpgraderProofs HsDialerProofs.
From Coq Require String.
Import String.StringSyntax.
Local Open Scope string_scope.
Local Open Scope list_scope.
Open Scope N_scope.

(* success <=> the bytes parse as a response whose status line is HTTP/1.x (x >= 1) with status
   101, with Upgrade: websocket, Connection: upgrade, Sec-WebSocket-Accept = accept(nonce) (each
   present, every line good), every Sec-WebSocket-Protocol value among the requested ones, OnHeader
   not objecting, and every extension header well-formed and naming offered extensions *)
Theorem C10_success_iff : forall cfg url_host uri nonce B r, 1 <= B ->
  (d_err (dialer_upgrade cfg url_host uri nonce B r) = None <->
   exists p rest es,
     parse_response (flat r) = Some (p, rest)
     /\ response_accepted cfg nonce p = true
     /\ response_extensions cfg p = inl es).
Proof. exact dialer_success_iff. Qed.
Print Assumptions C10_success_iff.

(* on success: subprotocol and extensions are the server's; the request written is exactly the
   well-formed GET with Host, Upgrade, Connection, version 13, the key, the configured
   subprotocols / extensions / headers; the reader that remains (returned buffer, then the
   connection) yields exactly the bytes after the response head, for every chunking and B *)
Theorem C10_success_result : forall cfg url_host uri nonce B r p rest es, 1 <= B ->
  parse_response (flat r) = Some (p, rest) ->
  response_accepted cfg nonce p = true ->
  response_extensions cfg p = inl es ->
  let res := dialer_upgrade cfg url_host uri nonce B r in
  d_err res = None
  /\ d_hs res = mkHs (response_protocol p) es
  /\ d_request res = expected_request cfg url_host uri nonce
  /\ flat (d_reader res) = rest /\ r_tail (d_reader res) = r_tail r.
Proof. exact dialer_success_result. Qed.
Print Assumptions C10_success_result.

(* the status code is literally "101" whenever the status line is accepted as 101 *)
Theorem C10_status_literally_101 : forall line sl,
  http_parse_response_line ascii_to_int line = Some sl -> sl_status sl = 101%Z ->
  snd (fst (bsplit3 line 32)) = [49; 48; 49].
Proof. exact status_literally_101. Qed.
Print Assumptions C10_status_literally_101.

(* the model never runs out of fuel: every outcome is one of the Go code's *)
Theorem C10_model_total : forall cfg url_host uri nonce B r, 1 <= B ->
  d_err (dialer_upgrade cfg url_host uri nonce B r) <> Some DFuel.
Proof. exact dialer_no_fuel. Qed.
Print Assumptions C10_model_total.

(* address derivation: for an authority name[:port] or [v6][:port], hostname = host without the
   port (the TLS server name), address = host:port with the default port when the URL has none
   (or an empty one), bracketed IPv6 literals kept intact *)
Theorem C10_hostport : forall host dflt hn port,
  spec_split_host_port host = Some (hn, port) ->
  hostport host dflt = (hn, match port with Some (_ :: _) => host | _ => hn ++ dflt end).
Proof. exact hostport_spec. Qed.
Print Assumptions C10_hostport.

(* the parsers as they were before fixes F4a/F4b, transcribed with 64-bit wrap-around:
   "0:1", 2^64+101 and "0101" were status 101; the fixed parser refuses them *)
Theorem C10_old_status_parsers_refuted :
  option_map sl_status (http_parse_response_line_old ascii_to_int_wrap (bs "HTTP/1.1 0:1 x")) = Some 101%Z
  /\ option_map sl_status (http_parse_response_line_old ascii_to_int_wrap (bs "HTTP/1.1 18446744073709551717 x")) = Some 101%Z
  /\ option_map sl_status (http_parse_response_line_old ascii_to_int (bs "HTTP/1.1 0101 x")) = Some 101%Z
  /\ http_parse_response_line ascii_to_int (bs "HTTP/1.1 0101 x") = None
  /\ http_parse_response_line ascii_to_int (bs "HTTP/1.1 0:1 x") = None.
Proof. exact old_status_parsers_refuted. Qed.
Print Assumptions C10_old_status_parsers_refuted.

(* the subprotocol test before fix F9: after "a" had matched, a further line "zzz" passed *)
Theorem C10_old_subprotocol_test_refuted :
  let cfg := mkDcfg [bs "a"; bs "b"] [] [] [] (fun _ _ => false) in
  match dproto_step_old cfg init_dst (bs "a") with
  | inl s => match dproto_step_old cfg s (bs "zzz") with inl s' => hs_protocol (dsn_hs s') = bs "a" | inr _ => False end
  | inr _ => False
  end.
Proof. exact old_subprotocol_step_refuted. Qed.
Print Assumptions C10_old_subprotocol_test_refuted.

(* non-vacuity: the RFC 6455 sample response to the sample key, delivered in 1-byte reads
   through a 16-byte buffer, followed by a frame: success, subprotocol "chat", the frame is what
   the remaining reader holds; a second subprotocol line that was never requested is refused *)
Example C10_nonvacuous :
  let cfg := mkDcfg [bs "chat"; bs "superchat"] [] [] [] (fun _ _ => false) in
  let nonce := bs "dGhlIHNhbXBsZSBub25jZQ==" in
  let run extra := dialer_upgrade cfg (bs "server.example.com") (bs "/chat") nonce 16
                     (mkReader [] (map (fun b => [b]) (c10_sample_resp extra)) TEof) in
  d_err (run []) = None /\ d_hs (run []) = mkHs (bs "chat") []
  /\ flat (d_reader (run [])) = [129; 2; 104; 105]
  /\ (exists p rest, parse_response (c10_sample_resp []) = Some (p, rest) /\ response_accepted cfg nonce p = true)
  /\ d_err (run (bs "Sec-WebSocket-Protocol: zzz" ++ crlf)) = Some DBadSubProtocol
  /\ hostport (bs "[::1]:9000") (bs ":80") = (bs "[::1]", bs "[::1]:9000")
  /\ hostport (bs "example.com:") (bs ":443") = (bs "example.com", bs "example.com:443").
Proof.
  vm_compute. repeat split; try reflexivity.
  eexists. eexists. split; reflexivity.
Qed.

(* ---------- source level (tie C, second translator): the Gallina translation of the CURRENT Go
   text of httpParseResponseLine (gen/Translated2.v, `harness translate2`) returns, for EVERY
   []byte value (elements 0..255, length an int), normally (no bounds panic, fuel suffices) and
   exactly what the hand model http_parse_response_line returns (resp_proj reads the Go result
   pair as the model's option). *)
Require Import GoSlices Translated2 Translated2Ok.

Theorem C10_source_response_line : forall l : list Z, go_bytes l -> go_fits l ->
  exists r, g2_httpParseResponseLine l = Ok r
            /\ resp_proj r = http_parse_response_line ascii_to_int (nb l)
            /\ (snd r = None \/ snd r = Some E_ErrMalformedResponse).
Proof. exact src_response_line. Qed.
Print Assumptions C10_source_response_line.

Example C10_source_nonvacuous :
  g2_httpParseResponseLine (zb (HsHttp.bs "HTTP/1.1 101 Switching Protocols"))
  = Ok (g2_mk_httpResponseLine 1%Z 1%Z 101%Z (zb (HsHttp.bs "Switching Protocols")), None)
  /\ g2_httpParseResponseLine (zb (HsHttp.bs "HTTP/1.1 0101 Switching Protocols"))
     = Ok (g2_mk_httpResponseLine 1%Z 1%Z 0%Z (zb (HsHttp.bs "Switching Protocols")), Some E_ErrMalformedResponse).
Proof. vm_compute. split; reflexivity. Qed.
