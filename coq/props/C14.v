Require Import Bytes Negotiate.
