(* C14 — permessage-deflate negotiation answers every offer as RFC 7692 7.1 requires.
   Only statements; each closed by [exact].  The model (model/Negotiate.v) transcribes
   wsflate/parameters.go and wsflate/extension.go after the fixes F6, F7, F18. *)
Require Import Bytes Negotiate NegotiateSpec NegotiateProofs NegotiateAccept.
From Coq Require Import Permutation.
Open Scope N_scope.

(* For every configuration with window fields in {0, 8..15} and every list of offers
   (any length, any extension names, any parameter lists): the handshake answers each
   offer as a new negotiator would, up to and including the first offer a new negotiator
   accepts; every later offer gets the empty answer. *)
Theorem C14_first_acceptable : forall cfg offers, cfg_ok cfg = true ->
  snd (negotiate_all (new_ext cfg) offers) = first_acceptable cfg offers.
Proof. exact (fun cfg offers H => negotiate_all_first offers (new_ext cfg) eq_refl H). Qed.
Print Assumptions C14_first_acceptable.

(* the same, spelled out: [o] is the first offer a new negotiator accepts *)
Theorem C14_first_acceptable_explicit : forall cfg pre o post,
  (forall x, In x pre -> accepts cfg x = false) -> accepts cfg o = true ->
  first_acceptable cfg (pre ++ o :: post) =
  map (fresh cfg) pre ++ fresh cfg o :: map (fun _ => AEmpty) post.
Proof. exact first_acceptable_split. Qed.
Print Assumptions C14_first_acceptable_explicit.

Theorem C14_none_acceptable : forall cfg offers,
  (forall x, In x offers -> accepts cfg x = false) ->
  first_acceptable cfg offers = map (fresh cfg) offers.
Proof. exact first_acceptable_none. Qed.
Print Assumptions C14_none_acceptable.

(* at most one non-empty answer per handshake *)
Theorem C14_at_most_one : forall cfg offers, cfg_ok cfg = true ->
  (count_opts (snd (negotiate_all (new_ext cfg) offers)) <= 1)%nat.
Proof.
  exact (fun cfg offers H =>
    eq_ind_r (fun l => (count_opts l <= 1)%nat) (first_acceptable_count cfg offers)
      (negotiate_all_first offers (new_ext cfg) eq_refl H)).
Qed.
Print Assumptions C14_at_most_one.

(* the answer of a new negotiator: an option only for a well-formed permessage-deflate
   offer, and then it is the configuration's encoding and a legal answer (RFC 7692 7.1);
   an error exactly for permessage-deflate offers with unknown, duplicated or ill-valued
   parameters; nothing else *)
Theorem C14_answer_legal : forall cfg name ps, cfg_ok cfg = true ->
  (name <> ext_name /\ fresh cfg (name, ps) = AEmpty) \/
  (name = ext_name /\ wf_offer ps = false /\ exists e, fresh cfg (name, ps) = AErr e) \/
  (name = ext_name /\ wf_offer ps = true /\
     (fresh cfg (name, ps) = AEmpty \/
      exists a, fresh cfg (name, ps) = AOpt a /\ option_of cfg = Some a /\ legal_answer ps a = true)).
Proof. exact fresh_cases. Qed.
Print Assumptions C14_answer_legal.

(* the monitor evaluated on the Go observations holds of the model, for every offer ... *)
Theorem C14_single_monitor_holds : forall cfg name ps, cfg_ok cfg = true ->
  c14_single_monitor name ps (fresh cfg (name, ps)) = true.
Proof. exact single_monitor_holds. Qed.
Print Assumptions C14_single_monitor_holds.

(* ... and for every history of Negotiate and Reset calls on one negotiator *)
Theorem C14_history_monitor_holds : forall cfg ops, cfg_ok cfg = true ->
  c14_history_monitor false (history_steps cfg ops (snd (run_ops (new_ext cfg) ops))) = true.
Proof. exact (fun cfg ops H => history_monitor_holds cfg ops H (new_ext cfg) eq_refl). Qed.
Print Assumptions C14_history_monitor_holds.

(* once an offer is accepted every later offer gets the empty answer, state unchanged *)
Theorem C14_later_offers_empty : forall n name ps, e_accepted n = true ->
  negotiate n name ps = (n, AEmpty).
Proof. exact negotiate_accepted. Qed.
Print Assumptions C14_later_offers_empty.

(* Reset = new: after any history, Reset makes the rest be answered as by a new value *)
Theorem C14_reset_is_new : forall cfg h ops,
  snd (run_ops (new_ext cfg) (h ++ OReset :: ops)) =
  snd (run_ops (new_ext cfg) h) ++ snd (run_ops (new_ext cfg) ops).
Proof. exact run_ops_reset. Qed.
Print Assumptions C14_reset_is_new.

(* Parse: accepted iff the list has only the four names, none twice, each with a value it
   may have ("decimal without leading zeroes in 8..15", or none exactly where allowed) *)
Theorem C14_parse_accepts_iff_wellformed : forall l,
  snd (parse l) = None <-> wf_offer l = true.
Proof. exact parse_ok_iff. Qed.
Print Assumptions C14_parse_accepts_iff_wellformed.

Theorem C14_wellformed_reading : forall l,
  wf_offer l = true <-> Forall value_ok_P l /\ NoDup (keys l).
Proof. exact wf_offer_iff. Qed.
Print Assumptions C14_wellformed_reading.

Theorem C14_parse_meaning : forall l, wf_offer l = true -> fst (parse l) = meaning l.
Proof. exact parse_meaning. Qed.
Print Assumptions C14_parse_meaning.

(* Parse (Option p) = p, and Option (Parse l) = l up to the order of parameters *)
Theorem C14_parse_of_encode : forall p, offer_params_ok p = true ->
  exists l, option_of p = Some l /\ parse l = (p, None).
Proof. exact parse_option_of. Qed.
Print Assumptions C14_parse_of_encode.

Theorem C14_encode_of_parse : forall l, wf_offer l = true ->
  exists l', option_of (fst (parse l)) = Some l' /\ Permutation l' l.
Proof. exact option_of_parse. Qed.
Print Assumptions C14_encode_of_parse.

(* "acceptable", read off the MEANING of the offer's parameter list and the configuration alone: a new negotiator
   accepts a permessage-deflate offer exactly when the list is well-formed, a requested server window limit is not
   below the configured server window (and one is configured), the configured client window is not above what the
   client offered, and a requested server_no_context_takeover is configured; no other extension is ever accepted.
   Together with C14_first_acceptable this is "accepts exactly the first acceptable offer in the client's order". *)
Theorem C14_accepts_iff_acceptable : forall cfg ps, cfg_ok cfg = true ->
  accepts cfg (ext_name, ps) = acceptable cfg ps.
Proof. exact accepts_iff_acceptable. Qed.
Print Assumptions C14_accepts_iff_acceptable.

Theorem C14_other_extension_never_accepted : forall cfg name ps, name <> ext_name ->
  accepts cfg (name, ps) = false.
Proof. exact accepts_other. Qed.
Print Assumptions C14_other_extension_never_accepted.

(* non-vacuity: configuration {server_max_window_bits = 10, client_max_window_bits = 9};
   offers: another extension, an ill-valued one ("08"), one that must be declined
   (asks for 9 < 10), an acceptable one (12, client 15), and a second acceptable one. *)
Example C14_nonvacuous :
  let cfg := mkParams true false 10 9 in
  let o_other := ([120], [(k_smwb, [57; 57])]) in
  let o_bad := (ext_name, [(k_smwb, [48; 56])]) in
  let o_low := (ext_name, [(k_smwb, [57]); (k_cmwb, [])]) in
  let o_ok := (ext_name, [(k_cmwb, [49; 53]); (k_snct, []); (k_smwb, [49; 50])]) in
  let o_ok2 := (ext_name, [(k_cmwb, [57])]) in
  cfg_ok cfg = true
  /\ snd (negotiate_all (new_ext cfg) [o_other; o_low; o_ok; o_ok2; o_bad]) =
     [AEmpty; AEmpty; AOpt [(k_snct, []); (k_smwb, [49; 48]); (k_cmwb, [57])]; AEmpty; AEmpty]
  /\ legal_answer (snd o_ok) [(k_snct, []); (k_smwb, [49; 48]); (k_cmwb, [57])] = true
  /\ legal_answer (snd o_low) [(k_snct, []); (k_smwb, [49; 48]); (k_cmwb, [57])] = false
  /\ fresh cfg o_bad = AErr Invalid
  /\ snd (parse [(k_cmwb, []); (k_cmwb, [])]) = Some Dup
  /\ accepts cfg o_ok2 = true.
Proof. vm_compute. repeat split; reflexivity. Qed.
