(* C08 — Automatic control-frame replies are always valid frames with the right content.
   Only statements; each closed by [exact]. *)
Require Import Bytes Stream Utf8Spec Check Frame Cipher Extracted Writer Handler
  BytesProofs StreamProofs FrameProofs CheckProofs WriterProofs.
Open Scope N_scope.

(* the protocol-error close reply body always passes the peer's close check:
   code 1002 with an ASCII reason *)
Theorem C08_protocol_error_body_valid : forall e,
  check_close 1002 (close_err_text e) = None /\ len (new_close_body 1002 (close_err_text e)) <= 125.
Proof. intros e. destruct e; vm_compute; split; try reflexivity; discriminate. Qed.
Print Assumptions C08_protocol_error_body_valid.

Example C08_nonvacuous :
  let d := mkDest [] None in
  let '(r, d1) := handle 2 false (mkHeader true 0 9 false zero_mask 3) [7; 8; 9] TEOF [2] [[1; 2; 3; 4]] d in
  r = HNil /\ c08_reply_monitor 2 9 [7; 8; 9] (dest_log d1) r = true /\
  let '(r2, d2) := handle 1 false (mkHeader true 0 8 false zero_mask 2) [3; 237] TEOF [] [] d in
  r2 = HProto AppLevel /\ c08_reply_monitor 1 8 [3; 237] (dest_log d2) r2 = true.
Proof. vm_compute. repeat split; reflexivity. Qed.
