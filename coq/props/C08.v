(* C08 — Automatic control-frame replies are always valid frames with the right content.
   Only statements; each closed by [exact]. *)
Require Import Bytes Stream Utf8Spec Check Frame Cipher Extracted Writer Handler
  BytesProofs StreamProofs FrameProofs CheckProofs WriterProofs.
Open Scope N_scope.

(* the protocol-error close reply body always passes the peer's close check:
   code 1002 with an ASCII reason *)
Theorem C08_protocol_error_body_valid : forall e,
  check_close 1002 (close_err_text e) = None /\ len (new_close_body 1002 (close_err_text e)) <= 125.
Proof. intros e. destruct e; vm_compute; split; try reflexivity; discriminate. Qed.
Print Assumptions C08_protocol_error_body_valid.

Example C08_nonvacuous :
  let d := mkDest [] None in
  let '(r, d1) := handle 2 false (mkHeader true 0 9 false zero_mask 3) [7; 8; 9] TEOF [2] [[1; 2; 3; 4]] d in
  r = HNil /\ c08_reply_monitor 2 9 [7; 8; 9] (dest_log d1) r = true /\
  let '(r2, d2) := handle 1 false (mkHeader true 0 8 false zero_mask 2) [3; 237] TEOF [] [] d in
  r2 = HProto AppLevel /\ c08_reply_monitor 1 8 [3; 237] (dest_log d2) r2 = true.
Proof. vm_compute. repeat split; reflexivity. Qed.

(* ------------------------------------------------------------------------------------
   [ctl_writes] (the fold of ControlWriter.Write over a list of writes, with the caller's
   observation of each) is defined in proofs/ControlWriterProofs.v. *)
Require Import CipherProofs WriterInv WriterFrameProofs WriterHistProofs ControlWriterProofs HandlerProofs.

(* a control write that would exceed the limit is refused and changes nothing *)
Theorem C08_control_write_overflow : forall p c, c_limit c < c_n c + len p ->
  control_write p c = (inr (0, Some WOverflow), c).
Proof. exact control_write_overflow. Qed.
Print Assumptions C08_control_write_overflow.

(* NewControlWriter: for EVERY sequence of writes, then Flush: no panic, and the destination
   received nothing or ONE final frame of at most 125 payload bytes with the right opcode,
   masked iff client, carrying exactly the accepted writes *)
Theorem C08_control_writer : forall state op masks ps c0,
  new_control_writer (mkDest [] None) state op masks = inr c0 ->
  op < 16 -> Forall wf_key masks -> Forall wf_bytes ps ->
  let '(ws, c1) := ctl_writes ps c0 in
  let '(r, c2) := control_flush c1 in
  Forall (fun w => o_panic (snd w) = None) ws /\ r = inr None /\
  c08_ctl_monitor (client_side state) op ws (dest_log (w_dest (c_w c2))) = true.
Proof. exact control_writer_monitor. Qed.
Print Assumptions C08_control_writer.

(* NewControlWriterBuffer: the same for every buffer length for which it does not panic *)
Theorem C08_control_writer_buffer : forall state op buflen masks ps c0,
  new_control_writer_buffer (mkDest [] None) state op buflen masks = inr c0 ->
  op < 16 -> Forall wf_key masks -> Forall wf_bytes ps ->
  let '(ws, c1) := ctl_writes ps c0 in
  let '(r, c2) := control_flush c1 in
  Forall (fun w => o_panic (snd w) = None) ws /\ r = inr None /\
  c08_ctl_monitor (client_side state) op ws (dest_log (w_dest (c_w c2))) = true.
Proof. exact control_writer_buffer_monitor. Qed.
Print Assumptions C08_control_writer_buffer.

(* the automatic replies: for both sides, ping / pong / close, EVERY payload of at most
   125 bytes (masked on the wire or not), every io.Copy chunking and mask oracle, with the
   whole payload available: the reply monitor holds (one valid final frame <= 125, masked
   iff client, pong echoing the ping, close echoing an acceptable status code, 1002 for an
   unacceptable close payload, nothing for a pong; and the right result for the caller) *)
Theorem C08_replies : forall state op payload h unmask copy_sizes masks,
  (state = 1 \/ state = 2) -> (op = 8 \/ op = 9 \/ op = 10) -> wf_bytes payload -> len payload <= 125 ->
  h_op h = op -> h_len h = Z.of_N (len payload) -> (unmask = true -> wf_key (h_mask h)) -> Forall wf_key masks ->
  let avail := if unmask then mask_spec payload (h_mask h) 0 else payload in
  let '(res, d') := handle state unmask h avail TEOF copy_sizes masks (mkDest [] None) in
  c08_reply_monitor state op payload (dest_log d') res = true.
Proof. exact handle_reply_ok. Qed.
Print Assumptions C08_replies.

(* the error paths: a source that ends or fails before the announced payload length is
   never answered — no pong with a shortened payload, no close reply, and the caller gets
   the I/O error (proved as C16_handler_cut_payload in props/C16.v; restated here for the
   reply side: nothing reaches the destination) *)
Require Import HandlerCutProofs.
Theorem C08_no_reply_to_cut_payload : forall state unmask h avail t copy_sizes masks,
  (h_op h = 8 \/ h_op h = 9 \/ h_op h = 10) ->
  0 < Z.to_N (h_len h) -> Z.to_N (h_len h) <= 125 -> len avail < Z.to_N (h_len h) ->
  dest_log (snd (handle state unmask h avail t copy_sizes masks (mkDest [] None))) = [] /\
  exists e, fst (handle state unmask h avail t copy_sizes masks (mkDest [] None)) = HIoErr e.
Proof. exact handle_cut_no_reply. Qed.
Print Assumptions C08_no_reply_to_cut_payload.
