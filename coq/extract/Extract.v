(* Extraction of the executable models and monitors to OCaml.
   ExtrOcamlBasic only: bool/option/unit/prod/list/sumbool map to OCaml's;
   N, Z, positive, nat stay the extracted inductive types. *)
Require Extraction.
Require Import ExtrOcamlBasic.
Require Import Bytes Utf8Spec Check.
Extraction Blacklist String List Bytes Int Char Buffer Hashtbl Printf Sys Array Stdlib Nat Bool.
Set Extraction Optimize.
Separate Extraction
  Bytes.be_val Bytes.be_bytes Bytes.le_val Bytes.le_bytes Bytes.bytes_eqb Bytes.len
  BinNat.N.add BinNat.N.mul BinNat.N.sub BinNat.N.eqb BinNat.N.leb BinNat.N.ltb BinNat.N.of_nat BinNat.N.to_nat
  BinNat.N.div BinNat.N.modulo BinNat.N.lxor BinNat.N.land BinNat.N.lor BinNat.N.shiftl BinNat.N.shiftr
  BinInt.Z.add BinInt.Z.mul BinInt.Z.sub BinInt.Z.eqb BinInt.Z.leb BinInt.Z.ltb BinInt.Z.of_N BinInt.Z.to_N BinInt.Z.opp
  Utf8Spec.valid_utf8
  Check.check_header Check.broken Check.c03_header_monitor Check.check_close
  Check.c03_close_monitor Check.new_close_body Check.parse_close Check.c03_body_monitor
  Check.op_is_control Check.op_is_data Check.op_is_reserved
  Check.sc_not_used Check.sc_protocol_spec Check.sc_application_spec Check.sc_private_spec
  Check.sc_protocol_defined Check.sc_protocol_reserved Check.rule_eqb.
