(* DialTable.v — the finite closure certificate for model/DialLTS.v: a table T of product
   states (LTS state x monitor state) that contains every initial state and is closed under
   every label; hence (induction over the run) it contains every reachable state. *)
From Coq Require Import List Bool Arith Lia PArith NArith FMapPositive.
Require Import LTS DialLTS.
Import ListNotations.

(* ---------- enumerations are complete ---------- *)
Lemma all_labels_complete : forall l, In l all_labels.
Proof.
  intros l; destruct l as [| |e|w k|w|w|w|w|w| | | |e| | | | | | | | | |];
    try destruct e; try destruct w; try destruct k; vm_compute; tauto.
Qed.

Lemma all_cfgs_complete : forall c, In c all_cfgs.
Proof. intros [k t v]; destruct k, t, v; vm_compute; tauto. Qed.

Lemma hidden_invisible : forall l, In l hidden_labels -> visible l = false.
Proof. intros l H; vm_compute in H; repeat (destruct H as [H|H]; [subst; reflexivity|]); destruct H. Qed.

Lemma label_split : forall l, visible l = false -> In l hidden_labels.
Proof. intros l; destruct l; simpl; intros H; try discriminate; vm_compute; tauto. Qed.

Lemma state_beq_eq : forall a b, state_beq a b = true -> a = b.
Proof. exact internal_state_dec_bl. Qed.
Lemma state_beq_refl : forall a, state_beq a a = true.
Proof. intros; apply internal_state_dec_lb; reflexivity. Qed.
Lemma pstate_beq_eq : forall a b, pstate_beq a b = true -> a = b.
Proof. exact internal_pstate_dec_bl. Qed.

(* ---------- the configuration never changes ---------- *)
Lemma step_cfg : forall s l s', step s l = Some s' -> s_cfg s' = s_cfg s.
Proof.
  intros s l s' H. unfold step, guard in H.
  destruct l as [| |e|w k|w|w|w|w|w| | | |e| | | | | | | | | |]; try destruct w;
    repeat match type of H with
           | (if ?b then _ else _) = Some _ => destruct b; try discriminate
           | match ?x with _ => _ end = Some _ => destruct x; try discriminate
           end;
    try (inversion H; subst; unfold end_dctx; simpl;
         repeat match goal with |- context [match ?x with _ => _ end] => destruct x end; reflexivity).
Qed.

Lemma run_cfg : forall s tr s', run step s tr s' -> s_cfg s' = s_cfg s.
Proof.
  intros s tr s' H; induction H as [|s l s1 tr s2 Hs Hr IH]; auto.
  rewrite IH. eapply step_cfg; eauto.
Qed.

(* ---------- lifting runs of the LTS to the product ---------- *)
Lemma mon_run_snoc : forall c tr l, mon_run c (tr ++ [l]) = mon_step c (mon_run c tr) l.
Proof. intros; unfold mon_run; rewrite fold_left_app; reflexivity. Qed.

Lemma lift_run_gen : forall s tr s', run step s tr s' ->
  forall m, run pstep (mkP s m) tr (mkP s' (fold_left (mon_step (s_cfg s)) (filter visible tr) m)).
Proof.
  intros s tr s' H; induction H as [|s l s1 tr s2 Hs Hr IH]; intros m; simpl.
  - constructor.
  - econstructor.
    + unfold pstep; simpl. rewrite Hs. reflexivity.
    + specialize (IH (if visible l then mon_step (s_cfg s) m l else m)).
      rewrite (step_cfg _ _ _ Hs) in IH.
      destruct (visible l); simpl; exact IH.
Qed.

Lemma lift_run : forall c tr s, run step (init c) tr s ->
  run pstep (pinit c) tr (mkP s (mon_run c (filter visible tr))).
Proof. intros c tr s H. exact (lift_run_gen _ _ _ H m_init). Qed.

(* ---------- the table ---------- *)
Definition T : LTS.table pstate :=
  Eval vm_compute in
    fst (LTS.explore pstep pkey pstate_beq all_labels (N.to_nat 2000000)
           (map pinit all_cfgs) (PositiveMap.empty _)).

Definition inT (p : pstate) : Prop := In p (LTS.all_states T).

Lemma T_closed : LTS.closedb pstep pkey pstate_beq all_labels T = true.
Proof. vm_compute. reflexivity. Qed.

Lemma T_init : forallb (fun c => LTS.mem pkey pstate_beq (pinit c) T) all_cfgs = true.
Proof. vm_compute. reflexivity. Qed.

(* every state reachable by any run, of any length, from any configuration is in T *)
Lemma reach_T : forall c tr p, run pstep (pinit c) tr p -> inT p.
Proof.
  intros c tr p H. unfold inT.
  eapply (@LTS.reach_in_table _ _ pstep pkey pstate_beq pstate_beq_eq all_labels all_labels_complete T).
  - exact T_closed.
  - pose proof T_init as Hi. rewrite forallb_forall in Hi. apply Hi. apply all_cfgs_complete.
  - exact H.
Qed.

Lemma reach_T_state : forall c tr s, run step (init c) tr s ->
  inT (mkP s (mon_run c (filter visible tr))).
Proof. intros c tr s H. eapply reach_T. apply lift_run. exact H. Qed.

Lemma T_step : forall p l p', inT p -> pstep p l = Some p' -> inT p'.
Proof.
  intros p l p' Hin Hs. unfold inT in *.
  eapply (@LTS.closed_step _ _ pstep pkey pstate_beq pstate_beq_eq all_labels all_labels_complete T T_closed); eauto.
Qed.

Ltac table_check P :=
  let H := fresh "H" in
  assert (H : forallb P (LTS.all_states T) = true) by (vm_compute; reflexivity);
  rewrite forallb_forall in H.

