(* C14: which offers a new negotiator accepts, read off the MEANING of the parameter list (not off the parser):
   the acceptability the property speaks of ("the first acceptable one in the client's order"). *)
Require Import Bytes Negotiate NegotiateSpec NegotiateProofs.
Open Scope N_scope.

Lemma accepts_iff_acceptable cfg ps : cfg_ok cfg = true ->
  accepts cfg (ext_name, ps) = acceptable cfg ps.
Proof.
  intros Hcfg. unfold accepts, fresh, acceptable. cbn [fst snd].
  unfold negotiate, new_ext. cbn [e_accepted e_cfg]. change (negb (bytes_eqb ext_name ext_name)) with false. cbn iota.
  pose proof (parse_ok_iff ps) as Hok. pose proof (parse_meaning ps) as Hm.
  destruct (parse ps) as [p [e|]] eqn:Ep; cbn [snd fst] in *.
  - destruct (wf_offer ps); [|reflexivity]. destruct Hok as [_ Hok]. specialize (Hok eq_refl). discriminate.
  - assert (W: wf_offer ps = true) by (apply Hok; reflexivity).
    rewrite W. specialize (Hm W). subst p. cbn [andb].
    destruct (_ && _) eqn:E1 at 1; rewrite E1; [reflexivity|]. cbn [negb andb].
    destruct (p_cmwb (meaning ps) <? p_cmwb cfg) eqn:E2; [reflexivity|]. cbn [negb andb].
    destruct (p_snct (meaning ps) && negb (p_snct cfg)) eqn:E3; [reflexivity|]. cbn [negb].
    destruct (option_of_cfg_facts cfg Hcfg) as [a [Ha _]]. rewrite Ha. reflexivity.
Qed.

(* other extensions are never acceptable *)
Lemma accepts_other cfg name ps : name <> ext_name -> accepts cfg (name, ps) = false.
Proof.
  intros Hn. unfold accepts, fresh. cbn [fst snd]. rewrite (negotiate_other _ _ _ Hn). reflexivity.
Qed.

(* non-vacuity: a server with window 10 finds a limit of 12 acceptable and a limit of 9 not *)
Example acceptable_example :
  acceptable (mkParams false false 10 0) [(k_smwb, [49; 50]%N)] = true /\
  acceptable (mkParams false false 10 0) [(k_smwb, [57]%N)] = false.
Proof. split; vm_compute; reflexivity. Qed.
