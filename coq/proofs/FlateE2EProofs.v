(* FlateE2EProofs.v — writer then reader is the identity for a conforming engine pair,
   instantiated with the stored-block compressor and the RFC 1951 decoder of lib/Inflate.v. *)
Require Import Bytes FlateAux Check Inflate Flate CbufProofs FlateProofs InflateProofs.
From Coq Require Import ZifyBool ZifyN ZifyNat.
Open Scope N_scope.

Lemma fw_run_app a : forall w b,
  fw_run w (a ++ b) =
  (fst (fw_run (fst (fw_run w a)) b), snd (fw_run w a) ++ snd (fw_run (fst (fw_run w a)) b)).
Proof.
  induction a as [|o r IH]; intros w b.
  - cbn [app fw_run fst snd]. destruct (fw_run w b); reflexivity.
  - cbn [app fw_run]. destruct (fw_step w o) as [w1 x]. rewrite (IH w1 b).
    destruct (fw_run w1 r) as [w2 xs]. cbn [fst snd]. reflexivity.
Qed.

Lemma raw_output_app a : forall w b,
  raw_output w (a ++ b) = raw_output w a ++ raw_output (fst (fw_run w a)) b.
Proof.
  induction a as [|o r IH]; intros w b; [reflexivity|].
  cbn [app raw_output fw_run]. destruct (fw_err w) eqn:Ew.
  - rewrite IH, <- app_assoc. destruct (fw_step w o) as [w1 x]. cbn [fst].
    destruct (fw_run w1 r) as [w2 xs]. reflexivity.
  - rewrite (fw_step_sticky w o) by congruence. rewrite (fw_run_sticky r w) by congruence.
    cbn [fst app]. rewrite raw_output_sticky by congruence. reflexivity.
  - rewrite (fw_step_sticky w o) by congruence. rewrite (fw_run_sticky r w) by congruence.
    cbn [fst app]. rewrite raw_output_sticky by congruence. reflexivity.
Qed.

Definition stored_writes (ws : list (list byte)) : list wop :=
  map (fun p => WWrite p (mkEm [stored_chunks (S (length p)) p] (length p) false)) ws.

Lemma write_step w p e : fw_err w = WNone -> em_err e = false ->
  fw_step w (WWrite p e) = (fw_emit w e, (em_n e, WNone)) /\ fw_err (fw_emit w e) = WNone.
Proof.
  intros Hw He. unfold fw_step. rewrite Hw. unfold fw_emit. cbn [fw_err]. rewrite He. split; reflexivity.
Qed.

Lemma stored_writes_run ws : forall w, fw_err w = WNone ->
  fw_err (fst (fw_run w (stored_writes ws))) = WNone /\
  raw_output w (stored_writes ws) = stored_stream ws /\
  snd (fw_run w (stored_writes ws)) = map (fun p => (length p, WNone)) ws.
Proof.
  induction ws as [|p r IH]; intros w Hw; [cbn; auto|].
  cbn [stored_writes map fw_run raw_output]. fold (stored_writes r). rewrite Hw.
  destruct (write_step w p (mkEm [stored_chunks (S (length p)) p] (length p) false) Hw eq_refl) as [S1 S2].
  rewrite S1. cbn [fst].
  destruct (IH _ S2) as [A [B C]].
  destruct (fw_run (fw_emit w _) (stored_writes r)) as [w2 xs]. cbn [fst snd] in *.
  split; [exact A|]. split.
  - cbn [em_chunks concat]. rewrite app_nil_r, B. unfold stored_stream. reflexivity.
  - rewrite C. reflexivity.
Qed.

(* (2)+(3)+(4) together.  A message written in any pieces [ws] through the Writer with the
   stored-block compressor, flushed; then read back from any chunking of the produced
   bytes, k >= 1 bytes at a time, by the decompression reader with the RFC 1951 decoder *)
Lemma stored_writer_reader ws :
  let w := fst (fw_run (fw_new (dst_new None)) (stored_ops ws)) in
  let msg := d_flat (cb_dst (fw_cbuf w)) in
  fw_err w = WNone
  /\ snd (fw_run (fw_new (dst_new None)) (stored_ops ws)) = map (fun p => (length p, WNone)) ws ++ [(O, WNone)]
  /\ msg = stored_stream ws ++ [0]
  /\ inflate (msg ++ compression_tail) = Some (concat ws)
  /\ forall chunks e k, concat chunks = msg -> e <> EndFail -> (1 <= k)%nat ->
       exists stream,
         sr_drain (length msg + length chunks + 12) (sr_new (mkSrc chunks e)) k [] = Some stream
         /\ inflate stream = Some (concat ws).
Proof.
  set (w0 := fw_new (dst_new None)).
  set (fl := WFlush (mkEm [0 :: sync_tail] O false)).
  assert (Eops : stored_ops ws = stored_writes ws ++ [fl]) by reflexivity.
  destruct (stored_writes_run ws w0 eq_refl) as [A [B C]].
  assert (Hraw : raw_output w0 (stored_ops ws) = (stored_stream ws ++ [0]) ++ compression_tail).
  { rewrite Eops, raw_output_app, B. cbn [raw_output]. rewrite A. cbn [em_chunks concat fl].
    rewrite !app_nil_r, <- app_assoc. reflexivity. }
  destruct (writer_tail_exact (stored_writes ws) fl A eq_refl eq_refl) as [[_ Hok] _].
  assert (Hstep : snd (snd (fw_step (fst (fw_run w0 (stored_writes ws))) fl)) = WNone).
  { apply Hok. exists (stored_stream ws ++ [0]). fold w0. rewrite B. cbn [em_of fl em_chunks concat].
    rewrite app_nil_r, <- app_assoc. reflexivity. }
  assert (Hrun : fw_run w0 (stored_ops ws) =
                 (fst (fw_step (fst (fw_run w0 (stored_writes ws))) fl),
                  map (fun p => (length p, WNone)) ws ++ [(O, WNone)])).
  { rewrite Eops, fw_run_app. cbn [fw_run]. rewrite C.
    destruct (fw_step (fst (fw_run w0 (stored_writes ws))) fl) as [w1 [n e]] eqn:Es. cbn [fst snd] in *.
    subst e. f_equal. f_equal. f_equal. f_equal.
    unfold fw_step in Es. fold w0 in A. rewrite A in Es. cbn [fl] in Es. inversion Es. reflexivity. }
  cbv zeta. rewrite Hrun. cbn [fst snd].
  set (w1 := fst (fw_step (fst (fw_run w0 (stored_writes ws))) fl)) in *.
  assert (Hw1 : fw_err w1 = WNone).
  { unfold w1. unfold fw_step in *. fold w0 in A. rewrite A in *. cbn [fl fst snd] in *. exact Hstep. }
  split; [exact Hw1|]. split; [reflexivity|].
  assert (Hmsg : d_flat (cb_dst (fw_cbuf w1)) = stored_stream ws ++ [0]).
  { pose proof (writer_tail (stored_ops ws)) as T. cbv zeta in T. fold w0 in T. rewrite Hrun in T. cbn [fst] in T.
    specialize (T Hw1).
    assert (L : last_is_sync (stored_ops ws) = true).
    { rewrite Eops. unfold last_is_sync. rewrite rev_app_distr. reflexivity. }
    specialize (T L). rewrite Hraw in T. apply app_inv_tail in T. exact T. }
  split; [exact Hmsg|]. rewrite Hmsg. split.
  - unfold inflate. rewrite <- app_assoc.
    change ([0] ++ compression_tail) with (0 :: sync_tail).
    rewrite inflate_stored_sync. reflexivity.
  - intros chunks e k Hc He Hk. eexists. split.
    + pose proof (sr_drain_source (mkSrc chunks e) k He Hk) as D.
      unfold src_rest in D. cbn [s_chunks] in D. rewrite Hc in D. exact D.
    + unfold inflate. rewrite <- app_assoc.
      change ([0] ++ compression_read_tail) with (0 :: sync_tail ++ 1 :: sync_tail ++ []).
      rewrite inflate_stored_read_tail. reflexivity.
Qed.
