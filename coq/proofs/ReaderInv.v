(* ReaderInv.v — the simulation invariants between the Reader model and the
   frame-sequence spec, and the single-operation lemmas (NextFrame at a frame
   boundary, one frame.Read inside a payload). *)
Require Import Bytes Stream Utf8Spec Check Frame Cipher Utf8Dfa Extracted ExtractedOk Reader
  BytesProofs StreamProofs CheckProofs FrameProofs CipherProofs Utf8Proofs ReaderLocalProofs ReaderAux.
From Coq Require Import ZifyBool ZifyN ZifyNat.
Open Scope N_scope.

Ltac rsimpl := cbn [r_src r_state r_skip r_check_utf8 r_max r_ext r_compressed r_cb r_opcode r_frame
  r_rawN r_masked r_key r_cpos r_u8wrap r_u8state r_u8acc r_log set_src reset reset_fragment fst snd] in *.

(* ------------------------------------------------------------------ spec, one frame unfolded *)
Notation msg := (N * list byte * bool)%type.
Definition m_op (m : msg) : N := fst (fst m).
Definition m_acc (m : msg) : list byte := snd (fst m).
Definition m_comp (m : msg) : bool := snd m.

Definition is_some {A} (o : option A) : bool := match o with Some _ => true | None => false end.
Definition rsv1 (f : sframe) : bool := negb (N.land (sf_rsv f) 4 =? 0).
Definition first_data (f : sframe) : bool := negb (spec_control (sf_op f)) && negb (sf_op f =? 0).
Definition msg_of (c : rcfg) (openm : option msg) (f : sframe) : msg :=
  match openm with Some m => m | None => (sf_op f, [], c_ext c && rsv1 f) end.
Definition partial_of (openm : option msg) : list byte :=
  match openm with Some (_, p, _) => p | None => [] end.
Definition comp_of (openm : option msg) : bool :=
  match openm with Some (_, _, cm) => cm | None => false end.
Definition wrap_of (c : rcfg) (op0 : N) : bool := c_check_utf8 c && (op0 =? 1).

(* what the spec does with a data frame (or a control frame outside a message)
   once its header was accepted *)
Definition spec_data (c : rcfg) (k : nat) (m : msg) (evs : list event) (f : sframe) (rest : list sframe)
  : spec_result :=
  let '(op0, acc0, comp) := m in
  let acc := acc0 ++ sf_payload f in
  if wrap_of c op0 && negb (if sf_fin f then valid_utf8 acc else utf8_viable acc) then mkSR evs [] OInvalidUtf8
  else if sf_fin f then spec_run c (S k) None (evs ++ [mkEv op0 acc false comp]) rest
  else spec_run c (S k) (Some (op0, acc, comp)) evs rest.

Lemma spec_run_cons c k openm evs f rest : spec_run c k openm evs (f :: rest) =
  if negb (frame_ok c (is_some openm) f) then mkSR evs (partial_of openm) (OProtocol k)
  else if (0 <? c_max c)%Z && (c_max c <? Z.of_N (len (sf_payload f)))%Z
    then mkSR evs (partial_of openm) (OTooLarge k)
  else if c_ext c && rsv1 f && negb (first_data f) then mkSR evs (partial_of openm) (OBadCompression k)
  else if spec_control (sf_op f) then
    spec_run c (S k) openm (evs ++ [mkEv (sf_op f) (sf_payload f) (is_some openm)
                                         (if is_some openm then comp_of openm else false)]) rest
  else spec_data c k (msg_of c openm f) evs f rest.
Proof. destruct openm as [[[o p] cm]|]; reflexivity. Qed.

Lemma spec_run_nil c k openm evs : spec_run c k openm evs [] =
  mkSR evs (partial_of openm) (if is_some openm then OCutMidMessage else OClean).
Proof. destruct openm as [[[o p] cm]|]; reflexivity. Qed.

(* ------------------------------------------------------------------ invariants *)
Definition cfg_ok (c : rcfg) (r : reader) : Prop :=
  r_skip r = false /\ r_check_utf8 r = c_check_utf8 c /\ r_max r = c_max c /\ r_ext r = c_ext c
  /\ r_cb r = CbReadAll.
Definition src_ok (r : reader) (bs : list byte) : Prop :=
  wf_src (r_src r) /\ tl (r_src r) = TEOF /\ flat (r_src r) = bs.
Definition u8_ok (c : rcfg) (op0 : N) (acc : list byte) (r : reader) : Prop :=
  r_u8state r = (if wrap_of c op0 then u8_run 0 acc else 0) /\ r_u8state r <> 12 /\ In (r_u8state r) states.

(* at a frame boundary: [openm] = the message being assembled, [rest] = frames still on the wire *)
Record Bnd (c : rcfg) (openm : option msg) (lg : list event) (rest : list sframe) (r : reader) : Prop := {
  b_cfg : cfg_ok c r;
  b_src : src_ok r (wire rest);
  b_wf : Forall wf_sframe rest;
  b_log : r_log r = lg;
  b_state : r_state r = set_fragmented (c_state c) (is_some openm);
  b_msg : match openm with
          | None => r_u8state r = 0 /\ (c_ext c = false -> r_compressed r = false)
          | Some m => r_frame r = false /\ r_opcode r = m_op m /\ r_compressed r = m_comp m
                      /\ u8_ok c (m_op m) (m_acc m) r /\ wf_bytes (m_acc m) /\ spec_control (m_op m) = false
          end }.

(* inside the payload of frame [f] = pre ++ post, [pre] already delivered; [m] = the
   message as it was before [f] *)
Record Mid (c : rcfg) (m : msg) (f : sframe) (pre post : list byte) (lg : list event)
           (rest : list sframe) (r : reader) : Prop := {
  m_cfg : cfg_ok c r;
  m_src : src_ok r (wpay f (len pre) post ++ wire rest);
  m_wf : Forall wf_sframe rest;
  m_wff : wf_sframe f;
  m_pay : sf_payload f = pre ++ post;
  m_wfacc : wf_bytes (m_acc m);
  m_log : r_log r = lg;
  m_state : r_state r = set_fragmented (c_state c) (negb (sf_fin f));
  m_frame : r_frame r = true;
  m_opcode : r_opcode r = m_op m;
  m_compr : r_compressed r = m_comp m \/ spec_control (m_op m) = true;
  m_ctlfin : spec_control (m_op m) = true -> sf_fin f = true;
  m_rawN : r_rawN r = len post;
  m_masked : r_masked r = is_some (sf_key f);
  m_key : forall key, sf_key f = Some key -> r_key r = key /\ r_cpos r = len pre;
  m_wrap : r_u8wrap r = wrap_of c (m_op m);
  m_u8 : u8_ok c (m_op m) (m_acc m ++ pre) r }.

(* ------------------------------------------------------------------ small facts *)
Lemma op_data_spec op : op < 16 -> op_is_data op = negb (spec_control op).
Proof. intros H. rewrite <- (control_spec _ H). unfold op_is_control, op_is_data. rewrite negb_involutive. reflexivity. Qed.

Lemma broken_none h s rl : broken h s = [] -> rule_broken rl h s = false.
Proof.
  intros H. destruct (rule_broken rl h s) eqn:E; [|reflexivity].
  apply in_broken in E. rewrite H in E. destruct E.
Qed.

(* the receive extension on the spec's header *)
Lemma ext_step c f cp : wf_sframe f ->
  let x := if c_ext c then unset_bits (sf_header f) cp else Some (sf_header f, cp) in
  (c_ext c && rsv1 f && negb (first_data f) = true /\ x = None) \/
  (c_ext c && rsv1 f && negb (first_data f) = false /\
   exists hdr', x = Some (hdr', if c_ext c && first_data f then rsv1 f else cp)
                /\ h_op hdr' = sf_op f /\ h_fin hdr' = sf_fin f).
Proof.
  intros (_ & Hop & _). cbv zeta. destruct (c_ext c); cbn [andb].
  - unfold unset_bits. cbn [sf_header h_op h_rsv h_fin h_masked h_mask h_len].
    rewrite (op_data_spec _ Hop). fold (first_data f). fold (rsv1 f).
    destruct (first_data f); cbn [negb andb].
    + right. rewrite andb_false_r. split; [reflexivity|]. eexists. split; [reflexivity|]. split; reflexivity.
    + rewrite andb_true_r. destruct (rsv1 f).
      * left. split; reflexivity.
      * right. split; [reflexivity|]. eexists. split; [reflexivity|]. split; reflexivity.
  - right. split; [reflexivity|]. eexists. split; [reflexivity|]. split; reflexivity.
Qed.

Lemma frame_ok_check c frag f : wf_sframe f ->
  match check_header (sf_header f) (set_fragmented (c_state c) frag) with
  | Some _ => frame_ok c frag f = false
  | None => frame_ok c frag f = true /\ broken (sf_header f) (set_fragmented (c_state c) frag) = []
  end.
Proof.
  intros (_ & Hop & _). unfold frame_ok.
  pose proof (check_header_none (sf_header f) (set_fragmented (c_state c) frag) Hop) as E.
  destruct (check_header _ _) as [rl|].
  - destruct (broken _ _); [|reflexivity]. destruct E as [_ E]. specialize (E eq_refl). discriminate.
  - destruct E as [E _]. rewrite (E eq_refl). split; reflexivity.
Qed.

(* reading a whole payload that is on the wire *)
Lemma read_payload s f rest : wf_sframe f -> wf_src s ->
  flat s = wpay f 0 (sf_payload f) ++ rest ->
  exists s', read_full (len (sf_payload f)) s = ((wpay f 0 (sf_payload f), None), s')
             /\ flat s' = rest /\ wf_src s' /\ tl s' = tl s.
Proof.
  intros Hf Hw Hfl.
  pose proof (read_full_ok (len (sf_payload f)) s Hw) as R.
  rewrite Hfl, len_app, len_wpay in R. specialize (R ltac:(lia)).
  destruct (read_full (len (sf_payload f)) s) as [[b e] s']. destruct R as (-> & -> & Hf' & Hw' & Ht').
  exists s'. rewrite take_app_le by (rewrite len_wpay; lia).
  rewrite take_all by (rewrite len_wpay; lia). split; [reflexivity|].
  rewrite Hf'. rewrite drop_app_ge by (rewrite len_wpay; lia). rewrite len_wpay, N.sub_diag, drop_0.
  repeat split; assumption.
Qed.

Lemma read_zero s : wf_src s ->
  exists s', read_full 0 s = (([], None), s') /\ flat s' = flat s /\ wf_src s' /\ tl s' = tl s.
Proof.
  intros Hw. pose proof (read_full_ok 0 s Hw ltac:(lia)) as R.
  destruct (read_full 0 s) as [[b e] s']. destruct R as (-> & -> & Hf' & Hw' & Ht').
  exists s'. rewrite take_0. rewrite drop_0 in Hf'. repeat split; assumption.
Qed.

Lemma unmask_payload f : wf_sframe f ->
  (if is_some (sf_key f) then cipher (wpay f 0 (sf_payload f)) (h_mask (sf_header f)) 0
   else wpay f 0 (sf_payload f)) = sf_payload f.
Proof.
  intros Hf. pose proof (wpay_wf f 0 (sf_payload f) Hf ltac:(apply Hf)) as Hw.
  destruct Hf as (_ & _ & Hp & _ & Hk). unfold wpay in *. cbn [sf_header h_mask].
  destruct (sf_key f) as [key|]; cbn [is_some]; [|reflexivity].
  rewrite cipher_is_spec by (try exact Hw; exact Hk). apply mask_spec_involutive.
Qed.

Lemma unmask_payload' f kx : wf_sframe f ->
  (if h_masked (sf_header f)
   then cipher (wpay f 0 (sf_payload f)) (if h_masked (sf_header f) then h_mask (sf_header f) else kx) 0
   else wpay f 0 (sf_payload f)) = sf_payload f.
Proof.
  intros Hf. pose proof (wpay_wf f 0 (sf_payload f) Hf ltac:(apply Hf)) as Hw.
  destruct Hf as (_ & _ & Hp & _ & Hk). unfold wpay in *. cbn [sf_header h_mask h_masked].
  destruct (sf_key f) as [key|]; [|reflexivity].
  rewrite cipher_is_spec by (try exact Hw; exact Hk). apply mask_spec_involutive.
Qed.

(* ------------------------------------------------------------------ NextFrame at a frame boundary *)
Lemma next_frame_eof c openm lg r : Bnd c openm lg [] r ->
  exists h r', next_frame r = ((h, Some (RIo (if is_some openm then EUnexpected else EEOF))), r')
               /\ r_log r' = lg.
Proof.
  intros [Hcfg (Hw & Ht & Hf) _ Hlog Hst _].
  destruct (header_eof (r_src r) Hw Hf Ht) as (s' & Hrd & _).
  unfold next_frame. rewrite Hrd, Hst, st_frag_set.
  destruct (is_some openm); eexists; eexists; (split; [reflexivity|exact Hlog]).
Qed.

Lemma next_frame_spec c openm lg f rest r : wf_cfg c -> Bnd c openm lg (f :: rest) r ->
  exists h e r', next_frame r = ((h, e), r') /\
  match e with
  | Some err =>
      r_log r' = lg /\
      forall k evs, exists out, spec_run c k openm evs (f :: rest) = mkSR evs (partial_of openm) out
                                /\ err_matches out err = true /\ out <> OInvalidUtf8 /\ out <> OClean
  | None =>
      (length (flat (r_src r')) + 2 <= length (flat (r_src r)))%nat /\
      ((exists m, openm = Some m /\ r_frame r' = false /\
          Bnd c openm (lg ++ [mkEv (sf_op f) (sf_payload f) true (m_comp m)]) rest r' /\
          forall k evs, spec_run c k openm evs (f :: rest) =
                        spec_run c (S k) openm (evs ++ [mkEv (sf_op f) (sf_payload f) true (m_comp m)]) rest)
       \/ (h_op h = sf_op f /\ Mid c (msg_of c openm f) f [] (sf_payload f) lg rest r' /\
           forall k evs, spec_run c k openm evs (f :: rest) = spec_data c k (msg_of c openm f) evs f rest))
  end.
Proof.
  intros Hc [Hcfg (Hw & Ht & Hfl) Hwf Hlog Hst Hmsg].
  pose proof (Forall_inv Hwf) as Hf. pose proof (Forall_inv_tail Hwf) as Hrest. clear Hwf.
  rewrite wire_cons in Hfl.
  assert (Hrw: wf_bytes (wpay f 0 (sf_payload f) ++ wire rest)).
  { apply wf_bytes_app; split; [apply wpay_wf; [exact Hf|apply Hf] | apply wire_wf, Hrest]. }
  destruct (next_frame_reads_header r (sf_header f) _ (sf_header_wf f Hf) Hrw Hw Hfl) as (s1 & Hrd & Hf1 & Hw1 & Ht1).
  rewrite sf_header_norm in Hrd.
  assert (Hlen: (length (flat s1) + 2 <= length (flat (r_src r)))%nat).
  { rewrite Hfl, Hf1, !app_length. pose proof (rfc_header_len2 (sf_header f)). lia. }
  assert (HlenN: Z.to_N (h_len (sf_header f)) = len (sf_payload f)) by (cbn [sf_header h_len]; apply N2Z.id).
  assert (Hop: sf_op f < 16) by apply Hf.
  destruct Hcfg as (Hskip & Hchk & Hmax & Hext & Hcb).
  unfold next_frame. rewrite Hrd, Hskip, Hst, HlenN.
  pose proof (frame_ok_check c (is_some openm) f Hf) as Hck.
  destruct (check_header (sf_header f) (set_fragmented (c_state c) (is_some openm))) as [rl|].
  { do 3 eexists. split; [reflexivity|]. rsimpl. split; [exact Hlog|].
    intros k evs. exists (OProtocol k). rewrite spec_run_cons, Hck. cbn [negb].
    repeat split; discriminate || reflexivity. }
  destruct Hck as [Hok Hbr].
  rewrite Hmax. change (h_len (sf_header f)) with (Z.of_N (len (sf_payload f))).
  destruct ((0 <? c_max c)%Z && (c_max c <? Z.of_N (len (sf_payload f)))%Z) eqn:Hsz.
  { do 3 eexists. split; [reflexivity|]. rsimpl. split; [exact Hlog|].
    intros k evs. exists (OTooLarge k). rewrite spec_run_cons, Hok, Hsz. cbn [negb].
    repeat split; discriminate || reflexivity. }
  rewrite Hext.
  pose proof (ext_step c f (r_compressed r) Hf) as Hx. cbv zeta in Hx.
  destruct Hx as [[Hbad Hx]|(Hgood & hdr' & Hx & Hop' & Hfin')]; rewrite Hx.
  { do 3 eexists. split; [reflexivity|]. rsimpl. split; [exact Hlog|].
    intros k evs. exists (OBadCompression k). rewrite spec_run_cons, Hok, Hsz, Hbad. cbn [negb].
    repeat split; discriminate || reflexivity. }
  rewrite st_frag_set, Hop', Hfin', (control_spec _ Hop).
  assert (Htl: forall s', tl s' = tl (r_src r) -> tl s' = TEOF) by (intros; congruence).
  destruct openm as [[[o p] cm]|]; cbn [is_some andb m_op m_acc m_comp fst snd] in *.
  - destruct Hmsg as (Hfr & Hopc & Hcomp & Hu8 & Hwacc & Hnctl).
    destruct (spec_control (sf_op f)) eqn:Hctl.
    + (* control frame inside a message: callback, drain *)
      assert (Hfd: first_data f = false) by (unfold first_data; rewrite Hctl; reflexivity).
      rewrite Hfd, andb_false_r in *. rewrite Hcb.
      unfold cb_read_all. rsimpl.
      destruct (read_payload s1 f (wire rest) Hf Hw1 Hf1) as (s2 & Hrp & Hf2 & Hw2 & Ht2).
      rewrite Hrp. cbv beta iota zeta. rewrite (unmask_payload' f _ Hf), Hop'.
      unfold raw_drain. rsimpl. rewrite len_wpay, N.sub_diag.
      destruct (read_zero s2 Hw2) as (s3 & Hrz & Hf3 & Hw3 & Ht3). rewrite Hrz. cbv beta iota zeta.
      cbn [option_map].
      do 3 eexists. split; [reflexivity|]. rsimpl.
      split; [rewrite Hf3, Hf2; rewrite Hf1, app_length in Hlen; clear -Hlen; lia|].
      left. exists (o, p, cm). split; [reflexivity|]. split; [exact Hfr|]. split.
      * constructor; rsimpl; cbn [is_some m_op m_acc m_comp fst snd].
        -- unfold cfg_ok; rsimpl. repeat split; assumption || reflexivity.
        -- unfold src_ok; rsimpl. repeat split; [exact Hw3| apply Htl; congruence | congruence].
        -- exact Hrest.
        -- rewrite Hlog, Hcomp. reflexivity.
        -- reflexivity.
        -- unfold u8_ok in *; rsimpl. repeat split; try assumption; apply Hu8.
      * intros k evs. rewrite spec_run_cons. cbn [is_some]. rewrite Hok, Hsz, Hfd, Hgood, Hctl. reflexivity.
    + (* continuation frame *)
      pose proof (broken_none _ _ ContinuationExpected Hbr) as Hce.
      cbn [rule_broken sf_header h_op] in Hce. rewrite st_frag_set, Hctl in Hce. cbn [negb andb] in Hce.
      assert (Hfd: first_data f = false) by (unfold first_data; rewrite Hctl; exact Hce).
      rewrite Hfd, andb_false_r in *. cbn [andb].
      do 3 eexists. split; [reflexivity|]. rsimpl. split; [exact Hlen|].
      right. split; [exact Hop'|]. split.
      * constructor; rsimpl; cbn [msg_of m_op m_acc m_comp fst snd].
        -- unfold cfg_ok; rsimpl. repeat split; assumption || reflexivity.
        -- unfold src_ok; rsimpl. rewrite len_nil. repeat split; [exact Hw1| apply Htl, Ht1 | exact Hf1].
        -- exact Hrest.
        -- exact Hf.
        -- reflexivity.
        -- exact Hwacc.
        -- exact Hlog.
        -- apply set_frag_twice, Hc.
        -- reflexivity.
        -- exact Hopc.
        -- left. exact Hcomp.
        -- intros; congruence.
        -- reflexivity.
        -- reflexivity.
        -- intros key Hk. cbn [sf_header h_masked h_mask]. rewrite Hk. split; reflexivity.
        -- rewrite Hchk, Hopc. unfold wrap_of. replace (sf_op f =? 1) with false by (clear -Hce; lia).
           reflexivity.
        -- rewrite app_nil_r. unfold u8_ok in *; rsimpl. exact Hu8.
      * intros k evs. rewrite spec_run_cons. cbn [is_some]. rewrite Hok, Hsz, Hfd, Hgood, Hctl. reflexivity.
  - (* first frame of a message, or a control frame outside a message *)
    destruct Hmsg as (Hu0 & Hcz).
    pose proof (broken_none _ _ ContinuationUnexpected Hbr) as Hcu.
    cbn [rule_broken sf_header h_op] in Hcu. rewrite st_frag_set in Hcu. cbn [negb andb] in Hcu.
    pose proof (broken_none _ _ ControlNotFinal Hbr) as Hcf.
    cbn [rule_broken sf_header h_op h_fin] in Hcf.
    do 3 eexists. split; [reflexivity|]. rsimpl. split; [exact Hlen|].
    right. split; [exact Hop'|]. split.
    + constructor; rsimpl; cbn [msg_of m_op m_acc m_comp fst snd].
      * unfold cfg_ok; rsimpl. repeat split; assumption || reflexivity.
      * unfold src_ok; rsimpl. rewrite len_nil. repeat split; [exact Hw1| apply Htl, Ht1 | exact Hf1].
      * exact Hrest.
      * exact Hf.
      * reflexivity.
      * constructor.
      * exact Hlog.
      * apply set_frag_twice, Hc.
      * reflexivity.
      * reflexivity.
      * destruct (spec_control (sf_op f)) eqn:Hctl; [right; reflexivity|left].
        unfold first_data. rewrite Hctl, Hcu. cbn [negb andb]. rewrite andb_true_r.
        destruct (c_ext c); [reflexivity|]. apply Hcz. reflexivity.
      * intros Hctl. rewrite Hctl in Hcf. cbn [andb] in Hcf. destruct (sf_fin f); [reflexivity|discriminate].
      * reflexivity.
      * reflexivity.
      * intros key Hk. cbn [sf_header h_masked h_mask]. rewrite Hk. split; reflexivity.
      * rewrite Hchk, orb_false_r. reflexivity.
      * unfold u8_ok; rsimpl. rewrite Hu0. repeat split.
        -- destruct (wrap_of c (sf_op f)); reflexivity.
        -- discriminate.
        -- simpl; tauto.
    + intros k evs. rewrite spec_run_cons. cbn [is_some]. rewrite Hok, Hsz, Hgood. cbn [negb].
      destruct (spec_control (sf_op f)) eqn:Hctl; [|reflexivity].
      unfold spec_data, msg_of. cbn [app].
      assert (Hw0: wrap_of c (sf_op f) = false).
      { unfold wrap_of. unfold spec_control in Hctl. replace (sf_op f =? 1) with false by (clear -Hctl; lia).
        apply andb_false_r. }
      rewrite Hw0. cbn [andb]. cbn [andb] in Hcf.
      destruct (sf_fin f); [|discriminate].
      assert (Hcr: c_ext c && rsv1 f = false).
      { unfold first_data in Hgood. rewrite Hctl in Hgood. cbn [negb andb] in Hgood.
        rewrite andb_true_r in Hgood. exact Hgood. }
      rewrite Hcr. reflexivity.
Qed.
