(* ReaderInv.v — the simulation invariants between the Reader model and the
   frame-sequence spec, and the single-operation lemmas (NextFrame at a frame
   boundary, one frame.Read inside a payload). *)
Require Import Bytes Stream Utf8Spec Check Frame Cipher Utf8Dfa Extracted ExtractedOk Reader
  BytesProofs StreamProofs CheckProofs FrameProofs CipherProofs Utf8Proofs ReaderLocalProofs ReaderAux.
From Coq Require Import ZifyBool ZifyN ZifyNat.
Open Scope N_scope.

Ltac rsimpl := cbn [r_src r_state r_skip r_check_utf8 r_max r_ext r_compressed r_cb r_opcode r_frame
  r_rawN r_masked r_key r_cpos r_u8wrap r_u8state r_u8acc r_log set_src reset reset_fragment fst snd] in *.

(* ------------------------------------------------------------------ spec, one frame unfolded *)
Notation msg := (N * list byte * bool)%type.
Definition m_op (m : msg) : N := fst (fst m).
Definition m_acc (m : msg) : list byte := snd (fst m).
Definition m_comp (m : msg) : bool := snd m.

Definition is_some {A} (o : option A) : bool := match o with Some _ => true | None => false end.
Definition rsv1 (f : sframe) : bool := negb (N.land (sf_rsv f) 4 =? 0).
Definition first_data (f : sframe) : bool := negb (spec_control (sf_op f)) && negb (sf_op f =? 0).
Definition msg_of (c : rcfg) (openm : option msg) (f : sframe) : msg :=
  match openm with Some m => m | None => (sf_op f, [], c_ext c && rsv1 f) end.
Definition partial_of (openm : option msg) : list byte :=
  match openm with Some (_, p, _) => p | None => [] end.
Definition comp_of (openm : option msg) : bool :=
  match openm with Some (_, _, cm) => cm | None => false end.
Definition wrap_of (c : rcfg) (op0 : N) : bool := c_check_utf8 c && (op0 =? 1).

(* what the spec does with a data frame (or a control frame outside a message)
   once its header was accepted *)
Definition spec_data (c : rcfg) (k : nat) (m : msg) (evs : list event) (f : sframe) (rest : list sframe)
  : spec_result :=
  let '(op0, acc0, comp) := m in
  let acc := acc0 ++ sf_payload f in
  if wrap_of c op0 && negb (if sf_fin f then valid_utf8 acc else utf8_viable acc) then mkSR evs [] OInvalidUtf8
  else if sf_fin f then spec_run c (S k) None (evs ++ [mkEv op0 acc false comp]) rest
  else spec_run c (S k) (Some (op0, acc, comp)) evs rest.

Lemma spec_run_cons c k openm evs f rest : spec_run c k openm evs (f :: rest) =
  if negb (frame_ok c (is_some openm) f) then mkSR evs (partial_of openm) (OProtocol k)
  else if (0 <? c_max c)%Z && (c_max c <? Z.of_N (len (sf_payload f)))%Z
    then mkSR evs (partial_of openm) (OTooLarge k)
  else if c_ext c && rsv1 f && negb (first_data f) then mkSR evs (partial_of openm) (OBadCompression k)
  else if spec_control (sf_op f) then
    spec_run c (S k) openm (evs ++ [mkEv (sf_op f) (sf_payload f) (is_some openm)
                                         (if is_some openm then comp_of openm else false)]) rest
  else spec_data c k (msg_of c openm f) evs f rest.
Proof. destruct openm as [[[o p] cm]|]; reflexivity. Qed.

Lemma spec_run_nil c k openm evs : spec_run c k openm evs [] =
  mkSR evs (partial_of openm) (if is_some openm then OCutMidMessage else OClean).
Proof. destruct openm as [[[o p] cm]|]; reflexivity. Qed.

(* ------------------------------------------------------------------ invariants *)
Definition cfg_ok (c : rcfg) (r : reader) : Prop :=
  r_skip r = false /\ r_check_utf8 r = c_check_utf8 c /\ r_max r = c_max c /\ r_ext r = c_ext c
  /\ r_cb r = CbReadAll.
Definition src_ok (r : reader) (bs : list byte) : Prop :=
  wf_src (r_src r) /\ tl (r_src r) = TEOF /\ flat (r_src r) = bs.
Definition u8_ok (c : rcfg) (op0 : N) (acc : list byte) (r : reader) : Prop :=
  r_u8state r = (if wrap_of c op0 then u8_run 0 acc else 0) /\ r_u8state r <> 12 /\ In (r_u8state r) states.

(* at a frame boundary: [openm] = the message being assembled, [rest] = frames still on the wire *)
Record Bnd (c : rcfg) (openm : option msg) (lg : list event) (rest : list sframe) (r : reader) : Prop := {
  b_cfg : cfg_ok c r;
  b_src : src_ok r (wire rest);
  b_wf : Forall wf_sframe rest;
  b_log : r_log r = lg;
  b_state : r_state r = set_fragmented (c_state c) (is_some openm);
  b_noext : c_ext c = false -> r_compressed r = false;
  b_msg : match openm with
          | None => r_u8state r = 0
          | Some m => r_frame r = false /\ r_opcode r = m_op m /\ r_compressed r = m_comp m
                      /\ u8_ok c (m_op m) (m_acc m) r /\ wf_bytes (m_acc m) /\ spec_control (m_op m) = false
          end }.

(* inside the payload of frame [f] = pre ++ post, [pre] already delivered; [m] = the
   message as it was before [f] *)
Record Mid (c : rcfg) (m : msg) (f : sframe) (pre post : list byte) (lg : list event)
           (rest : list sframe) (r : reader) : Prop := {
  m_cfg : cfg_ok c r;
  m_src : src_ok r (wpay f (len pre) post ++ wire rest);
  m_wf : Forall wf_sframe rest;
  m_wff : wf_sframe f;
  m_pay : sf_payload f = pre ++ post;
  m_wfacc : wf_bytes (m_acc m);
  m_log : r_log r = lg;
  m_state : r_state r = set_fragmented (c_state c) (negb (sf_fin f));
  m_frame : r_frame r = true;
  m_opcode : r_opcode r = m_op m;
  m_compr : r_compressed r = m_comp m \/ spec_control (m_op m) = true;
  m_noext : c_ext c = false -> r_compressed r = false;
  m_ctlfin : spec_control (m_op m) = true -> sf_fin f = true;
  m_rawN : r_rawN r = len post;
  m_masked : r_masked r = is_some (sf_key f);
  m_key : forall key, sf_key f = Some key -> r_key r = key /\ r_cpos r = len pre;
  m_wrap : r_u8wrap r = wrap_of c (m_op m);
  m_u8 : u8_ok c (m_op m) (m_acc m ++ pre) r }.

(* ------------------------------------------------------------------ small facts *)
Lemma op_data_spec op : op < 16 -> op_is_data op = negb (spec_control op).
Proof. intros H. rewrite <- (control_spec _ H). unfold op_is_control, op_is_data. rewrite negb_involutive. reflexivity. Qed.

Lemma broken_none h s rl : broken h s = [] -> rule_broken rl h s = false.
Proof.
  intros H. destruct (rule_broken rl h s) eqn:E; [|reflexivity].
  apply in_broken in E. rewrite H in E. destruct E.
Qed.

(* the receive extension on the spec's header *)
Lemma ext_step c f cp : wf_sframe f ->
  let x := if c_ext c then unset_bits (sf_header f) cp else Some (sf_header f, cp) in
  (c_ext c && rsv1 f && negb (first_data f) = true /\ x = None) \/
  (c_ext c && rsv1 f && negb (first_data f) = false /\
   exists hdr', x = Some (hdr', if c_ext c && first_data f then rsv1 f else cp)
                /\ h_op hdr' = sf_op f /\ h_fin hdr' = sf_fin f).
Proof.
  intros (_ & Hop & _). cbv zeta. destruct (c_ext c); cbn [andb].
  - unfold unset_bits. cbn [sf_header h_op h_rsv h_fin h_masked h_mask h_len].
    rewrite (op_data_spec _ Hop). fold (first_data f). fold (rsv1 f).
    destruct (first_data f); cbn [negb andb].
    + right. rewrite andb_false_r. split; [reflexivity|]. eexists. split; [reflexivity|]. split; reflexivity.
    + rewrite andb_true_r. destruct (rsv1 f).
      * left. split; reflexivity.
      * right. split; [reflexivity|]. eexists. split; [reflexivity|]. split; reflexivity.
  - right. split; [reflexivity|]. eexists. split; [reflexivity|]. split; reflexivity.
Qed.

Lemma frame_ok_check c frag f : wf_sframe f ->
  match check_header (sf_header f) (set_fragmented (c_state c) frag) with
  | Some _ => frame_ok c frag f = false
  | None => frame_ok c frag f = true /\ broken (sf_header f) (set_fragmented (c_state c) frag) = []
  end.
Proof.
  intros (_ & Hop & _). unfold frame_ok.
  pose proof (check_header_none (sf_header f) (set_fragmented (c_state c) frag) Hop) as E.
  destruct (check_header _ _) as [rl|].
  - destruct (broken _ _); [|reflexivity]. destruct E as [_ E]. specialize (E eq_refl). discriminate.
  - destruct E as [E _]. rewrite (E eq_refl). split; reflexivity.
Qed.

(* reading a whole payload that is on the wire *)
Lemma read_payload s f rest : wf_sframe f -> wf_src s ->
  flat s = wpay f 0 (sf_payload f) ++ rest ->
  exists s', read_full (len (sf_payload f)) s = ((wpay f 0 (sf_payload f), None), s')
             /\ flat s' = rest /\ wf_src s' /\ tl s' = tl s.
Proof.
  intros Hf Hw Hfl.
  pose proof (read_full_ok (len (sf_payload f)) s Hw) as R.
  rewrite Hfl, len_app, len_wpay in R. specialize (R ltac:(lia)).
  destruct (read_full (len (sf_payload f)) s) as [[b e] s']. destruct R as (-> & -> & Hf' & Hw' & Ht').
  exists s'. rewrite take_app_le by (rewrite len_wpay; lia).
  rewrite take_all by (rewrite len_wpay; lia). split; [reflexivity|].
  rewrite Hf'. rewrite drop_app_ge by (rewrite len_wpay; lia). rewrite len_wpay, N.sub_diag, drop_0.
  repeat split; assumption.
Qed.

Lemma read_zero s : wf_src s ->
  exists s', read_full 0 s = (([], None), s') /\ flat s' = flat s /\ wf_src s' /\ tl s' = tl s.
Proof.
  intros Hw. pose proof (read_full_ok 0 s Hw ltac:(lia)) as R.
  destruct (read_full 0 s) as [[b e] s']. destruct R as (-> & -> & Hf' & Hw' & Ht').
  exists s'. rewrite take_0. rewrite drop_0 in Hf'. repeat split; assumption.
Qed.

Lemma unmask_payload f : wf_sframe f ->
  (if is_some (sf_key f) then cipher (wpay f 0 (sf_payload f)) (h_mask (sf_header f)) 0
   else wpay f 0 (sf_payload f)) = sf_payload f.
Proof.
  intros Hf. pose proof (wpay_wf f 0 (sf_payload f) Hf ltac:(apply Hf)) as Hw.
  destruct Hf as (_ & _ & Hp & _ & Hk). unfold wpay in *. cbn [sf_header h_mask].
  destruct (sf_key f) as [key|]; cbn [is_some]; [|reflexivity].
  rewrite cipher_is_spec by (try exact Hw; exact Hk). apply mask_spec_involutive.
Qed.

Lemma unmask_payload' f kx : wf_sframe f ->
  (if h_masked (sf_header f)
   then cipher (wpay f 0 (sf_payload f)) (if h_masked (sf_header f) then h_mask (sf_header f) else kx) 0
   else wpay f 0 (sf_payload f)) = sf_payload f.
Proof.
  intros Hf. pose proof (wpay_wf f 0 (sf_payload f) Hf ltac:(apply Hf)) as Hw.
  destruct Hf as (_ & _ & Hp & _ & Hk). unfold wpay in *. cbn [sf_header h_mask h_masked].
  destruct (sf_key f) as [key|]; [|reflexivity].
  rewrite cipher_is_spec by (try exact Hw; exact Hk). apply mask_spec_involutive.
Qed.

(* ------------------------------------------------------------------ NextFrame at a frame boundary *)
Lemma next_frame_eof c openm lg r : Bnd c openm lg [] r ->
  exists h r', next_frame r = ((h, Some (RIo (if is_some openm then EUnexpected else EEOF))), r')
               /\ r_log r' = lg.
Proof.
  intros [Hcfg (Hw & Ht & Hf) _ Hlog Hst _ _].
  destruct (header_eof (r_src r) Hw Hf Ht) as (s' & Hrd & _).
  unfold next_frame. rewrite Hrd, Hst, st_frag_set.
  destruct (is_some openm); eexists; eexists; (split; [reflexivity|exact Hlog]).
Qed.

Lemma next_frame_spec c openm lg f rest r : wf_cfg c -> Bnd c openm lg (f :: rest) r ->
  exists h e r', next_frame r = ((h, e), r') /\
  match e with
  | Some err =>
      r_log r' = lg /\
      forall k evs, exists out, spec_run c k openm evs (f :: rest) = mkSR evs (partial_of openm) out
                                /\ err_matches out err = true /\ out <> OInvalidUtf8 /\ out <> OClean
  | None =>
      (length (flat (r_src r')) + 2 <= length (flat (r_src r)))%nat /\
      ((exists m, openm = Some m /\ r_frame r' = false /\
          Bnd c openm (lg ++ [mkEv (sf_op f) (sf_payload f) true (m_comp m)]) rest r' /\
          forall k evs, spec_run c k openm evs (f :: rest) =
                        spec_run c (S k) openm (evs ++ [mkEv (sf_op f) (sf_payload f) true (m_comp m)]) rest)
       \/ (h_op h = sf_op f /\ Mid c (msg_of c openm f) f [] (sf_payload f) lg rest r' /\
           forall k evs, spec_run c k openm evs (f :: rest) = spec_data c k (msg_of c openm f) evs f rest))
  end.
Proof.
  intros Hc [Hcfg (Hw & Ht & Hfl) Hwf Hlog Hst Hcz Hmsg].
  pose proof (Forall_inv Hwf) as Hf. pose proof (Forall_inv_tail Hwf) as Hrest. clear Hwf.
  rewrite wire_cons in Hfl.
  assert (Hrw: wf_bytes (wpay f 0 (sf_payload f) ++ wire rest)).
  { apply wf_bytes_app; split; [apply wpay_wf; [exact Hf|apply Hf] | apply wire_wf, Hrest]. }
  destruct (next_frame_reads_header r (sf_header f) _ (sf_header_wf f Hf) Hrw Hw Hfl) as (s1 & Hrd & Hf1 & Hw1 & Ht1).
  rewrite sf_header_norm in Hrd.
  assert (Hlen: (length (flat s1) + 2 <= length (flat (r_src r)))%nat).
  { rewrite Hfl, Hf1, !app_length. pose proof (rfc_header_len2 (sf_header f)). lia. }
  assert (HlenN: Z.to_N (h_len (sf_header f)) = len (sf_payload f)) by (cbn [sf_header h_len]; apply N2Z.id).
  assert (Hop: sf_op f < 16) by apply Hf.
  destruct Hcfg as (Hskip & Hchk & Hmax & Hext & Hcb).
  unfold next_frame. rewrite Hrd, Hskip, Hst, HlenN.
  pose proof (frame_ok_check c (is_some openm) f Hf) as Hck.
  destruct (check_header (sf_header f) (set_fragmented (c_state c) (is_some openm))) as [rl|].
  { do 3 eexists. split; [reflexivity|]. rsimpl. split; [exact Hlog|].
    intros k evs. exists (OProtocol k). rewrite spec_run_cons, Hck. cbn [negb].
    repeat split; discriminate || reflexivity. }
  destruct Hck as [Hok Hbr].
  rewrite Hmax. change (h_len (sf_header f)) with (Z.of_N (len (sf_payload f))).
  destruct ((0 <? c_max c)%Z && (c_max c <? Z.of_N (len (sf_payload f)))%Z) eqn:Hsz.
  { do 3 eexists. split; [reflexivity|]. rsimpl. split; [exact Hlog|].
    intros k evs. exists (OTooLarge k). rewrite spec_run_cons, Hok, Hsz. cbn [negb].
    repeat split; discriminate || reflexivity. }
  rewrite Hext.
  pose proof (ext_step c f (r_compressed r) Hf) as Hx. cbv zeta in Hx.
  destruct Hx as [[Hbad Hx]|(Hgood & hdr' & Hx & Hop' & Hfin')]; rewrite Hx.
  { do 3 eexists. split; [reflexivity|]. rsimpl. split; [exact Hlog|].
    intros k evs. exists (OBadCompression k). rewrite spec_run_cons, Hok, Hsz, Hbad. cbn [negb].
    repeat split; discriminate || reflexivity. }
  rewrite st_frag_set, Hop', Hfin', (control_spec _ Hop).
  assert (Htl: forall s', tl s' = tl (r_src r) -> tl s' = TEOF) by (intros; congruence).
  destruct openm as [[[o p] cm]|]; cbn [is_some andb m_op m_acc m_comp fst snd] in *.
  - destruct Hmsg as (Hfr & Hopc & Hcomp & Hu8 & Hwacc & Hnctl).
    destruct (spec_control (sf_op f)) eqn:Hctl.
    + (* control frame inside a message: callback, drain *)
      assert (Hfd: first_data f = false) by (unfold first_data; rewrite Hctl; reflexivity).
      rewrite Hfd, andb_false_r in *. rewrite Hcb.
      unfold cb_read_all. rsimpl.
      destruct (read_payload s1 f (wire rest) Hf Hw1 Hf1) as (s2 & Hrp & Hf2 & Hw2 & Ht2).
      rewrite Hrp. cbv beta iota zeta. rewrite (unmask_payload' f _ Hf), Hop'.
      unfold raw_drain. rsimpl. rewrite len_wpay, N.sub_diag.
      destruct (read_zero s2 Hw2) as (s3 & Hrz & Hf3 & Hw3 & Ht3). rewrite Hrz. cbv beta iota zeta.
      cbn [option_map].
      do 3 eexists. split; [reflexivity|]. rsimpl.
      split; [rewrite Hf3, Hf2; rewrite Hf1, app_length in Hlen; clear -Hlen; lia|].
      left. exists (o, p, cm). split; [reflexivity|]. split; [exact Hfr|]. split.
      * constructor; rsimpl; cbn [is_some m_op m_acc m_comp fst snd].
        -- unfold cfg_ok; rsimpl. repeat split; assumption || reflexivity.
        -- unfold src_ok; rsimpl. repeat split; [exact Hw3| apply Htl; congruence | congruence].
        -- exact Hrest.
        -- rewrite Hlog, Hcomp. reflexivity.
        -- reflexivity.
        -- exact Hcz.
        -- unfold u8_ok in *; rsimpl. repeat split; try assumption; apply Hu8.
      * intros k evs. rewrite spec_run_cons. cbn [is_some]. rewrite Hok, Hsz, Hfd, Hgood, Hctl. reflexivity.
    + (* continuation frame *)
      pose proof (broken_none _ _ ContinuationExpected Hbr) as Hce.
      cbn [rule_broken sf_header h_op] in Hce. rewrite st_frag_set, Hctl in Hce. cbn [negb andb] in Hce.
      assert (Hfd: first_data f = false) by (unfold first_data; rewrite Hctl; exact Hce).
      rewrite Hfd, andb_false_r in *. cbn [andb].
      do 3 eexists. split; [reflexivity|]. rsimpl. split; [exact Hlen|].
      right. split; [exact Hop'|]. split.
      * constructor; rsimpl; cbn [msg_of m_op m_acc m_comp fst snd].
        -- unfold cfg_ok; rsimpl. repeat split; assumption || reflexivity.
        -- unfold src_ok; rsimpl. rewrite len_nil. repeat split; [exact Hw1| apply Htl, Ht1 | exact Hf1].
        -- exact Hrest.
        -- exact Hf.
        -- reflexivity.
        -- exact Hwacc.
        -- exact Hlog.
        -- apply set_frag_twice, Hc.
        -- reflexivity.
        -- exact Hopc.
        -- left. exact Hcomp.
        -- exact Hcz.
        -- intros; congruence.
        -- reflexivity.
        -- reflexivity.
        -- intros key Hk. cbn [sf_header h_masked h_mask]. rewrite Hk. split; reflexivity.
        -- rewrite Hchk, Hopc. unfold wrap_of. replace (sf_op f =? 1) with false by (clear -Hce; lia).
           reflexivity.
        -- rewrite app_nil_r. unfold u8_ok in *; rsimpl. exact Hu8.
      * intros k evs. rewrite spec_run_cons. cbn [is_some]. rewrite Hok, Hsz, Hfd, Hgood, Hctl. reflexivity.
  - (* first frame of a message, or a control frame outside a message *)
    rename Hmsg into Hu0.
    pose proof (broken_none _ _ ContinuationUnexpected Hbr) as Hcu.
    cbn [rule_broken sf_header h_op] in Hcu. rewrite st_frag_set in Hcu. cbn [negb andb] in Hcu.
    pose proof (broken_none _ _ ControlNotFinal Hbr) as Hcf.
    cbn [rule_broken sf_header h_op h_fin] in Hcf.
    do 3 eexists. split; [reflexivity|]. rsimpl. split; [exact Hlen|].
    right. split; [exact Hop'|]. split.
    + constructor; rsimpl; cbn [msg_of m_op m_acc m_comp fst snd].
      * unfold cfg_ok; rsimpl. repeat split; assumption || reflexivity.
      * unfold src_ok; rsimpl. rewrite len_nil. repeat split; [exact Hw1| apply Htl, Ht1 | exact Hf1].
      * exact Hrest.
      * exact Hf.
      * reflexivity.
      * constructor.
      * exact Hlog.
      * apply set_frag_twice, Hc.
      * reflexivity.
      * reflexivity.
      * destruct (spec_control (sf_op f)) eqn:Hctl; [right; reflexivity|left].
        unfold first_data. rewrite Hctl, Hcu. cbn [negb andb]. rewrite andb_true_r.
        destruct (c_ext c); [reflexivity|]. apply Hcz. reflexivity.
      * intros Hx0. rewrite Hx0. cbn [andb]. apply Hcz, Hx0.
      * intros Hctl. rewrite Hctl in Hcf. cbn [andb] in Hcf. destruct (sf_fin f); [reflexivity|discriminate].
      * reflexivity.
      * reflexivity.
      * intros key Hk. cbn [sf_header h_masked h_mask]. rewrite Hk. split; reflexivity.
      * rewrite Hchk, orb_false_r. reflexivity.
      * unfold u8_ok; rsimpl. rewrite Hu0. repeat split.
        -- destruct (wrap_of c (sf_op f)); reflexivity.
        -- discriminate.
        -- simpl; tauto.
    + intros k evs. rewrite spec_run_cons. cbn [is_some]. rewrite Hok, Hsz, Hgood. cbn [negb].
      destruct (spec_control (sf_op f)) eqn:Hctl; [|reflexivity].
      unfold spec_data, msg_of. cbn [app].
      assert (Hw0: wrap_of c (sf_op f) = false).
      { unfold wrap_of. unfold spec_control in Hctl. replace (sf_op f =? 1) with false by (clear -Hctl; lia).
        apply andb_false_r. }
      rewrite Hw0. cbn [andb]. cbn [andb] in Hcf.
      destruct (sf_fin f); [|discriminate].
      assert (Hcr: c_ext c && rsv1 f = false).
      { unfold first_data in Hgood. rewrite Hctl in Hgood. cbn [negb andb] in Hgood.
        rewrite andb_true_r in Hgood. exact Hgood. }
      rewrite Hcr. reflexivity.
Qed.

(* ------------------------------------------------------------------ Read, unfolded *)
Definition rat_eof (data : list byte) (r2 : reader) : (list byte * option rerror) * reader :=
  if negb (r_rawN r2 =? 0) then ((data, Some (RIo EUnexpected)), r2)
  else if st_fragmented (r_state r2) then ((data, None), reset_fragment r2)
  else if r_check_utf8 r2 && negb (r_u8state r2 =? utf8_accept) then
    ((take (r_u8acc r2) data, Some RInvalidUtf8), r2)
  else ((data, Some (RIo EEOF)), reset r2).
Definition rgo (k : N) (r1 : reader) : (list byte * option rerror) * reader :=
  let '((data, e), r2) := frame_read k r1 in
  match e with
  | Some (RIo EEOF) => rat_eof data r2
  | Some e => ((data, Some e), r2)
  | None => if negb (r_rawN r2 =? 0) then ((data, None), r2) else rat_eof data r2
  end.
Lemma reader_read_eq k r : reader_read k r =
  if r_frame r then rgo k r
  else if negb (st_fragmented (r_state r)) then (([], Some RNoFrameAdvance), r)
  else
    let '((_, e), r1) := next_frame r in
    match e with
    | Some e => (([], Some e), r1)
    | None => if r_frame r1 then rgo k r1 else (([], None), r1)
    end.
Proof. reflexivity. Qed.

Definition mu (r : reader) : nat := (length (flat (r_src r)) + (if r_frame r then 1 else 0))%nat.

Lemma wpay_nil f off : wpay f off [] = [].
Proof. unfold wpay. destruct (sf_key f); reflexivity. Qed.

Definition msg_after (m : msg) (f : sframe) : msg := (m_op m, m_acc m ++ sf_payload f, m_comp m).

(* the end of a frame's payload *)
Lemma rat_eof_spec c m f pre lg rest r d : wf_cfg c -> Mid c m f pre [] lg rest r ->
  (exists r', rat_eof d r = ((d, None), r') /\ sf_fin f = false /\ Bnd c (Some (msg_after m f)) lg rest r'
      /\ flat (r_src r') = flat (r_src r) /\
      forall k evs, spec_data c k m evs f rest = spec_run c (S k) (Some (msg_after m f)) evs rest) \/
  (exists r', rat_eof d r = ((d, Some (RIo EEOF)), r') /\ Bnd c None lg rest r'
      /\ (r_compressed r' = m_comp m \/ spec_control (m_op m) = true)
      /\ flat (r_src r') = flat (r_src r) /\
      forall k evs, spec_data c k m evs f rest =
        spec_run c (S k) None (evs ++ [mkEv (m_op m) (m_acc m ++ sf_payload f) false (m_comp m)]) rest) \/
  (exists d', rat_eof d r = ((d', Some RInvalidUtf8), r) /\
      forall k evs, spec_data c k m evs f rest = mkSR evs [] OInvalidUtf8).
Proof.
  intros Hc [Hcfg (Hw & Ht & Hfl) Hwf Hf Hpay Hwacc Hlog Hst Hfr Hopc Hcompr Hnoext Hctlfin Hraw Hmk Hkey Hwrap Hu8].
  destruct Hcfg as (Hskip & Hchk & Hmax & Hext & Hcb).
  rewrite app_nil_r in Hpay. rewrite wpay_nil in Hfl. cbn [app] in Hfl.
  destruct Hu8 as (Hu1 & Hu2 & Hu3).
  assert (Hwfall: wf_bytes (m_acc m ++ pre)).
  { apply wf_bytes_app. split; [exact Hwacc|]. rewrite <- Hpay. apply Hf. }
  unfold rat_eof. rewrite Hraw, len_nil. cbn [N.eqb negb]. rewrite Hst, st_frag_set.
  destruct m as [[o a] cm]. cbn [m_op m_acc m_comp fst snd] in *. unfold msg_after. cbn [m_op m_acc m_comp fst snd].
  destruct (sf_fin f) eqn:Hfin; cbn [negb].
  - rewrite Hchk, ok_utf8_accept. right.
    destruct (c_check_utf8 c && negb (r_u8state r =? 0)) eqn:Hu.
    + right. eexists. split; [reflexivity|]. intros k evs. unfold spec_data. rewrite Hfin, Hpay.
      destruct (wrap_of c o) eqn:Hwr.
      * rewrite <- dfa_correct by exact Hwfall. rewrite <- Hu1.
        replace (r_u8state r =? 0) with false by (clear -Hu; lia). reflexivity.
      * exfalso. rewrite Hu1 in Hu. cbn [N.eqb negb] in Hu. rewrite andb_false_r in Hu. discriminate.
    + left. eexists. split; [reflexivity|]. split; [|split; [|split]].
      * constructor; rsimpl; cbn [is_some].
        -- unfold cfg_ok; rsimpl. repeat split; assumption.
        -- unfold src_ok; rsimpl. repeat split; assumption.
        -- exact Hwf.
        -- exact Hlog.
        -- exact Hst.
        -- exact Hnoext.
        -- reflexivity.
      * rsimpl. exact Hcompr.
      * reflexivity.
      * intros k evs. unfold spec_data. rewrite Hfin, Hpay.
        destruct (wrap_of c o) eqn:Hwr; [|reflexivity].
        rewrite <- dfa_correct by exact Hwfall. rewrite <- Hu1.
        unfold wrap_of in Hwr. apply andb_true_iff in Hwr. destruct Hwr as [Hwr _]. rewrite Hwr in Hu.
        cbn [andb] in Hu. replace (r_u8state r =? 0) with true by (clear -Hu; lia). reflexivity.
  - left. eexists. split; [reflexivity|]. split; [reflexivity|]. split; [|split].
    + constructor; rsimpl; cbn [is_some m_op m_acc m_comp fst snd].
      * unfold cfg_ok; rsimpl. repeat split; assumption.
      * unfold src_ok; rsimpl. repeat split; assumption.
      * exact Hwf.
      * exact Hlog.
      * exact Hst.
      * exact Hnoext.
      * assert (Hnc: spec_control o = false).
        { destruct (spec_control o); [|reflexivity]. specialize (Hctlfin eq_refl). discriminate. }
        rewrite Hpay. repeat split; try assumption; try reflexivity.
        destruct Hcompr as [Hx|Hx]; [exact Hx|congruence].
    + reflexivity.
    + intros k evs. unfold spec_data. rewrite Hfin, Hpay.
      destruct (wrap_of c o) eqn:Hwr; [|reflexivity].
      rewrite utf8_viable_dfa by exact Hwfall. rewrite <- Hu1.
      replace (r_u8state r =? 12) with false by (clear -Hu2; lia). reflexivity.
Qed.

Lemma cipher_nil key off : cipher [] key off = [].
Proof. reflexivity. Qed.

(* frame.Read on an exhausted payload *)
Lemma frame_read_end c m f pre lg rest r kk : Mid c m f pre [] lg rest r ->
  exists r1, frame_read kk r = (([], Some (RIo EEOF)), r1) /\ Mid c m f pre [] lg rest r1
             /\ flat (r_src r1) = flat (r_src r).
Proof.
  intros [Hcfg Hsrc Hwf Hf Hpay Hwacc Hlog Hst Hfr Hopc Hcompr Hnoext Hctlfin Hraw Hmk Hkey Hwrap Hu8].
  unfold frame_read, raw_read. rewrite Hraw, len_nil. cbn [N.eqb]. cbv beta iota zeta.
  rewrite cipher_nil. change (len (@nil byte)) with 0. rewrite N.add_0_r.
  assert (E1: (if r_masked r then @nil byte else []) = []) by (destruct (r_masked r); reflexivity).
  assert (E2: (if r_masked r then r_cpos r else r_cpos r) = r_cpos r) by (destruct (r_masked r); reflexivity).
  rewrite E1, E2. cbn [u8_scan option_map].
  destruct (r_u8wrap r) eqn:Hw; (eexists; split; [reflexivity|]; split; [|reflexivity]);
    (constructor; rsimpl; try assumption).
Qed.

(* frame.Read with payload bytes left: a non-empty piece of the unmasked payload
   is delivered, or the UTF-8 reader rejects *)
Lemma frame_read_data c m f pre post lg rest r kk : Mid c m f pre post lg rest r -> post <> [] -> 0 < kk ->
  exists d post', post = d ++ post' /\ d <> [] /\
    ((exists d' r1, frame_read kk r = ((d', Some RInvalidUtf8), r1) /\ r_log r1 = lg /\
        wrap_of c (m_op m) = true /\ u8_run 0 (m_acc m ++ pre ++ d) = 12) \/
     (exists r1, frame_read kk r = ((d, None), r1) /\ Mid c m f (pre ++ d) post' lg rest r1 /\
        (length (flat (r_src r1)) < length (flat (r_src r)))%nat)).
Proof.
  intros [Hcfg (Hw & Ht & Hfl) Hwf Hf Hpay Hwacc Hlog Hst Hfr Hopc Hcompr Hnoext Hctlfin Hraw Hmk Hkey Hwrap Hu8] Hne Hk.
  pose proof (len_pos post Hne) as Hlp.
  assert (Hwpost: wf_bytes post).
  { destruct Hf as (_ & _ & Hp & _). rewrite Hpay in Hp. apply wf_bytes_app in Hp. apply Hp. }
  assert (Hwpre: wf_bytes pre).
  { destruct Hf as (_ & _ & Hp & _). rewrite Hpay in Hp. apply wf_bytes_app in Hp. apply Hp. }
  unfold frame_read, raw_read. replace (r_rawN r =? 0) with false by (rewrite Hraw; clear -Hlp; lia).
  pose proof (read1_props_u (N.min kk (r_rawN r)) (r_src r) Hw ltac:(rewrite Hraw; clear -Hlp Hk; lia)) as R.
  pose proof (read1_len (N.min kk (r_rawN r)) (r_src r)) as RL.
  destruct (read1 (N.min kk (r_rawN r)) (r_src r)) as [[b e] s']. cbn [fst] in RL.
  destruct e as [e|].
  { exfalso. destruct R as (_ & R & _). rewrite Hfl in R. apply (f_equal len) in R.
    rewrite len_app, len_wpay, len_nil in R. clear -R Hlp. lia. }
  destruct R as (Hbne & Hsplit & Hw' & Ht').
  rewrite Hfl in Hsplit.
  assert (Hlb: len b <= len post) by (rewrite Hraw in RL; clear -RL; lia).
  destruct (app_split_prefix _ _ _ _ Hsplit ltac:(rewrite len_wpay; exact Hlb)) as [Hb Hrest].
  rewrite wpay_take in Hb by exact Hlb. rewrite wpay_drop in Hrest by exact Hlb.
  set (n := len b) in *. set (d := take n post) in *. set (post' := drop n post) in *.
  assert (Hdp: post = d ++ post') by (symmetry; apply take_drop).
  assert (Hld: len d = n) by (unfold d; rewrite len_take; clear -Hlb; lia).
  assert (Hnpos: 0 < n) by (apply len_pos, Hbne).
  assert (Hdne: d <> []) by (intro E; rewrite E, len_nil in Hld; clear -Hld Hnpos; lia).
  assert (Hwd: wf_bytes d) by (apply wf_bytes_take, Hwpost).
  exists d, post'. split; [exact Hdp|]. split; [exact Hdne|].
  assert (Hb1: (if r_masked r then cipher b (r_key r) (r_cpos r) else b) = d).
  { rewrite Hmk. destruct (sf_key f) as [key|] eqn:Hkk; cbn [is_some].
    - destruct (Hkey key eq_refl) as [-> ->]. rewrite Hb. unfold wpay. rewrite Hkk.
      destruct Hf as (_ & _ & _ & _ & Hkw). rewrite Hkk in Hkw.
      rewrite cipher_is_spec; [apply mask_spec_involutive| |exact Hkw].
      apply mask_spec_wf; [exact Hwd|apply Hkw].
    - rewrite Hb. unfold wpay. rewrite Hkk. reflexivity. }
  assert (Hlenlt: (length (flat s') < length (flat (r_src r)))%nat).
  { rewrite Hfl, Hsplit, !app_length. destruct b; [contradiction|]. cbn [length]. clear. lia. }
  assert (Hsrc': src_ok (mkR s' 0 false false 0 false false CbNone 0 false 0 false [] 0 false 0 0 [])
                        (wpay f (len (pre ++ d)) post' ++ wire rest)).
  { unfold src_ok; rsimpl. rewrite len_app, Hld. repeat split; [exact Hw'|congruence|exact Hrest]. }
  assert (Hkey': forall key, sf_key f = Some key ->
            r_key r = key /\ (if r_masked r then r_cpos r + len b else r_cpos r) = len (pre ++ d)).
  { intros key Hkk. destruct (Hkey key Hkk) as [-> ->]. rewrite Hmk, Hkk. cbn [is_some].
    rewrite len_app, Hld. split; reflexivity. }
  cbn [cut_err option_map]. rsimpl. rewrite Hb1.
  destruct Hu8 as (Hu1 & Hu2 & Hu3).
  rewrite Hwrap. destruct (wrap_of c (m_op m)) eqn:Hwr.
  - pose proof (scan_spec d (r_u8state r) 0 0 Hwd Hu3 Hu2) as S.
    destruct (u8_scan (r_u8state r) 0 0 d) as [[st a] rej]. destruct S as [S1 S2].
    destruct rej.
    + left. destruct (S1 eq_refl) as [Hr12 _]. do 2 eexists. split; [reflexivity|]. rsimpl.
      split; [exact Hlog|]. split; [reflexivity|].
      rewrite app_assoc, run_app. rewrite <- Hu1. exact Hr12.
    + right. destruct (S2 eq_refl) as [Hst' Hst12]. eexists. split; [reflexivity|]. split; [|exact Hlenlt].
      constructor; rsimpl; try assumption.
      * rewrite Hpay, Hdp, app_assoc. reflexivity.
      * rewrite Hraw. unfold post'. rewrite len_drop. fold n. reflexivity.
      * symmetry; exact Hwr.
      * unfold u8_ok; rsimpl. rewrite Hwr. repeat split.
        -- rewrite app_assoc, run_app, <- Hu1. exact Hst'.
        -- exact Hst12.
        -- rewrite Hst'. apply run_states; assumption.
  - right. eexists. split; [reflexivity|]. split; [|exact Hlenlt].
    constructor; rsimpl; try assumption.
    * rewrite Hpay, Hdp, app_assoc. reflexivity.
    * rewrite Hraw. unfold post'. rewrite len_drop. fold n. reflexivity.
    * symmetry; exact Hwr.
    * unfold u8_ok; rsimpl. rewrite Hwr. repeat split; assumption.
Qed.

(* ------------------------------------------------------------------ one Read inside a frame *)
Lemma rgo_step c m f pre post lg rest r kk : wf_cfg c -> Mid c m f pre post lg rest r -> 0 < kk ->
  (exists d post' r', rgo kk r = ((d, None), r') /\ post = d ++ post' /\
      Mid c m f (pre ++ d) post' lg rest r' /\ (mu r' < mu r)%nat) \/
  (exists r', rgo kk r = ((post, None), r') /\ Bnd c (Some (msg_after m f)) lg rest r' /\ (mu r' < mu r)%nat /\
      forall k evs, spec_data c k m evs f rest = spec_run c (S k) (Some (msg_after m f)) evs rest) \/
  (exists r', rgo kk r = ((post, Some (RIo EEOF)), r') /\ Bnd c None lg rest r'
      /\ (r_compressed r' = m_comp m \/ spec_control (m_op m) = true)
      /\ (length (flat (r_src r')) <= length (flat (r_src r)))%nat /\
      forall k evs, spec_data c k m evs f rest =
        spec_run c (S k) None (evs ++ [mkEv (m_op m) (m_acc m ++ sf_payload f) false (m_comp m)]) rest) \/
  (exists d r', rgo kk r = ((d, Some RInvalidUtf8), r') /\ r_log r' = lg /\
      forall k evs, spec_data c k m evs f rest = mkSR evs [] OInvalidUtf8).
Proof.
  intros Hc HM Hk. destruct post as [|x post0].
  - destruct (frame_read_end c m f pre lg rest r kk HM) as (r1 & Hfr & HM1 & Hfl1).
    unfold rgo. rewrite Hfr. cbv beta iota zeta.
    destruct (rat_eof_spec c m f pre lg rest r1 [] Hc HM1)
      as [(r' & He & Hfin & HB & Hfl' & Hsp)|[(r' & He & HB & Hcp & Hfl' & Hsp)|(d' & He & Hsp)]]; rewrite He.
    + right; left. exists r'. split; [reflexivity|]. split; [exact HB|]. split; [|exact Hsp].
      unfold mu. rewrite (m_frame _ _ _ _ _ _ _ _ HM), Hfl', Hfl1.
      destruct (b_msg _ _ _ _ _ HB) as (-> & _). clear. lia.
    + right; right; left. exists r'. split; [reflexivity|]. split; [exact HB|]. split; [exact Hcp|].
      split; [|exact Hsp]. rewrite Hfl', Hfl1. clear. lia.
    + right; right; right. exists d', r1. split; [reflexivity|]. split; [exact (m_log _ _ _ _ _ _ _ _ HM1)|exact Hsp].
  - destruct (frame_read_data c m f pre (x :: post0) lg rest r kk HM ltac:(discriminate) Hk)
      as (d & post' & Hdp & Hdne & [(d' & r1 & Hfr & Hlg & Hwr & H12)|(r1 & Hfr & HM1 & Hlt)]).
    + unfold rgo. rewrite Hfr. cbv beta iota zeta.
      right; right; right. exists d', r1. split; [reflexivity|]. split; [exact Hlg|].
      intros k evs. unfold spec_data. pose proof (m_pay _ _ _ _ _ _ _ _ HM) as Hpay.
      pose proof (m_wfacc _ _ _ _ _ _ _ _ HM) as Hwacc.
      pose proof (m_wff _ _ _ _ _ _ _ _ HM) as (_ & _ & Hwp & _).
      destruct m as [[o a] cm]. cbn [m_op m_acc m_comp fst snd] in *. rewrite Hwr. cbn [andb].
      rewrite Hpay, Hdp in *.
      apply wf_bytes_app in Hwp. destruct Hwp as [Hwpre Hwp]. apply wf_bytes_app in Hwp. destruct Hwp as [Hwd Hwpost'].
      replace (a ++ pre ++ d ++ post') with ((a ++ pre ++ d) ++ post') by (rewrite <- !app_assoc; reflexivity).
      assert (Hw1: wf_bytes (a ++ pre ++ d)).
      { apply wf_bytes_app; split; [exact Hwacc|]. apply wf_bytes_app; split; assumption. }
      destruct (dead_prefix_invalid _ post' Hw1 Hwpost' H12) as [-> ->].
      destruct (sf_fin f); reflexivity.
    + unfold rgo. rewrite Hfr. cbv beta iota zeta. rewrite (m_rawN _ _ _ _ _ _ _ _ HM1).
      destruct post' as [|y post1].
      * rewrite len_nil. cbn [N.eqb negb]. rewrite app_nil_r in Hdp. subst d.
        destruct (rat_eof_spec c m f (pre ++ x :: post0) lg rest r1 (x :: post0) Hc HM1)
          as [(r' & He & Hfin & HB & Hfl' & Hsp)|[(r' & He & HB & Hcp & Hfl' & Hsp)|(d' & He & Hsp)]]; rewrite He.
        -- right; left. exists r'. split; [reflexivity|]. split; [exact HB|]. split; [|exact Hsp].
           unfold mu. rewrite (m_frame _ _ _ _ _ _ _ _ HM), Hfl'.
           destruct (b_msg _ _ _ _ _ HB) as (-> & _). clear -Hlt. lia.
        -- right; right; left. exists r'. split; [reflexivity|]. split; [exact HB|]. split; [exact Hcp|].
           split; [|exact Hsp]. rewrite Hfl'. clear -Hlt. lia.
        -- right; right; right. exists d', r1. split; [reflexivity|].
           split; [exact (m_log _ _ _ _ _ _ _ _ HM1)|exact Hsp].
      * replace (len (y :: post1) =? 0) with false by (rewrite len_cons; clear; lia). cbn [negb].
        left. exists d, (y :: post1), r1. split; [reflexivity|]. split; [exact Hdp|]. split; [exact HM1|].
        unfold mu. rewrite (m_frame _ _ _ _ _ _ _ _ HM), (m_frame _ _ _ _ _ _ _ _ HM1). clear -Hlt. lia.
Qed.
