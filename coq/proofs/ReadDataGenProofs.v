(* ReadDataGenProofs.v — C05/C16 for the ReadData family (helper.go:readData): one call on
   ANY frame stream, complete or cut at an arbitrary byte, EOF or failing tail, meets
   [rx_monitor_gen] (model/ReadDataGen.v).
   The reader-side simulation is the one of ReaderXInv.v / ReaderXProofs.v (source =
   whole frames ++ further bytes [x], any tail); here the per-message lemmas are restated
   with the EXACT events appended to the log (needed to know what the control handler
   answered), Discard is followed on streams that do not end clean, and the loop of
   readData is followed to whatever ends it. *)
Require Import Bytes Stream Utf8Spec Check Frame Cipher Utf8Dfa Extracted ExtractedOk Writer Handler Reader ReadData
  ReadDataGen
  BytesProofs StreamProofs CheckProofs FrameProofs CipherProofs Utf8Proofs ReaderLocalProofs ReaderCutProofs
  ReaderAux ReaderInv ReaderProofs ReaderXInv ReaderXProofs ReaderTotalProofs ReaderMoreProofs ReadDataHandler ReadDataProofs.
Require WriterFrameProofs WriterResetOpProofs.
From Coq Require Import ZifyBool ZifyN ZifyNat.
Open Scope N_scope.

(* ------------------------------------------------------------------ the spec's events on any run *)
(* every intermediate event of ANY run is an acceptable control frame *)
Lemma any_inter_ctl c : forall fs k openm evs, Forall wf_sframe fs ->
  Forall inter_ctl evs -> Forall inter_ctl (sr_events (spec_run c k openm evs fs)).
Proof.
  induction fs as [|f rest IH]; intros k openm evs Hwf Hevs.
  - rewrite spec_run_nil. exact Hevs.
  - inversion Hwf as [|? ? Hf Hrest]; subst. rewrite spec_run_cons.
    destruct (frame_ok c (is_some openm) f) eqn:Hok; cbn [negb]; [|exact Hevs].
    destruct ((0 <? c_max c)%Z && (c_max c <? Z.of_N (len (sf_payload f)))%Z); [exact Hevs|].
    destruct (c_ext c && rsv1 f && negb (first_data f)); [exact Hevs|].
    destruct (spec_control (sf_op f)) eqn:Hctl.
    + apply IH; [exact Hrest|]. apply Forall_app. split; [exact Hevs|]. constructor; [|constructor].
      intros _. destruct (frame_ok_ctl c _ f Hok Hctl) as (Hop & Hl & _).
      unfold ctl_ev. cbn [ev_op ev_payload]. split; [exact Hop|]. split; [apply Hf|exact Hl].
    + unfold spec_data. destruct (msg_of c openm f) as [[o a] cm].
      destruct (wrap_of c o && _); [exact Hevs|].
      destruct (sf_fin f).
      * apply IH; [exact Hrest|]. apply Forall_app. split; [exact Hevs|]. constructor; [|constructor].
        intros H. discriminate H.
      * apply IH; assumption.
Qed.

Lemma all_inter_ctl mid : all_inter mid -> Forall inter_ctl mid -> Forall ctl_ev mid.
Proof.
  induction 1 as [|e0 mid He0 _ IHm]; intros Hi; [constructor|]. inversion Hi; subst. constructor; auto.
Qed.

(* a run over a ++ b when the run over a is accepted: it goes on over b *)
Definition accepted (o : outcome) : Prop := o = OClean \/ o = OCutMidMessage.
Definition open_after (o : outcome) : bool := match o with OCutMidMessage => true | _ => false end.

Lemma spec_run_app_ok c b : forall a k openm evs,
  accepted (sr_out (spec_run c k openm evs a)) ->
  exists openm', spec_run c k openm evs (a ++ b) =
                 spec_run c (k + length a) openm' (sr_events (spec_run c k openm evs a)) b /\
                 is_some openm' = open_after (sr_out (spec_run c k openm evs a)).
Proof.
  induction a as [|f rest IH]; intros k openm evs Hacc.
  - rewrite spec_run_nil in *. cbn [app sr_events sr_out length] in *. exists openm.
    rewrite Nat.add_0_r. split; [reflexivity|]. destruct openm; reflexivity.
  - cbn [app length]. rewrite spec_run_cons in Hacc. rewrite !spec_run_cons.
    replace (k + S (length rest))%nat with (S k + length rest)%nat by lia.
    destruct (negb (frame_ok c (is_some openm) f)); [destruct Hacc as [H|H]; discriminate H|].
    destruct ((0 <? c_max c)%Z && (c_max c <? Z.of_N (len (sf_payload f)))%Z); [destruct Hacc as [H|H]; discriminate H|].
    destruct (c_ext c && rsv1 f && negb (first_data f)); [destruct Hacc as [H|H]; discriminate H|].
    destruct (spec_control (sf_op f)).
    + apply IH, Hacc.
    + unfold spec_data in *. destruct (msg_of c openm f) as [[o p] cm].
      destruct (wrap_of c o && _); [destruct Hacc as [H|H]; discriminate H|].
      destruct (sf_fin f); apply IH, Hacc.
Qed.

(* a run over a ++ b when the run over a is refused: the same refusal *)
Lemma spec_run_app_err c b : forall a k openm evs,
  ~ accepted (sr_out (spec_run c k openm evs a)) ->
  spec_run c k openm evs (a ++ b) = spec_run c k openm evs a.
Proof.
  induction a as [|f rest IH]; intros k openm evs Hacc.
  - exfalso. apply Hacc. rewrite spec_run_nil. cbn [sr_out]. destruct (is_some openm); [right|left]; reflexivity.
  - cbn [app]. rewrite spec_run_cons in Hacc. rewrite !spec_run_cons.
    destruct (negb (frame_ok c (is_some openm) f)); [reflexivity|].
    destruct ((0 <? c_max c)%Z && (c_max c <? Z.of_N (len (sf_payload f)))%Z); [reflexivity|].
    destruct (c_ext c && rsv1 f && negb (first_data f)); [reflexivity|].
    destruct (spec_control (sf_op f)).
    + apply IH, Hacc.
    + unfold spec_data in *. destruct (msg_of c openm f) as [[o p] cm].
      destruct (wrap_of c o && _); [reflexivity|].
      destruct (sf_fin f); apply IH, Hacc.
Qed.

Lemma outcome_accepted_dec o : accepted o \/ ~ accepted o.
Proof. unfold accepted. destruct o; auto; right; intros [H|H]; discriminate H. Qed.

(* ------------------------------------------------------------------ Discard / drain on a cut payload *)
(* the source holds fewer bytes than the open frame's payload still needs (no claim on r_frame:
   Discard does not look at it) *)
Definition ShortD (lg : list event) (r : reader) : Prop :=
  wf_src (r_src r) /\ len (flat (r_src r)) < r_rawN r /\ r_log r = lg.

Lemma short_discard lg fuel r : ShortD lg r ->
  exists e r', discard (S fuel) r = (Some e, r') /\ r_log r' = lg /\ e <> RIo EEOF /\ e <> ROutOfFuel.
Proof.
  intros (Hw & Hlt & Hlog). cbn [discard]. unfold raw_drain.
  pose proof (read_full_short (r_rawN r) (r_src r) Hw Hlt) as R.
  destruct (read_full (r_rawN r) (r_src r)) as [[b e] s']. destruct R as (_ & _ & -> & _).
  destruct (tl (r_src r)); [destruct (len (flat (r_src r)) =? 0)|];
    (do 2 eexists; split; [reflexivity|]; rsimpl; split; [exact Hlog|split; discriminate]).
Qed.

Section Gen.
Variable t : tail.
Variable x : list byte.
Hypothesis Hxwf : wf_bytes x.
(* may the call end with a clean io.EOF when it reaches [x] outside a message? must it? *)
Variable eof_ok : bool.
Variable eof_must : bool.
Hypothesis Hend : forall c openm lg r, wf_cfg c -> BndX t x c openm lg [] r ->
  exists h e r', next_frame r = ((h, e), r') /\
    match e with
    | Some err => r_log r' = lg /\ (err = RIo EEOF -> openm = None /\ eof_ok = true)
    | None => Short lg r'
    end.
Hypothesis Hmust : eof_must = true -> forall c lg r, BndX t x c None lg [] r ->
  exists h r', next_frame r = ((h, Some (RIo EEOF)), r') /\ r_log r' = lg.
Hypothesis Hmo : eof_must = true -> eof_ok = true.

Notation minvG := (minvX t x).
Notation acc := (acc_err eof_ok).

(* the error class when the spec stops with outcome [o] *)
Definition accG (o : outcome) (e : rerror) : Prop :=
  match o with
  | OClean => (e <> RIo EEOF \/ eof_ok = true) /\ (eof_must = true -> e = RIo EEOF)
  | o => acc o e
  end.

Lemma accG_of o e : o <> OClean -> acc o e -> accG o e.
Proof. intros Hn H. destruct o; try exact H. contradiction. Qed.

(* ------------------------------------------------------------------ one Read inside a message, exact log *)
Lemma read_stepG c st lg rest r kk : wf_cfg c -> minvG c st lg rest r -> 0 < kk ->
  (exists d r' st' mid rest', reader_read kk r = ((d, None), r') /\ minvG c st' (lg ++ mid) rest' r' /\
      mdeliv st' = mdeliv st ++ d /\ m_op (mmsg st') = m_op (mmsg st) /\ m_comp (mmsg st') = m_comp (mmsg st) /\
      (mu r' < mu r)%nat /\ all_inter mid /\
      forall k evs, exists k', mspec c k st evs rest = mspec c k' st' (evs ++ mid) rest') \/
  (exists d r' rest', reader_read kk r = ((d, Some (RIo EEOF)), r') /\ BndX t x c None lg rest' r' /\
      (length (flat (r_src r')) <= length (flat (r_src r)))%nat /\
      forall k evs, exists k', mspec c k st evs rest =
        spec_run c k' None (evs ++ [mkEv (m_op (mmsg st)) (mdeliv st ++ d) false (m_comp (mmsg st))]) rest') \/
  (exists d err r', reader_read kk r = ((d, Some err), r') /\ err <> RIo EEOF /\ r_log r' = lg /\
      forall k evs, exists p out, mspec c k st evs rest = mkSR evs p out /\ out <> OClean /\ acc out err) \/
  (exists d r', reader_read kk r = ((d, None), r') /\ Short lg r' /\
      forall k evs, exists p, mspec c k st evs rest = mkSR evs p OCutMidMessage).
Proof.
  intros Hc Hinv Hk. destruct st as [m f pre post|m]; cbn [minvX mspec mdeliv mmsg] in *.
  - (* inside a frame *)
    rewrite reader_read_eq, (mx_frame t x _ _ _ _ _ _ _ _ Hinv).
    pose proof (mx_pay t x _ _ _ _ _ _ _ _ Hinv) as Hpay.
    destruct (rgo_stepX t x c m f pre post lg rest r kk Hc Hinv Hk)
      as [(d & post' & r' & Hr & Hdp & HM & Hmu)|[(r' & Hr & HB & Hmu & Hsp)|[(r' & Hr & HB & Hcp & Hle & Hsp)|(d & r' & Hr & Hlg & Hsp)]]].
    + left. exists d, r', (MMid m f (pre ++ d) post'), [], rest. cbn [minvX mspec mdeliv mmsg]. rewrite app_nil_r.
      split; [exact Hr|]. split; [exact HM|]. split; [apply app_assoc|]. split; [reflexivity|]. split; [reflexivity|].
      split; [exact Hmu|]. split; [constructor|]. intros k evs. exists k. rewrite app_nil_r. reflexivity.
    + left. exists post, r', (MBet (msg_after m f)), [], rest. cbn [minvX mspec mdeliv mmsg]. rewrite app_nil_r.
      split; [exact Hr|]. split; [exact HB|]. split.
      { unfold msg_after. cbn [m_acc fst snd]. rewrite Hpay. apply app_assoc. }
      split; [reflexivity|]. split; [reflexivity|]. split; [exact Hmu|]. split; [constructor|].
      intros k evs. exists (S k). rewrite app_nil_r. apply Hsp.
    + right; left. exists post, r', rest. split; [exact Hr|]. split; [exact HB|].
      split; [exact Hle|]. intros k evs. exists (S k). rewrite Hsp, Hpay, app_assoc. reflexivity.
    + right; right; left. exists d, RInvalidUtf8, r'. split; [exact Hr|]. split; [discriminate|]. split; [exact Hlg|].
      intros k evs. rewrite Hsp. exists [], OInvalidUtf8. split; [reflexivity|]. split; [discriminate|reflexivity].
  - (* between two fragments: the next header first *)
    pose proof (bx_msg t x _ _ _ _ _ Hinv) as (Hfr & _). cbn [is_some] in *.
    rewrite reader_read_eq, Hfr, (bx_state t x _ _ _ _ _ Hinv), st_frag_set. cbn [negb is_some].
    destruct rest as [|f rest].
    + destruct (Hend c (Some m) lg r Hc Hinv) as (h & e & r' & Hnf & H). rewrite Hnf.
      destruct e as [err|].
      * destruct H as [Hlg Heof]. right; right; left. exists [], err, r'. split; [reflexivity|].
        assert (Hne: err <> RIo EEOF) by (intros E; destruct (Heof E) as [E2 _]; discriminate E2).
        split; [exact Hne|]. split; [exact Hlg|]. intros k evs. rewrite spec_run_nil. cbn [is_some].
        do 2 eexists. split; [reflexivity|]. split; [discriminate|exact Hne].
      * pose proof H as (_ & Hfr1 & _). rewrite Hfr1.
        destruct (short_rgo kk lg r' H Hk) as (d & e & r2 & Hr & H2). rewrite Hr.
        destruct e as [err|].
        -- destruct H2 as [Hlg Hne]. right; right; left. exists d, err, r2. split; [reflexivity|].
           split; [exact Hne|]. split; [exact Hlg|]. intros k evs. rewrite spec_run_nil. cbn [is_some].
           do 2 eexists. split; [reflexivity|]. split; [discriminate|exact Hne].
        -- right; right; right. exists d, r2. split; [reflexivity|]. split; [exact H2|].
           intros k evs. rewrite spec_run_nil. cbn [is_some]. eexists. reflexivity.
    + destruct (next_frame_specX t x Hxwf c (Some m) lg f rest r Hc Hinv) as (h & e & r1 & Hnf & H). rewrite Hnf.
      destruct e as [err|].
      * destruct H as (Hlg & Hsp). right; right; left. exists [], err, r1. split; [reflexivity|].
        split.
        { intros ->. destruct (Hsp 0%nat []) as (out & _ & Hem & _ & Hnc).
          destruct out; cbn [err_matches] in Hem; try discriminate. apply Hnc; reflexivity. }
        split; [exact Hlg|].
        intros k evs. destruct (Hsp k evs) as (out & -> & Hem & Hnu & Hnc).
        do 2 eexists. split; [reflexivity|]. split; [exact Hnc|]. apply acc_of_match; assumption.
      * destruct H as (Hlen & [(m0 & Hm0 & Hfr1 & HB & Hsp)|(Hop & HM & Hsp)]).
        -- (* control frame in between *)
           rewrite Hfr1. injection Hm0 as <-. left.
           exists [], r1, (MBet m), [mkEv (sf_op f) (sf_payload f) true (m_comp m)], rest.
           cbn [minvX mspec mdeliv mmsg]. split; [reflexivity|]. split; [exact HB|].
           split; [symmetry; apply app_nil_r|]. split; [reflexivity|]. split; [reflexivity|]. split.
           { unfold mu. rewrite Hfr, Hfr1. clear -Hlen. lia. }
           split; [repeat constructor|].
           intros k evs. exists (S k). apply Hsp.
        -- (* next fragment: its first Read happens in the same call *)
           cbn [msg_of] in *. rewrite (mx_frame t x _ _ _ _ _ _ _ _ HM).
           pose proof (mx_pay t x _ _ _ _ _ _ _ _ HM) as Hpay. cbn [app] in Hpay.
           assert (Hmu1: (mu r1 < mu r)%nat).
           { unfold mu. rewrite Hfr, (mx_frame t x _ _ _ _ _ _ _ _ HM). clear -Hlen. lia. }
           destruct (rgo_stepX t x c m f [] (sf_payload f) lg rest r1 kk Hc HM Hk)
             as [(d & post' & r' & Hr & Hdp & HM' & Hmu)|[(r' & Hr & HB & Hmu & Hsp')|[(r' & Hr & HB & Hcp & Hle & Hsp')|(d & r' & Hr & Hlg & Hsp')]]].
           ++ left. exists d, r', (MMid m f ([] ++ d) post'), [], rest. cbn [minvX mspec mdeliv mmsg]. rewrite app_nil_r.
              split; [exact Hr|]. split; [exact HM'|]. split; [reflexivity|]. split; [reflexivity|].
              split; [reflexivity|]. split; [clear -Hmu Hmu1; lia|]. split; [constructor|].
              intros k evs. exists k. rewrite app_nil_r. apply Hsp.
           ++ left. exists (sf_payload f), r', (MBet (msg_after m f)), [], rest. cbn [minvX mspec mdeliv mmsg].
              rewrite app_nil_r.
              split; [exact Hr|]. split; [exact HB|]. split; [reflexivity|]. split; [reflexivity|].
              split; [reflexivity|]. split; [clear -Hmu Hmu1; lia|]. split; [constructor|].
              intros k evs. exists (S k). rewrite app_nil_r, Hsp. apply Hsp'.
           ++ right; left. exists (sf_payload f), r', rest. split; [exact Hr|]. split; [exact HB|].
              split.
              { unfold mu in Hmu1. rewrite Hfr, (mx_frame t x _ _ _ _ _ _ _ _ HM) in Hmu1. clear -Hle Hmu1. lia. }
              intros k evs. exists (S k). rewrite Hsp, Hsp'. reflexivity.
           ++ right; right; left. exists d, RInvalidUtf8, r'. split; [exact Hr|]. split; [discriminate|].
              split; [exact Hlg|].
              intros k evs. rewrite Hsp, Hsp'. exists [], OInvalidUtf8.
              split; [reflexivity|]. split; [discriminate|reflexivity].
Qed.

(* reading one message to io.EOF: the events appended to the log are exactly the intermediate
   control events the spec emits meanwhile *)
Lemma read_to_eofG c : wf_cfg c -> forall fuel st lg rest r bufs all racc,
  minvG c st lg rest r -> concat (rev_append racc []) = mdeliv st -> (mu r < fuel)%nat ->
  exists p e r2 mid, read_to_eof fuel bufs all r racc = ((p, e), r2) /\ r_log r2 = lg ++ mid /\ all_inter mid /\
   ((e = RIo EEOF /\ exists rest', BndX t x c None (lg ++ mid) rest' r2 /\
        (length (flat (r_src r2)) <= length (flat (r_src r)))%nat /\
        forall k evs, exists k', mspec c k st evs rest =
           spec_run c k' None (evs ++ mid ++ [mkEv (m_op (mmsg st)) p false (m_comp (mmsg st))]) rest')
    \/ (e <> RIo EEOF /\
        forall k evs, exists p' out, mspec c k st evs rest = mkSR (evs ++ mid) p' out /\ out <> OClean /\ acc out e)).
Proof.
  intros Hc. induction fuel as [|fuel IH]; intros st lg rest r bufs all racc Hinv Hacc Hmu; [lia|].
  cbn [read_to_eof]. pose proof (next_buf_pos bufs all) as Hkk.
  destruct (next_buf bufs all) as [kk bufs']. cbn [fst] in Hkk.
  destruct (read_stepG c st lg rest r kk Hc Hinv Hkk)
    as [(d & r' & st' & mid & rest' & Hr & Hinv' & Hdel & Hopq & Hcmq & Hmu' & Hmid & Hsp)
       |[(d & r' & rest' & Hr & HB & Hle & Hsp)|[(d & err & r' & Hr & Hne & Hlg & Hsp)|(d & r' & Hr & HS & Hsp)]]];
    rewrite Hr.
  - assert (Hacc': concat (rev_append (d :: racc) []) = mdeliv st') by (rewrite concat_rev_cons, Hacc, Hdel; reflexivity).
    destruct (IH st' (lg ++ mid) rest' r' bufs' all (d :: racc) Hinv' Hacc' ltac:(lia)) as (p & e & r2 & mid2 & Hrte & Hlg2 & Hmid2 & Hres).
    exists p, e, r2, (mid ++ mid2). split; [exact Hrte|]. rewrite app_assoc. split; [exact Hlg2|].
    split; [apply Forall_app; split; assumption|]. rewrite Hopq, Hcmq in Hres.
    pose proof (mu_le _ _ Hmu') as Hle'.
    destruct Hres as [(He & rest2 & HB & Hle & Hsp2)|(Hne & Hsp2)].
    + left. split; [exact He|]. exists rest2. split; [exact HB|].
      split; [clear -Hle Hle'; lia|]. intros k evs.
      destruct (Hsp k evs) as (k1 & Heq1). destruct (Hsp2 k1 (evs ++ mid)) as (k2 & Heq2).
      exists k2. rewrite Heq1, Heq2, <- !app_assoc. reflexivity.
    + right. split; [exact Hne|]. intros k evs.
      destruct (Hsp k evs) as (k1 & Heq1). rewrite Heq1.
      destruct (Hsp2 k1 (evs ++ mid)) as (p' & out & Heq2 & Hno & Ha). exists p', out.
      rewrite Heq2, <- app_assoc. repeat split; assumption.
  - exists (concat (rev_append (d :: racc) [])), (RIo EEOF), r', []. split; [reflexivity|]. rewrite app_nil_r.
    split; [exact (bx_log t x _ _ _ _ _ HB)|]. split; [constructor|].
    left. split; [reflexivity|]. exists rest'.
    split; [exact HB|]. split; [exact Hle|].
    intros k evs. destruct (Hsp k evs) as (k1 & Heq1). exists k1.
    rewrite concat_rev_cons, Hacc. exact Heq1.
  - exists (concat (rev_append (d :: racc) [])), err, r', []. split; [reflexivity|]. rewrite app_nil_r.
    split; [exact Hlg|]. split; [constructor|]. right. split; [exact Hne|].
    intros k evs. destruct (Hsp k evs) as (p' & out & Heq & Hno & Ha). exists p', out. rewrite app_nil_r.
    repeat split; assumption.
  - destruct (short_read_to_eof lg fuel bufs' all r' (d :: racc) HS) as (p & e & r2 & Hrte & Hlg & Hne).
    exists p, e, r2, []. split; [exact Hrte|]. rewrite app_nil_r. split; [exact Hlg|]. split; [constructor|].
    right. split; [exact Hne|].
    intros k evs. destruct (Hsp k evs) as (p0 & ->). exists p0, OCutMidMessage. rewrite app_nil_r.
    split; [reflexivity|]. split; [discriminate|exact Hne].
Qed.

(* ------------------------------------------------------------------ Discard on any stream *)
(* what Discard of the current message leaves: either the Reader at the frame boundary after
   the message (only intermediate control events logged, the spec has emitted exactly those and
   then the message [ev] nobody read), or an error at the place where the spec stops *)
Definition dresG (c : rcfg) (X : option rerror * reader) (sr : spec_result) (op : N) (lg evs : list event) (n : nat) : Prop :=
  exists mid, all_inter mid /\
   ((exists k' ev rest' r', X = (None, r') /\ BndX t x c None (lg ++ mid) rest' r' /\
       ev_inter ev = false /\ ev_op ev = op /\ sr = spec_run c k' None (evs ++ mid ++ [ev]) rest' /\
       (length (flat (r_src r')) <= n)%nat)
    \/ (exists err r', X = (Some err, r') /\ r_log r' = lg ++ mid /\ err <> RIo EEOF /\
        exists p out, sr = mkSR (evs ++ mid) p out /\ out <> OClean /\ acc out err)).

Lemma dresG_le c X sr op lg evs n n' : (n <= n')%nat -> dresG c X sr op lg evs n -> dresG c X sr op lg evs n'.
Proof.
  intros Hn (mid & Hmid & [(k' & ev & rest' & r' & H1 & H2 & H3 & H4 & H5 & H6)|H]); exists mid; (split; [exact Hmid|]).
  - left. exists k', ev, rest', r'. split; [exact H1|]. split; [exact H2|]. split; [exact H3|].
    split; [exact H4|]. split; [exact H5|]. lia.
  - right. exact H.
Qed.

Lemma dresG_pre c X sr op lg evs n e0 : ev_inter e0 = true ->
  dresG c X sr op (lg ++ [e0]) (evs ++ [e0]) n -> dresG c X sr op lg evs n.
Proof.
  intros He (mid & Hmid & [(k' & ev & rest' & r' & H1 & H2 & H3 & H4 & H5 & H6)|(err & r' & H1 & H2 & H3 & p & out & H4 & H5)]);
    exists ([e0] ++ mid); (split; [constructor; assumption|]).
  - left. exists k', ev, rest', r'. rewrite app_assoc. split; [exact H1|]. split; [exact H2|]. split; [exact H3|].
    split; [exact H4|]. split; [|exact H6].
    rewrite H5, <- !app_assoc. reflexivity.
  - right. exists err, r'. rewrite app_assoc. split; [exact H1|]. split; [exact H2|]. split; [exact H3|]. exists p, out.
    rewrite H4, <- !app_assoc. split; [reflexivity|exact H5].
Qed.

Lemma discardG c : wf_cfg c -> forall fuel st lg rest rn fr s0 k evs,
  minvG c st lg rest rn -> (forall m, st = MBet m -> r_rawN rn = 0) ->
  (length (flat (r_src rn)) < fuel)%nat ->
  (wrap_of c (m_op (mmsg st)) = false \/ sr_out (mspec c k st evs rest) <> OInvalidUtf8) ->
  dresG c (discard fuel (with_fix rn fr s0)) (mspec c k st evs rest) (m_op (mmsg st)) lg evs (length (flat (r_src rn))).
Proof.
  intros Hc. induction fuel as [|fuel IH]; intros st lg rest rn fr s0 k evs Hinv Hraw Hfuel Hu; [lia|].
  (* after the drain, between two fragments *)
  assert (C: forall m lg rest r1n fr st k evs, BndX t x c (Some m) lg rest r1n ->
     (length (flat (r_src r1n)) < S fuel)%nat ->
     (wrap_of c (m_op m) = false \/ sr_out (spec_run c k (Some m) evs rest) <> OInvalidUtf8) ->
     dresG c (let '((_, e2), r2) := next_frame (with_fix r1n fr st) in
             match e2 with Some e2 => (Some e2, reset r2) | None => discard fuel r2 end)
          (spec_run c k (Some m) evs rest) (m_op m) lg evs (length (flat (r_src r1n)))).
  { clear Hinv Hraw Hfuel Hu. clear st lg rest rn fr s0 k evs. intros m lg rest r1n fr st k evs HB Hf Hu.
    destruct (next_frame_fix r1n fr st) as [fr' E]. rewrite E. clear E.
    pose proof (next_frame_gen r1n) as G.
    destruct rest as [|f rest].
    - destruct (Hend c (Some m) lg r1n Hc HB) as (h & e & r' & Hnf & H). rewrite Hnf in *. cbn [fst snd].
      rewrite spec_run_nil. cbn [is_some].
      destruct e as [err|].
      + destruct H as [Hlg Heof].
        assert (Hne: err <> RIo EEOF) by (intros E; destruct (Heof E) as [E2 _]; discriminate E2).
        exists []. split; [constructor|]. right. exists err, (reset (with_fix r' fr' st)). rewrite !app_nil_r.
        split; [reflexivity|]. split; [exact Hlg|]. split; [exact Hne|].
        do 2 eexists. split; [reflexivity|]. split; [discriminate|exact Hne].
      + destruct G as (_ & _ & _ & G). specialize (G eq_refl). unfold rlen in G.
        destruct fuel as [|fuel']; [lia|].
        destruct H as (Hw & _ & Hlt & Hlg).
        destruct (short_discard lg fuel' (with_fix r' fr' st) (conj Hw (conj Hlt Hlg))) as (e & r2 & Hd & Hlg2 & Hne & _).
        rewrite Hd. exists []. split; [constructor|]. right. exists e, r2. rewrite !app_nil_r.
        split; [reflexivity|]. split; [exact Hlg2|]. split; [exact Hne|].
        do 2 eexists. split; [reflexivity|]. split; [discriminate|exact Hne].
    - destruct (next_frame_specX t x Hxwf c (Some m) lg f rest r1n Hc HB) as (h & e & r2 & Hnf & H). rewrite Hnf. cbn [fst snd].
      destruct e as [err|].
      + destruct H as (Hlg & Hsp). destruct (Hsp k evs) as (out & Heq & Hem & Hnu & Hnc). rewrite Heq.
        exists []. split; [constructor|]. right. exists err, (reset (with_fix r2 fr' st)). rewrite !app_nil_r.
        split; [reflexivity|]. split; [exact Hlg|]. split.
        { intros ->. destruct out; cbn [err_matches] in Hem; try discriminate. apply Hnc; reflexivity. }
        do 2 eexists. split; [reflexivity|]. split; [exact Hnc|]. apply acc_of_match; assumption.
      + destruct H as (Hlen & [(m0 & Hm0 & Hfr1 & HB2 & Hsp)|(Hop & HM & Hsp)]).
        * injection Hm0 as <-. rewrite Hsp in Hu |- *.
          pose proof (next_frame_ctl_rawN _ _ _ Hnf Hfr1) as Hr0.
          apply dresG_pre with (e0 := mkEv (sf_op f) (sf_payload f) true (m_comp m)); [reflexivity|].
          eapply dresG_le; [|exact (IH (MBet m) _ rest r2 fr' st (S k) _ HB2 ltac:(intros; exact Hr0) ltac:(lia) Hu)].
          lia.
        * cbn [msg_of] in *. rewrite Hsp in Hu |- *.
          eapply dresG_le; [|exact (IH (MMid m f [] (sf_payload f)) lg rest r2 fr' st k evs HM ltac:(intros; discriminate) ltac:(lia) Hu)].
          lia. }
  cbn [discard]. rewrite raw_drain_fix.
  destruct st as [m f pre post|m]; cbn [minvX mspec mmsg] in *.
  - (* inside a frame: drain it *)
    pose proof Hinv as [Hcfg (Hw & Ht & Hfl) Hwf Hf Hpay Hwacc Hlog Hst Hfr Hopc Hcompr Hnoext Hctlfin HrawN Hmk Hkey Hwrap Hu8].
    rewrite <- app_assoc in Hfl.
    destruct (drain_ok rn (wpay f (len pre) post) (wire rest ++ x) Hw Hfl ltac:(rewrite HrawN, len_wpay; reflexivity))
      as (r1 & Hdr & Hw1 & Ht1 & Hf1 & Hr1 & Hsame).
    rewrite Hdr. cbn [fst snd].
    destruct Hsame as (S1 & S2 & S3 & S4 & S5 & S6 & S7 & S8 & S9 & S10 & S11).
    assert (Hlen1: (length (flat (r_src r1)) <= length (flat (r_src rn)))%nat).
    { rewrite Hf1, Hfl, !app_length. clear. lia. }
    assert (Hcfg1: cfg_ok c r1).
    { unfold cfg_ok in *. rewrite S2, S3, S4, S5, S7. exact Hcfg. }
    change (r_state (with_fix r1 fr s0)) with (r_state r1). rewrite S1, Hst, st_frag_set, negb_involutive.
    destruct m as [[o a] cm]. cbn [m_op m_acc m_comp fst snd] in *.
    unfold spec_data in Hu |- *.
    destruct (wrap_of c o && negb (if sf_fin f then valid_utf8 (a ++ sf_payload f) else utf8_viable (a ++ sf_payload f))) eqn:Hu8b.
    { exfalso. destruct Hu as [Hu|Hu]; [rewrite Hu in Hu8b; discriminate Hu8b|apply Hu; reflexivity]. }
    destruct (sf_fin f) eqn:Hfin.
    + (* last fragment *)
      exists []. split; [constructor|]. left.
      exists (S k), (mkEv o (a ++ sf_payload f) false cm), rest, (reset r1).
      split; [reflexivity|]. rewrite app_nil_r. split.
      { constructor; rsimpl; cbn [is_some].
        - exact Hcfg1.
        - unfold src_okx; rsimpl. repeat split; [exact Hw1|congruence|exact Hf1].
        - exact Hwf.
        - congruence.
        - rewrite S1, Hst. reflexivity.
        - rewrite S6. exact Hnoext.
        - reflexivity. }
      split; [reflexivity|]. split; [reflexivity|]. split; [reflexivity|exact Hlen1].
    + (* more fragments follow *)
      set (m' := (o, a ++ sf_payload f, cm)).
      set (stg := if wrap_of c o then u8_run 0 (a ++ sf_payload f) else 0).
      assert (Hwfacc': wf_bytes (a ++ sf_payload f)) by (apply wf_bytes_app; split; [exact Hwacc|apply Hf]).
      assert (Hnctl: spec_control o = false).
      { destruct (spec_control o); [|reflexivity]. specialize (Hctlfin eq_refl). discriminate. }
      assert (HB1: BndX t x c (Some m') lg rest (with_fix r1 false stg)).
      { constructor; fsimpl; cbn [is_some m_op m_acc m_comp fst snd].
        - exact Hcfg1.
        - unfold src_okx; fsimpl. repeat split; [exact Hw1|congruence|exact Hf1].
        - exact Hwf.
        - congruence.
        - rewrite S1, Hst. reflexivity.
        - rewrite S6. exact Hnoext.
        - unfold m'. cbn [m_op m_acc m_comp fst snd]. split; [reflexivity|]. split; [congruence|]. split.
          { rewrite S6. destruct Hcompr as [Hx|Hx]; [exact Hx|congruence]. }
          split; [|split; assumption].
          unfold u8_ok; fsimpl. split; [reflexivity|]. unfold stg. destruct (wrap_of c o) eqn:Hwr.
          + cbn [andb] in Hu8b. rewrite utf8_viable_dfa in Hu8b by exact Hwfacc'. split.
            * intros E. rewrite E in Hu8b. discriminate Hu8b.
            * apply run_states; [exact Hwfacc'|simpl; tauto].
          + split; [discriminate|simpl; tauto]. }
      change (with_fix r1 fr s0) with (with_fix (with_fix r1 false stg) fr s0).
      assert (Hfu1: (length (flat (r_src (with_fix r1 false stg))) < S fuel)%nat) by (fsimpl; clear -Hlen1 Hfuel; lia).
      eapply dresG_le; [|exact (C m' lg rest (with_fix r1 false stg) fr s0 (S k) evs HB1 Hfu1 Hu)].
      fsimpl. exact Hlen1.
  - (* between two fragments: nothing to drain *)
    specialize (Hraw m eq_refl).
    pose proof Hinv as [Hcfg (Hw & Ht & Hfl) Hwf Hlog Hst Hcz Hmsg].
    destruct (drain_ok rn [] (wire rest ++ x) Hw Hfl Hraw) as (r1 & Hdr & Hw1 & Ht1 & Hf1 & Hr1 & Hsame).
    rewrite Hdr. cbn [fst snd].
    destruct Hsame as (S1 & S2 & S3 & S4 & S5 & S6 & S7 & S8 & S9 & S10 & S11).
    assert (HB1: BndX t x c (Some m) lg rest r1).
    { constructor.
      - unfold cfg_ok in *. rewrite S2, S3, S4, S5, S7. exact Hcfg.
      - unfold src_okx. repeat split; [exact Hw1|congruence|exact Hf1].
      - exact Hwf.
      - congruence.
      - congruence.
      - rewrite S6. exact Hcz.
      - unfold u8_ok in *. rewrite S9, S8, S6, S10. exact Hmsg. }
    change (r_state (with_fix r1 fr s0)) with (r_state r1). rewrite S1, Hst, st_frag_set. cbn [is_some negb].
    assert (Hfu1: (length (flat (r_src r1)) < S fuel)%nat) by (rewrite Hf1; rewrite Hfl in Hfuel; exact Hfuel).
    eapply dresG_le; [|exact (C m lg rest r1 fr s0 k evs HB1 Hfu1 Hu)].
    rewrite Hf1, Hfl. apply le_n.
Qed.

(* ------------------------------------------------------------------ what one call owes *)
Notation nf := WriterResetOpProofs.nf.
Notation wf_pframe := WriterFrameProofs.wf_pframe.

(* [E] = the spec's events, [out] = where it stops *)
Definition rd_okE (state want : N) (E : list event) (out : outcome) (d : dest) (X : rd_result * dest * reader) : Prop :=
  let '(res, d', _) := X in
  exists rf, Forall wf_pframe rf /\ concat (dest_log d') = concat (dest_log d) ++ pwire rf /\
    xreplies_ok state (fst (rxw want E)) rf = true /\
    match snd (rxw want E) with
    | Some xr => rx_result_matches (Some xr) res = true
    | None => exists e, res = RDErr e /\ accG out e
    end.
Definition rd_okG (state want : N) (sr : spec_result) (d : dest) (X : rd_result * dest * reader) : Prop :=
  rd_okE state want (sr_events sr) (sr_out sr) d X.

Lemma rd_okE_stop state want E1 E2 out d d1 rf1 xr res r :
  snd (rxw want E1) = Some xr -> Forall wf_pframe rf1 ->
  concat (dest_log d1) = concat (dest_log d) ++ pwire rf1 ->
  xreplies_ok state (fst (rxw want E1)) rf1 = true -> rx_result_matches (Some xr) res = true ->
  rd_okE state want (E1 ++ E2) out d (res, d1, r).
Proof.
  intros Hx Hwf Hlog Hxs Hres. unfold rd_okE. rewrite rxw_app, Hx. exists rf1.
  rewrite Hx. split; [exact Hwf|]. split; [exact Hlog|]. split; assumption.
Qed.

Lemma rd_okE_cont state want E1 E2 out d d1 rf1 X :
  snd (rxw want E1) = None -> Forall wf_pframe rf1 ->
  concat (dest_log d1) = concat (dest_log d) ++ pwire rf1 ->
  xreplies_ok state (fst (rxw want E1)) rf1 = true ->
  rd_okE state want E2 out d1 X -> rd_okE state want (E1 ++ E2) out d X.
Proof.
  intros Hx Hwf Hlog Hxs H. unfold rd_okE in *. destruct X as [[res d'] r'].
  destruct H as (rf2 & Hwf2 & Hlog2 & Hxs2 & Hres2). rewrite rxw_app, Hx. cbn [fst snd].
  exists (rf1 ++ rf2). split; [apply Forall_app; split; assumption|]. split.
  { rewrite Hlog2, Hlog, pwire_app, app_assoc. reflexivity. }
  split; [apply xreplies_ok_app; assumption|exact Hres2].
Qed.

(* no replies, an error *)
Lemma rd_okE_err state want out d e r : accG out e -> rd_okE state want [] out d (RDErr e, d, r).
Proof.
  intros Ha. unfold rd_okE. cbn [rxw fst snd]. exists []. rewrite pwire_nil, app_nil_r.
  split; [constructor|]. split; [reflexivity|]. split; [reflexivity|]. exists e. split; [reflexivity|exact Ha].
Qed.

Lemma sr_events_pre c k openm evs fs : sr_events (spec_run c k openm evs fs) = evs ++ sr_events (spec_run c k openm [] fs).
Proof. rewrite (spec_run_evs_pre c fs k openm evs). reflexivity. Qed.
Lemma sr_out_pre c k openm evs fs : sr_out (spec_run c k openm evs fs) = sr_out (spec_run c k openm [] fs).
Proof. rewrite (spec_run_evs_pre c fs k openm evs). reflexivity. Qed.

(* a control frame outside a message whose header was accepted *)
Lemma top_ctl c k f rest : wf_sframe f -> spec_control (sf_op f) = true -> sf_fin f = true ->
  spec_run c k None [] (f :: rest) = spec_data c k (sf_op f, [], c_ext c && rsv1 f) [] f rest ->
  (forall cm, ctl_ev (mkEv (sf_op f) (sf_payload f) false cm)) /\
  spec_data c k (sf_op f, [], c_ext c && rsv1 f) [] f rest =
    spec_run c (S k) None [mkEv (sf_op f) (sf_payload f) false (c_ext c && rsv1 f)] rest.
Proof.
  intros Hf Hctl Hfin Hsp.
  assert (E: spec_data c k (sf_op f, [], c_ext c && rsv1 f) [] f rest =
             spec_run c (S k) None [mkEv (sf_op f) (sf_payload f) false (c_ext c && rsv1 f)] rest).
  { unfold spec_data. assert (Hw0: wrap_of c (sf_op f) = false).
    { unfold wrap_of. unfold spec_control in Hctl. replace (sf_op f =? 1) with false by (clear -Hctl; lia).
      apply andb_false_r. }
    rewrite Hw0, Hfin. reflexivity. }
  split; [|exact E]. intros cm.
  rewrite E, spec_run_cons in Hsp. cbn [is_some] in Hsp.
  destruct (frame_ok c false f) eqn:Hok; cbn [negb] in Hsp.
  - destruct (frame_ok_ctl c false f Hok Hctl) as (Hop & Hl & _).
    unfold ctl_ev. cbn [ev_op ev_payload]. split; [exact Hop|]. split; [apply Hf|exact Hl].
  - exfalso. apply (f_equal sr_events) in Hsp. rewrite sr_events_pre in Hsp. discriminate Hsp.
Qed.

Lemma err_decide (e : rerror) : e = RIo EEOF \/ e <> RIo EEOF.
Proof. destruct e as [[| |]| | | | | | | |]; try (right; discriminate). left; reflexivity. Qed.

(* ------------------------------------------------------------------ the loop of readData, on any stream *)
Lemma read_dataG state want c : (state = 1 \/ state = 2) -> wf_cfg c ->
  forall fuel fs k lg r d masks,
  BndX t x c None lg fs r ->
  (N.land want 1 <> 0 \/ sr_out (spec_run c k None [] fs) <> OInvalidUtf8) ->
  nf d -> Forall wf_key masks ->
  (length (wire fs ++ x) + 2 <= fuel)%nat ->
  rd_okG state want (spec_run c k None [] fs) d (read_data fuel want state r d masks).
Proof.
  intros Hst Hc. induction fuel as [|fu IH]; intros fs k lg r d masks HB Hu Hd Hm Hfuel; [lia|].
  unfold rd_okG. cbn [read_data]. pose proof (bx_log t x _ _ _ _ _ HB) as Hlogr. destruct fs as [|f rest].
  - (* the whole frames are used up *)
    rewrite spec_run_nil. cbn [is_some sr_events sr_out].
    destruct eof_must eqn:Emust.
    { destruct (Hmust eq_refl c lg r HB) as (h & r' & Hnf & _). rewrite Hnf. apply rd_okE_err.
      cbn [accG]. split; [right; apply Hmo; reflexivity|reflexivity]. }
    assert (Hacc: forall e, e <> RIo EEOF -> accG OClean e).
    { intros e He. cbn [accG]. split; [left; exact He|intros X; congruence]. }
    destruct (Hend c None lg r Hc HB) as (h & e & r' & Hnf & H). rewrite Hnf.
    destruct e as [err|].
    + destruct H as [_ Heof]. apply rd_okE_err. destruct (err_decide err) as [E|E]; [|apply Hacc, E].
      cbn [accG]. split; [right; apply Heof, E|intros X; congruence].
    + pose proof H as (Hw' & Hfr' & Hlt' & Hlg').
      destruct (op_is_control (h_op h)).
      * destruct (short_read_to_eof lg (S fu) [4096] [4096] r' [] H) as (p & e2 & r2 & Hrte & Hlg2 & Hne).
        rewrite Hrte.
        assert (G: rd_okE state want [] OClean d (RDErr e2, d, r2)) by (apply rd_okE_err, Hacc, Hne).
        destruct e2 as [[| |]| | | | | | | |]; try exact G. exfalso; apply Hne; reflexivity.
      * destruct (N.land (h_op h) want =? 0).
        -- destruct (short_discard lg (length (flat (r_src r'))) r' (conj Hw' (conj Hlt' Hlg'))) as (e2 & r2 & Hdd & Hlg2 & Hne & _).
           rewrite Hdd. rewrite (new_events_mid lg [] r r2 Hlogr ltac:(rewrite app_nil_r; exact Hlg2)).
           cbn [answer_events]. apply rd_okE_err, Hacc, Hne.
        -- destruct (short_read_to_eof lg (S fu) [512] [512] r' [] H) as (p & e2 & r2 & Hrte & Hlg2 & Hne).
           rewrite Hrte. rewrite (new_events_mid lg [] r r2 Hlogr ltac:(rewrite app_nil_r; exact Hlg2)).
           cbn [answer_events].
           assert (G: rd_okE state want [] OClean d (RDErr e2, d, r2)) by (apply rd_okE_err, Hacc, Hne).
           destruct e2 as [[| |]| | | | | | | |]; try exact G. exfalso; apply Hne; reflexivity.
  - pose proof (bx_src t x _ _ _ _ _ HB) as (_ & _ & Hfl).
    pose proof (Forall_inv (bx_wf t x _ _ _ _ _ HB)) as Hwff.
    assert (Hop16: sf_op f < 16) by apply Hwff.
    destruct (next_frame_specX t x Hxwf c None lg f rest r Hc HB) as (h & e & r1 & Hnf & H). rewrite Hnf.
    destruct e as [err|].
    { (* the header is refused *)
      destruct H as (_ & Hsp). destruct (Hsp k []) as (out & Heq & Hem & Hnu & Hnc). rewrite Heq.
      cbn [sr_events sr_out]. apply rd_okE_err, accG_of; [exact Hnc|]. apply acc_of_match; assumption. }
    destruct H as (Hlen & [(m0 & Hm0 & _)|(Hop & HM & Hsp)]); [discriminate|].
    rewrite Hfl in Hlen. cbn [msg_of] in *.
    set (m := (sf_op f, @nil byte, c_ext c && rsv1 f)) in *.
    pose proof (mx_frame t x _ _ _ _ _ _ _ _ HM) as Hfr1.
    assert (Hflen: (length (flat (r_src r1)) + 3 <= fu)%nat) by (clear -Hlen Hfuel; lia).
    assert (Hmu: (mu r1 < S fu)%nat) by (unfold mu; rewrite Hfr1; clear -Hflen; lia).
    assert (Hinter: Forall inter_ctl (sr_events (spec_run c k None [] (f :: rest)))).
    { apply any_inter_ctl; [exact (bx_wf t x _ _ _ _ _ HB)|constructor]. }
    rewrite Hsp in Hinter, Hu |- *. specialize (Hsp k []).
    rewrite Hop. destruct (op_is_control (sf_op f)) eqn:Ectl.
    + (* a control frame outside a message: read it, answer it *)
      rewrite (control_spec _ Hop16) in Ectl.
      destruct (top_ctl c k f rest Hwff Ectl (mx_ctlfin t x _ _ _ _ _ _ _ _ HM Ectl) Hsp) as [Hcev Htop]. fold m in Htop.
      destruct (read_to_eofG c Hc (S fu) (MMid m f [] (sf_payload f)) lg rest r1
                  [4096] [4096] [] HM eq_refl Hmu) as (p & e2 & r2 & mid & Hrte & Hlg2 & Hmid & Hres).
      rewrite Hrte. cbn [mspec mmsg] in Hres.
      destruct Hres as [(-> & rest' & HB' & Hle & Hsp2)|(Hne & Hsp2)].
      2:{ exfalso. destruct (Hsp2 k []) as (p' & out & Heq & _). rewrite Htop in Heq.
          apply (f_equal sr_events) in Heq. rewrite sr_events_pre in Heq. cbn [sr_events app] in Heq.
          destruct mid as [|e0 mid']; [discriminate Heq|]. inversion Hmid as [|? ? He0 _]; subst.
          injection Heq as Heq _. rewrite <- Heq in He0. discriminate He0. }
      destruct (Hsp2 k []) as (k' & Heq). cbn [app] in Heq.
      assert (Hmid0: mid = [] /\ p = sf_payload f).
      { pose proof Heq as Heq0. rewrite Htop in Heq0. apply (f_equal sr_events) in Heq0.
        rewrite (sr_events_pre c (S k)), (sr_events_pre c k') in Heq0.
        destruct mid as [|e0 mid'].
        - cbn [app] in Heq0. injection Heq0 as Hp _. split; [reflexivity|]. cbn [m m_op fst] in Hp. congruence.
        - exfalso. inversion Hmid as [|? ? He0 _]; subst. cbn [app] in Heq0. injection Heq0 as Heq0 _.
          rewrite <- Heq0 in He0. discriminate He0. }
      destruct Hmid0 as [-> ->]. cbn [app] in Heq. rewrite app_nil_r in HB'.
      rewrite Heq, sr_events_pre, sr_out_pre.
      set (ev := mkEv (m_op m) (sf_payload f) false (m_comp m)) in *.
      assert (Hcev': ctl_ev ev) by apply Hcev.
      destruct (handle_payload_spec state want ev masks d Hst Hcev' Hm Hd)
        as (res & d1 & masks1 & bytes & Hh & Hd1 & Hm1 & Hlog1 & (rf1 & Hwf1 & -> & Hx1 & Hres1)).
      change (ev_op ev) with (sf_op f) in Hh. change (ev_payload ev) with (sf_payload f) in Hh.
      rewrite Hh.
      destruct (snd (rxw want [ev])) as [xr|] eqn:Ex.
      * destruct Hres1 as [Hne Hmt].
        assert (G: rd_okE state want ([ev] ++ sr_events (spec_run c k' None [] rest')) (sr_out (spec_run c k' None [] rest')) d (RDHandler res, d1, r2))
          by (eapply rd_okE_stop; eassumption).
        destruct res; try exact G. exfalso. apply Hne. reflexivity.
      * subst res. eapply rd_okE_cont; try eassumption.
        apply IH with (lg := lg); try assumption.
        -- destruct Hu as [Hu|Hu]; [left; exact Hu|right]. rewrite Heq, sr_out_pre in Hu. exact Hu.
        -- pose proof (bx_src t x _ _ _ _ _ HB') as (_ & _ & Hfl'). rewrite <- Hfl'. clear -Hle Hflen. lia.
    + destruct (data_op_small _ Hop16 Ectl) as (Hn9 & Hn10 & Hn8).
      destruct (N.land (sf_op f) want =? 0) eqn:Ewant.
      * (* a data message the caller does not want: discard it, answer what was interleaved *)
        assert (Hu': wrap_of c (m_op (mmsg (MMid m f [] (sf_payload f)))) = false \/
                     sr_out (mspec c k (MMid m f [] (sf_payload f)) [] rest) <> OInvalidUtf8).
        { destruct Hu as [Hu|Hu]; [left|right; exact Hu]. cbn [mmsg m m_op fst]. unfold wrap_of.
          destruct (sf_op f =? 1) eqn:E1; [|apply andb_false_r]. exfalso. apply Hu.
          assert (sf_op f = 1) by (clear -E1; lia). rewrite H in Ewant. rewrite N.land_comm. clear -Ewant. lia. }
        pose proof (discardG c Hc (S (length (flat (r_src r1)))) (MMid m f [] (sf_payload f)) lg rest r1
                      (r_frame r1) (r_u8state r1) k [] HM ltac:(intros; discriminate) ltac:(clear; lia) Hu') as D.
        rewrite with_fix_id in D. cbn [mspec mmsg] in D.
        destruct D as (mid & Hmid & [(k' & ev & rest' & r2 & Hdd & HB' & Hevi & Hevop & Heq & Hle)
                                    |(err & r2 & Hdd & Hlg2 & Hne & p' & out & Heq & Hno & Hacc)]); rewrite Hdd.
        -- cbn [app] in Heq. rewrite Heq in Hinter, Hu |- *. rewrite sr_events_pre in Hinter |- *. rewrite sr_out_pre in Hu |- *.
           rewrite <- app_assoc in Hinter |- *.
           rewrite (new_events_mid lg mid r r2 Hlogr (bx_log t x _ _ _ _ _ HB')).
           assert (Hcmid: Forall ctl_ev mid).
           { apply Forall_app in Hinter. destruct Hinter as [Hi _]. apply all_inter_ctl; assumption. }
           destruct (answer_events_spec state want Hst mid masks d Hcmid Hm Hd)
             as (hr & d1 & masks1 & rf1 & Ha & Hd1 & Hm1 & Hwf1 & Hlog1 & Hx1 & Hres1).
           rewrite Ha.
           destruct (snd (rxw want mid)) as [xr|] eqn:Ex; destruct hr as [res|]; try contradiction.
           ++ eapply rd_okE_stop; eassumption.
           ++ eapply rd_okE_cont; try eassumption.
              assert (Eskip: rxw want ([ev] ++ sr_events (spec_run c k' None [] rest')) =
                             rxw want (sr_events (spec_run c k' None [] rest'))).
              { cbn [app rxw]. cbn [mmsg m m_op fst] in Hevop. rewrite Hevop, Hn9, Hn10, Hn8, Ewant. reflexivity. }
              unfold rd_okE. rewrite Eskip.
              apply IH with (lg := lg ++ mid); try assumption.
              pose proof (bx_src t x _ _ _ _ _ HB') as (_ & _ & Hfl'). rewrite <- Hfl'. clear -Hle Hflen. lia.
        -- cbn [app] in Heq. rewrite Heq in Hinter |- *. cbn [sr_events sr_out] in *.
           rewrite (new_events_mid lg mid r r2 Hlogr Hlg2).
           assert (Hcmid: Forall ctl_ev mid) by (apply all_inter_ctl; assumption).
           destruct (answer_events_spec state want Hst mid masks d Hcmid Hm Hd)
             as (hr & d1 & masks1 & rf1 & Ha & Hd1 & Hm1 & Hwf1 & Hlog1 & Hx1 & Hres1).
           rewrite Ha. rewrite <- (app_nil_r mid).
           destruct (snd (rxw want mid)) as [xr|] eqn:Ex; destruct hr as [res|]; try contradiction.
           ++ eapply rd_okE_stop; eassumption.
           ++ eapply rd_okE_cont; try eassumption. apply rd_okE_err, accG_of; assumption.
      * (* the wanted message: read it, answer what was interleaved *)
        destruct (read_to_eofG c Hc (S fu) (MMid m f [] (sf_payload f)) lg rest r1
                    [512] [512] [] HM eq_refl Hmu) as (p & e2 & r2 & mid & Hrte & Hlg2 & Hmid & Hres).
        rewrite Hrte. cbn [mspec mmsg] in Hres.
        rewrite (new_events_mid lg mid r r2 Hlogr Hlg2).
        destruct Hres as [(-> & rest' & HB' & Hle & Hsp2)|(Hne & Hsp2)].
        -- destruct (Hsp2 k []) as (k' & Heq). cbn [app] in Heq.
           rewrite Heq in Hinter |- *. rewrite sr_events_pre in Hinter |- *. rewrite <- app_assoc in Hinter |- *.
           assert (Hcmid: Forall ctl_ev mid).
           { apply Forall_app in Hinter. destruct Hinter as [Hi _]. apply all_inter_ctl; assumption. }
           destruct (answer_events_spec state want Hst mid masks d Hcmid Hm Hd)
             as (hr & d1 & masks1 & rf1 & Ha & Hd1 & Hm1 & Hwf1 & Hlog1 & Hx1 & Hres1).
           rewrite Ha.
           destruct (snd (rxw want mid)) as [xr|] eqn:Ex; destruct hr as [res|]; try contradiction.
           ++ eapply rd_okE_stop; eassumption.
           ++ eapply rd_okE_cont; try eassumption.
              unfold rd_okE. cbn [app rxw ev_op ev_payload m m_op fst]. rewrite Hn9, Hn10, Hn8, Ewant.
              cbn [negb fst snd rx_result_matches]. exists []. rewrite pwire_nil, app_nil_r.
              split; [constructor|]. split; [reflexivity|]. split; [reflexivity|].
              rewrite N.eqb_refl. apply bytes_eqb_refl.
        -- destruct (Hsp2 k []) as (p' & out & Heq & Hno & Hacc). cbn [app] in Heq.
           rewrite Heq in Hinter |- *. cbn [sr_events sr_out] in *.
           assert (Hcmid: Forall ctl_ev mid) by (apply all_inter_ctl; assumption).
           destruct (answer_events_spec state want Hst mid masks d Hcmid Hm Hd)
             as (hr & d1 & masks1 & rf1 & Ha & Hd1 & Hm1 & Hwf1 & Hlog1 & Hx1 & Hres1).
           rewrite Ha. rewrite <- (app_nil_r mid).
           destruct (snd (rxw want mid)) as [xr|] eqn:Ex; destruct hr as [res|]; try contradiction.
           ++ assert (G: rd_okE state want (mid ++ []) out d (RDHandler res, d1, r2)) by (eapply rd_okE_stop; eassumption).
              destruct e2 as [[| |]| | | | | | | |]; exact G.
           ++ assert (G: rd_okE state want (mid ++ []) out d (RDErr e2, d1, r2)).
              { eapply rd_okE_cont; try eassumption. apply rd_okE_err, accG_of; assumption. }
              destruct e2 as [[| |]| | | | | | | |]; try exact G. exfalso; apply Hne; reflexivity.
Qed.

End Gen.

(* ------------------------------------------------------------------ C05/C16: one ReadData-family call on any stream *)
(* the transport ends (io.EOF) exactly at a frame boundary outside a message *)
Lemma next_frame_eofX c lg r : BndX TEOF [] c None lg [] r ->
  exists h r', next_frame r = ((h, Some (RIo EEOF)), r') /\ r_log r' = lg.
Proof.
  intros [Hcfg (Hw & Ht & Hf) _ Hlog Hst _ _]. rewrite wire_nil in Hf. cbn [app] in Hf.
  destruct (header_eof (r_src r) Hw Hf Ht) as (s' & Hrd & _).
  unfold next_frame. rewrite Hrd, Hst, st_frag_set. cbn [is_some].
  do 2 eexists. split; [reflexivity|exact Hlog].
Qed.

Theorem read_data_meets_spec_gen : forall state want fs cut t s masks fuel,
  (state = 1 \/ state = 2) -> Forall wf_sframe fs -> Forall wf_key masks ->
  (cut <= length (wire fs))%nat ->
  wf_src s -> tl s = t -> flat s = firstn cut (wire fs) -> (cut + 2 <= fuel)%nat ->
  (N.land want 1 <> 0 \/
   sr_out (spec_run (mkCfg state true 0 false) 0 None [] (fst (frames_before (N.of_nat cut) fs))) <> OInvalidUtf8) ->
  let '(res, log) := read_data_call fuel want state s masks in
  rx_monitor_gen state want fs (N.of_nat cut) (tail_fails t) res log = true.
Proof.
  intros state want fs cut t s masks fuel Hst Hfs Hm Hcut Hw Ht Hfl Hfuel Hu.
  set (c := mkCfg state true 0 false) in *.
  assert (Hc: wf_cfg c) by (unfold wf_cfg, c; cbn [c_state]; destruct Hst as [-> | ->]; lia).
  unfold rx_monitor_gen. fold c.
  destruct (frames_before (N.of_nat cut) fs) as [done rest'] eqn:Efb. cbn [fst] in Hu.
  destruct (frames_before_spec _ _ _ _ Efb) as (tailfs & Hsplit & Hcn & Htail).
  assert (Hdone: Forall wf_sframe done /\ Forall wf_sframe tailfs) by (rewrite Hsplit in Hfs; apply Forall_app, Hfs).
  destruct Hdone as [Hdone Htl].
  set (x := take rest' (wire tailfs)).
  assert (Hflx: flat s = wire done ++ x).
  { rewrite Hfl.
    replace (firstn cut (wire fs)) with (take (N.of_nat cut) (wire fs)) by (unfold take; rewrite Nat2N.id; reflexivity).
    rewrite Hsplit, wire_app, Hcn. rewrite take_app_ge by lia.
    replace (len (wire done) + rest' - len (wire done)) with rest' by lia. reflexivity. }
  assert (Hlenx: (length (wire done ++ x) = cut)%nat).
  { rewrite <- Hflx, Hfl. apply firstn_length_le, Hcut. }
  assert (Hxwf: wf_bytes x) by (apply wf_bytes_take, wire_wf, Htl).
  assert (Hrest0: tailfs = [] -> rest' = 0).
  { intros ->. rewrite app_nil_r in Hsplit. subst done.
    assert (N.of_nat cut <= len (wire fs)) by (unfold len; lia). lia. }
  set (hl := match nth_error fs (length done) with
             | Some f => len (rfc_header (sf_header f)) | None => 0 end).
  set (eof_must := match t with TEOF => rest' =? 0 | TFail => false end).
  set (eof_ok := match t with TEOF => (rest' =? 0) || (rest' <? hl) | TFail => false end).
  assert (Hend: forall c openm lg r, wf_cfg c -> BndX t x c openm lg [] r ->
    exists h e r', next_frame r = ((h, e), r') /\
      match e with
      | Some err => r_log r' = lg /\ (err = RIo EEOF -> openm = None /\ eof_ok = true)
      | None => Short lg r'
      end).
  { intros c0 openm lg r0 _ HB0. destruct tailfs as [|f more].
    - specialize (Hrest0 eq_refl). subst rest'.
      destruct (end_header_cut t x c0 openm lg r0 Hxwf eq_refl HB0) as (h & err & r' & Hnf & Hlg & He).
      exists h, (Some err), r'. split; [exact Hnf|]. split; [exact Hlg|].
      intros E. destruct (He E) as [-> ->]. split; reflexivity.
    - assert (Hxf: x = take rest' (sf_wire f)).
      { unfold x. change (f :: more) with ([f] ++ more). rewrite wire_app.
        unfold wire at 1. cbn [map concat]. rewrite app_nil_r. apply take_app_le. lia. }
      rewrite Hxf in HB0.
      assert (Hhl: hl = len (rfc_header (sf_header f))).
      { unfold hl. rewrite Hsplit, nth_error_app2 by lia. rewrite Nat.sub_diag. reflexivity. }
      destruct (cut_end t f rest' c0 openm lg r0 (Forall_inv Htl) Htail HB0) as (h & e & r' & Hnf & H).
      exists h, e, r'. split; [exact Hnf|]. destruct e as [err|]; [|exact H].
      destruct H as [Hlg He]. split; [exact Hlg|]. intros E. destruct (He E) as [-> Ht']. split; [reflexivity|].
      unfold eof_ok. rewrite Hhl. destruct t; [|discriminate Ht']. rewrite Ht'. apply orb_true_r. }
  assert (Hmust: eof_must = true -> forall c lg r, BndX t x c None lg [] r ->
    exists h r', next_frame r = ((h, Some (RIo EEOF)), r') /\ r_log r' = lg).
  { intros Hem c0 lg r0 HB0. unfold eof_must in Hem. destruct t; [|discriminate Hem].
    assert (rest' = 0) by lia. subst rest'. apply (next_frame_eofX c0). exact HB0. }
  assert (Hmo: eof_must = true -> eof_ok = true).
  { unfold eof_must, eof_ok. destruct t; [|discriminate]. intros ->. reflexivity. }
  pose proof (new_reader_bndX t x c done s Hc Hdone Hw Ht Hflx) as HB.
  change (new_reader s (c_state c) false (c_check_utf8 c) (c_max c) (c_ext c) CbReadAll)
    with (new_reader s state false true 0 false CbReadAll) in HB.
  pose proof (read_dataG t x Hxwf eof_ok eof_must Hend Hmust Hmo state want c Hst Hc fuel done 0%nat [] _
                (mkDest [] None) masks HB Hu eq_refl Hm ltac:(lia)) as H.
  unfold read_data_call.
  destruct (read_data fuel want state (new_reader s state false true 0 false CbReadAll) (mkDest [] None) masks)
    as [[res d'] r'].
  unfold rd_okG, rd_okE in H. destruct H as (rf & Hwf & Hlog & Hxs & Hres).
  rewrite rx_walk_nil.
  destruct (rxw want (sr_events (spec_run c 0 None [] done))) as [xs xr]. cbn [fst snd] in *.
  rewrite Hlog. cbn [dest_log d_calls rev_append concat app].
  rewrite frames_of_pwire by exact Hwf. rewrite Hxs. cbn [andb].
  destruct xr as [xr|]; [exact Hres|].
  destruct Hres as (e & -> & Hacc). fold hl.
  unfold accG, acc_err in Hacc. unfold rx_err_class.
  destruct (sr_out (spec_run c 0 None [] done)); try exact Hacc.
  - (* outside a message *)
    destruct Hacc as [Ha Hb]. unfold eof_ok, eof_must in *. destruct t; cbn [tail_fails].
    + destruct (rest' =? 0).
      * rewrite (Hb eq_refl). reflexivity.
      * cbn [orb] in Ha. destruct (rest' <? hl); [reflexivity|].
        apply negb_clean. destruct Ha as [Ha|Ha]; [exact Ha|discriminate Ha].
    + apply negb_clean. destruct Ha as [Ha|Ha]; [exact Ha|discriminate Ha].
  - (* inside a message *)
    apply negb_clean, Hacc.
Qed.

(* ------------------------------------------------------------------ corollaries *)
Lemma frames_before_all : forall fs, frames_before (len (wire fs)) fs = (fs, 0).
Proof.
  induction fs as [|f fs IH]; [reflexivity|]. cbn [frames_before].
  assert (E1: wire [f] = sf_wire f) by (unfold wire; cbn [map concat]; apply app_nil_r).
  change (f :: fs) with ([f] ++ fs). rewrite wire_app, len_app, !E1.
  replace (len (sf_wire f) <=? len (sf_wire f) + len (wire fs)) with true by lia.
  replace (len (sf_wire f) + len (wire fs) - len (sf_wire f)) with (len (wire fs)) by lia.
  rewrite IH. reflexivity.
Qed.

Lemma clean_prefix_accepted c a b k openm evs :
  sr_out (spec_run c k openm evs (a ++ b)) = OClean -> accepted (sr_out (spec_run c k openm evs a)).
Proof.
  intros H. destruct (outcome_accepted_dec (sr_out (spec_run c k openm evs a))) as [Ha|Hn]; [exact Ha|].
  exfalso. rewrite (spec_run_app_err c b a k openm evs Hn) in H. apply Hn. left. exact H.
Qed.

(* the spec on a stream whose frame after [pre] is refused in the state [pre] leaves *)
Lemma spec_run_violation c pre f post rl : wf_sframe f ->
  accepted (sr_out (spec_run c 0 None [] pre)) ->
  check_header (sf_header f) (set_fragmented (c_state c) (open_after (sr_out (spec_run c 0 None [] pre)))) = Some rl ->
  sr_events (spec_run c 0 None [] (pre ++ f :: post)) = sr_events (spec_run c 0 None [] pre) /\
  sr_out (spec_run c 0 None [] (pre ++ f :: post)) = OProtocol (length pre).
Proof.
  intros Hf Hacc Hck.
  destruct (spec_run_app_ok c (f :: post) pre 0%nat None [] Hacc) as (openm' & Heq & Hop).
  rewrite Heq, spec_run_cons. rewrite Hop.
  pose proof (frame_ok_check c (open_after (sr_out (spec_run c 0 None [] pre))) f Hf) as Hfo.
  rewrite Hck in Hfo. rewrite Hfo. cbn [negb sr_events sr_out]. split; reflexivity.
Qed.

(* C05 for the ReadData family *)
Theorem read_data_violation : forall state want pre f post rl s masks fuel,
  (state = 1 \/ state = 2) -> Forall wf_sframe (pre ++ f :: post) -> Forall wf_key masks ->
  let c := mkCfg state true 0 false in
  let sp := spec_run c 0 None [] pre in
  (sr_out sp = OClean \/ sr_out sp = OCutMidMessage) ->
  check_header (sf_header f)
    (set_fragmented state (match sr_out sp with OCutMidMessage => true | _ => false end)) = Some rl ->
  wf_src s -> tl s = TEOF -> flat s = wire (pre ++ f :: post) ->
  (length (wire (pre ++ f :: post)) + 2 <= fuel)%nat ->
  let '(res, log) := read_data_call fuel want state s masks in
  exists rf, frames_of (concat log) = Some rf /\
    xreplies_ok state (fst (rx_walk want (sr_events sp) [])) rf = true /\
    match snd (rx_walk want (sr_events sp) []) with
    | Some xr => rx_result_matches (Some xr) res = true
    | None => exists rl', res = RDErr (RProtocol rl')
    end.
Proof.
  intros state want pre f post rl s masks fuel Hst Hfs Hm c sp Hacc Hck Hw Ht Hfl Hfuel.
  set (fs := pre ++ f :: post) in *.
  assert (Hf: wf_sframe f).
  { unfold fs in Hfs. apply Forall_app in Hfs. destruct Hfs as [_ Hfs]. exact (Forall_inv Hfs). }
  destruct (spec_run_violation c pre f post rl Hf Hacc Hck) as [Hev Hout]. fold fs in Hev, Hout. fold sp in Hev.
  pose proof (read_data_meets_spec_gen state want fs (length (wire fs)) TEOF s masks fuel Hst Hfs Hm (le_n _) Hw Ht
                ltac:(rewrite firstn_all; exact Hfl) Hfuel) as H.
  change (N.of_nat (length (wire fs))) with (len (wire fs)) in H.
  rewrite frames_before_all in H. cbn [fst] in H. fold c in H.
  specialize (H ltac:(right; rewrite Hout; discriminate)).
  destruct (read_data_call fuel want state s masks) as [res log].
  unfold rx_monitor_gen in H. fold c in H. rewrite frames_before_all, Hev, Hout in H.
  destruct (rx_walk want (sr_events sp) []) as [xs xr]. cbn [fst snd].
  destruct (frames_of (concat log)) as [rf|]; [|discriminate H].
  apply andb_true_iff in H. destruct H as [H1 H2]. exists rf. split; [reflexivity|]. split; [exact H1|].
  destruct xr as [xr|]; [exact H2|].
  destruct res as [op p|hr|e]; try discriminate H2.
  unfold rx_err_class in H2. destruct e; cbn [err_matches] in H2; try discriminate H2. eexists. reflexivity.
Qed.

(* C16 for the ReadData family *)
Theorem read_data_cut : forall state want fs cut t s masks fuel,
  (state = 1 \/ state = 2) -> Forall wf_sframe fs -> Forall wf_key masks ->
  sr_out (spec_run (mkCfg state true 0 false) 0 None [] fs) = OClean ->
  (cut < length (wire fs))%nat ->
  wf_src s -> tl s = t -> flat s = firstn cut (wire fs) -> (cut + 2 <= fuel)%nat ->
  let '(res, log) := read_data_call fuel want state s masks in
  rx_monitor_gen state want fs (N.of_nat cut) (tail_fails t) res log = true.
Proof.
  intros state want fs cut t s masks fuel Hst Hfs Hm Hclean Hcut Hw Ht Hfl Hfuel.
  apply read_data_meets_spec_gen; try assumption; [lia|]. right.
  destruct (frames_before (N.of_nat cut) fs) as [done rest'] eqn:Efb. cbn [fst].
  destruct (frames_before_spec _ _ _ _ Efb) as (tailfs & Hsplit & _). rewrite Hsplit in Hclean.
  destruct (clean_prefix_accepted _ _ _ _ _ _ Hclean) as [E|E]; rewrite E; discriminate.
Qed.

(* ------------------------------------------------------------------ the class of an I/O error, on ANY bytes *)
(* whatever the source holds (no assumption that it encodes frames): an I/O error returned by one
   ReadData-family call is the transport's failure exactly when the transport fails (tail TFail),
   and io.EOF / io.ErrUnexpectedEOF when it ends (tail TEOF); the out-of-fuel artefact of the
   model does not occur. *)
Definition io_agrees (t : tail) (x : rerr) : Prop :=
  match t with TFail => x = EFail | TEOF => x <> EFail end.
(* inside a message io.EOF is also the end-of-payload / end-of-message marker *)
Definition io_agrees_m (t : tail) (x : rerr) : Prop := x = EEOF \/ io_agrees t x.
Definition err_cls (P : rerr -> Prop) (e : rerror) : Prop := e <> ROutOfFuel /\ forall x, e = RIo x -> P x.

Lemma read_full_aux_cls : forall cs need got t,
  match snd (fst (read_full_aux need got cs t)) with Some x => io_agrees t x | None => True end.
Proof.
  induction cs as [|c cs IH]; intros need got t; cbn [read_full_aux].
  - destruct (need =? 0); cbn [fst snd]; [exact I|]. destruct t; cbn [io_agrees]; [destruct got; discriminate|reflexivity].
  - destruct (need =? 0); cbn [fst snd]; [exact I|].
    destruct (need <=? len c); cbn [fst snd]; [exact I|].
    specialize (IH (need - len c) (got || negb (len c =? 0)) t).
    destruct (read_full_aux (need - len c) (got || negb (len c =? 0)) cs t) as [[r e] rest].
    exact IH.
Qed.

Lemma read_full_cls need s :
  let '((b, e), s') := read_full need s in
  tl s' = tl s /\ match e with Some x => io_agrees (tl s) x | None => True end.
Proof.
  unfold read_full. pose proof (read_full_aux_cls (chunks s) need false (tl s)) as H.
  destruct (read_full_aux need false (chunks s) (tl s)) as [[r e] rest]. cbn [fst snd] in H.
  split; [reflexivity|exact H].
Qed.

Lemma read1_cls k s :
  let '((b, e), s') := read1 k s in
  tl s' = tl s /\ match e with Some x => io_agrees (tl s) x | None => True end.
Proof.
  unfold read1. destruct (chunks s) as [|c cs].
  - split; [reflexivity|]. destruct (tl s); cbn [io_agrees]; [discriminate|reflexivity].
  - destruct (k <? len c); split; try reflexivity; exact I.
Qed.

Lemma read_header_cls s :
  let '(hr, s') := read_header s in
  tl s' = tl s /\ forall x, hr = inl (HIo x) -> io_agrees (tl s) x.
Proof.
  unfold read_header.
  pose proof (read_full_cls 2 s) as R1. destruct (read_full 2 s) as [[b e] s1]. destruct R1 as [Ht1 Hc1].
  destruct e as [e|].
  { split; [exact Ht1|]. intros x Hx. injection Hx as <-. exact Hc1. }
  destruct (parse_first2 (nthb b 0) (nthb b 1)) as [[h l7] extra].
  destruct (extra =? 0); [split; [exact Ht1|discriminate]|].
  pose proof (read_full_cls extra s1) as R2. destruct (read_full extra s1) as [[x2 e2] s2]. destruct R2 as [Ht2 Hc2].
  rewrite Ht1 in *.
  destruct e2 as [e2|].
  { split; [exact Ht2|]. intros x Hx. injection Hx as <-. exact Hc2. }
  destruct ((l7 =? 127) && negb (N.land (nthb x2 0) 128 =? 0)); [split; [exact Ht2|discriminate]|].
  destruct (if l7 =? 126 then _ else _) as [l x']. split; [exact Ht2|discriminate].
Qed.

Lemma raw_drain_cls r :
  let '(e, r') := raw_drain r in
  tl (r_src r') = tl (r_src r) /\ match e with Some x => io_agrees (tl (r_src r)) x /\ x <> EEOF | None => True end.
Proof.
  unfold raw_drain. pose proof (read_full_cls (r_rawN r) (r_src r)) as R.
  destruct (read_full (r_rawN r) (r_src r)) as [[b e] s']. destruct R as [Ht Hc].
  destruct e as [[| |]|]; rsimpl; (split; [exact Ht|]); try exact I;
    destruct (tl (r_src r)); cbn [io_agrees] in *; split; try discriminate; try reflexivity; try congruence.
Qed.

Lemma cb_read_all_cls h m key r :
  let '(e, r') := cb_read_all h m key r in
  tl (r_src r') = tl (r_src r) /\
  match e with Some e => err_cls (fun x => io_agrees (tl (r_src r)) x /\ x <> EEOF) e | None => True end.
Proof.
  unfold cb_read_all. pose proof (read_full_cls (r_rawN r) (r_src r)) as R.
  destruct (read_full (r_rawN r) (r_src r)) as [[b e] s']. destruct R as [Ht Hc].
  destruct e as [[| |]|]; rsimpl; (split; [exact Ht|]); try exact I;
    (split; [discriminate|]); intros x Hx; injection Hx as <-;
    destruct (tl (r_src r)); cbn [io_agrees] in *; split; try discriminate; try reflexivity; try congruence.
Qed.

(* NextFrame: a transport error, never the end-of-payload marker — except the clean end between messages *)
Lemma next_frame_cls r :
  let '((h, e), r') := next_frame r in
  tl (r_src r') = tl (r_src r) /\
  match e with Some e => err_cls (io_agrees (tl (r_src r))) e | None => True end.
Proof.
  unfold next_frame. rewrite reader_read_header_same.
  pose proof (read_header_cls (r_src r)) as G. destruct (read_header (r_src r)) as [hr s1].
  destruct G as [Ht Hc].
  destruct hr as [e|hdr].
  { rsimpl. split; [exact Ht|]. destruct e as [x| |]; [|split; discriminate..].
    specialize (Hc x eq_refl).
    destruct x; [destruct (st_fragmented (r_state r))|..]; (split; [discriminate|]); intros y Hy; injection Hy as <-;
      try exact Hc; destruct (tl (r_src r)); cbn [io_agrees] in *; congruence. }
  destruct (if r_skip r then None else check_header hdr (r_state r)) as [rl|].
  { rsimpl. split; [exact Ht|]. split; discriminate. }
  destruct ((0 <? r_max r)%Z && (r_max r <? h_len hdr)%Z).
  { rsimpl. split; [exact Ht|]. split; discriminate. }
  destruct (if r_ext r then unset_bits hdr (r_compressed r) else Some (hdr, r_compressed r)) as [[hdr' comp']|].
  2: { rsimpl. split; [exact Ht|]. split; discriminate. }
  destruct (st_fragmented (r_state r) && op_is_control (h_op hdr')).
  2: { rsimpl. split; [exact Ht|exact I]. }
  set (r3 := mkR s1 _ _ _ _ _ _ _ _ _ _ _ _ _ _ _ _ _).
  assert (Ht3: tl (r_src r3) = tl (r_src r)) by exact Ht.
  assert (H4: let '(e, r4) := match r_cb r with CbNone => (None, r3)
                               | CbReadAll => cb_read_all hdr' (h_masked hdr) (if h_masked hdr then h_mask hdr else r_key (set_src r s1)) r3 end in
              tl (r_src r4) = tl (r_src r) /\
              match e with Some e => err_cls (fun x => io_agrees (tl (r_src r)) x /\ x <> EEOF) e | None => True end).
  { destruct (r_cb r).
    - split; [exact Ht3|exact I].
    - pose proof (cb_read_all_cls hdr' (h_masked hdr) (if h_masked hdr then h_mask hdr else r_key (set_src r s1)) r3) as C.
      destruct (cb_read_all _ _ _ r3) as [e r4]. rewrite Ht3 in C. destruct C as [C1 C2]. split; [congruence|exact C2]. }
  destruct (match r_cb r with CbNone => _ | CbReadAll => _ end) as [e r4].
  destruct H4 as [Ht4 Hc4].
  destruct e as [e|].
  { split; [exact Ht4|]. destruct Hc4 as [Hn Hx]. split; [exact Hn|]. intros x E. apply (Hx x E). }
  pose proof (raw_drain_cls r4) as D. destruct (raw_drain r4) as [e2 r5]. rewrite Ht4 in D. destruct D as [D1 D2].
  split; [congruence|]. destruct e2 as [x|]; cbn [option_map]; [|exact I].
  split; [discriminate|]. intros y Hy. injection Hy as <-. apply D2.
Qed.

Lemma frame_read_cls k r :
  let '((d, e), r') := frame_read k r in
  tl (r_src r') = tl (r_src r) /\
  match e with
  | Some e => err_cls (fun x => (x = EEOF /\ r_rawN r' = 0) \/ (io_agrees (tl (r_src r)) x /\ x <> EEOF)) e
  | None => True end.
Proof.
  unfold frame_read, raw_read. destruct (r_rawN r =? 0) eqn:E0.
  { assert (Hr: r_rawN r = 0) by lia. cbv beta iota zeta. rewrite cipher_nil.
    assert (E1: (if r_masked r then @nil byte else []) = []) by (destruct (r_masked r); reflexivity).
    rewrite E1. cbn [u8_scan option_map].
    destruct (r_u8wrap r); rsimpl; (split; [reflexivity|]); (split; [discriminate|]);
      intros x Hx; injection Hx as <-; left; (split; [reflexivity|exact Hr]). }
  pose proof (read1_cls (N.min k (r_rawN r)) (r_src r)) as R.
  destruct (read1 (N.min k (r_rawN r)) (r_src r)) as [[b e] s']. destruct R as [Ht Hc]. rsimpl.
  assert (Hce: match cut_err e with
               | Some x => io_agrees (tl (r_src r)) x /\ x <> EEOF | None => True end).
  { destruct e as [[| |]|]; cbn [cut_err]; try exact I;
      destruct (tl (r_src r)); cbn [io_agrees] in *; split; try discriminate; try reflexivity; congruence. }
  destruct (r_u8wrap r).
  - destruct (u8_scan _ _ _ _) as [[st ac] rej]. destruct rej; rsimpl.
    + split; [exact Ht|]. split; discriminate.
    + split; [exact Ht|]. destruct (cut_err e) as [x|]; cbn [option_map]; [|exact I].
      split; [discriminate|]. intros y Hy. injection Hy as <-. right. exact Hce.
  - rsimpl. split; [exact Ht|]. destruct (cut_err e) as [x|]; cbn [option_map]; [|exact I].
    split; [discriminate|]. intros y Hy. injection Hy as <-. right. exact Hce.
Qed.

Lemma rgo_cls k r :
  let '((d, e), r') := rgo k r in
  tl (r_src r') = tl (r_src r) /\
  match e with Some e => err_cls (io_agrees_m (tl (r_src r))) e | None => True end.
Proof.
  unfold rgo. pose proof (frame_read_cls k r) as F. destruct (frame_read k r) as [[data e] r2].
  destruct F as [Ht Hc].
  assert (A: forall (ok : r_rawN r2 = 0 \/ True), r_rawN r2 = 0 ->
             let '((d, e'), r') := rat_eof data r2 in
             tl (r_src r') = tl (r_src r) /\
             match e' with Some e' => err_cls (io_agrees_m (tl (r_src r))) e' | None => True end).
  { intros _ H0. unfold rat_eof. rewrite H0. cbn [N.eqb negb].
    destruct (st_fragmented (r_state r2)); [split; [exact Ht|exact I]|].
    destruct (_ && _); rsimpl; (split; [exact Ht|]); (split; [discriminate|]); intros x Hx; try discriminate Hx.
    injection Hx as <-. left. reflexivity. }
  destruct e as [e|].
  - destruct Hc as [Hn Hx].
    destruct e as [[| |]| | | | | | | |]; try (split; [exact Ht|]; split; [discriminate|]; intros x E; try discriminate E).
    + destruct (Hx EEOF eq_refl) as [[_ H0]|[_ Hne]]; [|exfalso; apply Hne; reflexivity].
      apply (A (or_intror I) H0).
    + injection E as <-. destruct (Hx EUnexpected eq_refl) as [[E' _]|[Ha _]]; [discriminate E'|right; exact Ha].
    + injection E as <-. destruct (Hx EFail eq_refl) as [[E' _]|[Ha _]]; [discriminate E'|right; exact Ha].
    + exfalso. apply Hn. reflexivity.
  - destruct (negb (r_rawN r2 =? 0)) eqn:E0; [split; [exact Ht|exact I]|].
    apply (A (or_intror I)). lia.
Qed.

Lemma reader_read_cls k r :
  let '((d, e), r') := reader_read k r in
  tl (r_src r') = tl (r_src r) /\
  match e with Some e => err_cls (io_agrees_m (tl (r_src r))) e | None => True end.
Proof.
  rewrite reader_read_eq. destruct (r_frame r); [apply rgo_cls|].
  destruct (negb (st_fragmented (r_state r))).
  { split; [reflexivity|]. split; discriminate. }
  pose proof (next_frame_cls r) as F. destruct (next_frame r) as [[h e] r1]. destruct F as [Ht Hc].
  destruct e as [e|].
  { split; [exact Ht|]. destruct Hc as [Hn Hx]. split; [exact Hn|]. intros x E. right. exact (Hx x E). }
  destruct (r_frame r1); [|split; [exact Ht|exact I]].
  pose proof (rgo_cls k r1) as G. destruct (rgo k r1) as [[d e] r']. rewrite Ht in G. destruct G as [G1 G2].
  split; [congruence|exact G2].
Qed.

Lemma read_to_eof_cls : forall fuel bufs all r racc, wf_src (r_src r) -> (rmeasure r < fuel)%nat ->
  let '((p, e), r') := read_to_eof fuel bufs all r racc in
  tl (r_src r') = tl (r_src r) /\ wf_src (r_src r') /\ (rlen r' <= rlen r)%nat /\
  err_cls (io_agrees_m (tl (r_src r))) e.
Proof.
  induction fuel as [|fuel IH]; intros bufs all r racc Hwf Hm; [lia|].
  cbn [read_to_eof]. pose proof (next_buf_positive bufs all) as Hk.
  destruct (next_buf bufs all) as [k bufs']. cbn [fst] in Hk.
  pose proof (reader_read_gen k r Hwf Hk) as R. pose proof (reader_read_cls k r) as C.
  destruct (reader_read k r) as [[d e] r1].
  destruct R as (Hw1 & Hle1 & Hn1 & Hp1). destruct C as [Ht1 Hc1]. destruct e as [e|].
  - split; [exact Ht1|]. split; [exact Hw1|]. split; [exact Hle1|exact Hc1].
  - specialize (Hp1 eq_refl). specialize (IH bufs' all r1 (d :: racc) Hw1 ltac:(lia)).
    destruct (read_to_eof fuel bufs' all r1 (d :: racc)) as [[p e] r']. rewrite Ht1 in IH.
    destruct IH as (I1 & I2 & I3 & I4). split; [congruence|]. split; [exact I2|]. split; [lia|exact I4].
Qed.

Lemma discard_cls : forall fuel r, wf_src (r_src r) -> (rlen r + 1 <= fuel)%nat ->
  let '(e, r') := discard fuel r in
  tl (r_src r') = tl (r_src r) /\ wf_src (r_src r') /\ (rlen r' <= rlen r)%nat /\
  match e with Some e => err_cls (io_agrees (tl (r_src r))) e | None => True end.
Proof.
  induction fuel as [|fuel IH]; intros r Hwf Hf; [lia|].
  cbn [discard]. pose proof (raw_drain_gen r) as D. pose proof (raw_drain_cls r) as C.
  destruct (raw_drain r) as [e r1]. destruct D as (Hw1 & _ & Hle1). destruct C as [Ht1 Hc1]. specialize (Hw1 Hwf).
  destruct e as [x|].
  { rsimpl. split; [exact Ht1|]. split; [exact Hw1|]. split; [exact Hle1|]. split; [discriminate|].
    intros y Hy. injection Hy as <-. apply Hc1. }
  destruct (negb (st_fragmented (r_state r1))).
  { rsimpl. split; [exact Ht1|]. split; [exact Hw1|]. split; [exact Hle1|exact I]. }
  pose proof (next_frame_gen r1) as F. pose proof (next_frame_cls r1) as C2.
  destruct (next_frame r1) as [[h e2] r2]. rewrite Ht1 in C2.
  destruct F as (Hw2 & Hle2 & Hn2 & Hok2). destruct C2 as [Ht2 Hc2]. specialize (Hw2 Hw1).
  destruct e2 as [e2|].
  { rsimpl. split; [congruence|]. split; [exact Hw2|]. split; [unfold rlen in *; rsimpl; lia|exact Hc2]. }
  specialize (Hok2 eq_refl). specialize (IH r2 Hw2 ltac:(lia)).
  destruct (discard fuel r2) as [e3 r3]. rewrite Ht2 in IH. destruct IH as (I1 & I2 & I3 & I4).
  split; [congruence|]. split; [exact I2|]. split; [lia|exact I4].
Qed.

Lemma read_data_cls want state : forall fuel r d masks, wf_src (r_src r) -> (rlen r + 2 <= fuel)%nat ->
  let '(res, d', r') := read_data fuel want state r d masks in
  forall e, res = RDErr e -> err_cls (io_agrees (tl (r_src r))) e.
Proof.
  induction fuel as [|fu IH]; intros r d masks Hwf Hf; [lia|].
  cbn [read_data].
  pose proof (next_frame_gen r) as F. pose proof (next_frame_cls r) as C.
  destruct (next_frame r) as [[h e] r1]. destruct F as (Hw1 & Hle1 & Hn1 & Hok1). destruct C as [Ht1 Hc1].
  specialize (Hw1 Hwf).
  destruct e as [e|].
  { intros e0 E. injection E as <-. exact Hc1. }
  specialize (Hok1 eq_refl).
  assert (Hstrict: forall e2, err_cls (io_agrees_m (tl (r_src r))) e2 -> e2 <> RIo EEOF -> err_cls (io_agrees (tl (r_src r))) e2).
  { intros e2 [Hn Hx] Hne. split; [exact Hn|]. intros x E. destruct (Hx x E) as [->|Ha]; [|exact Ha].
    exfalso. apply Hne. exact E. }
  destruct (op_is_control (h_op h)).
  - pose proof (read_to_eof_cls (S fu) [4096] [4096] r1 [] Hw1 ltac:(unfold rmeasure; destruct (r_frame r1); lia)) as T.
    destruct (read_to_eof (S fu) [4096] [4096] r1 []) as [[p e2] r2]. rewrite Ht1 in T.
    destruct T as (Ht2 & Hw2 & Hle2 & Hc2).
    assert (G: forall e0, (RDErr e2, d, r2) = (RDErr e0, d, r2) -> e2 <> RIo EEOF -> err_cls (io_agrees (tl (r_src r))) e0).
    { intros e0 E Hne. injection E as <-. apply Hstrict; assumption. }
    destruct e2 as [[| |]| | | | | | | |]; try (intros e0 E; injection E as <-; apply Hstrict; [exact Hc2|discriminate]).
    destruct (handle_payload state (h_op h) p masks d) as [[res d'] masks'].
    destruct res; try (intros e0 E; discriminate E).
    specialize (IH r2 d' masks' Hw2 ltac:(lia)).
    destruct (read_data fu want state r2 d' masks') as [[res2 d2] r3]. rewrite Ht2 in IH. exact IH.
  - destruct (N.land (h_op h) want =? 0).
    + pose proof (discard_cls (S (length (flat (r_src r1)))) r1 Hw1 ltac:(unfold rlen; lia)) as T.
      destruct (discard (S (length (flat (r_src r1)))) r1) as [e2 r2]. rewrite Ht1 in T.
      destruct T as (Ht2 & Hw2 & Hle2 & Hc2).
      destruct (answer_events state (new_events (length (r_log r)) r2) masks d) as [[hr d'] masks'].
      destruct hr as [res|]; [intros e0 E; discriminate E|].
      destruct e2 as [e2|]; [intros e0 E; injection E as <-; exact Hc2|].
      specialize (IH r2 d' masks' Hw2 ltac:(lia)).
      destruct (read_data fu want state r2 d' masks') as [[res2 d2] r3]. rewrite Ht2 in IH. exact IH.
    + pose proof (read_to_eof_cls (S fu) [512] [512] r1 [] Hw1 ltac:(unfold rmeasure; destruct (r_frame r1); lia)) as T.
      destruct (read_to_eof (S fu) [512] [512] r1 []) as [[p e2] r2]. rewrite Ht1 in T.
      destruct T as (Ht2 & Hw2 & Hle2 & Hc2).
      destruct (answer_events state (new_events (length (r_log r)) r2) masks d) as [[hr d'] masks'].
      destruct hr as [res|]; [intros e0 E; discriminate E|].
      destruct e2 as [[| |]| | | | | | | |]; try (intros e0 E; injection E as <-; apply Hstrict; [exact Hc2|discriminate]).
      intros e0 E; discriminate E.
Qed.

Theorem read_data_error_class : forall fuel want state s masks,
  wf_src s -> (length (flat s) + 2 <= fuel)%nat ->
  forall e, fst (read_data_call fuel want state s masks) = RDErr e ->
  e <> ROutOfFuel /\
  forall x, e = RIo x -> match tl s with TFail => x = EFail | TEOF => x <> EFail end.
Proof.
  intros fuel want state s masks Hw Hf e. unfold read_data_call.
  pose proof (read_data_cls want state fuel (new_reader s state false true 0 false CbReadAll) (mkDest [] None) masks Hw Hf) as H.
  destruct (read_data fuel want state (new_reader s state false true 0 false CbReadAll) (mkDest [] None) masks) as [[res d] r'].
  cbn [fst]. intros E. exact (H e E).
Qed.
