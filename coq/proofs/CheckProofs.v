Require Import Bytes Utf8Spec Check BytesProofs.
From Coq Require Import ZifyBool ZifyN ZifyNat.
Open Scope N_scope.

Lemma op_cases (P : N -> Prop) :
  P 0 -> P 1 -> P 2 -> P 3 -> P 4 -> P 5 -> P 6 -> P 7 -> P 8 -> P 9 -> P 10 -> P 11 ->
  P 12 -> P 13 -> P 14 -> P 15 -> forall c, c < 16 -> P c.
Proof.
  intros. 
  assert (E: c = 0 \/ c = 1 \/ c = 2 \/ c = 3 \/ c = 4 \/ c = 5 \/ c = 6 \/ c = 7 \/ c = 8 \/
             c = 9 \/ c = 10 \/ c = 11 \/ c = 12 \/ c = 13 \/ c = 14 \/ c = 15) by lia.
  repeat (destruct E as [->|E]; [assumption|]). subst; assumption.
Qed.

Lemma control_spec c : c < 16 -> op_is_control c = spec_control c.
Proof. revert c. apply op_cases; reflexivity. Qed.
Lemma reserved_spec c : c < 16 -> op_is_reserved c = spec_reserved c.
Proof. revert c. apply op_cases; reflexivity. Qed.

(* the cascade rewritten over the spec predicates *)
Lemma check_header_unfold h s : h_op h < 16 ->
  check_header h s =
  if rule_broken ReservedOp h s then Some ReservedOp
  else if rule_broken ControlTooLong h s then Some ControlTooLong
  else if rule_broken ControlNotFinal h s then Some ControlNotFinal
  else if rule_broken RsvWithoutExt h s then Some RsvWithoutExt
  else if rule_broken MaskRequired h s then Some MaskRequired
  else if rule_broken MaskUnexpected h s then Some MaskUnexpected
  else if rule_broken ContinuationExpected h s then Some ContinuationExpected
  else if rule_broken ContinuationUnexpected h s then Some ContinuationUnexpected
  else None.
Proof.
  intros Hop. unfold check_header, rule_broken, max_control_payload.
  rewrite (control_spec _ Hop), (reserved_spec _ Hop). reflexivity.
Qed.

Lemma check_header_sound h s r : h_op h < 16 ->
  check_header h s = Some r -> rule_broken r h s = true.
Proof.
  intros Hop. rewrite (check_header_unfold h s Hop).
  repeat match goal with
  | |- (if ?c then _ else _) = _ -> _ => destruct c eqn:?
  end; intros E; inversion E; subst; assumption.
Qed.

Lemma check_header_none h s : h_op h < 16 ->
  (check_header h s = None <-> broken h s = []).
Proof.
  intros Hop. rewrite (check_header_unfold h s Hop). unfold broken, all_rules. cbn [filter].
  destruct (rule_broken ReservedOp h s); [split; discriminate|].
  destruct (rule_broken ControlTooLong h s); [split; discriminate|].
  destruct (rule_broken ControlNotFinal h s); [split; discriminate|].
  destruct (rule_broken RsvWithoutExt h s); [split; discriminate|].
  destruct (rule_broken MaskRequired h s); [split; discriminate|].
  destruct (rule_broken MaskUnexpected h s); [split; discriminate|].
  destruct (rule_broken ContinuationExpected h s); [split; discriminate|].
  destruct (rule_broken ContinuationUnexpected h s); [split; discriminate|].
  split; reflexivity.
Qed.

Lemma in_broken r h s : rule_broken r h s = true -> In r (broken h s).
Proof.
  intros H. unfold broken. apply filter_In. split; [|exact H].
  destruct r; simpl; tauto.
Qed.

(* close codes: arithmetic, for every N (hence every uint16) *)
Lemma check_close_accept c r :
  must_accept c = true -> valid_utf8 r = true -> check_close c r = None.
Proof.
  unfold must_accept, check_close, check_close_gen, sc_not_used, sc_protocol_reserved,
    sc_protocol_spec, sc_protocol_defined, in_range.
  intros Hc Hr. rewrite Hr.
  destruct (_ && _) eqn:E0 at 1; [lia|].
  destruct (_ || _) eqn:E1 at 1; [lia|].
  destruct (c =? 1004) eqn:E2; [lia|].
  destruct (_ && _) eqn:E3 at 1; [lia|]. reflexivity.
Qed.

Lemma check_close_refuse_code c r :
  must_refuse c = true -> check_close c r <> None.
Proof.
  unfold must_refuse, must_accept, left_open, check_close, check_close_gen, sc_not_used,
    sc_protocol_reserved, sc_protocol_spec, sc_protocol_defined, in_range.
  intros Hc.
  destruct (_ && _) eqn:E0 at 1; [discriminate|].
  destruct (_ || _) eqn:E1 at 1; [discriminate|].
  destruct (c =? 1004) eqn:E2; [discriminate|].
  destruct (_ && _) eqn:E3 at 1; [discriminate|]. lia.
Qed.

Lemma check_close_refuse_utf8 c r :
  valid_utf8 r = false -> check_close c r <> None.
Proof.
  unfold check_close, check_close_gen. intros ->.
  destruct (sc_not_used c); [discriminate|].
  destruct (sc_protocol_reserved c); [discriminate|].
  destruct (c =? 1004); [discriminate|].
  destruct (_ && _); discriminate.
Qed.

(* close body *)
Lemma be2_roundtrip c : c < 65536 ->
  match be_bytes 2 c with a :: b :: nil => be_val [a; b] = c | _ => False end.
Proof.
  intros Hc. cbn [be_bytes be_val len length N.of_nat].
  change (256 ^ N.of_nat 1) with 256. change (256 ^ N.of_nat 0) with 1.
  change (256 ^ N.pos 1) with 256. change (256 ^ 0) with 1. lia.
Qed.

Lemma close_body_len c r : len (new_close_body c r) = N.min (2 + len r) 125.
Proof.
  unfold new_close_body, len. rewrite app_length, firstn_length. cbn [be_bytes length]. lia.
Qed.

Lemma close_body_parse c r : c < 65536 ->
  parse_close (new_close_body c r) = (c, firstn 123 r).
Proof.
  intros Hc. unfold new_close_body. pose proof (be2_roundtrip c Hc) as H.
  destruct (be_bytes 2 c) as [|a [|b [|x y]]]; try contradiction.
  cbn [app parse_close]. rewrite H. reflexivity.
Qed.

Lemma parse_close_short p : (length p < 2)%nat -> parse_close p = (0, []).
Proof. destruct p as [|a [|b r]]; simpl; intros; try reflexivity; lia. Qed.

Lemma close_body_wf c r : wf_bytes r -> wf_bytes (new_close_body c r).
Proof.
  intros Hr. unfold new_close_body, wf_bytes. apply Forall_app. split.
  - cbn [be_bytes]. repeat constructor; unfold wf_byte; apply N.mod_lt; lia.
  - apply Forall_forall. intros x Hx. apply (proj1 (Forall_forall _ _) Hr). eapply In_firstn, Hx.
Qed.
