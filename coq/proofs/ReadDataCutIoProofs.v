(* ReadDataCutIoProofs.v — C16 for the ReadData family, the class of the error on a cut VALID
   stream: it is always an I/O error (with ReadDataGenProofs.read_data_error_class:
   io.ErrUnexpectedEOF / io.EOF where a clean end is allowed / the transport's own failure),
   never a protocol or UTF-8 error caused by the cut.
   Method: coupling. The call on the cut source [s] is compared with the same call on the
   source [up s] = the same chunks followed by the rest of the stream: every operation either
   returns the same on both and leaves the readers coupled, or — the cut source ran dry —
   returns an I/O error. The complete stream is judged by read_data_meets_spec_gen. *)
Require Import Bytes Stream Utf8Spec Check Frame Cipher Utf8Dfa Extracted ExtractedOk Writer Handler Reader ReadData
  ReadDataGen
  BytesProofs StreamProofs CheckProofs FrameProofs CipherProofs Utf8Proofs ReaderLocalProofs ReaderCutProofs
  ReaderAux ReaderInv ReaderProofs ReaderXInv ReaderXProofs ReaderTotalProofs ReaderMoreProofs ReadDataHandler ReadDataProofs
  ReadDataGenProofs.
From Coq Require Import ZifyBool ZifyN ZifyNat.
Open Scope N_scope.

Section Up.
Variable E : list (list byte).
Variable tf : tail.

Definition up (s : src) : src := mkSrc (chunks s ++ E) tf.
Definition upr (r : reader) : reader := set_src r (up (r_src r)).

Lemma read_full_aux_up : forall cs need got got' t b rest,
  read_full_aux need got cs t = ((b, None), rest) ->
  read_full_aux need got' (cs ++ E) tf = ((b, None), rest ++ E).
Proof.
  induction cs as [|c cs IH]; intros need got got' t b rest; cbn [read_full_aux app].
  - destruct (need =? 0) eqn:E0.
    + intros H. injection H as <- <-. cbn [app]. destruct E as [|c0 E0']; cbn [read_full_aux]; rewrite E0; reflexivity.
    + discriminate.
  - destruct (need =? 0) eqn:E0.
    { intros H. injection H as <- <-. reflexivity. }
    destruct (need <=? len c) eqn:E1.
    { intros H. injection H as <- <-. destruct (need =? len c); reflexivity. }
    destruct (read_full_aux (need - len c) (got || negb (len c =? 0)) cs t) as [[r e] rest0] eqn:R.
    intros H. injection H as <- -> <-. rewrite (IH _ _ (got' || negb (len c =? 0)) _ _ _ R). reflexivity.
Qed.

Lemma read_full_up need s b s' : read_full need s = ((b, None), s') -> read_full need (up s) = ((b, None), up s').
Proof.
  unfold read_full. destruct (read_full_aux need false (chunks s) (tl s)) as [[r e] rest] eqn:R.
  intros H. injection H as <- -> <-. cbn [up chunks tl].
  rewrite (read_full_aux_up _ _ _ false _ _ _ R). reflexivity.
Qed.

Lemma read1_up k s b s' : read1 k s = ((b, None), s') -> read1 k (up s) = ((b, None), up s').
Proof.
  unfold read1. cbn [up chunks tl]. destruct (chunks s) as [|c cs]; [discriminate|]. cbn [app].
  destruct (k <? len c); intros H; injection H as <- <-; reflexivity.
Qed.

Lemma read_header_up s hr s' : read_header s = (hr, s') -> (forall x, hr <> inl (HIo x)) ->
  read_header (up s) = (hr, up s').
Proof.
  unfold read_header. destruct (read_full 2 s) as [[b e] s1] eqn:R1.
  destruct e as [e|].
  { intros H Hn. injection H as <- _. exfalso. apply (Hn e). reflexivity. }
  rewrite (read_full_up _ _ _ _ R1).
  destruct (parse_first2 (nthb b 0) (nthb b 1)) as [[h l7] extra].
  destruct (extra =? 0).
  { intros H _. injection H as <- <-. reflexivity. }
  destruct (read_full extra s1) as [[x2 e2] s2] eqn:R2.
  destruct e2 as [e2|].
  { intros H Hn. injection H as <- _. exfalso. apply (Hn e2). reflexivity. }
  rewrite (read_full_up _ _ _ _ R2).
  destruct ((l7 =? 127) && negb (N.land (nthb x2 0) 128 =? 0)).
  { intros H _. injection H as <- <-. reflexivity. }
  destruct (if l7 =? 126 then _ else _) as [l x'].
  intros H _. injection H as <- <-. reflexivity.
Qed.

Lemma upr_reset r : upr (reset r) = reset (upr r).
Proof. reflexivity. Qed.
Lemma upr_reset_fragment r : upr (reset_fragment r) = reset_fragment (upr r).
Proof. reflexivity. Qed.

Lemma raw_drain_up r r' : raw_drain r = (None, r') -> raw_drain (upr r) = (None, upr r').
Proof.
  unfold raw_drain. cbn [upr set_src r_src r_rawN].
  destruct (read_full (r_rawN r) (r_src r)) as [[b e] s'] eqn:R.
  destruct e as [[| |]|]; try discriminate. rewrite (read_full_up _ _ _ _ R).
  intros H. injection H as <-. reflexivity.
Qed.

Lemma raw_drain_err r x r' : raw_drain r = (Some x, r') -> x <> EEOF.
Proof.
  unfold raw_drain. destruct (read_full (r_rawN r) (r_src r)) as [[b e] s'].
  destruct e as [[| |]|]; intros H; try discriminate H; injection H as Hx _; subst x; discriminate.
Qed.

Lemma cb_read_all_up h m k r r' : cb_read_all h m k r = (None, r') -> cb_read_all h m k (upr r) = (None, upr r').
Proof.
  unfold cb_read_all. cbn [upr set_src r_src r_rawN].
  destruct (read_full (r_rawN r) (r_src r)) as [[b e] s'] eqn:R.
  destruct e as [[| |]|]; try discriminate. rewrite (read_full_up _ _ _ _ R).
  intros H. injection H as <-. reflexivity.
Qed.

Ltac usimpl := cbn [upr up r_src r_state r_skip r_check_utf8 r_max r_ext r_compressed r_cb r_opcode r_frame
  r_rawN r_masked r_key r_cpos r_u8wrap r_u8state r_u8acc r_log set_src reset reset_fragment fst snd].

Lemma cb_read_all_io h m k r e r' : cb_read_all h m k r = (Some e, r') -> exists x, e = RIo x /\ x <> EEOF.
Proof.
  intros H. pose proof (cb_read_all_err h m k r e) as G. rewrite H in G. cbn [fst] in G.
  destruct (G eq_refl) as [-> | ->]; eexists; (split; [reflexivity|discriminate]).
Qed.

Lemma next_frame_up r h e r' : next_frame r = ((h, e), r') ->
  next_frame (upr r) = ((h, e), upr r') \/
  (exists x, e = Some (RIo x) /\ (x = EEOF -> st_fragmented (r_state r) = false)).
Proof.
  unfold next_frame. usimpl. rewrite (reader_read_header_same (r_src r)), (reader_read_header_same (up (r_src r))).
  destruct (read_header (r_src r)) as [hr s1] eqn:Hh.
  destruct hr as [he|hdr].
  - destruct he as [x| |].
    + intros H. injection H as _ <- _. right.
      destruct x; [destruct (st_fragmented (r_state r)) eqn:Ef|..]; eexists; (split; [reflexivity|]);
        intros Hx; try discriminate Hx; reflexivity.
    + rewrite (read_header_up _ _ _ Hh) by discriminate. intros H; injection H as <- <- <-. left. reflexivity.
    + rewrite (read_header_up _ _ _ Hh) by discriminate. intros H; injection H as <- <- <-. left. reflexivity.
  - rewrite (read_header_up _ _ _ Hh) by discriminate.
    destruct (if r_skip r then None else check_header hdr (r_state r)) as [rl|].
    { intros H; injection H as <- <- <-. left. reflexivity. }
    destruct ((0 <? r_max r)%Z && (r_max r <? h_len hdr)%Z).
    { intros H; injection H as <- <- <-. left. reflexivity. }
    destruct (if r_ext r then unset_bits hdr (r_compressed r) else Some (hdr, r_compressed r)) as [[hdr' comp']|].
    2:{ intros H; injection H as <- <- <-. left. reflexivity. }
    destruct (st_fragmented (r_state r) && op_is_control (h_op hdr')).
    2:{ intros H; injection H as <- <- <-. left. reflexivity. }
    destruct (r_cb r).
    + match goal with |- context [raw_drain ?d] => destruct (raw_drain d) as [e2 r5] eqn:Hd end.
      intros H; injection H as <- <- <-.
      destruct e2 as [x|].
      * right. exists x. split; [reflexivity|]. intros ->. exfalso. exact (raw_drain_err _ _ _ Hd eq_refl).
      * left. match type of Hd with raw_drain ?d0 = _ =>
          match goal with |- context [raw_drain ?d'] => change d' with (upr d0) end end.
        rewrite (raw_drain_up _ _ Hd). reflexivity.
    + match goal with |- context [cb_read_all ?a ?b ?c ?d] => destruct (cb_read_all a b c d) as [ce r4] eqn:Hcb end.
      destruct ce as [ce|].
      * intros H; injection H as <- <- <-. right. destruct (cb_read_all_io _ _ _ _ _ _ Hcb) as (x & -> & Hne).
        exists x. split; [reflexivity|]. intros ->. exfalso. apply Hne. reflexivity.
      * match type of Hcb with cb_read_all _ _ _ ?d0 = _ =>
          match goal with |- context [cb_read_all ?a ?b ?c ?d'] => change d' with (upr d0) end end.
        rewrite (cb_read_all_up _ _ _ _ _ Hcb).
        destruct (raw_drain r4) as [e2 r5] eqn:Hd.
        intros H; injection H as <- <- <-.
        destruct e2 as [x|].
        -- right. exists x. split; [reflexivity|]. intros ->. exfalso. exact (raw_drain_err _ _ _ Hd eq_refl).
        -- left. rewrite (raw_drain_up _ _ Hd). reflexivity.
Qed.

(* a divergence: the cut source ran dry — a transport error, not the end-of-payload marker *)
Definition dry (e : option rerror) : Prop := exists x, e = Some (RIo x) /\ x <> EEOF.

Lemma frame_read_up k r d e r' : frame_read k r = ((d, e), r') ->
  frame_read k (upr r) = ((d, e), upr r') \/ dry e.
Proof.
  unfold frame_read, raw_read. usimpl. destruct (r_rawN r =? 0).
  { usimpl. destruct (r_u8wrap r).
    - destruct (u8_scan _ _ _ _) as [[st ac] rej]. destruct rej; intros H; injection H as <- <- <-; left; reflexivity.
    - intros H; injection H as <- <- <-; left; reflexivity. }
  destruct (read1 (N.min k (r_rawN r)) (r_src r)) as [[b e0] s'] eqn:R.
  destruct e0 as [y|].
  - (* the transport has nothing more *)
    assert (Hb: b = []).
    { unfold read1 in R. destruct (chunks (r_src r)) as [|c cs]; [injection R as <- _ _; reflexivity|].
      destruct (N.min k (r_rawN r) <? len c); discriminate R. }
    subst b. usimpl. rewrite cipher_nil.
    assert (E1: (if r_masked r then @nil byte else []) = []) by (destruct (r_masked r); reflexivity).
    rewrite E1. cbn [u8_scan].
    assert (Hc: exists y', cut_err (Some y) = Some y' /\ y' <> EEOF).
    { destruct y; cbn [cut_err]; eexists; (split; [reflexivity|discriminate]). }
    destruct Hc as (y' & -> & Hy'). cbn [option_map].
    destruct (r_u8wrap r); intros H; injection H as _ <- _; right; exists y'; (split; [reflexivity|exact Hy']).
  - rewrite (read1_up _ _ _ _ R). usimpl. destruct (r_u8wrap r).
    + destruct (u8_scan _ _ _ _) as [[st ac] rej]. destruct rej; intros H; injection H as <- <- <-; left; reflexivity.
    + intros H; injection H as <- <- <-; left; reflexivity.
Qed.

Lemma rat_eof_up data r : rat_eof data (upr r) = (fst (rat_eof data r), upr (snd (rat_eof data r))).
Proof.
  unfold rat_eof. usimpl. destruct (negb (r_rawN r =? 0)); [reflexivity|].
  destruct (st_fragmented (r_state r)); [reflexivity|].
  destruct (_ && _); reflexivity.
Qed.

Lemma dry_not_eof e : dry e -> e <> Some (RIo EEOF).
Proof. intros (x & -> & Hx) E0. injection E0 as ->. apply Hx. reflexivity. Qed.

Lemma rgo_up k r d e r' : rgo k r = ((d, e), r') ->
  rgo k (upr r) = ((d, e), upr r') \/ dry e.
Proof.
  unfold rgo. destruct (frame_read k r) as [[data e0] r2] eqn:F.
  destruct (frame_read_up _ _ _ _ _ F) as [Fu|Hdry].
  - rewrite Fu. usimpl. rewrite rat_eof_up.
    destruct (rat_eof data r2) as [[d1 e1] r3]. cbn [fst snd].
    destruct e0 as [e0|].
    + destruct e0 as [[| |]| | | | | | | |]; intros H; injection H as <- <- <-; left; reflexivity.
    + destruct (negb (r_rawN r2 =? 0)); intros H; injection H as <- <- <-; left; reflexivity.
  - destruct Hdry as (x & -> & Hx). destruct x; [exfalso; apply Hx; reflexivity|..];
      intros H; injection H as _ <- _; right; eexists; (split; [reflexivity|discriminate]).
Qed.

Lemma reader_read_up k r d e r' : reader_read k r = ((d, e), r') ->
  reader_read k (upr r) = ((d, e), upr r') \/ dry e.
Proof.
  rewrite !reader_read_eq. usimpl. destruct (r_frame r); [apply rgo_up|].
  destruct (negb (st_fragmented (r_state r))) eqn:Efr.
  { intros H; injection H as <- <- <-. left. reflexivity. }
  destruct (next_frame r) as [[h e1] r1] eqn:Hnf.
  destruct (next_frame_up _ _ _ _ Hnf) as [Hu|(x & -> & Hx)].
  - rewrite Hu. destruct e1 as [e1|].
    { intros H; injection H as <- <- <-. left. reflexivity. }
    usimpl. destruct (r_frame r1); [apply rgo_up|].
    intros H; injection H as <- <- <-. left. reflexivity.
  - intros H; injection H as _ <- _. right. exists x. split; [reflexivity|].
    intros ->. specialize (Hx eq_refl). rewrite Hx in Efr. discriminate Efr.
Qed.

Lemma read_to_eof_up : forall fuel bufs all r racc p e r',
  read_to_eof fuel bufs all r racc = ((p, e), r') ->
  read_to_eof fuel bufs all (upr r) racc = ((p, e), upr r') \/ (exists x, e = RIo x /\ x <> EEOF).
Proof.
  induction fuel as [|fuel IH]; intros bufs all r racc p e r'; cbn [read_to_eof].
  - intros H; injection H as <- <- <-. left. reflexivity.
  - destruct (next_buf bufs all) as [k bufs'].
    destruct (reader_read k r) as [[d e1] r1] eqn:R.
    destruct (reader_read_up _ _ _ _ _ R) as [Ru|(x & -> & Hx)].
    + rewrite Ru. destruct e1 as [e1|].
      * intros H; injection H as <- <- <-. left. reflexivity.
      * apply IH.
    + intros H; injection H as _ <- _. right. exists x. split; [reflexivity|exact Hx].
Qed.

Lemma discard_up : forall fuel r e r', discard fuel r = (e, r') ->
  discard fuel (upr r) = (e, upr r') \/ (exists x, e = Some (RIo x)).
Proof.
  induction fuel as [|fuel IH]; intros r e r'; cbn [discard].
  - intros H; injection H as <- <-. left. reflexivity.
  - destruct (raw_drain r) as [e1 r1] eqn:D. destruct e1 as [x|].
    { intros H; injection H as <- _. right. exists x. reflexivity. }
    rewrite (raw_drain_up _ _ D). usimpl.
    destruct (negb (st_fragmented (r_state r1))).
    { intros H; injection H as <- <-. left. reflexivity. }
    destruct (next_frame r1) as [[h e2] r2] eqn:Hnf.
    destruct (next_frame_up _ _ _ _ Hnf) as [Hu|(x & -> & Hx)].
    + rewrite Hu. destruct e2 as [e2|].
      * intros H; injection H as <- <-. left. reflexivity.
      * apply IH.
    + intros H; injection H as <- _. right. exists x. reflexivity.
Qed.

(* more fuel does not change a Discard that did not run out of it *)
Lemma discard_fuel_mono : forall f r, fst (discard f r) <> Some ROutOfFuel ->
  forall f', (f <= f')%nat -> discard f' r = discard f r.
Proof.
  induction f as [|f IH]; intros r Hn f' Hle.
  - exfalso. apply Hn. reflexivity.
  - destruct f' as [|f']; [lia|]. cbn [discard] in *.
    destruct (raw_drain r) as [e1 r1]. destruct e1 as [x|]; [reflexivity|].
    destruct (negb (st_fragmented (r_state r1))); [reflexivity|].
    destruct (next_frame r1) as [[h e2] r2]. destruct e2 as [e2|]; [reflexivity|].
    apply IH; [exact Hn|lia].
Qed.

Lemma flat_up_len s : (length (flat s) <= length (flat (up s)))%nat.
Proof. unfold flat, up. cbn [chunks]. rewrite concat_app, app_length. lia. Qed.

(* the whole call: the same result on the extended source, or not a non-I/O error *)
Definition io_or_not_err (res : rd_result) : Prop := forall e, res = RDErr e -> exists x, e = RIo x.

Lemma read_data_up want state : forall fuel r d masks res d' r',
  read_data fuel want state r d masks = (res, d', r') ->
  read_data fuel want state (upr r) d masks = (res, d', upr r') \/ io_or_not_err res.
Proof.
  induction fuel as [|fu IH]; intros r d masks res d' r'; cbn [read_data].
  - intros H; injection H as <- <- <-. left. reflexivity.
  - change (r_log (upr r)) with (r_log r).
    destruct (next_frame r) as [[h e] r1] eqn:Hnf.
    destruct (next_frame_up _ _ _ _ Hnf) as [Hu|(x & -> & _)].
    2:{ intros H; injection H as <- _ _. right. intros e0 E0. injection E0 as <-. eexists; reflexivity. }
    rewrite Hu. destruct e as [e|].
    { intros H; injection H as <- <- <-. left. reflexivity. }
    destruct (op_is_control (h_op h)).
    + destruct (read_to_eof (S fu) [4096] [4096] r1 []) as [[p e2] r2] eqn:T.
      destruct (read_to_eof_up _ _ _ _ _ _ _ _ T) as [Tu|(x & -> & Hx)].
      * rewrite Tu. destruct e2 as [[| |]| | | | | | | |]; try (intros H; injection H as <- <- <-; left; reflexivity).
        destruct (handle_payload state (h_op h) p masks d) as [[hres d1] masks1].
        destruct hres; try (intros H; injection H as <- <- <-; left; reflexivity).
        apply IH.
      * destruct x; [exfalso; apply Hx; reflexivity|..]; intros H; injection H as <- _ _; right;
          intros e0 E0; injection E0 as <-; eexists; reflexivity.
    + destruct (N.land (h_op h) want =? 0).
      * destruct (discard (S (length (flat (r_src r1)))) r1) as [e2 r2] eqn:D.
        assert (Hnf2: e2 <> Some ROutOfFuel).
        { pose proof (discard_gen (S (length (flat (r_src r1)))) r1 ltac:(unfold rlen; lia)) as G.
          rewrite D in G. exact G. }
        destruct (discard_up _ _ _ _ D) as [Du|(x & ->)].
        -- assert (Dm: discard (S (length (flat (r_src (upr r1))))) (upr r1) = (e2, upr r2)).
           { rewrite <- Du. apply discard_fuel_mono; [rewrite Du; exact Hnf2|].
             usimpl. pose proof (flat_up_len (r_src r1)). lia. }
           rewrite Dm. change (new_events (length (r_log r)) (upr r2)) with (new_events (length (r_log r)) r2).
           destruct (answer_events state (new_events (length (r_log r)) r2) masks d) as [[hr d1] masks1].
           destruct hr as [hres|]; [intros H; injection H as <- <- <-; left; reflexivity|].
           destruct e2 as [e2|]; [intros H; injection H as <- <- <-; left; reflexivity|].
           apply IH.
        -- destruct (answer_events state (new_events (length (r_log r)) r2) masks d) as [[hr d1] masks1].
           destruct hr as [hres|]; intros H; injection H as <- _ _; right; intros e0 E0; [discriminate E0|].
           injection E0 as <-. eexists; reflexivity.
      * destruct (read_to_eof (S fu) [512] [512] r1 []) as [[p e2] r2] eqn:T.
        destruct (read_to_eof_up _ _ _ _ _ _ _ _ T) as [Tu|(x & -> & Hx)].
        -- rewrite Tu. change (new_events (length (r_log r)) (upr r2)) with (new_events (length (r_log r)) r2).
           destruct (answer_events state (new_events (length (r_log r)) r2) masks d) as [[hr d1] masks1].
           destruct hr as [hres|]; [intros H; injection H as <- <- <-; left; reflexivity|].
           destruct e2 as [[| |]| | | | | | | |]; intros H; injection H as <- <- <-; left; reflexivity.
        -- destruct (answer_events state (new_events (length (r_log r)) r2) masks d) as [[hr d1] masks1].
           destruct hr as [hres|]; [intros H; injection H as <- _ _; right; intros e0 E0; discriminate E0|].
           destruct x; [exfalso; apply Hx; reflexivity|..]; intros H; injection H as <- _ _; right;
             intros e0 E0; injection E0 as <-; eexists; reflexivity.
Qed.

End Up.

(* ------------------------------------------------------------------ C16: the error on a cut valid stream *)
Theorem read_data_cut_io : forall state want fs cut t s masks fuel,
  (state = 1 \/ state = 2) -> Forall wf_sframe fs -> Forall wf_key masks ->
  sr_out (spec_run (mkCfg state true 0 false) 0 None [] fs) = OClean ->
  (cut <= length (wire fs))%nat ->
  wf_src s -> tl s = t -> flat s = firstn cut (wire fs) -> (length (wire fs) + 2 <= fuel)%nat ->
  forall e, fst (read_data_call fuel want state s masks) = RDErr e ->
  exists x, e = RIo x /\ match t with TFail => x = EFail | TEOF => x <> EFail end.
Proof.
  intros state want fs cut t s masks fuel Hst Hfs Hm Hclean Hcut Hw Ht Hfl Hfuel e Hres.
  assert (Hio: exists x, e = RIo x).
  { set (E := match skipn cut (wire fs) with [] => [] | l => [l] end).
    assert (HwE: wf_src (up E TEOF s)).
    { unfold wf_src, wf_chunks, up. cbn [chunks]. apply Forall_app. split; [exact Hw|].
      unfold E. destruct (skipn cut (wire fs)); constructor; [discriminate|constructor]. }
    assert (HfE: flat (up E TEOF s) = wire fs).
    { unfold flat, up. cbn [chunks]. rewrite concat_app. fold (flat s). rewrite Hfl.
      transitivity (firstn cut (wire fs) ++ skipn cut (wire fs)); [|apply firstn_skipn]. f_equal. unfold E.
      destruct (skipn cut (wire fs)); [reflexivity|]. cbn [concat]. apply app_nil_r. }
    unfold read_data_call in Hres.
    destruct (read_data fuel want state (new_reader s state false true 0 false CbReadAll) (mkDest [] None) masks)
      as [[res d'] r'] eqn:R. cbn [fst] in Hres. subst res.
    destruct (read_data_up E TEOF want state _ _ _ _ _ _ _ R) as [Ru|Hio]; [|exact (Hio e eq_refl)].
    change (upr E TEOF (new_reader s state false true 0 false CbReadAll))
      with (new_reader (up E TEOF s) state false true 0 false CbReadAll) in Ru.
    pose proof (read_data_meets_spec_gen state want fs (length (wire fs)) TEOF (up E TEOF s) masks fuel Hst Hfs Hm
                  (le_n _) HwE eq_refl ltac:(rewrite firstn_all; exact HfE) Hfuel) as H.
    change (N.of_nat (length (wire fs))) with (len (wire fs)) in H.
    rewrite frames_before_all in H. cbn [fst] in H.
    specialize (H ltac:(right; rewrite Hclean; discriminate)).
    unfold read_data_call in H. rewrite Ru in H.
    unfold rx_monitor_gen in H. rewrite frames_before_all, Hclean in H.
    destruct (rx_walk want _ []) as [xs xr].
    destruct (frames_of (concat (dest_log d'))) as [rf|]; [|discriminate H].
    apply andb_true_iff in H. destruct H as [_ H].
    destruct xr as [xr|]; [destruct xr; discriminate H|].
    unfold rx_err_class in H. cbn [tail_fails N.eqb] in H.
    destruct e as [[| |]| | | | | | | |]; try discriminate H. eexists; reflexivity. }
  destruct Hio as (x & ->). exists x. split; [reflexivity|].
  assert (Hlen: (length (flat s) + 2 <= fuel)%nat) by (rewrite Hfl, firstn_length; lia).
  destruct (read_data_error_class fuel want state s masks Hw Hlen _ Hres) as [_ Hc].
  rewrite <- Ht. apply Hc. reflexivity.
Qed.

(* C16 for the ReadData family, spelled out *)
Theorem read_data_cut_spelled : forall state want fs cut t s masks fuel,
  (state = 1 \/ state = 2) -> Forall wf_sframe fs -> Forall wf_key masks ->
  sr_out (spec_run (mkCfg state true 0 false) 0 None [] fs) = OClean ->
  (cut < length (wire fs))%nat ->
  wf_src s -> tl s = t -> flat s = firstn cut (wire fs) -> (length (wire fs) + 2 <= fuel)%nat ->
  let '(res, log) := read_data_call fuel want state s masks in
  let '(done, rest) := frames_before (N.of_nat cut) fs in
  let sp := spec_run (mkCfg state true 0 false) 0 None [] done in
  let hdr_len := match nth_error fs (length done) with
                 | Some f => len (rfc_header (sf_header f)) | None => 0 end in
  exists rf, frames_of (concat log) = Some rf /\
    xreplies_ok state (fst (rx_walk want (sr_events sp) [])) rf = true /\
    match snd (rx_walk want (sr_events sp) []) with
    | Some xr => rx_result_matches (Some xr) res = true
    | None => exists x, res = RDErr (RIo x) /\
        match t with
        | TFail => x = EFail
        | TEOF => x = EUnexpected \/ (x = EEOF /\ sr_out sp = OClean /\ (rest = 0 \/ rest < hdr_len))
        end
    end.
Proof.
  intros state want fs cut t s masks fuel Hst Hfs Hm Hclean Hcut Hw Ht Hfl Hfuel.
  pose proof (read_data_cut state want fs cut t s masks fuel Hst Hfs Hm Hclean Hcut Hw Ht Hfl ltac:(lia)) as H.
  pose proof (read_data_cut_io state want fs cut t s masks fuel Hst Hfs Hm Hclean ltac:(lia) Hw Ht Hfl Hfuel) as Hio.
  destruct (read_data_call fuel want state s masks) as [res log]. cbn [fst] in Hio.
  unfold rx_monitor_gen in H.
  destruct (frames_before (N.of_nat cut) fs) as [done rest]. cbv zeta.
  destruct (rx_walk want _ []) as [xs xr]. cbn [fst snd].
  destruct (frames_of (concat log)) as [rf|]; [|discriminate H].
  apply andb_true_iff in H. destruct H as [H1 H2]. exists rf. split; [reflexivity|]. split; [exact H1|].
  destruct xr as [xr|]; [exact H2|].
  destruct res as [op p|hr|e]; try discriminate H2.
  destruct (Hio e eq_refl) as (x & -> & Hx). exists x. split; [reflexivity|].
  destruct t; [|exact Hx]. cbn [tail_fails] in H2.
  destruct x; [right|left; reflexivity|exfalso; apply Hx; reflexivity].
  split; [reflexivity|]. unfold rx_err_class in H2.
  destruct (sr_out (spec_run (mkCfg state true 0 false) 0 None [] done)); try discriminate H2.
  split; [reflexivity|]. destruct (rest =? 0) eqn:E0; [left; lia|]. right.
  match type of H2 with (if ?b then _ else _) = true => destruct b eqn:E1 end; [lia|discriminate H2].
Qed.
