(* HsAgreementExtProofs.v — C11 with extension offers: the request the dialer writes for
   subprotocols ps and offers exts is accepted by the upgrader, which selects the subprotocol and
   (Extension filter or Negotiate table) the extensions; its response is accepted by the dialer
   with the same subprotocol and the same extensions.  An answer whose name was not offered
   makes the dialer fail with ErrHandshakeBadExtensions although the upgrader succeeded. *)
Require Import Bytes HsBase64 HsSha1 HsBufio HsBufioProofs HsHttpHead HsHttp HsUpgrader HsUpgraderProofs
        HsDialer HsDialerProofs HsAgreementProofs HsAgreeExt HsOptionsProofs.
From Coq Require Import ZifyBool ZifyN ZifyNat Btauto.
From Coq Require String.
Import String.StringSyntax.
Local Open Scope string_scope.
Local Open Scope list_scope.
Open Scope N_scope.

(* ================= 1. the request with an offer line *)
Definition xline (exts : list hopt) : list (list byte * list byte) :=
  match exts with [] => [] | _ => [(bs "Sec-WebSocket-Extensions", write_options exts)] end.
Definition pxline (exts : list hopt) : list (list byte * list byte) :=
  match exts with [] => [] | _ => [(h_sec_extensions_c, write_options exts)] end.
Definition req_headers_x host nonce ps exts := req_headers host nonce ps ++ xline exts.
Definition parsed_req_headers_x host nonce ps exts := parsed_req_headers host nonce ps ++ pxline exts.

Lemma request_as_lines_x : forall ps exts host uri nonce,
  write_upgrade_request (dcfgx ps exts) host uri nonce
  = crlf_lines ((bs "GET " ++ uri ++ bs " HTTP/1.1")
                :: map (fun kv => hline (fst kv) (snd kv)) (req_headers_x host nonce ps exts) ++ [[]]).
Proof.
  intros ps exts host uri nonce.
  unfold write_upgrade_request, crlf_lines, req_headers_x, req_headers, xline, hline, dcfgx.
  cbn [dc_host dc_protocols dc_extensions dc_header].
  destruct ps as [|p ps']; destruct exts as [|e es']; cbn [map concat app fst snd]; rewrite <- ?app_assoc; cbn [app];
    repeat (f_equal; rewrite <- ?app_assoc; cbn [app]); reflexivity.
Qed.

Lemma xline_no_nl : forall exts, wf_opts exts = true ->
  Forall (fun l => no_byte 10 l = true) (map (fun kv => hline (fst kv) (snd kv)) (xline exts)).
Proof.
  intros exts H. unfold xline. destruct exts as [|e es]; [constructor|]. cbn [map fst snd].
  constructor; [|constructor]. apply hline_no_nl; [reflexivity|].
  apply opt_chars_no_nl, write_options_chars, H.
Qed.

Lemma xline_parsed : forall exts, wf_opts exts = true ->
  map (fun kv => (canonicalize (btrim (fst kv)), btrim (snd kv))) (xline exts) = pxline exts.
Proof.
  intros exts H. unfold xline, pxline. destruct exts as [|e es]; [reflexivity|]. cbn [map fst snd].
  rewrite (btrim_clean _ (opt_chars_clean _ (write_options_chars _ H))). reflexivity.
Qed.

Lemma xline_keys : forall exts,
  Forall (fun kv : list byte * list byte => no_byte 58 (fst kv) = true /\ fst kv <> []) (xline exts).
Proof. intros exts. unfold xline. destruct exts; repeat constructor; discriminate. Qed.

Lemma filter_wf : forall (check : hopt -> bool) os, wf_opts os = true -> wf_opts (filter check os) = true.
Proof.
  intros check. induction os as [|o r IH]; intros H; [reflexivity|].
  unfold wf_opts in *. cbn [forallb] in H. apply andb_prop in H. destruct H as [Ho Hr]. cbn [filter].
  destruct (check o); [cbn [forallb]; rewrite Ho; apply IH; exact Hr|apply IH; exact Hr].
Qed.

Lemma offered_in : forall exts o, In o exts -> offered exts o = true.
Proof.
  intros exts o H. unfold offered. apply existsb_exists. exists o. split; [exact H|apply bytes_eqb_refl].
Qed.

Lemma filter_offered : forall (check : hopt -> bool) exts, forallb (offered exts) (filter check exts) = true.
Proof.
  intros check exts. apply forallb_forall. intros o Ho. apply filter_In in Ho. apply offered_in. tauto.
Qed.

(* the upgrader accepts the dialer's request; subprotocol and extensions as specified *)
Theorem upgrader_accepts_dialer_request_x : forall stext sel ext neg ps exts host uri nonce B r,
  1 <= B -> req_ok host uri nonce ps -> wf_opts exts = true ->
  match neg with Some f => neg_total f exts = true | None => True end ->
  flat r = write_upgrade_request (dcfgx ps exts) host uri nonce ->
  upgrader stext (ucfgx sel ext neg) B r
  = mkUres (mkHs (agreed_protocol sel ps) (agreed_exts ext neg exts)) None
      (write_response_upgrade nonce (mkHs (agreed_protocol sel ps) (agreed_exts ext neg exts)) []).
Proof.
  intros stext sel ext neg ps exts host uri nonce B r HB [Hps [Hlen [Hnnl [Hnc [Hhnl [Hhc [Hu32 Hu10]]]]]]] Hx Hneg Hflat.
  rewrite (upgrader_flat stext (ucfgx sel ext neg) B r HB). rewrite Hflat, request_as_lines_x.
  rewrite <- (app_nil_r (crlf_lines _)).
  assert (Hnl : Forall (fun l => no_byte 10 l = true)
                  ((bs "GET " ++ uri ++ bs " HTTP/1.1")
                   :: map (fun kv => hline (fst kv) (snd kv)) (req_headers_x host nonce ps exts) ++ [[]])).
  { constructor; [rewrite !no_byte_app, Hu10; reflexivity|].
    apply Forall_app. split; [|repeat constructor].
    unfold req_headers_x, req_headers. rewrite !map_app. apply Forall_app. split; [apply Forall_app; split|].
    - cbn [map fst snd].
      constructor; [apply hline_no_nl; [reflexivity|exact Hhnl]|].
      constructor; [apply hline_no_nl; reflexivity|].
      constructor; [apply hline_no_nl; reflexivity|].
      constructor; [apply hline_no_nl; reflexivity|].
      constructor; [apply hline_no_nl; [reflexivity|exact Hnnl]|]. constructor.
    - destruct ps as [|p ps']; [constructor|]. cbn [map fst snd]. constructor; [|constructor].
      apply hline_no_nl; [reflexivity|apply join_no_nl; exact Hps].
    - apply xline_no_nl. exact Hx. }
  rewrite (raw_lines_crlf_lines _ [] Hnl). cbn [raw_lines raw_lines_acc fst snd rev map]. rewrite app_nil_r.
  cbn [map].
  assert (Hkv : Forall (fun kv => no_byte 58 (fst kv) = true /\ fst kv <> []) (req_headers_x host nonce ps exts)).
  { unfold req_headers_x, req_headers. apply Forall_app. split; [apply Forall_app; split|].
    - repeat constructor; discriminate.
    - destruct ps; repeat constructor; discriminate.
    - apply xline_keys. }
  pose proof (take_headers_hlines (req_headers_x host nonce ps exts) [] Hkv) as Hth. rewrite app_nil_r in Hth.
  assert (Hparsed : map (fun kv => (canonicalize (btrim (fst kv)), btrim (snd kv))) (req_headers_x host nonce ps exts)
                    = parsed_req_headers_x host nonce ps exts).
  { unfold req_headers_x, parsed_req_headers_x. rewrite map_app.
    rewrite (parsed_req_headers_eq host nonce ps Hhc Hnc Hps), (xline_parsed exts Hx). reflexivity. }
  rewrite Hparsed in Hth.
  set (p := agreed_protocol sel ps). set (es := agreed_exts ext neg exts).
  assert (Hres := upgrader_lines_complete stext (ucfgx sel ext neg)
            ((bs "GET " ++ uri ++ bs " HTTP/1.1") ++ crlf)
            (map (fun l => l ++ crlf) (map (fun kv => hline (fst kv) (snd kv)) (req_headers_x host nonce ps exts) ++ [[]]))
            [] (r_tail r) (mkReqLine (bs "GET") uri 1 1) (parsed_req_headers_x host nonce ps exts) [] p es).
  rewrite cut_eol_crlf in Hres. specialize (Hres (parse_get_line uri Hu32) Hth).
  (* the header list with the two list-valued lines abstracted *)
  assert (Hshape : exists pl xl,
            parsed_req_headers_x host nonce ps exts
            = [(h_host, host); (h_upgrade, bs "websocket"); (h_connection, bs "Upgrade");
               (h_sec_version_c, bs "13"); (h_sec_key_c, nonce)]
              ++ map (fun v => (h_sec_protocol_c, v)) pl ++ map (fun v => (h_sec_extensions_c, v)) xl
            /\ pl = match ps with [] => [] | _ => [join_comma_space ps] end
            /\ xl = match exts with [] => [] | _ => [write_options exts] end).
  { exists (match ps with [] => [] | _ => [join_comma_space ps] end),
           (match exts with [] => [] | _ => [write_options exts] end).
    split; [|split; reflexivity]. unfold parsed_req_headers_x, parsed_req_headers, pxline.
    destruct ps; destruct exts; reflexivity. }
  destruct Hshape as [pl [xl [Hsh [Hpl Hxl]]]].
  assert (Hpl2 : (length pl <= 1)%nat) by (subst pl; destruct ps; cbn; lia).
  assert (Hxl2 : (length xl <= 1)%nat) by (subst xl; destruct exts; cbn; lia).
  assert (Hc : compliant (mkPreq (mkReqLine (bs "GET") uri 1 1) (parsed_req_headers_x host nonce ps exts))
               && callbacks_accept (ucfgx sel ext neg)
                    (mkPreq (mkReqLine (bs "GET") uri 1 1) (parsed_req_headers_x host nonce ps exts))
               = true).
  { rewrite Hsh. clear -Hlen Hpl2 Hxl2.
    destruct pl as [|pv [|? ?]]; [| |cbn in Hpl2; lia]; (destruct xl as [|xv [|? ?]]; [| |cbn in Hxl2; lia]);
      cbv -[len]; unfold byte in *; rewrite Hlen; reflexivity. }
  assert (Hvp : values_of (is_kind KSecProtocol) (parsed_req_headers_x host nonce ps exts) = pl).
  { rewrite Hsh. clear -Hpl2 Hxl2.
    destruct pl as [|pv [|? ?]]; [| |cbn in Hpl2; lia]; (destruct xl as [|xv [|? ?]]; [| |cbn in Hxl2; lia]);
      vm_compute; reflexivity. }
  assert (Hvx : values_of (is_kind KSecExtensions) (parsed_req_headers_x host nonce ps exts) = xl).
  { rewrite Hsh. clear -Hpl2 Hxl2.
    destruct pl as [|pv [|? ?]]; [| |cbn in Hpl2; lia]; (destruct xl as [|xv [|? ?]]; [| |cbn in Hxl2; lia]);
      vm_compute; reflexivity. }
  assert (Hvk : values_of (is_kind KSecKey) (parsed_req_headers_x host nonce ps exts) = [nonce]).
  { rewrite Hsh. clear -Hpl2 Hxl2.
    destruct pl as [|pv [|? ?]]; [| |cbn in Hpl2; lia]; (destruct xl as [|xv [|? ?]]; [| |cbn in Hxl2; lia]);
      vm_compute; reflexivity. }
  assert (Hp : proto_run (ucfgx sel ext neg) [] (parsed_req_headers_x host nonce ps exts) = Some p).
  { rewrite proto_run_spec, Hvp, Hpl. unfold p, agreed_protocol, ucfgx. cbn [uc_protocol].
    destruct sel as [check|]; [|destruct ps; reflexivity].
    destruct ps as [|q ps']; [reflexivity|]. cbn [select_protocol_spec].
    destruct (protocol_agreement (q :: ps') check Hps ltac:(discriminate)) as [E _]. rewrite E. cbn [negb].
    destruct (first_accepted check (q :: ps')); reflexivity. }
  assert (He : exts_run (ucfgx sel ext neg) [] (parsed_req_headers_x host nonce ps exts) = inl es).
  { rewrite exts_run_spec, Hvx, Hxl. cbn zeta. unfold es, agreed_exts, ucfgx. cbn [uc_negotiate uc_extension].
    destruct exts as [|e0 et].
    - destruct neg as [f|]; [reflexivity|]. destruct ext; reflexivity.
    - destruct neg as [f|].
      + cbn [negotiate_spec].
        rewrite (negotiate_extensions_written f (e0 :: et) [] Hx ltac:(discriminate) Hneg). reflexivity.
      + destruct ext as [check|]; [|reflexivity]. cbn [select_ext_spec].
        rewrite (select_options_written check (e0 :: et) [] Hx ltac:(discriminate)). reflexivity. }
  specialize (Hres Hc Hp He). rewrite Hres.
  rewrite nonce_of_spec, Hvk. reflexivity.
Qed.

(* ================= 2. the response with a Sec-WebSocket-Extensions line *)
Definition resp_headers_x nonce p es := resp_headers nonce p ++ xline es.
Definition parsed_resp_headers_x nonce p es := parsed_resp_headers nonce p ++ pxline es.

Lemma response_as_lines_x : forall nonce p es,
  write_response_upgrade nonce (mkHs p es) []
  = crlf_lines (bs "HTTP/1.1 101 Switching Protocols"
                :: map (fun kv => hline (fst kv) (snd kv)) (resp_headers_x nonce p es) ++ [[]]).
Proof.
  intros nonce p es.
  unfold write_response_upgrade, text_head_upgrade, crlf_lines, resp_headers_x, resp_headers, xline, hline.
  cbn [hs_protocol hs_exts].
  destruct p as [|c p']; destruct es as [|e es']; cbn [map concat app fst snd]; rewrite <- ?app_assoc; cbn [app];
    repeat (f_equal; rewrite <- ?app_assoc; cbn [app]); reflexivity.
Qed.

(* what the server may have selected: nothing, or one of the offered tokens *)
Definition proto_choice (ps : list (list byte)) (p : list byte) : Prop :=
  p = [] \/ (is_tok p /\ existsb (bytes_eqb p) ps = true).

Lemma agreed_protocol_choice : forall sel ps, Forall is_tok ps -> proto_choice ps (agreed_protocol sel ps).
Proof.
  intros sel ps Hps. unfold proto_choice, agreed_protocol. destruct sel as [check|]; [|left; reflexivity].
  destruct ps as [|q ps']; [left; reflexivity|].
  destruct (first_accepted check (q :: ps')) as [|c t] eqn:E; [left; reflexivity|]. right.
  rewrite <- E. split.
  - apply first_accepted_tok; [exact Hps|rewrite E; discriminate].
  - destruct (protocol_agreement (q :: ps') check Hps ltac:(discriminate)) as [_ G]. apply G. rewrite E. discriminate.
Qed.

Definition resp_101 (nonce p : list byte) (es : list hopt) : presp :=
  mkPresp (mkRespLine 1 1 101 (bs "Switching Protocols")) (parsed_resp_headers_x nonce p es).

Lemma resp_shape : forall nonce p es, exists pl xl,
  parsed_resp_headers_x nonce p es
  = [(h_upgrade, bs "websocket"); (h_connection, bs "Upgrade"); (h_sec_accept_c, accept_of_key nonce)]
    ++ map (fun v => (h_sec_protocol_c, v)) pl ++ map (fun v => (h_sec_extensions_c, v)) xl
  /\ pl = match p with [] => [] | _ => [p] end
  /\ xl = match es with [] => [] | _ => [write_options es] end.
Proof.
  intros nonce p es. exists (match p with [] => [] | _ => [p] end), (match es with [] => [] | _ => [write_options es] end).
  split; [|split; reflexivity]. unfold parsed_resp_headers_x, parsed_resp_headers, pxline.
  destruct p; destruct es; reflexivity.
Qed.

Lemma response_parses_x : forall ps nonce p es r trailing,
  proto_choice ps p -> wf_opts es = true ->
  flat r = write_response_upgrade nonce (mkHs p es) [] ++ trailing ->
  parse_response (flat r) = Some (resp_101 nonce p es, trailing).
Proof.
  intros ps nonce p es r trailing Hpp Hes Hflat.
  destruct (accept_props nonce) as [Hal [Hac Hanl]].
  assert (Hpnl : no_byte 10 p = true) by (destruct Hpp as [->|[Ht _]]; [reflexivity|apply tok_no_nl; exact Ht]).
  assert (Hpc : clean p) by (destruct Hpp as [->|[Ht _]]; [split; exact I|apply tok_clean; exact Ht]).
  assert (Hnl : Forall (fun l => no_byte 10 l = true)
                  (bs "HTTP/1.1 101 Switching Protocols"
                   :: map (fun kv => hline (fst kv) (snd kv)) (resp_headers_x nonce p es) ++ [[]])).
  { constructor; [reflexivity|]. apply Forall_app. split; [|repeat constructor].
    unfold resp_headers_x, resp_headers. rewrite !map_app. apply Forall_app. split; [apply Forall_app; split|].
    - cbn [map fst snd].
      constructor; [apply hline_no_nl; reflexivity|].
      constructor; [apply hline_no_nl; reflexivity|].
      constructor; [apply hline_no_nl; [reflexivity|exact Hanl]|]. constructor.
    - destruct p as [|c p']; [constructor|]. cbn [map fst snd]. constructor; [|constructor].
      apply hline_no_nl; [reflexivity|exact Hpnl].
    - apply xline_no_nl. exact Hes. }
  assert (Hkv : Forall (fun kv => no_byte 58 (fst kv) = true /\ fst kv <> []) (resp_headers_x nonce p es)).
  { unfold resp_headers_x, resp_headers. apply Forall_app. split; [apply Forall_app; split|].
    - repeat constructor; discriminate.
    - destruct p; repeat constructor; discriminate.
    - apply xline_keys. }
  assert (Hparsed : map (fun kv => (canonicalize (btrim (fst kv)), btrim (snd kv))) (resp_headers_x nonce p es)
                    = parsed_resp_headers_x nonce p es).
  { unfold resp_headers_x, parsed_resp_headers_x. rewrite map_app, (xline_parsed es Hes). f_equal.
    unfold resp_headers, parsed_resp_headers. rewrite map_app. cbn [map fst snd].
    rewrite (btrim_clean _ Hac). destruct p as [|c p']; [reflexivity|]. cbn [map fst snd].
    rewrite (btrim_clean _ Hpc). reflexivity. }
  unfold parse_response. rewrite Hflat, response_as_lines_x.
  rewrite (raw_lines_crlf_lines _ trailing Hnl). cbn [map].
  destruct (raw_lines trailing) as [tl rem] eqn:Ht. cbn [fst snd app].
  rewrite cut_eol_crlf.
  assert (Hsl : http_parse_response_line ascii_to_int (bs "HTTP/1.1 101 Switching Protocols")
                = Some (mkRespLine 1 1 101 (bs "Switching Protocols"))) by (vm_compute; reflexivity).
  rewrite Hsl. rewrite take_resp_headers_eq.
  rewrite (take_headers_hlines (resp_headers_x nonce p es) tl Hkv). rewrite Hparsed.
  rewrite <- (raw_lines_concat (length trailing) trailing tl rem (le_n _) Ht). reflexivity.
Qed.

Lemma resp_values : forall nonce p es,
  dvalues_of KUpgrade (parsed_resp_headers_x nonce p es) = [bs "websocket"]
  /\ dvalues_of KConnection (parsed_resp_headers_x nonce p es) = [bs "Upgrade"]
  /\ dvalues_of KSecAccept (parsed_resp_headers_x nonce p es) = [accept_of_key nonce]
  /\ dvalues_of KSecProtocol (parsed_resp_headers_x nonce p es) = match p with [] => [] | _ => [p] end
  /\ dvalues_of KSecExtensions (parsed_resp_headers_x nonce p es)
     = match es with [] => [] | _ => [write_options es] end
  /\ forall cfgh : list byte -> list byte -> bool, (forall k v, cfgh k v = false) ->
     forallb (fun kv => match classify (fst kv) with
                        | KHost | KSecVersion | KSecKey | KOther => negb (cfgh (fst kv) (snd kv))
                        | _ => true end) (parsed_resp_headers_x nonce p es) = true.
Proof.
  intros nonce p es. destruct (resp_shape nonce p es) as [pl [xl [Hsh [Hpl Hxl]]]].
  rewrite Hsh, <- Hpl, <- Hxl.
  assert (Hpl2 : (length pl <= 1)%nat) by (subst pl; destruct p; cbn; lia).
  assert (Hxl2 : (length xl <= 1)%nat) by (subst xl; destruct es; cbn; lia).
  clear Hsh Hpl Hxl. generalize (accept_of_key nonce). intros acc.
  destruct pl as [|pv [|? ?]]; [| |cbn in Hpl2; lia]; (destruct xl as [|xv [|? ?]]; [| |cbn in Hxl2; lia]);
    (repeat split; try (vm_compute; reflexivity));
    intros cfgh Hcb; cbv -[negb]; rewrite ?Hcb; reflexivity.
Qed.

Lemma response_accepted_x : forall ps exts nonce p es,
  proto_choice ps p ->
  response_accepted (dcfgx ps exts) nonce (resp_101 nonce p es) = true.
Proof.
  intros ps exts nonce p es Hpp. destruct (accept_props nonce) as [Hal _].
  destruct (resp_values nonce p es) as [Hvu [Hvc [Hva [Hvp [_ Hcb]]]]].
  unfold response_accepted, resp_101. cbn [pr_line pr_headers sl_major sl_minor sl_status].
  rewrite Hvu, Hvc, Hva, Hvp. cbn [dc_on_header dcfgx]. rewrite (Hcb (fun _ _ => false) (fun _ _ => eq_refl)).
  cbn [dall_and_some forallb].
  assert (Hca : check_accept (accept_of_key nonce) nonce = true).
  { unfold check_accept. rewrite Hal, bytes_eqb_refl. reflexivity. }
  rewrite Hca.
  assert (E1 : equal_fold_word (bs "websocket") (bs "websocket") = true) by reflexivity.
  assert (E2 : equal_fold_word (bs "Upgrade") (bs "upgrade") = true) by reflexivity.
  rewrite E1, E2. cbn [dc_protocols dcfgx].
  destruct Hpp as [Hp0|[_ Hin]].
  - rewrite Hp0. reflexivity.
  - destruct p; [reflexivity|]. cbn [forallb]. rewrite Hin. reflexivity.
Qed.

Theorem dialer_accepts_upgrader_response_x : forall ps exts host uri nonce p es B r trailing,
  1 <= B -> proto_choice ps p -> wf_opts es = true -> forallb (offered exts) es = true ->
  flat r = write_response_upgrade nonce (mkHs p es) [] ++ trailing ->
  let d := dialer_upgrade (dcfgx ps exts) host uri nonce B r in
  d_err d = None /\ d_hs d = mkHs p es /\ flat (d_reader d) = trailing.
Proof.
  intros ps exts host uri nonce p es B r trailing HB Hpp Hes Hoff Hflat. cbn zeta.
  pose proof (response_parses_x ps nonce p es r trailing Hpp Hes Hflat) as Hparse.
  pose proof (response_accepted_x ps exts nonce p es Hpp) as Hacc.
  destruct (resp_values nonce p es) as [_ [_ [_ [Hvp [Hvx _]]]]].
  assert (Hext : response_extensions (dcfgx ps exts) (resp_101 nonce p es) = inl es).
  { unfold response_extensions, resp_101. cbn [pr_headers dc_extensions dcfgx]. rewrite Hvx.
    destruct es as [|e0 et]; [reflexivity|]. cbn [match_ext_spec].
    rewrite (match_selected_written exts (e0 :: et) [] Hes ltac:(discriminate) Hoff). reflexivity. }
  destruct (dialer_success_result (dcfgx ps exts) host uri nonce B r _ trailing es HB Hparse Hacc Hext)
    as [G1 [G2 [_ [G4 _]]]].
  split; [exact G1|]. split; [|exact G4]. rewrite G2. unfold response_protocol, resp_101. cbn [pr_headers].
  rewrite Hvp. destruct p; reflexivity.
Qed.

(* an answer whose name was not offered: the dialer stops at the Sec-WebSocket-Extensions line
   with ErrHandshakeBadExtensions *)
Lemma drun_lines_fold_err : forall cfg nonce ls s rem t hs rest e,
  take_resp_headers ls = Some (hs, rest) -> dfold cfg nonce s hs = inr e ->
  exists s' u, run_lines dst dres (dline_step cfg nonce) d_on_blank d_on_ioerr s ls rem t = ((s', Some e), u).
Proof.
  intros cfg nonce. induction ls as [|l ls IH]; intros s rem t hs rest e Hth Hf; cbn [take_resp_headers] in Hth.
  - discriminate.
  - cbn [run_lines]. destruct (cut_eol l) as [|c line] eqn:Hc.
    + inversion Hth; subst. cbn in Hf. discriminate.
    + unfold dline_step at 1. destruct (http_parse_header_line (c :: line)) as [[k v]|]; [|discriminate].
      destruct (take_resp_headers ls) as [[hs' rest']|] eqn:Hth'; [|discriminate].
      inversion Hth; subst. cbn [dfold] in Hf.
      destruct (dhdr_step cfg nonce s k v) as [s1|e1].
      * exact (IH s1 rem t hs' rest e eq_refl Hf).
      * inversion Hf; subst. eexists. eexists. reflexivity.
Qed.

Lemma dialer_fold_err : forall cfg host uri nonce B r sl hs rest e, 1 <= B ->
  parse_response (flat r) = Some (mkPresp sl hs, rest) -> status_line_check sl = None ->
  dfold cfg nonce init_dst hs = inr e ->
  d_err (dialer_upgrade cfg host uri nonce B r) = Some e.
Proof.
  intros cfg host uri nonce B r sl hs rest e HB Hp Hchk Hf.
  pose proof (dialer_flat cfg host uri nonce B r HB) as F. cbn zeta in F.
  unfold parse_response in Hp. destruct (raw_lines (flat r)) as [ls rem]. cbn [fst snd] in F.
  destruct ls as [|l ls']; [discriminate|].
  destruct (http_parse_response_line ascii_to_int (cut_eol l)) as [sl'|] eqn:Hsl; [|discriminate].
  destruct (take_resp_headers ls') as [[hs' rest']|] eqn:Hth; [|discriminate].
  inversion Hp; subst sl' hs' rest. cbn [dialer_upgrade_lines] in F. rewrite Hsl, Hchk in F.
  destruct (drun_lines_fold_err cfg nonce ls' init_dst rem (r_tail r) hs rest' e Hth Hf) as [s' [u E]].
  rewrite E in F. cbn [d_after_loop] in F. tauto.
Qed.

Lemma dstep_upgrade : forall cfg nonce s,
  dhdr_step cfg nonce s h_upgrade (bs "websocket") = inl (mkDst (N.lor (dsn_seen s) dseen_upgrade) (dsn_hs s)).
Proof. reflexivity. Qed.
Lemma dstep_connection : forall cfg nonce s,
  dhdr_step cfg nonce s h_connection (bs "Upgrade") = inl (mkDst (N.lor (dsn_seen s) dseen_connection) (dsn_hs s)).
Proof. reflexivity. Qed.
Lemma dstep_accept : forall cfg nonce s v, check_accept v nonce = true ->
  dhdr_step cfg nonce s h_sec_accept_c v = inl (mkDst (N.lor (dsn_seen s) dseen_accept) (dsn_hs s)).
Proof.
  intros cfg nonce s v H. unfold dhdr_step. change (classify h_sec_accept_c) with KSecAccept. cbv iota.
  rewrite H. reflexivity.
Qed.
Lemma dstep_protocol : forall cfg nonce s v, existsb (bytes_eqb v) (dc_protocols cfg) = true ->
  dhdr_step cfg nonce s h_sec_protocol_c v = inl (mkDst (dsn_seen s) (mkHs v (hs_exts (dsn_hs s)))).
Proof.
  intros cfg nonce s v H. unfold dhdr_step. change (classify h_sec_protocol_c) with KSecProtocol. cbv iota.
  rewrite H. reflexivity.
Qed.
Lemma dstep_extensions_bad : forall cfg nonce s v,
  snd (match_selected_extensions v (dc_extensions cfg) (hs_exts (dsn_hs s))) = Some MxBadExtensions ->
  dhdr_step cfg nonce s h_sec_extensions_c v = inr DBadExtensions.
Proof.
  intros cfg nonce s v H. unfold dhdr_step. change (classify h_sec_extensions_c) with KSecExtensions. cbv iota.
  destruct (match_selected_extensions v (dc_extensions cfg) (hs_exts (dsn_hs s))) as [x e]. cbn [snd] in H.
  subst e. reflexivity.
Qed.

Lemma dfold_unoffered : forall ps exts nonce p es,
  proto_choice ps p -> wf_opts es = true -> forallb (offered exts) es = false ->
  dfold (dcfgx ps exts) nonce init_dst (parsed_resp_headers_x nonce p es) = inr DBadExtensions.
Proof.
  intros ps exts nonce p es Hpp Hes Hoff. destruct (accept_props nonce) as [Hal _].
  assert (Hca : check_accept (accept_of_key nonce) nonce = true).
  { unfold check_accept. rewrite Hal, bytes_eqb_refl. reflexivity. }
  destruct es as [|e0 et]; [discriminate|].
  unfold parsed_resp_headers_x, parsed_resp_headers, pxline.
  assert (Hx : forall s, dhdr_step (dcfgx ps exts) nonce s h_sec_extensions_c (write_options (e0 :: et))
                         = inr DBadExtensions).
  { intros s. apply dstep_extensions_bad. cbn [dc_extensions dcfgx].
    apply match_selected_unoffered; [exact Hes|discriminate|exact Hoff]. }
  destruct p as [|c p'].
  - cbn [app dfold]. rewrite dstep_upgrade, dstep_connection, (dstep_accept _ _ _ _ Hca), Hx. reflexivity.
  - destruct Hpp as [Hp0|[_ Hin]]; [discriminate|].
    cbn [app dfold]. rewrite dstep_upgrade, dstep_connection, (dstep_accept _ _ _ _ Hca).
    rewrite (dstep_protocol (dcfgx ps exts) nonce _ (c :: p') Hin), Hx. reflexivity.
Qed.

Theorem dialer_refuses_unoffered : forall ps exts host uri nonce p es B r trailing,
  1 <= B -> proto_choice ps p -> wf_opts es = true -> forallb (offered exts) es = false ->
  flat r = write_response_upgrade nonce (mkHs p es) [] ++ trailing ->
  d_err (dialer_upgrade (dcfgx ps exts) host uri nonce B r) = Some DBadExtensions.
Proof.
  intros ps exts host uri nonce p es B r trailing HB Hpp Hes Hoff Hflat.
  pose proof (response_parses_x ps nonce p es r trailing Hpp Hes Hflat) as Hparse.
  exact (dialer_fold_err (dcfgx ps exts) host uri nonce B r _ _ trailing _ HB Hparse eq_refl
           (dfold_unoffered ps exts nonce p es Hpp Hes Hoff)).
Qed.

(* ================= 3. both peers composed *)
Lemma dialer_request_x : forall cfg host uri nonce B r, 1 <= B ->
  d_request (dialer_upgrade cfg host uri nonce B r) = write_upgrade_request cfg host uri nonce.
Proof.
  intros cfg host uri nonce B r HB.
  pose proof (dialer_flat cfg host uri nonce B r HB) as F. cbn zeta in F.
  destruct (dialer_upgrade_lines _ _ _ _ _) as [[a b] c]. tauto.
Qed.

Lemma neg_answers_offered_wf : forall neg exts, ext_ok neg exts = true ->
  wf_opts exts = true
  /\ match neg with Some f => neg_total f exts = true | None => True end
  /\ forall ext, wf_opts (agreed_exts ext neg exts) = true
                 /\ forallb (offered exts) (agreed_exts ext neg exts) = true.
Proof.
  intros neg exts H. unfold ext_ok in H. apply andb_prop in H. destruct H as [Hx Hn].
  split; [exact Hx|]. destruct neg as [f|].
  - unfold neg_table_ok, neg_answers_wf in Hn. apply andb_prop in Hn. destruct Hn as [Hn Ho].
    apply andb_prop in Hn. destruct Hn as [Ht Hw]. split; [exact Ht|]. intros ext. split; assumption.
  - split; [exact I|]. intros ext. unfold agreed_exts. destruct ext as [check|].
    + split; [apply filter_wf; exact Hx|apply filter_offered].
    + split; reflexivity.
Qed.

Theorem agreement_extensions : forall stext sel ext neg ps exts host uri nonce B1 B2 r1 r2 trailing,
  1 <= B1 -> 1 <= B2 -> req_ok host uri nonce ps -> ext_ok neg exts = true ->
  flat r1 = d_request (dialer_upgrade (dcfgx ps exts) host uri nonce B2 r2) ->
  flat r2 = u_out (upgrader stext (ucfgx sel ext neg) B1 r1) ++ trailing ->
  let u := upgrader stext (ucfgx sel ext neg) B1 r1 in
  let d := dialer_upgrade (dcfgx ps exts) host uri nonce B2 r2 in
  u_err u = None /\ d_err d = None /\ d_hs d = u_hs u
  /\ u_hs u = mkHs (agreed_protocol sel ps) (agreed_exts ext neg exts)
  /\ flat (d_reader d) = trailing.
Proof.
  intros stext sel ext neg ps exts host uri nonce B1 B2 r1 r2 trailing H1 H2 Hok Hxok Hf1 Hf2. cbn zeta.
  rewrite (dialer_request_x _ host uri nonce B2 r2 H2) in Hf1.
  destruct (neg_answers_offered_wf neg exts Hxok) as [Hx [Hneg Hag]]. destruct (Hag ext) as [Hwf Hoff].
  pose proof (upgrader_accepts_dialer_request_x stext sel ext neg ps exts host uri nonce B1 r1 H1 Hok Hx Hneg Hf1) as U.
  rewrite U in *. cbn [u_out u_err u_hs] in *.
  destruct Hok as [Hps _].
  destruct (dialer_accepts_upgrader_response_x ps exts host uri nonce _ _ B2 r2 trailing H2
              (agreed_protocol_choice sel ps Hps) Hwf Hoff Hf2) as [D1 [D2 D3]].
  auto.
Qed.

(* the mismatch side: a Negotiate function answering (among others) with a well-formed option whose
   name no offer carries: the upgrader completes the handshake, the dialer refuses it *)
Theorem unoffered_extension_makes_dialer_fail : forall stext sel ext f ps exts host uri nonce B1 B2 r1 r2 trailing,
  1 <= B1 -> 1 <= B2 -> req_ok host uri nonce ps ->
  wf_opts exts = true -> neg_answers_wf f exts = true ->
  forallb (offered exts) (neg_answers f exts) = false ->
  flat r1 = d_request (dialer_upgrade (dcfgx ps exts) host uri nonce B2 r2) ->
  flat r2 = u_out (upgrader stext (ucfgx sel ext (Some f)) B1 r1) ++ trailing ->
  let u := upgrader stext (ucfgx sel ext (Some f)) B1 r1 in
  let d := dialer_upgrade (dcfgx ps exts) host uri nonce B2 r2 in
  u_err u = None /\ hs_exts (u_hs u) = neg_answers f exts /\ d_err d = Some DBadExtensions.
Proof.
  intros stext sel ext f ps exts host uri nonce B1 B2 r1 r2 trailing H1 H2 Hok Hx Hwf Hoff Hf1 Hf2. cbn zeta.
  rewrite (dialer_request_x _ host uri nonce B2 r2 H2) in Hf1.
  unfold neg_answers_wf in Hwf. apply andb_prop in Hwf. destruct Hwf as [Ht Hw].
  pose proof (upgrader_accepts_dialer_request_x stext sel ext (Some f) ps exts host uri nonce B1 r1 H1 Hok Hx Ht Hf1) as U.
  rewrite U in *. cbn [u_out u_err u_hs hs_exts agreed_exts] in *.
  split; [reflexivity|]. split; [reflexivity|].
  destruct Hok as [Hps _].
  exact (dialer_refuses_unoffered ps exts host uri nonce _ _ B2 r2 trailing H2
           (agreed_protocol_choice sel ps Hps) Hw Hoff Hf2).
Qed.
