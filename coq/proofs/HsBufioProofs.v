(* HsBufioProofs.v — readLine over bufio over any chunking = "next line" of the flat
   stream, for every buffer size B >= 1 (lines longer than B included). *)
Require Import Bytes HsBufio.
From Coq Require Import ZifyBool ZifyN ZifyNat.
Open Scope N_scope.

Lemma split_nl_app : forall a b,
  split_nl (a ++ b) =
  match split_nl a with
  | Some (x, y) => Some (x, y ++ b)
  | None => match split_nl b with
            | Some (x, y) => Some (a ++ x, y)
            | None => None
            end
  end.
Proof.
  induction a as [|c a IH]; intros b; cbn [app split_nl].
  - destruct (split_nl b) as [[x y]|]; reflexivity.
  - destruct (c =? 10); [reflexivity|]. rewrite IH.
    destruct (split_nl a) as [[x y]|]; [reflexivity|].
    destruct (split_nl b) as [[x y]|]; reflexivity.
Qed.

Lemma split_nl_concat : forall l x y, split_nl l = Some (x, y) -> l = x ++ y.
Proof.
  induction l as [|c l IH]; intros x y H; cbn [split_nl] in H; [discriminate|].
  destruct (c =? 10).
  - inversion H; subst. reflexivity.
  - destruct (split_nl l) as [[x' y']|]; [|discriminate]. inversion H; subst.
    cbn [app]. f_equal. apply IH. reflexivity.
Qed.

Definition rl_mu (B : N) (pending : list byte) (chunks : list (list byte)) : nat :=
  (2 * length (concat chunks) + length chunks + (if (B <=? len pending)%N then 1 else 0))%nat.

Lemma read_line_fuel_spec : forall fuel B line pending chunks t,
  1 <= B -> (rl_mu B pending chunks < fuel)%nat ->
  match split_nl (pending ++ concat chunks) with
  | Some (l, rest) =>
      exists r', read_line_fuel fuel B line pending chunks t = (LOk (cut_eol (line ++ l)), r')
                 /\ flat r' = rest /\ r_tail r' = t
  | None => fst (read_line_fuel fuel B line pending chunks t) = LErr t (line ++ pending ++ concat chunks)
  end.
Proof.
  induction fuel as [|fuel IH]; intros B line pending chunks t HB Hf; [lia|].
  cbn [read_line_fuel]. rewrite split_nl_app.
  destruct (split_nl pending) as [[l rest]|] eqn:Hp.
  - eexists; split; [reflexivity|]. split; reflexivity.
  - destruct (B <=? len pending) eqn:Hfull.
    + (* buffer full: readLine accumulates and goes on with an empty buffer *)
      specialize (IH B (line ++ pending) [] chunks t HB).
      cbn [app] in IH.
      assert (Hf' : (rl_mu B [] chunks < fuel)%nat).
      { unfold rl_mu in *. rewrite Hfull in Hf. unfold len in *. cbn [length].
        destruct (B <=? N.of_nat 0) eqn:E; lia. }
      specialize (IH Hf').
      destruct (split_nl (concat chunks)) as [[x y]|].
      * destruct IH as [r' [H1 [H2 H3]]]. exists r'. rewrite app_assoc. auto.
      * rewrite IH. rewrite app_assoc. reflexivity.
    + destruct chunks as [|c cs].
      * cbn [concat split_nl fst]. rewrite app_nil_r. reflexivity.
      * cbn [concat]. unfold rl_mu in Hf. rewrite Hfull in Hf. cbn [concat length] in Hf.
        rewrite app_length in Hf.
        destruct (len c <=? B - len pending) eqn:Hfit.
        -- (* the whole chunk fits *)
           specialize (IH B line (pending ++ c) cs t HB).
           assert (Hf' : (rl_mu B (pending ++ c) cs < fuel)%nat).
           { unfold rl_mu. unfold len in *. rewrite app_length.
             destruct (B <=? N.of_nat (length pending + length c)) eqn:E; [|lia].
             destruct c; cbn [length] in *; lia. }
           specialize (IH Hf'). rewrite <- app_assoc, split_nl_app, Hp in IH.
           destruct (split_nl (c ++ concat cs)) as [[x y]|]; [exact IH|].
           rewrite IH. rewrite <- ?app_assoc. reflexivity.
        -- (* only a prefix of the chunk fits *)
           specialize (IH B line (pending ++ take (B - len pending) c)
                          (drop (B - len pending) c :: cs) t HB).
           assert (Hf' : (rl_mu B (pending ++ take (B - len pending) c)
                                (drop (B - len pending) c :: cs) < fuel)%nat).
           { unfold rl_mu, take, drop, len in *. cbn [concat length].
             rewrite !app_length, firstn_length, skipn_length.
             match goal with |- context[if ?b then _ else _] => destruct b end; lia. }
           specialize (IH Hf'). cbn [concat] in IH.
           assert (Heq : (pending ++ take (B - len pending) c) ++ drop (B - len pending) c ++ concat cs
                         = pending ++ c ++ concat cs).
           { unfold take, drop. rewrite <- app_assoc. f_equal. rewrite app_assoc.
             rewrite firstn_skipn. reflexivity. }
           rewrite Heq, split_nl_app, Hp in IH.
           destruct (split_nl (c ++ concat cs)) as [[x y]|]; [exact IH|].
           rewrite IH. rewrite ?Heq. reflexivity.
Qed.

(* readLine_flat, success: the line is the flat stream up to its first '\n' minus the
   line end, the reader that remains is observationally the rest of the flat stream *)
Theorem read_line_flat_ok : forall B r l rest,
  1 <= B -> split_nl (flat r) = Some (l, rest) ->
  exists r', read_line B r = (LOk (cut_eol l), r') /\ flat r' = rest /\ r_tail r' = r_tail r.
Proof.
  intros B r l rest HB H. unfold read_line, flat in *.
  pose proof (read_line_fuel_spec (read_line_measure (r_pending r) (r_chunks r)) B []
                (r_pending r) (r_chunks r) (r_tail r) HB) as S.
  assert (Hf : (rl_mu B (r_pending r) (r_chunks r) < read_line_measure (r_pending r) (r_chunks r))%nat).
  { unfold rl_mu, read_line_measure. destruct (B <=? _); lia. }
  specialize (S Hf). rewrite H in S. exact S.
Qed.

(* readLine_flat, failure: no '\n' in the stream -> the transport's error, all bytes returned *)
Theorem read_line_flat_err : forall B r,
  1 <= B -> split_nl (flat r) = None ->
  fst (read_line B r) = LErr (r_tail r) (flat r).
Proof.
  intros B r HB H. unfold read_line, flat in *.
  pose proof (read_line_fuel_spec (read_line_measure (r_pending r) (r_chunks r)) B []
                (r_pending r) (r_chunks r) (r_tail r) HB) as S.
  assert (Hf : (rl_mu B (r_pending r) (r_chunks r) < read_line_measure (r_pending r) (r_chunks r))%nat).
  { unfold rl_mu, read_line_measure. destruct (B <=? _); lia. }
  specialize (S Hf). rewrite H in S. exact S.
Qed.

(* ---- raw_lines against split_nl ---- *)
Lemma raw_lines_acc_spec : forall l cur,
  raw_lines_acc cur l =
  match split_nl l with
  | Some (x, y) => let (ls, rem) := raw_lines y in ((rev cur ++ x) :: ls, rem)
  | None => ([], rev cur ++ l)
  end.
Proof.
  induction l as [|b l IH]; intros cur; cbn [raw_lines_acc split_nl].
  - rewrite app_nil_r. reflexivity.
  - destruct (b =? 10) eqn:E.
    + unfold raw_lines. destruct (raw_lines_acc [] l) as [ls rem]. cbn [rev]. reflexivity.
    + rewrite IH. cbn [rev]. destruct (split_nl l) as [[x y]|].
      * destruct (raw_lines y) as [ls rem]. rewrite <- app_assoc. reflexivity.
      * rewrite <- app_assoc. reflexivity.
Qed.

Lemma raw_lines_some : forall l x y,
  split_nl l = Some (x, y) -> raw_lines l = (x :: fst (raw_lines y), snd (raw_lines y)).
Proof.
  intros l x y H. unfold raw_lines at 1. rewrite raw_lines_acc_spec, H.
  destruct (raw_lines y); reflexivity.
Qed.

Lemma raw_lines_none : forall l, split_nl l = None -> raw_lines l = ([], l).
Proof. intros l H. unfold raw_lines. rewrite raw_lines_acc_spec, H. reflexivity. Qed.

Lemma raw_lines_cons_inv : forall l x ls rem,
  raw_lines l = (x :: ls, rem) ->
  exists y, split_nl l = Some (x, y) /\ raw_lines y = (ls, rem).
Proof.
  intros l x ls rem H. destruct (split_nl l) as [[x' y]|] eqn:E.
  - rewrite (raw_lines_some _ _ _ E) in H. inversion H; subst. exists y. split; [reflexivity|].
    destruct (raw_lines y); reflexivity.
  - rewrite (raw_lines_none _ E) in H. discriminate.
Qed.

Lemma raw_lines_nil_inv : forall l rem, raw_lines l = ([], rem) -> split_nl l = None /\ rem = l.
Proof.
  intros l rem H. destruct (split_nl l) as [[x' y]|] eqn:E.
  - rewrite (raw_lines_some _ _ _ E) in H. discriminate.
  - rewrite (raw_lines_none _ E) in H. inversion H. auto.
Qed.

Lemma split_nl_nonempty : forall l x y, split_nl l = Some (x, y) -> (1 <= length x)%nat.
Proof.
  intros [|c l] x y H; cbn [split_nl] in H; [discriminate|].
  destruct (c =? 10).
  - inversion H; subst. cbn. lia.
  - destruct (split_nl l) as [[x' y']|]; [|discriminate]. inversion H; subst. cbn. lia.
Qed.

(* the bytes are exactly the raw lines followed by the unterminated rest *)
Lemma raw_lines_concat : forall n l ls rem, (length l <= n)%nat ->
  raw_lines l = (ls, rem) -> l = concat ls ++ rem.
Proof.
  induction n as [|n IH]; intros l ls rem Hn H.
  - destruct l; [|cbn in Hn; lia]. cbn in H. inversion H. reflexivity.
  - destruct ls as [|x ls].
    + apply raw_lines_nil_inv in H. destruct H as [_ H]. subst. reflexivity.
    + apply raw_lines_cons_inv in H. destruct H as [y [H1 H2]].
      pose proof (split_nl_concat _ _ _ H1) as E.
      pose proof (split_nl_nonempty _ _ _ H1) as Hx. subst l.
      cbn [concat]. rewrite <- app_assoc. f_equal. apply IH; [|exact H2].
      rewrite app_length in Hn. lia.
Qed.

(* there are at most as many raw lines as bytes *)
Lemma raw_lines_count : forall n l ls rem, (length l <= n)%nat ->
  raw_lines l = (ls, rem) -> (length ls <= length l)%nat.
Proof.
  induction n as [|n IH]; intros l ls rem Hn H.
  - destruct l; [|cbn in Hn; lia]. cbn in H. inversion H. cbn. lia.
  - destruct ls as [|x ls]; [cbn; lia|].
    apply raw_lines_cons_inv in H. destruct H as [y [H1 H2]].
    pose proof (split_nl_concat _ _ _ H1) as E.
    pose proof (split_nl_nonempty _ _ _ H1) as Hx. subst l.
    rewrite app_length in *. cbn [length].
    assert (length ls <= length y)%nat by (apply (IH y ls rem); [lia|exact H2]). lia.
Qed.

(* ---- the header loop over any chunking = the loop over the flat view ---- *)
Section MachineProofs.
  Variables (S R : Type).
  Variable step : S -> list byte -> S + R.
  Variable on_blank : S -> R.
  Variable on_ioerr : S -> tail_kind -> list byte -> R.
  Variable on_fuel : R.

  Theorem run_stream_flat : forall ls fuel B s r rem,
    1 <= B -> (length ls < fuel)%nat -> raw_lines (flat r) = (ls, rem) ->
    exists r',
      run_stream S R step on_blank on_ioerr on_fuel fuel B s r
      = (fst (run_lines S R step on_blank on_ioerr s ls rem (r_tail r)), r')
      /\ match snd (run_lines S R step on_blank on_ioerr s ls rem (r_tail r)) with
         | Some unread => flat r' = concat unread ++ rem /\ r_tail r' = r_tail r
         | None => True
         end.
  Proof.
    induction ls as [|l ls IH]; intros fuel B s r rem HB Hf Hr.
    - destruct fuel; [cbn in Hf; lia|]. cbn [run_stream run_lines fst snd].
      apply raw_lines_nil_inv in Hr. destruct Hr as [Hn Hrem]. subst rem.
      pose proof (read_line_flat_err B r HB Hn) as E.
      destruct (read_line B r) as [res r']. cbn [fst] in E. subst res.
      exists r'. split; [reflexivity|exact I].
    - destruct fuel; [cbn in Hf; lia|]. cbn [run_stream run_lines].
      apply raw_lines_cons_inv in Hr. destruct Hr as [y [Hs Hy]].
      destruct (read_line_flat_ok B r l y HB Hs) as [r1 [E1 [E2 E3]]].
      rewrite E1.
      destruct (cut_eol l) as [|c line] eqn:Hc.
      + exists r1. cbn [fst snd]. split; [reflexivity|].
        split; [|exact E3]. rewrite E2.
        apply (raw_lines_concat (length y)); [lia|exact Hy].
      + destruct (step s (c :: line)) as [s'|res] eqn:Hst.
        * assert (Hy' : raw_lines (flat r1) = (ls, rem)) by (rewrite E2; exact Hy).
          cbn [length] in Hf.
          destruct (IH fuel B s' r1 rem HB ltac:(lia) Hy') as [r' [G1 G2]].
          rewrite E3 in *. exists r'. split; [exact G1|exact G2].
        * exists r1. cbn [fst snd]. split; [reflexivity|].
          split; [|exact E3]. rewrite E2.
          apply (raw_lines_concat (length y)); [lia|exact Hy].
  Qed.
End MachineProofs.
