(* ReaderProofs.v — C04 (stream level): the Reader model driven by the canonical
   NextFrame / read-to-EOF loop meets the frame-sequence spec, for every frame
   sequence, every transport chunking and every sequence of caller buffer sizes. *)
Require Import Bytes Stream Utf8Spec Check Frame Cipher Utf8Dfa Extracted ExtractedOk Reader
  BytesProofs StreamProofs CheckProofs FrameProofs CipherProofs Utf8Proofs ReaderLocalProofs
  ReaderAux ReaderInv.
From Coq Require Import ZifyBool ZifyN ZifyNat.
Open Scope N_scope.

(* ------------------------------------------------------------------ positions inside a message *)
Inductive mst :=
  | MMid (m : msg) (f : sframe) (pre post : list byte)   (* inside frame f, [pre] delivered *)
  | MBet (m : msg).                                      (* between two fragments *)

Definition minv (c : rcfg) (st : mst) (lg : list event) (rest : list sframe) (r : reader) : Prop :=
  match st with
  | MMid m f pre post => Mid c m f pre post lg rest r
  | MBet m => Bnd c (Some m) lg rest r
  end.
(* what the spec still has to say from this position *)
Definition mspec (c : rcfg) (k : nat) (st : mst) (evs : list event) (rest : list sframe) : spec_result :=
  match st with
  | MMid m f _ _ => spec_data c k m evs f rest
  | MBet m => spec_run c k (Some m) evs rest
  end.
Definition mdeliv (st : mst) : list byte :=
  match st with MMid m _ pre _ => m_acc m ++ pre | MBet m => m_acc m end.
Definition mmsg (st : mst) : msg := match st with MMid m _ _ _ => m | MBet m => m end.

(* observed (events, bytes of the unfinished message, error) against a spec result *)
Definition res_ok (sr : spec_result) (evs : list event) (p : list byte) (e : rerror) : Prop :=
  evs_match (sr_events sr) evs = true /\ err_matches (sr_out sr) e = true /\
  (sr_out sr = OInvalidUtf8 \/ p = sr_partial sr).

Lemma res_ok_monitor c fs evs p e : res_ok (spec_run c 0 None [] fs) evs p e ->
  reader_monitor c true fs evs (Some p) e = true.
Proof.
  intros (H1 & H2 & H3). unfold reader_monitor, expected_events. rewrite H1, H2. cbn [andb].
  destruct H3 as [->| ->]; [reflexivity|]. destruct (sr_out _); try reflexivity; apply bytes_eqb_refl.
Qed.

(* ------------------------------------------------------------------ one Read inside a message *)
Lemma read_step c st lg rest r kk : wf_cfg c -> minv c st lg rest r -> 0 < kk ->
  (exists d r' st' lg' rest', reader_read kk r = ((d, None), r') /\ minv c st' lg' rest' r' /\
      mdeliv st' = mdeliv st ++ d /\ m_op (mmsg st') = m_op (mmsg st) /\ m_comp (mmsg st') = m_comp (mmsg st) /\
      (mu r' < mu r)%nat /\
      forall k evs, evs_match evs lg = true ->
        exists k' evs', evs_match evs' lg' = true /\ mspec c k st evs rest = mspec c k' st' evs' rest') \/
  (exists d r' rest', reader_read kk r = ((d, Some (RIo EEOF)), r') /\ Bnd c None lg rest' r' /\
      (r_compressed r' = m_comp (mmsg st) \/ spec_control (m_op (mmsg st)) = true) /\
      (length (flat (r_src r')) <= length (flat (r_src r)))%nat /\
      forall k evs, exists k', mspec c k st evs rest =
        spec_run c k' None (evs ++ [mkEv (m_op (mmsg st)) (mdeliv st ++ d) false (m_comp (mmsg st))]) rest') \/
  (exists d err r', reader_read kk r = ((d, Some err), r') /\ err <> RIo EEOF /\
      forall k evs, evs_match evs lg = true -> res_ok (mspec c k st evs rest) (r_log r') (mdeliv st ++ d) err).
Proof.
  intros Hc Hinv Hk. destruct st as [m f pre post|m]; cbn [minv mspec mdeliv mmsg] in *.
  - (* inside a frame *)
    rewrite reader_read_eq, (m_frame _ _ _ _ _ _ _ _ Hinv).
    pose proof (m_pay _ _ _ _ _ _ _ _ Hinv) as Hpay.
    destruct (rgo_step c m f pre post lg rest r kk Hc Hinv Hk)
      as [(d & post' & r' & Hr & Hdp & HM & Hmu)|[(r' & Hr & HB & Hmu & Hsp)|[(r' & Hr & HB & Hcp & Hle & Hsp)|(d & r' & Hr & Hlg & Hsp)]]].
    + left. exists d, r', (MMid m f (pre ++ d) post'), lg, rest. cbn [minv mspec mdeliv mmsg].
      split; [exact Hr|]. split; [exact HM|]. split; [apply app_assoc|]. split; [reflexivity|]. split; [reflexivity|].
      split; [exact Hmu|]. intros k evs He. exists k, evs. split; [exact He|reflexivity].
    + left. exists post, r', (MBet (msg_after m f)), lg, rest. cbn [minv mspec mdeliv mmsg].
      split; [exact Hr|]. split; [exact HB|]. split.
      { unfold msg_after. cbn [m_acc fst snd]. rewrite Hpay. apply app_assoc. }
      split; [reflexivity|]. split; [reflexivity|]. split; [exact Hmu|].
      intros k evs He. exists (S k), evs. split; [exact He|apply Hsp].
    + right; left. exists post, r', rest. split; [exact Hr|]. split; [exact HB|]. split; [exact Hcp|].
      split; [exact Hle|]. intros k evs. exists (S k). rewrite Hsp, Hpay, app_assoc. reflexivity.
    + right; right. exists d, RInvalidUtf8, r'. split; [exact Hr|]. split; [discriminate|].
      intros k evs He. rewrite Hsp, Hlg. unfold res_ok. cbn [sr_events sr_out sr_partial err_matches].
      split; [exact He|]. split; [reflexivity|left; reflexivity].
  - (* between two fragments: the next header first *)
    pose proof (b_msg _ _ _ _ _ Hinv) as (Hfr & _). cbn [is_some] in *.
    rewrite reader_read_eq, Hfr, (b_state _ _ _ _ _ Hinv), st_frag_set. cbn [negb is_some].
    destruct rest as [|f rest].
    + destruct (next_frame_eof c (Some m) lg r Hinv) as (h & r' & Hnf & Hlg). rewrite Hnf. cbn [is_some].
      right; right. exists [], (RIo EUnexpected), r'. split; [reflexivity|]. split; [discriminate|].
      intros k evs He. rewrite spec_run_nil, Hlg, app_nil_r. destruct m as [[o a] cm].
      unfold res_ok. cbn [sr_events sr_out sr_partial err_matches is_some partial_of m_acc fst snd].
      split; [exact He|]. split; [reflexivity|right; reflexivity].
    + destruct (next_frame_spec c (Some m) lg f rest r Hc Hinv) as (h & e & r1 & Hnf & H). rewrite Hnf.
      destruct e as [err|].
      * destruct H as (Hlg & Hsp). right; right. exists [], err, r1. split; [reflexivity|].
        split.
        { intros ->. destruct (Hsp 0%nat []) as (out & _ & Hem & _ & Hnc).
          destruct out; cbn [err_matches] in Hem; try discriminate. apply Hnc; reflexivity. }
        intros k evs He. destruct (Hsp k evs) as (out & -> & Hem & Hnu & _). rewrite Hlg, app_nil_r.
        destruct m as [[o a] cm]. unfold res_ok. cbn [sr_events sr_out sr_partial partial_of m_acc fst snd].
        split; [exact He|]. split; [exact Hem|right; reflexivity].
      * destruct H as (Hlen & [(m0 & Hm0 & Hfr1 & HB & Hsp)|(Hop & HM & Hsp)]).
        -- (* control frame in between *)
           rewrite Hfr1. injection Hm0 as <-. left.
           exists [], r1, (MBet m), (lg ++ [mkEv (sf_op f) (sf_payload f) true (m_comp m)]), rest.
           cbn [minv mspec mdeliv mmsg]. split; [reflexivity|]. split; [exact HB|].
           split; [symmetry; apply app_nil_r|]. split; [reflexivity|]. split; [reflexivity|]. split.
           { unfold mu. rewrite Hfr, Hfr1. clear -Hlen. lia. }
           intros k evs He. exists (S k), (evs ++ [mkEv (sf_op f) (sf_payload f) true (m_comp m)]).
           split; [|apply Hsp]. apply evs_match_app; [exact He|]. apply ev_matches_same. left; reflexivity.
        -- (* next fragment: its first Read happens in the same call *)
           cbn [msg_of] in *. rewrite (m_frame _ _ _ _ _ _ _ _ HM).
           pose proof (m_pay _ _ _ _ _ _ _ _ HM) as Hpay. cbn [app] in Hpay.
           assert (Hmu1: (mu r1 < mu r)%nat).
           { unfold mu. rewrite Hfr, (m_frame _ _ _ _ _ _ _ _ HM). clear -Hlen. lia. }
           destruct (rgo_step c m f [] (sf_payload f) lg rest r1 kk Hc HM Hk)
             as [(d & post' & r' & Hr & Hdp & HM' & Hmu)|[(r' & Hr & HB & Hmu & Hsp')|[(r' & Hr & HB & Hcp & Hle & Hsp')|(d & r' & Hr & Hlg & Hsp')]]].
           ++ left. exists d, r', (MMid m f ([] ++ d) post'), lg, rest. cbn [minv mspec mdeliv mmsg].
              split; [exact Hr|]. split; [exact HM'|]. split; [reflexivity|]. split; [reflexivity|].
              split; [reflexivity|]. split; [clear -Hmu Hmu1; lia|].
              intros k evs He. exists k, evs. split; [exact He|apply Hsp].
           ++ left. exists (sf_payload f), r', (MBet (msg_after m f)), lg, rest. cbn [minv mspec mdeliv mmsg].
              split; [exact Hr|]. split; [exact HB|]. split; [reflexivity|]. split; [reflexivity|].
              split; [reflexivity|]. split; [clear -Hmu Hmu1; lia|].
              intros k evs He. exists (S k), evs. split; [exact He|]. rewrite Hsp. apply Hsp'.
           ++ right; left. exists (sf_payload f), r', rest. split; [exact Hr|]. split; [exact HB|].
              split; [exact Hcp|]. split.
              { unfold mu in Hmu1. rewrite Hfr, (m_frame _ _ _ _ _ _ _ _ HM) in Hmu1. clear -Hle Hmu1. lia. }
              intros k evs. exists (S k). rewrite Hsp, Hsp'. reflexivity.
           ++ right; right. exists d, RInvalidUtf8, r'. split; [exact Hr|]. split; [discriminate|].
              intros k evs He. rewrite Hsp, Hsp', Hlg. unfold res_ok. cbn [sr_events sr_out sr_partial err_matches].
              split; [exact He|]. split; [reflexivity|left; reflexivity].
Qed.

(* ------------------------------------------------------------------ reading one message to io.EOF *)
Lemma next_buf_pos bufs all : 0 < fst (next_buf bufs all).
Proof.
  unfold next_buf. destruct bufs as [|k b]; [destruct all as [|k b]|]; cbn [fst];
    try (destruct (k =? 0) eqn:E; lia); reflexivity.
Qed.

Lemma mu_le r r' : (mu r' < mu r)%nat -> (length (flat (r_src r')) <= length (flat (r_src r)))%nat.
Proof. unfold mu. destruct (r_frame r), (r_frame r'); lia. Qed.

Lemma read_to_eof_spec c : wf_cfg c -> forall fuel st lg rest r bufs all racc,
  minv c st lg rest r -> concat (rev_append racc []) = mdeliv st -> (mu r < fuel)%nat ->
  exists p e r2, read_to_eof fuel bufs all r racc = ((p, e), r2) /\
   ((e = RIo EEOF /\ exists lg' rest', Bnd c None lg' rest' r2 /\
        (r_compressed r2 = m_comp (mmsg st) \/ spec_control (m_op (mmsg st)) = true) /\
        (length (flat (r_src r2)) <= length (flat (r_src r)))%nat /\
        forall k evs, evs_match evs lg = true -> exists k' evs', evs_match evs' lg' = true /\
           mspec c k st evs rest =
           spec_run c k' None (evs' ++ [mkEv (m_op (mmsg st)) p false (m_comp (mmsg st))]) rest')
    \/ (e <> RIo EEOF /\
        forall k evs, evs_match evs lg = true -> res_ok (mspec c k st evs rest) (r_log r2) p e)).
Proof.
  intros Hc. induction fuel as [|fuel IH]; intros st lg rest r bufs all racc Hinv Hacc Hmu; [lia|].
  cbn [read_to_eof]. pose proof (next_buf_pos bufs all) as Hkk.
  destruct (next_buf bufs all) as [kk bufs']. cbn [fst] in Hkk.
  destruct (read_step c st lg rest r kk Hc Hinv Hkk)
    as [(d & r' & st' & lg' & rest' & Hr & Hinv' & Hdel & Hopq & Hcmq & Hmu' & Hsp)
       |[(d & r' & rest' & Hr & HB & Hcp & Hle & Hsp)|(d & err & r' & Hr & Hne & Hsp)]]; rewrite Hr.
  - assert (Hacc': concat (rev_append (d :: racc) []) = mdeliv st') by (rewrite concat_rev_cons, Hacc, Hdel; reflexivity).
    destruct (IH st' lg' rest' r' bufs' all (d :: racc) Hinv' Hacc' ltac:(lia)) as (p & e & r2 & Hrte & Hres).
    exists p, e, r2. split; [exact Hrte|]. rewrite Hopq, Hcmq in Hres.
    pose proof (mu_le _ _ Hmu') as Hle'.
    destruct Hres as [(He & lg2 & rest2 & HB & Hcp & Hle & Hsp2)|(Hne & Hsp2)].
    + left. split; [exact He|]. exists lg2, rest2. split; [exact HB|]. split; [exact Hcp|].
      split; [clear -Hle Hle'; lia|]. intros k evs Hev.
      destruct (Hsp k evs Hev) as (k1 & evs1 & Hev1 & Heq1).
      destruct (Hsp2 k1 evs1 Hev1) as (k2 & evs2 & Hev2 & Heq2).
      exists k2, evs2. split; [exact Hev2|]. rewrite Heq1. exact Heq2.
    + right. split; [exact Hne|]. intros k evs Hev.
      destruct (Hsp k evs Hev) as (k1 & evs1 & Hev1 & Heq1). rewrite Heq1. apply Hsp2, Hev1.
  - do 3 eexists. split; [reflexivity|]. left. split; [reflexivity|]. exists lg, rest'.
    split; [exact HB|]. split; [exact Hcp|]. split; [exact Hle|].
    intros k evs Hev. destruct (Hsp k evs) as (k1 & Heq1). exists k1, evs. split; [exact Hev|].
    rewrite concat_rev_cons, Hacc. exact Heq1.
  - do 3 eexists. split; [reflexivity|]. right. split; [exact Hne|].
    intros k evs Hev. rewrite concat_rev_cons, Hacc. apply Hsp, Hev.
Qed.

(* ------------------------------------------------------------------ the NextFrame / read-to-EOF loop *)
Lemma Bnd_set_log c lg lg' rest r : Bnd c None lg rest r ->
  Bnd c None lg' rest
    (mkR (r_src r) (r_state r) (r_skip r) (r_check_utf8 r) (r_max r) (r_ext r) (r_compressed r) (r_cb r)
         (r_opcode r) (r_frame r) (r_rawN r) (r_masked r) (r_key r) (r_cpos r) (r_u8wrap r) (r_u8state r)
         (r_u8acc r) lg').
Proof. intros [H1 H2 H3 H4 H5 H6 H7]. constructor; rsimpl; try assumption; reflexivity. Qed.

Lemma drive_spec c bufs : wf_cfg c -> forall fuel fs k evs lg r,
  Bnd c None lg fs r -> evs_match evs lg = true -> (length (wire fs) + 2 <= fuel)%nat ->
  res_ok (spec_run c k None evs fs) (dr_events (drive fuel bufs r)) (dr_partial (drive fuel bufs r))
         (dr_err (drive fuel bufs r)).
Proof.
  intros Hc. induction fuel as [|fuel IH]; intros fs k evs lg r HB Hev Hfuel; [lia|].
  cbn [drive]. destruct fs as [|f rest].
  - destruct (next_frame_eof c None lg r HB) as (h & r' & Hnf & Hlg). rewrite Hnf. cbn [is_some].
    cbn [dr_events dr_partial dr_err]. rewrite spec_run_nil, Hlg. unfold res_ok.
    cbn [sr_events sr_out sr_partial is_some partial_of err_matches].
    split; [exact Hev|]. split; [reflexivity|right; reflexivity].
  - pose proof (b_src _ _ _ _ _ HB) as (_ & _ & Hfl).
    destruct (next_frame_spec c None lg f rest r Hc HB) as (h & e & r1 & Hnf & H). rewrite Hnf.
    destruct e as [err|].
    + destruct H as (Hlg & Hsp). cbn [dr_events dr_partial dr_err].
      destruct (Hsp k evs) as (out & -> & Hem & Hnu & _). rewrite Hlg. unfold res_ok.
      cbn [sr_events sr_out sr_partial partial_of]. split; [exact Hev|]. split; [exact Hem|right; reflexivity].
    + destruct H as (Hlen & [(m0 & Hm0 & _)|(Hop & HM & Hsp)]); [discriminate|].
      rewrite Hfl in Hlen.
      assert (Hmu: (mu r1 < S fuel)%nat).
      { unfold mu. rewrite (m_frame _ _ _ _ _ _ _ _ HM). clear -Hlen Hfuel. lia. }
      destruct (read_to_eof_spec c Hc (S fuel) (MMid (msg_of c None f) f [] (sf_payload f)) lg rest r1
                  bufs bufs [] HM eq_refl Hmu) as (p & e2 & r2 & Hrte & Hres).
      rewrite Hrte. cbn [mspec mmsg msg_of m_op m_comp fst snd] in Hres. cbn [msg_of] in Hsp.
      destruct Hres as [(-> & lg' & rest' & HB' & Hcp & Hle & Hsp2)|(Hne & Hsp2)].
      * destruct (Hsp2 k evs Hev) as (k' & evs' & Hev' & Heq). rewrite Hsp, Heq.
        apply IH with (lg := r_log r2 ++ [mkEv (h_op h) p false (r_compressed r2)]).
        -- apply Bnd_set_log with (lg := lg'). exact HB'.
        -- rewrite (b_log _ _ _ _ _ HB'). apply evs_match_app; [exact Hev'|]. rewrite Hop.
           apply ev_matches_same. destruct Hcp as [Hcp|Hcp]; [left; symmetry; exact Hcp|right; split; [exact Hcp|reflexivity]].
        -- pose proof (b_src _ _ _ _ _ HB') as (_ & _ & Hfl'). rewrite <- Hfl'. clear -Hle Hlen Hfuel. lia.
      * assert (Hgoal: res_ok (spec_run c k None evs (f :: rest)) (r_log r2) p e2)
          by (rewrite Hsp; apply Hsp2, Hev).
        destruct e2 as [[| |]| | | | | | | |]; try exact Hgoal. exfalso; apply Hne; reflexivity.
Qed.

(* ------------------------------------------------------------------ C04, stream level *)
Theorem reader_meets_spec : forall c fs s bufs fuel,
  wf_cfg c -> Forall wf_sframe fs -> wf_src s -> tl s = TEOF -> flat s = wire fs ->
  (2 * length (wire fs) + 4 * length fs + 8 <= fuel)%nat ->
  let d := drive fuel bufs (new_reader s (c_state c) false (c_check_utf8 c) (c_max c) (c_ext c) CbReadAll) in
  reader_monitor c true fs (dr_events d) (Some (dr_partial d)) (dr_err d) = true.
Proof.
  intros c fs s bufs fuel Hc Hfs Hw Ht Hfl Hfuel. cbv zeta. apply res_ok_monitor.
  apply drive_spec with (lg := []); [exact Hc| |reflexivity|lia].
  unfold new_reader. constructor; rsimpl; cbn [is_some].
  - unfold cfg_ok; rsimpl. repeat split; reflexivity.
  - unfold src_ok; rsimpl. repeat split; assumption.
  - exact Hfs.
  - reflexivity.
  - symmetry. apply set_frag_init, Hc.
  - reflexivity.
  - reflexivity.
Qed.

(* C04 proper: a stream the spec accepts to the end is delivered completely and
   ends with a clean io.EOF *)
Theorem reader_valid_stream : forall c fs s bufs fuel,
  wf_cfg c -> Forall wf_sframe fs -> wf_src s -> tl s = TEOF -> flat s = wire fs ->
  (2 * length (wire fs) + 4 * length fs + 8 <= fuel)%nat ->
  sr_out (spec_run c 0 None [] fs) = OClean ->
  let d := drive fuel bufs (new_reader s (c_state c) false (c_check_utf8 c) (c_max c) (c_ext c) CbReadAll) in
  dr_err d = RIo EEOF /\ evs_match (sr_events (spec_run c 0 None [] fs)) (dr_events d) = true.
Proof.
  intros c fs s bufs fuel Hc Hfs Hw Ht Hfl Hfuel Hout. cbv zeta.
  pose proof (reader_meets_spec c fs s bufs fuel Hc Hfs Hw Ht Hfl Hfuel) as H. cbv zeta in H.
  unfold reader_monitor, expected_events in H. rewrite Hout in H.
  apply andb_true_iff in H. destruct H as [H _]. apply andb_true_iff in H. destruct H as [H1 H2].
  split; [|exact H1]. unfold err_matches in H2.
  destruct (dr_err _) as [[| |]| | | | | | | |]; try discriminate. reflexivity.
Qed.
