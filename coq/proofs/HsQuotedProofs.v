(* HsQuotedProofs.v — httphead option lists with quoted-string parameter values (C11).
   1. what the lexer makes of a quoted string the writer emitted; 2. the exact set of values that
   come back unchanged (qv_ok) and that every other lexable value comes back changed; 3. ScanOptions
   on a written list with lexable values = the call sequence of the NORMALISED list (nrm_opts);
   4. ParseOptions / Select / negotiateExtensions / matchSelectedExtensions on such lists;
   5. both peers composed: the upgrader reports its selection es from the scanned offers, the
   dialer reports nrm_opts es — equal on the qv_ok domain, different for the witness at the end. *)
Require Import Bytes HsBase64 HsSha1 HsBufio HsBufioProofs HsHttpHead HsHttp HsUpgrader HsUpgraderProofs
        HsDialer HsDialerProofs HsAgreementProofs HsAgreeExt HsOptionsProofs HsAgreementExtProofs HsAgreeQ.
From Coq Require Import ZifyBool ZifyN ZifyNat Btauto.
From Coq Require String.
Import String.StringSyntax.
Local Open Scope string_scope.
Local Open Scope list_scope.
Open Scope N_scope.

(* ================= 1. lexing a written quoted string *)
Fixpoint ends_bs (pb : bool) (v : list byte) : bool :=
  match v with [] => pb | c :: r => ends_bs (c =? 92) r end.

Lemma ends_bs_last : forall v pb, ends_bs pb v = match v with [] => pb | _ => last_byte v =? 92 end.
Proof.
  induction v as [|c r IH]; intros pb; [reflexivity|].
  cbn [ends_bs]. rewrite IH. destruct r as [|d r']; reflexivity.
Qed.

Lemma scan_until_quote_written : forall v pb rest, ends_bs pb v = false ->
  scan_until_quote pb (escape_quoted v ++ 34 :: rest) = Some (escape_quoted v, rest).
Proof.
  induction v as [|c r IH]; intros pb rest H.
  - cbn in H. subst pb. reflexivity.
  - cbn [ends_bs] in H. cbn [escape_quoted].
    destruct (oct_control c || (c =? 34)) eqn:E.
    + assert (Hc : (c =? 92) = false).
      { unfold oct_control in E. apply orb_prop in E. destruct E as [E|E]; apply N.eqb_eq in E; subst; reflexivity. }
      cbn [app scan_until_quote]. change (92 =? 34) with false. change (92 =? 92) with true.
      cbn [andb negb]. rewrite andb_false_r. rewrite Hc in *.
      rewrite (IH false rest H). reflexivity.
    + apply orb_false_iff in E. destruct E as [_ E].
      cbn [app scan_until_quote]. rewrite E. cbn [andb]. rewrite (IH _ rest H). reflexivity.
Qed.

Lemma next_item_quoted : forall v rest, ends_bs false v = false ->
  next_item (34 :: escape_quoted v ++ 34 :: rest) = Some (IString (remove_backslash (escape_quoted v)), rest).
Proof.
  intros v rest H. unfold next_item. rewrite skip_space_nsp by reflexivity.
  change (34 =? 34) with true. cbv iota. rewrite (scan_until_quote_written v false rest H). reflexivity.
Qed.

(* ================= 2. which values come back unchanged *)
Lemma escape_quoted_app : forall a b, escape_quoted (a ++ b) = escape_quoted a ++ escape_quoted b.
Proof.
  induction a as [|c a IH]; intros b; [reflexivity|].
  cbn [app escape_quoted]. rewrite IH. destruct (oct_control c || (c =? 34)); reflexivity.
Qed.

Lemma filter_escape : forall v, filter (fun c => negb (c =? 92)) (escape_quoted v) = filter (fun c => negb (c =? 92)) v.
Proof.
  induction v as [|c r IH]; [reflexivity|]. cbn [escape_quoted].
  destruct (oct_control c || (c =? 34)); cbn [filter]; change (92 =? 92) with true; cbn [negb]; rewrite IH; reflexivity.
Qed.

Lemma filter_no_byte : forall v, no_byte 92 v = true -> filter (fun c => negb (c =? 92)) v = v.
Proof.
  induction v as [|c r IH]; intros H; [reflexivity|].
  unfold no_byte in *. cbn [forallb] in H. apply andb_prop in H. destruct H as [Hc Hr].
  cbn [filter]. rewrite Hc, (IH Hr). reflexivity.
Qed.

(* the last byte of the escaped form is the last byte of the value *)
Lemma rev_escape_head : forall w, match rev (escape_quoted w), rev w with
                                   | y :: _, x :: _ => y = x
                                   | [], [] => True
                                   | _, _ => False
                                   end.
Proof.
  intros w. destruct w as [|c0 w0] using rev_ind; [exact I|].
  rewrite escape_quoted_app, !rev_app_distr. cbn [escape_quoted].
  destruct (oct_control c0 || (c0 =? 34)); reflexivity.
Qed.

Lemma no_byte_app92 : forall a b, no_byte 92 (a ++ b) = no_byte 92 a && no_byte 92 b.
Proof. intros a b. unfold no_byte. apply forallb_app. Qed.

Lemma last_byte_snoc : forall w c, last_byte (w ++ [c]) = c.
Proof. intros w c. unfold last_byte. apply last_last. Qed.

Lemma match92 : forall (A : Type) (y : byte) (a b : A), (y =? 92) = false ->
  (match y with 92 => a | _ => b end) = b.
Proof.
  intros A y a b H. destruct y as [|p]; [reflexivity|].
  do 7 (try (destruct p as [p|p|]; try reflexivity)). discriminate H.
Qed.

(* RemoveByte keeps the last byte unless the last-but-one byte is a backslash *)
Lemma rb_keep : forall d,
  match rev d with _ :: y :: _ => (y =? 92) = false | _ => True end ->
  remove_backslash d = filter (fun c => negb (c =? 92)) d.
Proof.
  intros d H. unfold remove_backslash. unfold byte in *.
  destruct (rev d) as [|x l]; [reflexivity|]. destruct l as [|y t]; [reflexivity|].
  rewrite (match92 _ y _ _ H). reflexivity.
Qed.

Lemma rb_drop : forall d x t, rev d = x :: 92 :: t ->
  remove_backslash d = filter (fun c => negb (c =? 92)) (removelast d).
Proof. intros d x t H. unfold remove_backslash. unfold byte in *. rewrite H. reflexivity. Qed.

Lemma esc_last_not92 : forall w, no_byte 92 w = true ->
  match rev (escape_quoted w) with [] => True | y :: _ => (y =? 92) = false end.
Proof.
  intros w Hw. destruct w as [|d w'] using rev_ind; [exact I|]. clear IHw'.
  rewrite no_byte_app92 in Hw. apply andb_prop in Hw. destruct Hw as [_ Hd].
  unfold no_byte in Hd. cbn [forallb] in Hd. rewrite andb_true_r in Hd. apply negb_true_iff in Hd.
  rewrite escape_quoted_app, rev_app_distr. cbn [escape_quoted].
  destruct (oct_control d || (d =? 34)); exact Hd.
Qed.

Lemma remove_backslash_survives : forall v, v <> [] ->
  no_byte 92 v = true -> (last_byte v =? 34) = false -> (last_byte v =? 127) = false ->
  remove_backslash (escape_quoted v) = v.
Proof.
  intros v Hne Hb H34 H127. destruct v as [|c0 w] using rev_ind; [contradiction|]. clear IHw.
  rewrite last_byte_snoc in H34, H127. pose proof Hb as Hall.
  rewrite no_byte_app92 in Hb. apply andb_prop in Hb. destruct Hb as [Hw Hc].
  assert (E : escape_quoted (w ++ [c0]) = escape_quoted w ++ [c0]).
  { rewrite escape_quoted_app. cbn [escape_quoted]. unfold oct_control. rewrite H34, H127. reflexivity. }
  rewrite rb_keep; [rewrite filter_escape; apply filter_no_byte; exact Hall|].
  rewrite E, rev_app_distr. cbn [rev app].
  exact (esc_last_not92 w Hw).
Qed.

Lemma qv_ok_nrm : forall v, qv_ok v = true -> nrm_value v = v.
Proof.
  intros v H. unfold qv_ok in H. apply andb_prop in H. destruct H as [Hne H].
  unfold nrm_value. destruct (forallb oct_token v); [reflexivity|]. cbn [orb] in H.
  apply andb_prop in H. destruct H as [H H127]. apply andb_prop in H. destruct H as [Hb H34].
  apply remove_backslash_survives; [destruct v; [discriminate|discriminate]|exact Hb| |];
    apply negb_true_iff; assumption.
Qed.

Lemma qv_ok_lexv : forall v, qv_ok v = true -> lexv_ok v = true.
Proof.
  intros v H. unfold qv_ok in H. apply andb_prop in H. destruct H as [Hne H]. unfold lexv_ok.
  destruct (forallb oct_token v); [reflexivity|]. cbn [orb] in *.
  apply andb_prop in H. destruct H as [H _]. apply andb_prop in H. destruct H as [Hb _].
  destruct v as [|c0 w] using rev_ind; [discriminate|]. rewrite last_byte_snoc.
  rewrite no_byte_app92 in Hb. apply andb_prop in Hb. destruct Hb as [_ Hc].
  unfold no_byte in Hc. cbn [forallb] in Hc. rewrite andb_true_r in Hc. exact Hc.
Qed.

(* ================= 3. lexing and scanning a written list with lexable values *)
Definition val_items (v : list byte) : list item :=
  match v with
  | [] => []
  | _ => [ISep 61; if forallb oct_token v then IToken v else IString (nrm_value v)]
  end.
Fixpoint param_items_q (ps : list (list byte * list byte)) : list item :=
  match ps with
  | [] => []
  | (k, v) :: r => ISep 59 :: IToken k :: val_items v ++ param_items_q r
  end.
Fixpoint opts_items_q (os : list hopt) : list item :=
  match os with
  | [] => []
  | o :: r => IToken (o_name o) :: param_items_q (o_params o)
              ++ (match r with [] => [] | _ => ISep 44 :: opts_items_q r end)
  end.

Lemma lexv_ends : forall v, lexv_ok v = true -> forallb oct_token v = false -> ends_bs false v = false.
Proof.
  intros v H Ht. unfold lexv_ok in H. rewrite Ht in H. cbn [orb] in H. rewrite ends_bs_last.
  destruct v; [reflexivity|]. apply negb_true_iff. exact H.
Qed.

Lemma lex_params_q : forall ps tail titems,
  forallb lx_param ps = true -> nontok_head tail = true ->
  (forall f, (length tail < f)%nat -> lex_fuel f tail = titems) ->
  forall f, (length (write_params ps ++ tail) < f)%nat ->
  lex_fuel f (write_params ps ++ tail) = param_items_q ps ++ titems.
Proof.
  induction ps as [|[k v] r IH]; intros tail titems Hwf Hh Ht f Hf.
  - cbn [write_params app param_items_q]. apply Ht. exact Hf.
  - cbn [forallb] in Hwf. apply andb_prop in Hwf. destruct Hwf as [Hkv Hr].
    unfold lx_param in Hkv. cbn [fst snd] in Hkv. apply andb_prop in Hkv. destruct Hkv as [Hk Hv].
    pose proof (tokb_is_tok k Hk) as Tk. pose proof (tokb_chars k Hk) as Hkt.
    assert (Hklen : (1 <= length k)%nat) by (destruct Tk as [Hne _]; destruct k; [contradiction|cbn; lia]).
    destruct v as [|c v'].
    + assert (E : write_params ((k, []) :: r) ++ tail = 59 :: k ++ (write_params r ++ tail)).
      { cbn [write_params]. rewrite (wts_tok k Hkt). cbn [app]. rewrite <- app_assoc. reflexivity. }
      rewrite E in *. cbn [length] in Hf. rewrite app_length in Hf.
      destruct f; [lia|]. cbn [lex_fuel]. rewrite next_item_semi.
      destruct f; [lia|]. cbn [lex_fuel].
      rewrite (next_item_token k _ Tk (write_params_head r tail Hh)).
      cbn [param_items_q val_items app]. f_equal. f_equal. apply IH; try assumption. lia.
    + destruct (forallb oct_token (c :: v')) eqn:Hvt.
      * assert (E : write_params ((k, c :: v') :: r) ++ tail
                    = 59 :: k ++ 61 :: (c :: v') ++ (write_params r ++ tail)).
        { cbn [write_params]. rewrite (wts_tok k Hkt), (wts_tok (c :: v') Hvt).
          cbn [app]. rewrite <- !app_assoc. cbn [app]. rewrite <- app_assoc. reflexivity. }
        rewrite E in *. cbn [length] in Hf. rewrite app_length in Hf. cbn [length] in Hf.
        rewrite app_length in Hf. cbn [length] in Hf.
        destruct f; [lia|]. cbn [lex_fuel]. rewrite next_item_semi.
        destruct f; [lia|]. cbn [lex_fuel].
        rewrite (next_item_token k (61 :: (c :: v') ++ write_params r ++ tail) Tk eq_refl).
        destruct f; [lia|]. cbn [lex_fuel]. rewrite next_item_eq.
        destruct f; [lia|]. cbn [lex_fuel].
        assert (Tv : is_tok (c :: v')) by (split; [discriminate|exact Hvt]).
        rewrite (next_item_token (c :: v') _ Tv (write_params_head r tail Hh)).
        cbn [param_items_q app]. unfold val_items. rewrite Hvt. cbn [app].
        f_equal. f_equal. f_equal. f_equal. apply IH; try assumption. lia.
      * assert (E : write_params ((k, c :: v') :: r) ++ tail
                    = 59 :: k ++ 61 :: 34 :: escape_quoted (c :: v') ++ 34 :: (write_params r ++ tail)).
        { cbn [write_params]. rewrite (wts_tok k Hkt). unfold write_token_sanitized. rewrite Hvt.
          cbn [app]. rewrite <- !app_assoc. cbn [app]. rewrite <- !app_assoc. reflexivity. }
        rewrite E in *. cbn [length] in Hf. rewrite app_length in Hf. cbn [length] in Hf.
        rewrite app_length in Hf. cbn [length] in Hf.
        destruct f; [lia|]. cbn [lex_fuel]. rewrite next_item_semi.
        destruct f; [lia|]. cbn [lex_fuel].
        rewrite (next_item_token k (61 :: 34 :: escape_quoted (c :: v') ++ 34 :: write_params r ++ tail) Tk eq_refl).
        destruct f; [lia|]. cbn [lex_fuel]. rewrite next_item_eq.
        destruct f; [lia|]. cbn [lex_fuel].
        rewrite (next_item_quoted (c :: v') _ (lexv_ends _ Hv Hvt)).
        cbn [param_items_q app]. unfold val_items, nrm_value. rewrite Hvt. cbn [app].
        f_equal. f_equal. f_equal. f_equal. apply IH; try assumption. lia.
Qed.

Lemma lex_opts_q : forall os f, lx_opts os = true -> (length (write_options os) < f)%nat ->
  lex_fuel f (write_options os) = opts_items_q os.
Proof.
  induction os as [|o r IH]; intros f Hwf Hf.
  - apply lex_fuel_nil.
  - unfold lx_opts in Hwf. cbn [forallb] in Hwf. apply andb_prop in Hwf. destruct Hwf as [Ho Hr].
    unfold lx_opt in Ho. apply andb_prop in Ho. destruct Ho as [Hn Hps].
    rewrite (write_options_cons o r Hn) in *. unfold byte in *.
    set (tail := match r with [] => [] | _ => 44 :: write_options r end) in *.
    assert (Hth : nontok_head tail = true) by (unfold tail; destruct r; reflexivity).
    rewrite app_length in Hf.
    assert (Hnlen : (1 <= length (o_name o))%nat).
    { destruct (tokb_is_tok _ Hn) as [Hne _]. destruct (o_name o); [contradiction|cbn; lia]. }
    destruct f; [lia|]. cbn [lex_fuel].
    rewrite (next_item_token (o_name o) _ (tokb_is_tok _ Hn) (write_params_head _ tail Hth)).
    cbn [opts_items_q]. f_equal.
    apply lex_params_q; try assumption; [|unfold byte in *; lia].
    intros f' Hf'. unfold tail in *. destruct r as [|o' r']; [apply lex_fuel_nil|].
    cbn [length] in Hf'. destruct f'; [lia|]. cbn [lex_fuel]. rewrite next_item_comma. f_equal.
    apply IH; [exact Hr|unfold byte in *; lia].
Qed.

Lemma lex_written_q : forall os, lx_opts os = true -> lex (write_options os) = opts_items_q os.
Proof. intros os H. unfold lex. apply lex_opts_q; [exact H|lia]. Qed.

(* the calls ScanOptions makes between the option name and the end of its parameters *)
Fixpoint calls_between_q (i : N) (name : list byte) (s : sit) (ps : list (list byte * list byte)) : list call :=
  match ps with
  | [] => []
  | (k, v) :: r =>
      flush_semi i name s
      ++ match v with
         | [] => calls_between_q i name (PendParam k) r
         | _ => (i, name, Some k, nrm_value v) :: calls_between_q i name Clean r
         end
  end.

Lemma calls_between_q_spec : forall i name ps s,
  calls_between_q i name s ps ++ flush_end i name (sit_after s ps)
  = match ps with
    | [] => flush_end i name s
    | _ => flush_semi i name s ++ map (fun kv => (i, name, Some (fst kv), nrm_value (snd kv))) ps
    end.
Proof.
  intros i name. induction ps as [|[k v] r IH]; intros s; [reflexivity|].
  cbn [calls_between_q sit_after map fst snd]. rewrite <- app_assoc. f_equal.
  destruct v as [|c v'].
  - rewrite IH. destruct r; reflexivity.
  - cbn [app]. f_equal. rewrite IH. destruct r; reflexivity.
Qed.

Lemma opt_calls_q_eq : forall i o,
  calls_between_q i (o_name o) PendName (o_params o)
  ++ flush_end i (o_name o) (sit_after PendName (o_params o)) = opt_calls i (nrm_opt o).
Proof.
  intros i o. rewrite calls_between_q_spec. unfold opt_calls, nrm_opt, nrm_params. cbn [o_name o_params].
  destruct (o_params o) as [|kv r]; [reflexivity|]. cbn [flush_semi app map fst snd]. f_equal.
  rewrite map_map. reflexivity.
Qed.

Section ScanQ.
  Variable A : Type.
  Variable it : A -> N -> list byte -> option (list byte) -> list byte -> A * control.

  Lemma step_value_item : forall i name k v x X ok a,
    x = IToken v \/ x = IString v ->
    scan_options_loop A it (ISep 61 :: x :: X) (st_of i name (PendParam k)) ok a
    = match it a i name (Some k) v with
      | (a', CBreak) => (a', true)
      | (a', CContinue) => scan_options_loop A it X (st_of i name Clean) true a'
      end.
  Proof.
    intros i name k v x X ok a [->| ->]; cbn; destruct (it a i name (Some k) v) as [a' [|]]; try reflexivity;
      rewrite N.add_0_r; reflexivity.
  Qed.

  Lemma params_loop_q : forall i name ps s a tail,
    scan_options_loop A it (param_items_q ps ++ tail) (st_of i name s) true a
    = match run_calls A it (calls_between_q i name s ps) a with
      | (a', false) => (a', true)
      | (a', true) => scan_options_loop A it tail (st_of i name (sit_after s ps)) true a'
      end.
  Proof.
    intros i name. induction ps as [|[k v] r IH]; intros s a tail; [reflexivity|].
    cbn [param_items_q calls_between_q sit_after]. rewrite run_calls_app.
    change ((ISep 59 :: IToken k :: val_items v ++ param_items_q r) ++ tail)
      with (ISep 59 :: IToken k :: (val_items v ++ param_items_q r) ++ tail).
    assert (Hv : forall c v' X ok a0,
      scan_options_loop A it ((val_items (c :: v') ++ param_items_q r) ++ X) (st_of i name (PendParam k)) ok a0
      = match it a0 i name (Some k) (nrm_value (c :: v')) with
        | (a', CBreak) => (a', true)
        | (a', CContinue) => scan_options_loop A it (param_items_q r ++ X) (st_of i name Clean) true a'
        end).
    { intros c v' X ok a0. unfold val_items. cbn [app].
      apply step_value_item. unfold nrm_value. destruct (forallb oct_token (c :: v')); [left|right]; reflexivity. }
    destruct s as [| |k0].
    - rewrite step_semi_quiet by exact I. cbn [flush_semi run_calls].
      destruct v as [|c v'].
      + cbn [val_items app]. apply IH.
      + rewrite Hv. cbn [run_calls app_call].
        destruct (it a i name (Some k) (nrm_value (c :: v'))) as [a' [|]]; [apply IH|reflexivity].
    - rewrite step_semi_quiet by exact I. cbn [flush_semi run_calls].
      destruct v as [|c v'].
      + cbn [val_items app]. apply IH.
      + rewrite Hv. cbn [run_calls app_call].
        destruct (it a i name (Some k) (nrm_value (c :: v'))) as [a' [|]]; [apply IH|reflexivity].
    - rewrite step_semi_param. cbn [flush_semi run_calls app_call].
      destruct (it a i name (Some k0) []) as [a0 [|]]; [|reflexivity].
      destruct v as [|c v'].
      + cbn [val_items app]. apply IH.
      + rewrite Hv. cbn [run_calls app_call].
        destruct (it a0 i name (Some k) (nrm_value (c :: v'))) as [a' [|]]; [apply IH|reflexivity].
  Qed.

  Lemma opts_tail_loop_q : forall r i name s a,
    scan_options_loop A it (match r with [] => [] | _ => ISep 44 :: opts_items_q r end) (st_of i name s) true a
    = (fst (run_calls A it (flush_end i name s ++ opts_calls (i + 1) (nrm_opts r)) a), true).
  Proof.
    induction r as [|o r IH]; intros i name s a.
    - cbn [nrm_opts map opts_calls]. rewrite app_nil_r. apply step_end.
    - cbn [opts_items_q nrm_opts map opts_calls]. fold (nrm_opts r). rewrite step_comma, run_calls_app.
      destruct (run_calls A it (flush_end i name s) a) as [a1 [|]]; [|reflexivity].
      rewrite params_loop_q. rewrite <- opt_calls_q_eq, <- app_assoc, run_calls_app.
      destruct (run_calls A it (calls_between_q (i + 1) (o_name o) PendName (o_params o)) a1) as [a2 [|]]; [|reflexivity].
      apply IH.
  Qed.

  (* ScanOptions on a written list with lexable values: the calls of the normalised list *)
  Theorem scan_options_written_q : forall os a, lx_opts os = true -> os <> [] ->
    scan_options A it (write_options os) a = (fst (run_calls A it (opts_calls 0 (nrm_opts os)) a), true).
  Proof.
    intros os a Hwf Hne. unfold scan_options. rewrite (lex_written_q os Hwf).
    destruct os as [|o r]; [contradiction|]. cbn [opts_items_q nrm_opts map opts_calls]. fold (nrm_opts r).
    change (scan_options_loop A it
              (IToken (o_name o) :: param_items_q (o_params o) ++ match r with [] => [] | _ :: _ => ISep 44 :: opts_items_q r end)
              (mkSo StKey 0 [] None [] false) false a)
      with (scan_options_loop A it
              (param_items_q (o_params o) ++ match r with [] => [] | _ :: _ => ISep 44 :: opts_items_q r end)
              (st_of 0 (o_name o) PendName) false a).
    rewrite must_ok_irrel by reflexivity. rewrite params_loop_q.
    rewrite <- opt_calls_q_eq, <- app_assoc, run_calls_app.
    destruct (run_calls A it (calls_between_q 0 (o_name o) PendName (o_params o)) a) as [a2 [|]]; [|reflexivity].
    apply opts_tail_loop_q.
  Qed.
End ScanQ.

(* ================= 4. ParseOptions, Select, negotiateExtensions, matchSelectedExtensions *)
Theorem option_list_normalised : forall os, lx_opts os = true -> os <> [] ->
  parse_options (write_options os) = (nrm_opts os, true).
Proof.
  intros os Hwf Hne. unfold parse_options. rewrite (scan_options_written_q _ po_it os _ Hwf Hne).
  destruct (po_opts_run (nrm_opts os) 0 None [] I) as [j' E]. rewrite E. reflexivity.
Qed.

Lemma qv_param_lx : forall kv, qv_param kv = true -> lx_param kv = true /\ nrm_value (snd kv) = snd kv.
Proof.
  intros [k v] H. unfold qv_param in H. cbn [fst snd] in *. apply andb_prop in H. destruct H as [Hk Hv].
  unfold lx_param. cbn [fst snd]. rewrite Hk. destruct v as [|c v']; [split; reflexivity|].
  cbn [is_nil orb] in Hv. rewrite (qv_ok_lexv _ Hv). split; [reflexivity|apply qv_ok_nrm; exact Hv].
Qed.

Lemma qv_opts_lx : forall os, qv_opts os = true -> lx_opts os = true /\ nrm_opts os = os.
Proof.
  induction os as [|o r IH]; intros H; [split; reflexivity|].
  unfold qv_opts in H. cbn [forallb] in H. apply andb_prop in H. destruct H as [Ho Hr].
  destruct (IH Hr) as [L1 L2]. unfold qv_opt in Ho. apply andb_prop in Ho. destruct Ho as [Hn Hps].
  assert (P : forallb lx_param (o_params o) = true /\ nrm_params (o_params o) = o_params o).
  { clear -Hps. induction (o_params o) as [|kv ps IHp]; [split; reflexivity|].
    cbn [forallb] in Hps. apply andb_prop in Hps. destruct Hps as [Hkv Hps].
    destruct (qv_param_lx kv Hkv) as [Q1 Q2]. destruct (IHp Hps) as [Q3 Q4].
    cbn [forallb nrm_params map]. fold (nrm_params ps). rewrite Q1, Q3, Q2, Q4. destruct kv; split; reflexivity. }
  destruct P as [P1 P2]. split.
  - unfold lx_opts. cbn [forallb]. fold (lx_opts r). unfold lx_opt. rewrite Hn, P1, L1. reflexivity.
  - cbn [nrm_opts map]. fold (nrm_opts r). rewrite L2. unfold nrm_opt. rewrite P2. destruct o; reflexivity.
Qed.

(* values inside the frontier come back exactly *)
Theorem option_list_roundtrip_q : forall os, qv_opts os = true -> os <> [] ->
  parse_options (write_options os) = (os, true).
Proof.
  intros os H Hne. destruct (qv_opts_lx os H) as [L1 L2].
  rewrite (option_list_normalised os L1 Hne), L2. reflexivity.
Qed.

Theorem quoted_value_roundtrip : forall name k v, tokb name = true -> tokb k = true -> qv_ok v = true ->
  parse_options (write_options [mkOpt name [(k, v)]]) = ([mkOpt name [(k, v)]], true).
Proof.
  intros name k v Hn Hk Hv. apply option_list_roundtrip_q; [|discriminate].
  unfold qv_opts, qv_opt, qv_param. cbn [forallb o_name o_params fst snd]. rewrite Hn, Hk, Hv.
  rewrite orb_true_r. reflexivity.
Qed.

Lemma nrm_names : forall os, map o_name (nrm_opts os) = map o_name os.
Proof. induction os as [|o r IH]; [reflexivity|]. cbn [nrm_opts map]. fold (nrm_opts r). rewrite IH. reflexivity. Qed.

Lemma named_size : forall o, tokb (o_name o) = true -> (opt_size o =? 0) = false.
Proof.
  intros o Hn. destruct (tokb_is_tok _ Hn) as [Hne _]. unfold opt_size, len.
  destruct (o_name o); [contradiction|]. cbn [length]. lia.
Qed.

Lemma lx_nrm_named : forall os, lx_opts os = true -> forallb (fun o => tokb (o_name o)) (nrm_opts os) = true.
Proof.
  induction os as [|o r IH]; intros H; [reflexivity|].
  unfold lx_opts in H. cbn [forallb] in H. apply andb_prop in H. destruct H as [Ho Hr].
  unfold lx_opt in Ho. apply andb_prop in Ho. destruct Ho as [Hn _].
  cbn [nrm_opts map forallb]. fold (nrm_opts r). cbn [nrm_opt o_name]. rewrite Hn. apply IH. exact Hr.
Qed.

Lemma maybe_answers_named : forall f os, forallb (fun o => tokb (o_name o)) os = true ->
  flat_map (maybe_answer f) os = neg_answers f os.
Proof.
  intros f. induction os as [|o r IH]; intros H; [reflexivity|].
  cbn [forallb] in H. apply andb_prop in H. destruct H as [Ho Hr].
  unfold neg_answers. cbn [flat_map]. fold (neg_answers f r). rewrite (IH Hr).
  unfold maybe_answer. rewrite (named_size o Ho). reflexivity.
Qed.

(* the deprecated Extension filter is applied to the scanned offers *)
Theorem select_options_written_q : forall check os acc, lx_opts os = true -> os <> [] ->
  select_options check (write_options os) acc = (acc ++ filter check (nrm_opts os), true).
Proof.
  intros check os acc Hwf Hne.
  destruct (select_options_from_offer check (write_options os) acc) as [E1 E2].
  rewrite (option_list_normalised os Hwf Hne) in E1, E2. cbn [fst snd] in E1, E2.
  destruct (select_options check (write_options os) acc) as [x y]. cbn [fst snd] in *. subst. reflexivity.
Qed.

(* negotiateExtensions folds the function over the scanned offers *)
Theorem negotiate_extensions_written_q : forall f os dest,
  lx_opts os = true -> os <> [] -> neg_total f (nrm_opts os) = true ->
  negotiate_extensions f (write_options os) dest = (dest ++ neg_answers f (nrm_opts os), None).
Proof.
  intros f os dest Hwf Hne Ht. unfold negotiate_extensions.
  rewrite (scan_options_written_q _ (neg_it f) os _ Hwf Hne).
  assert (Hz : neg_fine f opt_zero) by (left; reflexivity).
  destruct (neg_opts_run f (nrm_opts os) 0 None opt_zero dest I Hz (neg_total_fine f _ Ht))
    as [j' [cur' [dest' [E [Hf Hd]]]]].
  rewrite E. cbn [fst negb ng_cur ng_dest]. rewrite (negotiate_maybe_fine f cur' dest' Hf), Hd.
  cbn [flat_map]. unfold maybe_answer at 1. cbn [app].
  rewrite (maybe_answers_named f _ (lx_nrm_named os Hwf)). reflexivity.
Qed.

Lemma offered_nrm : forall wanted os, forallb (offered wanted) (nrm_opts os) = forallb (offered wanted) os.
Proof.
  intros wanted. induction os as [|o r IH]; [reflexivity|].
  cbn [nrm_opts map forallb]. fold (nrm_opts r). rewrite IH. reflexivity.
Qed.

Lemma write_options_nonempty : forall es, lx_opts es = true -> es <> [] -> write_options es <> [].
Proof.
  intros es Hwf Hne. destruct es as [|o r]; [contradiction|]. unfold lx_opts in Hwf. cbn [forallb] in Hwf.
  apply andb_prop in Hwf. destruct Hwf as [Ho _]. unfold lx_opt in Ho. apply andb_prop in Ho. destruct Ho as [Hn _].
  rewrite (write_options_cons o r Hn). destruct (tokb_is_tok _ Hn) as [Hnn _].
  destruct (o_name o); [contradiction|discriminate].
Qed.

(* matchSelectedExtensions returns the SCANNED answers iff every name was offered *)
Theorem match_selected_written_q : forall wanted es recv,
  lx_opts es = true -> es <> [] -> forallb (offered wanted) es = true ->
  match_selected_extensions (write_options es) wanted recv = (recv ++ nrm_opts es, None).
Proof.
  intros wanted es recv Hwf Hne Hall. unfold match_selected_extensions.
  pose proof (write_options_nonempty es Hwf Hne) as Hw.
  destruct (write_options es) as [|b0 w0] eqn:Ew; [contradiction|]. rewrite <- Ew.
  rewrite (scan_options_written_q _ (mx_it wanted) es _ Hwf Hne).
  rewrite <- (offered_nrm wanted es) in Hall.
  destruct (nrm_opts es) as [|o r] eqn:En; [destruct es; [contradiction|discriminate]|].
  cbn [opts_calls]. rewrite run_calls_app, mx_first.
  destruct (mx_rest_ok wanted r (0 + 1) (Some 0) o recv ltac:(cbn; lia) ltac:(lia) Hall)
    as [j' [cur' [recv' [E [Ho Hd]]]]].
  rewrite E. cbn [fst negb]. rewrite (mx_match_offered wanted j' cur' recv' false Ho).
  cbn [negb mx_received mx_err_flag]. rewrite Hd. reflexivity.
Qed.

(* ================= 5. the header line: no LF, no blank at either end *)
Lemma no10_app : forall a b, no_byte 10 (a ++ b) = no_byte 10 a && no_byte 10 b.
Proof. intros a b. unfold no_byte. apply forallb_app. Qed.

Lemma tokchars_no_nl : forall t, forallb oct_token t = true -> no_byte 10 t = true.
Proof. intros t H. apply opt_chars_no_nl, tok_opt_chars, H. Qed.

Lemma escape_no_nl : forall v, no_byte 10 v = true -> no_byte 10 (escape_quoted v) = true.
Proof.
  induction v as [|c r IH]; intros H; [reflexivity|].
  unfold no_byte in *. cbn [forallb] in H. apply andb_prop in H. destruct H as [Hc Hr].
  cbn [escape_quoted]. destruct (oct_control c || (c =? 34)); cbn [forallb]; rewrite ?Hc, (IH Hr); reflexivity.
Qed.

Lemma wts_no_nl : forall v, no_byte 10 v = true -> no_byte 10 (write_token_sanitized v) = true.
Proof.
  intros v H. unfold write_token_sanitized. destruct (forallb oct_token v); [exact H|].
  change (34 :: escape_quoted v ++ [34]) with ([34] ++ escape_quoted v ++ [34]).
  rewrite !no10_app, (escape_no_nl v H). reflexivity.
Qed.

Lemma write_params_no_nl : forall ps, forallb lx_param ps = true ->
  forallb (fun kv => no_byte 10 (snd kv)) ps = true -> no_byte 10 (write_params ps) = true.
Proof.
  induction ps as [|[k v] r IH]; intros Hwf Hnl; [reflexivity|].
  cbn [forallb snd] in *. apply andb_prop in Hwf. destruct Hwf as [Hkv Hr]. apply andb_prop in Hnl. destruct Hnl as [Hv Hn].
  unfold lx_param in Hkv. cbn [fst snd] in Hkv. apply andb_prop in Hkv. destruct Hkv as [Hk _].
  cbn [write_params]. rewrite (wts_tok k (tokb_chars k Hk)).
  change (59 :: k ++ (match v with [] => [] | _ :: _ => 61 :: write_token_sanitized v end) ++ write_params r)
    with ([59] ++ k ++ (match v with [] => [] | _ :: _ => 61 :: write_token_sanitized v end) ++ write_params r).
  rewrite !no10_app, (tokchars_no_nl k (tokb_chars k Hk)), (IH Hr Hn).
  destruct v as [|c v']; [reflexivity|].
  change (61 :: write_token_sanitized (c :: v')) with ([61] ++ write_token_sanitized (c :: v')).
  rewrite no10_app, (wts_no_nl _ Hv). reflexivity.
Qed.

Lemma write_options_no_nl : forall os, lx_opts os = true -> nl_free os = true -> no_byte 10 (write_options os) = true.
Proof.
  induction os as [|o r IH]; intros Hwf Hnl; [reflexivity|].
  unfold lx_opts in Hwf. unfold nl_free in Hnl. cbn [forallb] in Hwf, Hnl.
  apply andb_prop in Hwf. destruct Hwf as [Ho Hr]. apply andb_prop in Hnl. destruct Hnl as [Hon Hrn].
  unfold lx_opt in Ho. apply andb_prop in Ho. destruct Ho as [Hn Hps].
  rewrite (write_options_cons o r Hn), !no10_app, (tokchars_no_nl _ (tokb_chars _ Hn)), (write_params_no_nl _ Hps Hon).
  destruct r as [|o' r']; [reflexivity|].
  change (44 :: write_options (o' :: r')) with ([44] ++ write_options (o' :: r')).
  rewrite no10_app, (IH Hr Hrn). reflexivity.
Qed.

Definition endc (l : list byte) : Prop := match rev l with [] => True | c :: _ => is_blank c = false end.

Lemma endc_app_r : forall a b, b <> [] -> endc b -> endc (a ++ b).
Proof.
  intros a b Hne H. unfold endc in *. rewrite rev_app_distr.
  destruct (rev b) as [|c t] eqn:E; [|exact H].
  exfalso. apply Hne. rewrite <- (rev_involutive b), E. reflexivity.
Qed.

Lemma endc_tok : forall t, forallb oct_token t = true -> endc t.
Proof.
  intros t H. destruct t as [|c t']; [exact I|].
  assert (T : is_tok (c :: t')) by (split; [discriminate|exact H]).
  destruct (tok_clean _ T) as [_ T2]. exact T2.
Qed.

Lemma endc_wts : forall v, v <> [] -> write_token_sanitized v <> [] /\ endc (write_token_sanitized v).
Proof.
  intros v Hne. unfold write_token_sanitized. destruct (forallb oct_token v) eqn:E.
  - split; [exact Hne|apply endc_tok; exact E].
  - split; [discriminate|]. change (34 :: escape_quoted v ++ [34]) with ((34 :: escape_quoted v) ++ [34]).
    apply endc_app_r; [discriminate|reflexivity].
Qed.

Lemma endc_params : forall ps, forallb lx_param ps = true -> ps <> [] ->
  write_params ps <> [] /\ endc (write_params ps).
Proof.
  induction ps as [|[k v] r IH]; intros Hwf Hne; [contradiction|].
  cbn [forallb] in Hwf. apply andb_prop in Hwf. destruct Hwf as [Hkv Hr].
  unfold lx_param in Hkv. cbn [fst snd] in Hkv. apply andb_prop in Hkv. destruct Hkv as [Hk _].
  split; [cbn [write_params]; discriminate|].
  cbn [write_params]. rewrite (wts_tok k (tokb_chars k Hk)).
  destruct r as [|kv' r'].
  - cbn [write_params]. rewrite app_nil_r. destruct v as [|c v'].
    + rewrite app_nil_r. change (59 :: k) with ([59] ++ k).
      apply endc_app_r; [destruct (tokb_is_tok k Hk) as [Hn _]; exact Hn|apply endc_tok, tokb_chars, Hk].
    + destruct (endc_wts (c :: v') ltac:(discriminate)) as [W1 W2].
      change (59 :: k ++ 61 :: write_token_sanitized (c :: v')) with ([59] ++ k ++ [61] ++ write_token_sanitized (c :: v')).
      rewrite !app_assoc. apply endc_app_r; assumption.
  - destruct (IH Hr ltac:(discriminate)) as [W1 W2].
    change (59 :: k ++ (match v with [] => [] | _ :: _ => 61 :: write_token_sanitized v end) ++ write_params (kv' :: r'))
      with ([59] ++ k ++ (match v with [] => [] | _ :: _ => 61 :: write_token_sanitized v end) ++ write_params (kv' :: r')).
    rewrite !app_assoc. apply endc_app_r; assumption.
Qed.

Lemma write_options_endc : forall os, lx_opts os = true -> os <> [] ->
  write_options os <> [] /\ endc (write_options os).
Proof.
  induction os as [|o r IH]; intros Hwf Hne; [contradiction|].
  split; [apply write_options_nonempty; assumption|].
  unfold lx_opts in Hwf. cbn [forallb] in Hwf. apply andb_prop in Hwf. destruct Hwf as [Ho Hr].
  unfold lx_opt in Ho. apply andb_prop in Ho. destruct Ho as [Hn Hps].
  rewrite (write_options_cons o r Hn). destruct r as [|o' r'].
  - rewrite app_nil_r. destruct (o_params o) as [|kv ps] eqn:Ep.
    + cbn [write_params]. rewrite app_nil_r. apply endc_tok, tokb_chars, Hn.
    + destruct (endc_params (kv :: ps) Hps ltac:(discriminate)) as [W1 W2]. apply endc_app_r; assumption.
  - destruct (IH Hr ltac:(discriminate)) as [W1 W2].
    change (44 :: write_options (o' :: r')) with ([44] ++ write_options (o' :: r')).
    rewrite !app_assoc. apply endc_app_r; assumption.
Qed.

Lemma write_options_clean : forall os, lx_opts os = true -> clean (write_options os).
Proof.
  intros os Hwf. destruct os as [|o r]; [split; exact I|]. split.
  - unfold lx_opts in Hwf. cbn [forallb] in Hwf. apply andb_prop in Hwf. destruct Hwf as [Ho _].
    unfold lx_opt in Ho. apply andb_prop in Ho. destruct Ho as [Hn _].
    rewrite (write_options_cons o r Hn). destruct (tokb_is_tok _ Hn) as [Hne Ht].
    destruct (o_name o) as [|c t]; [contradiction|]. cbn [app].
    exact (proj1 (tok_clean (c :: t) (conj Hne Ht))).
  - exact (proj2 (write_options_endc (o :: r) Hwf ltac:(discriminate))).
Qed.

(* ================= 6. both peers composed *)
Lemma xline_no_nl_q : forall exts, lx_opts exts = true -> nl_free exts = true ->
  Forall (fun l => no_byte 10 l = true) (map (fun kv => hline (fst kv) (snd kv)) (xline exts)).
Proof.
  intros exts H Hn. unfold xline. destruct exts as [|e es]; [constructor|]. cbn [map fst snd].
  constructor; [|constructor]. apply hline_no_nl; [reflexivity|]. apply write_options_no_nl; assumption.
Qed.

Lemma xline_parsed_q : forall exts, lx_opts exts = true ->
  map (fun kv => (canonicalize (btrim (fst kv)), btrim (snd kv))) (xline exts) = pxline exts.
Proof.
  intros exts H. unfold xline, pxline. destruct exts as [|e es]; [reflexivity|]. cbn [map fst snd].
  rewrite (btrim_clean _ (write_options_clean _ H)). reflexivity.
Qed.

(* the upgrader accepts the request; its extensions are selected from the SCANNED offers *)
Theorem upgrader_accepts_dialer_request_q : forall stext sel ext neg ps exts host uri nonce B r,
  1 <= B -> req_ok host uri nonce ps -> lx_opts exts = true -> nl_free exts = true ->
  match neg with Some f => neg_total f (nrm_opts exts) = true | None => True end ->
  flat r = write_upgrade_request (dcfgx ps exts) host uri nonce ->
  upgrader stext (ucfgx sel ext neg) B r
  = mkUres (mkHs (agreed_protocol sel ps) (seen_exts ext neg exts)) None
      (write_response_upgrade nonce (mkHs (agreed_protocol sel ps) (seen_exts ext neg exts)) []).
Proof.
  intros stext sel ext neg ps exts host uri nonce B r HB [Hps [Hlen [Hnnl [Hnc [Hhnl [Hhc [Hu32 Hu10]]]]]]] Hx Hxn Hneg Hflat.
  rewrite (upgrader_flat stext (ucfgx sel ext neg) B r HB). rewrite Hflat, request_as_lines_x.
  rewrite <- (app_nil_r (crlf_lines _)).
  assert (Hnl : Forall (fun l => no_byte 10 l = true)
                  ((bs "GET " ++ uri ++ bs " HTTP/1.1")
                   :: map (fun kv => hline (fst kv) (snd kv)) (req_headers_x host nonce ps exts) ++ [[]])).
  { constructor; [rewrite !no_byte_app, Hu10; reflexivity|].
    apply Forall_app. split; [|repeat constructor].
    unfold req_headers_x, req_headers. rewrite !map_app. apply Forall_app. split; [apply Forall_app; split|].
    - cbn [map fst snd].
      constructor; [apply hline_no_nl; [reflexivity|exact Hhnl]|].
      constructor; [apply hline_no_nl; reflexivity|].
      constructor; [apply hline_no_nl; reflexivity|].
      constructor; [apply hline_no_nl; reflexivity|].
      constructor; [apply hline_no_nl; [reflexivity|exact Hnnl]|]. constructor.
    - destruct ps as [|p ps']; [constructor|]. cbn [map fst snd]. constructor; [|constructor].
      apply hline_no_nl; [reflexivity|apply join_no_nl; exact Hps].
    - apply xline_no_nl_q; assumption. }
  rewrite (raw_lines_crlf_lines _ [] Hnl). cbn [raw_lines raw_lines_acc fst snd rev map]. rewrite app_nil_r.
  cbn [map].
  assert (Hkv : Forall (fun kv => no_byte 58 (fst kv) = true /\ fst kv <> []) (req_headers_x host nonce ps exts)).
  { unfold req_headers_x, req_headers. apply Forall_app. split; [apply Forall_app; split|].
    - repeat constructor; discriminate.
    - destruct ps; repeat constructor; discriminate.
    - apply xline_keys. }
  pose proof (take_headers_hlines (req_headers_x host nonce ps exts) [] Hkv) as Hth. rewrite app_nil_r in Hth.
  assert (Hparsed : map (fun kv => (canonicalize (btrim (fst kv)), btrim (snd kv))) (req_headers_x host nonce ps exts)
                    = parsed_req_headers_x host nonce ps exts).
  { unfold req_headers_x, parsed_req_headers_x. rewrite map_app.
    rewrite (parsed_req_headers_eq host nonce ps Hhc Hnc Hps), (xline_parsed_q exts Hx). reflexivity. }
  rewrite Hparsed in Hth.
  set (p := agreed_protocol sel ps). set (es := seen_exts ext neg exts).
  assert (Hres := upgrader_lines_complete stext (ucfgx sel ext neg)
            ((bs "GET " ++ uri ++ bs " HTTP/1.1") ++ crlf)
            (map (fun l => l ++ crlf) (map (fun kv => hline (fst kv) (snd kv)) (req_headers_x host nonce ps exts) ++ [[]]))
            [] (r_tail r) (mkReqLine (bs "GET") uri 1 1) (parsed_req_headers_x host nonce ps exts) [] p es).
  rewrite cut_eol_crlf in Hres. specialize (Hres (parse_get_line uri Hu32) Hth).
  (* the header list with the two list-valued lines abstracted *)
  assert (Hshape : exists pl xl,
            parsed_req_headers_x host nonce ps exts
            = [(h_host, host); (h_upgrade, bs "websocket"); (h_connection, bs "Upgrade");
               (h_sec_version_c, bs "13"); (h_sec_key_c, nonce)]
              ++ map (fun v => (h_sec_protocol_c, v)) pl ++ map (fun v => (h_sec_extensions_c, v)) xl
            /\ pl = match ps with [] => [] | _ => [join_comma_space ps] end
            /\ xl = match exts with [] => [] | _ => [write_options exts] end).
  { exists (match ps with [] => [] | _ => [join_comma_space ps] end),
           (match exts with [] => [] | _ => [write_options exts] end).
    split; [|split; reflexivity]. unfold parsed_req_headers_x, parsed_req_headers, pxline.
    destruct ps; destruct exts; reflexivity. }
  destruct Hshape as [pl [xl [Hsh [Hpl Hxl]]]].
  assert (Hpl2 : (length pl <= 1)%nat) by (subst pl; destruct ps; cbn; lia).
  assert (Hxl2 : (length xl <= 1)%nat) by (subst xl; destruct exts; cbn; lia).
  assert (Hc : compliant (mkPreq (mkReqLine (bs "GET") uri 1 1) (parsed_req_headers_x host nonce ps exts))
               && callbacks_accept (ucfgx sel ext neg)
                    (mkPreq (mkReqLine (bs "GET") uri 1 1) (parsed_req_headers_x host nonce ps exts))
               = true).
  { rewrite Hsh. clear -Hlen Hpl2 Hxl2.
    destruct pl as [|pv [|? ?]]; [| |cbn in Hpl2; lia]; (destruct xl as [|xv [|? ?]]; [| |cbn in Hxl2; lia]);
      cbv -[len]; unfold byte in *; rewrite Hlen; reflexivity. }
  assert (Hvp : values_of (is_kind KSecProtocol) (parsed_req_headers_x host nonce ps exts) = pl).
  { rewrite Hsh. clear -Hpl2 Hxl2.
    destruct pl as [|pv [|? ?]]; [| |cbn in Hpl2; lia]; (destruct xl as [|xv [|? ?]]; [| |cbn in Hxl2; lia]);
      vm_compute; reflexivity. }
  assert (Hvx : values_of (is_kind KSecExtensions) (parsed_req_headers_x host nonce ps exts) = xl).
  { rewrite Hsh. clear -Hpl2 Hxl2.
    destruct pl as [|pv [|? ?]]; [| |cbn in Hpl2; lia]; (destruct xl as [|xv [|? ?]]; [| |cbn in Hxl2; lia]);
      vm_compute; reflexivity. }
  assert (Hvk : values_of (is_kind KSecKey) (parsed_req_headers_x host nonce ps exts) = [nonce]).
  { rewrite Hsh. clear -Hpl2 Hxl2.
    destruct pl as [|pv [|? ?]]; [| |cbn in Hpl2; lia]; (destruct xl as [|xv [|? ?]]; [| |cbn in Hxl2; lia]);
      vm_compute; reflexivity. }
  assert (Hp : proto_run (ucfgx sel ext neg) [] (parsed_req_headers_x host nonce ps exts) = Some p).
  { rewrite proto_run_spec, Hvp, Hpl. unfold p, agreed_protocol, ucfgx. cbn [uc_protocol].
    destruct sel as [check|]; [|destruct ps; reflexivity].
    destruct ps as [|q ps']; [reflexivity|]. cbn [select_protocol_spec].
    destruct (protocol_agreement (q :: ps') check Hps ltac:(discriminate)) as [E _]. rewrite E. cbn [negb].
    destruct (first_accepted check (q :: ps')); reflexivity. }
  assert (He : exts_run (ucfgx sel ext neg) [] (parsed_req_headers_x host nonce ps exts) = inl es).
  { rewrite exts_run_spec, Hvx, Hxl. cbn zeta. unfold es, seen_exts, agreed_exts, ucfgx. cbn [uc_negotiate uc_extension].
    destruct exts as [|e0 et].
    - destruct neg as [f|]; [reflexivity|]. destruct ext; reflexivity.
    - destruct neg as [f|].
      + cbn [negotiate_spec].
        rewrite (negotiate_extensions_written_q f (e0 :: et) [] Hx ltac:(discriminate) Hneg). reflexivity.
      + destruct ext as [check|]; [|reflexivity]. cbn [select_ext_spec].
        rewrite (select_options_written_q check (e0 :: et) [] Hx ltac:(discriminate)). reflexivity. }
  specialize (Hres Hc Hp He). rewrite Hres.
  rewrite nonce_of_spec, Hvk. reflexivity.
Qed.

(* the dialer accepts the response and reports the SCANNED answers *)
Lemma response_parses_q : forall ps nonce p es r trailing,
  proto_choice ps p -> lx_opts es = true -> nl_free es = true ->
  flat r = write_response_upgrade nonce (mkHs p es) [] ++ trailing ->
  parse_response (flat r) = Some (resp_101 nonce p es, trailing).
Proof.
  intros ps nonce p es r trailing Hpp Hes Hesn Hflat.
  destruct (accept_props nonce) as [Hal [Hac Hanl]].
  assert (Hpnl : no_byte 10 p = true) by (destruct Hpp as [->|[Ht _]]; [reflexivity|apply tok_no_nl; exact Ht]).
  assert (Hpc : clean p) by (destruct Hpp as [->|[Ht _]]; [split; exact I|apply tok_clean; exact Ht]).
  assert (Hnl : Forall (fun l => no_byte 10 l = true)
                  (bs "HTTP/1.1 101 Switching Protocols"
                   :: map (fun kv => hline (fst kv) (snd kv)) (resp_headers_x nonce p es) ++ [[]])).
  { constructor; [reflexivity|]. apply Forall_app. split; [|repeat constructor].
    unfold resp_headers_x, resp_headers. rewrite !map_app. apply Forall_app. split; [apply Forall_app; split|].
    - cbn [map fst snd].
      constructor; [apply hline_no_nl; reflexivity|].
      constructor; [apply hline_no_nl; reflexivity|].
      constructor; [apply hline_no_nl; [reflexivity|exact Hanl]|]. constructor.
    - destruct p as [|c p']; [constructor|]. cbn [map fst snd]. constructor; [|constructor].
      apply hline_no_nl; [reflexivity|exact Hpnl].
    - apply xline_no_nl_q; assumption. }
  assert (Hkv : Forall (fun kv => no_byte 58 (fst kv) = true /\ fst kv <> []) (resp_headers_x nonce p es)).
  { unfold resp_headers_x, resp_headers. apply Forall_app. split; [apply Forall_app; split|].
    - repeat constructor; discriminate.
    - destruct p; repeat constructor; discriminate.
    - apply xline_keys. }
  assert (Hparsed : map (fun kv => (canonicalize (btrim (fst kv)), btrim (snd kv))) (resp_headers_x nonce p es)
                    = parsed_resp_headers_x nonce p es).
  { unfold resp_headers_x, parsed_resp_headers_x. rewrite map_app, (xline_parsed_q es Hes). f_equal.
    unfold resp_headers, parsed_resp_headers. rewrite map_app. cbn [map fst snd].
    rewrite (btrim_clean _ Hac). destruct p as [|c p']; [reflexivity|]. cbn [map fst snd].
    rewrite (btrim_clean _ Hpc). reflexivity. }
  unfold parse_response. rewrite Hflat, response_as_lines_x.
  rewrite (raw_lines_crlf_lines _ trailing Hnl). cbn [map].
  destruct (raw_lines trailing) as [tl rem] eqn:Ht. cbn [fst snd app].
  rewrite cut_eol_crlf.
  assert (Hsl : http_parse_response_line ascii_to_int (bs "HTTP/1.1 101 Switching Protocols")
                = Some (mkRespLine 1 1 101 (bs "Switching Protocols"))) by (vm_compute; reflexivity).
  rewrite Hsl. rewrite take_resp_headers_eq.
  rewrite (take_headers_hlines (resp_headers_x nonce p es) tl Hkv). rewrite Hparsed.
  rewrite <- (raw_lines_concat (length trailing) trailing tl rem (le_n _) Ht). reflexivity.
Qed.

Theorem dialer_accepts_upgrader_response_q : forall ps exts host uri nonce p es B r trailing,
  1 <= B -> proto_choice ps p -> lx_opts es = true -> nl_free es = true -> forallb (offered exts) es = true ->
  flat r = write_response_upgrade nonce (mkHs p es) [] ++ trailing ->
  let d := dialer_upgrade (dcfgx ps exts) host uri nonce B r in
  d_err d = None /\ d_hs d = mkHs p (nrm_opts es) /\ flat (d_reader d) = trailing.
Proof.
  intros ps exts host uri nonce p es B r trailing HB Hpp Hes Hesn Hoff Hflat. cbn zeta.
  pose proof (response_parses_q ps nonce p es r trailing Hpp Hes Hesn Hflat) as Hparse.
  pose proof (response_accepted_x ps exts nonce p es Hpp) as Hacc.
  destruct (resp_values nonce p es) as [_ [_ [_ [Hvp [Hvx _]]]]].
  assert (Hext : response_extensions (dcfgx ps exts) (resp_101 nonce p es) = inl (nrm_opts es)).
  { unfold response_extensions, resp_101. cbn [pr_headers dc_extensions dcfgx]. rewrite Hvx.
    destruct es as [|e0 et]; [reflexivity|]. cbn [match_ext_spec].
    rewrite (match_selected_written_q exts (e0 :: et) [] Hes ltac:(discriminate) Hoff). reflexivity. }
  destruct (dialer_success_result (dcfgx ps exts) host uri nonce B r _ trailing (nrm_opts es) HB Hparse Hacc Hext)
    as [G1 [G2 [_ [G4 _]]]].
  split; [exact G1|]. split; [|exact G4]. rewrite G2. unfold response_protocol, resp_101. cbn [pr_headers].
  rewrite Hvp. destruct p; reflexivity.
Qed.


(* scanned values are lexable again and contain no LF if the value had none *)
Lemma forallb_removelast : forall (p : byte -> bool) l, forallb p l = true -> forallb p (removelast l) = true.
Proof.
  intros p. induction l as [|c r IH]; intros H; [reflexivity|].
  cbn [forallb] in H. apply andb_prop in H. destruct H as [Hc Hr]. destruct r as [|d r']; [reflexivity|].
  change (removelast (c :: d :: r')) with (c :: removelast (d :: r')). cbn [forallb]. rewrite Hc. apply IH. exact Hr.
Qed.

Lemma forallb_filter : forall (p q : byte -> bool) l, forallb p l = true -> forallb p (filter q l) = true.
Proof.
  intros p q. induction l as [|c r IH]; intros H; [reflexivity|].
  cbn [forallb] in H. apply andb_prop in H. destruct H as [Hc Hr]. cbn [filter].
  destruct (q c); [cbn [forallb]; rewrite Hc|]; apply IH; exact Hr.
Qed.

Lemma remove_backslash_forallb : forall (p : byte -> bool) d, forallb p d = true -> forallb p (remove_backslash d) = true.
Proof.
  intros p d H. unfold remove_backslash. apply forallb_filter.
  unfold byte in *. destruct (rev d) as [|x l]; [exact H|]. destruct l as [|y t]; [exact H|].
  destruct (N.eqb_spec y 92) as [->|Hn]; [apply forallb_removelast; exact H|].
  rewrite match92; [exact H|apply N.eqb_neq; exact Hn].
Qed.

Lemma remove_backslash_no92 : forall d, no_byte 92 (remove_backslash d) = true.
Proof.
  intros d. unfold remove_backslash, no_byte. apply forallb_forall. intros c Hc.
  apply filter_In in Hc. tauto.
Qed.

Lemma tokchars_no92 : forall t, forallb oct_token t = true -> no_byte 92 t = true.
Proof.
  intros t H. unfold no_byte. rewrite forallb_forall in *. intros c Hc. specialize (H c Hc).
  destruct (c =? 92) eqn:E; [apply N.eqb_eq in E; subst; discriminate|reflexivity].
Qed.

Lemma nrm_value_no92 : forall v, no_byte 92 (nrm_value v) = true.
Proof.
  intros v. unfold nrm_value. destruct (forallb oct_token v) eqn:E; [apply tokchars_no92; exact E|apply remove_backslash_no92].
Qed.

Lemma no92_last : forall l, no_byte 92 l = true -> (last_byte l =? 92) = false.
Proof.
  intros l H. destruct l as [|c w] using rev_ind; [reflexivity|]. rewrite last_byte_snoc.
  rewrite no_byte_app92 in H. apply andb_prop in H. destruct H as [_ Hc].
  unfold no_byte in Hc. cbn [forallb] in Hc. rewrite andb_true_r in Hc. apply negb_true_iff. exact Hc.
Qed.

Lemma nrm_value_lexv : forall v, lexv_ok (nrm_value v) = true.
Proof. intros v. unfold lexv_ok. rewrite (no92_last _ (nrm_value_no92 v)). apply orb_true_r. Qed.

Lemma nrm_value_no_nl : forall v, no_byte 10 v = true -> no_byte 10 (nrm_value v) = true.
Proof.
  intros v H. unfold nrm_value. destruct (forallb oct_token v); [exact H|].
  apply remove_backslash_forallb. apply escape_no_nl. exact H.
Qed.

Lemma nrm_params_lx : forall ps, forallb lx_param ps = true -> forallb lx_param (nrm_params ps) = true.
Proof.
  induction ps as [|[k v] ps IHp]; intros Hps; [reflexivity|].
  cbn [forallb] in Hps. apply andb_prop in Hps. destruct Hps as [Hkv Hps].
  cbn [nrm_params map forallb fst snd]. fold (nrm_params ps). rewrite (IHp Hps), andb_true_r.
  unfold lx_param in *. cbn [fst snd] in *. apply andb_prop in Hkv. destruct Hkv as [Hk _].
  rewrite Hk, nrm_value_lexv. reflexivity.
Qed.

Lemma nrm_opts_lx : forall os, lx_opts os = true -> lx_opts (nrm_opts os) = true.
Proof.
  induction os as [|o r IH]; intros H; [reflexivity|].
  unfold lx_opts in *. cbn [forallb] in H. apply andb_prop in H. destruct H as [Ho Hr].
  cbn [nrm_opts map forallb]. fold (nrm_opts r). rewrite (IH Hr), andb_true_r.
  unfold lx_opt in *. apply andb_prop in Ho. destruct Ho as [Hn Hps]. cbn [nrm_opt o_name o_params].
  rewrite Hn, (nrm_params_lx _ Hps). reflexivity.
Qed.

Lemma nrm_params_nl : forall ps, forallb (fun kv => no_byte 10 (snd kv)) ps = true ->
  forallb (fun kv => no_byte 10 (snd kv)) (nrm_params ps) = true.
Proof.
  induction ps as [|[k v] ps IHp]; intros Ho; [reflexivity|].
  cbn [forallb snd] in Ho. apply andb_prop in Ho. destruct Ho as [Hv Hps].
  cbn [nrm_params map forallb fst snd]. fold (nrm_params ps). rewrite (IHp Hps), (nrm_value_no_nl v Hv). reflexivity.
Qed.

Lemma nrm_opts_nl : forall os, nl_free os = true -> nl_free (nrm_opts os) = true.
Proof.
  induction os as [|o r IH]; intros H; [reflexivity|].
  unfold nl_free in *. cbn [forallb] in H. apply andb_prop in H. destruct H as [Ho Hr].
  cbn [nrm_opts map forallb]. fold (nrm_opts r). rewrite (IH Hr), andb_true_r. cbn [nrm_opt o_params].
  apply nrm_params_nl. exact Ho.
Qed.

Lemma filter_forallb_opts : forall (P : hopt -> bool) (check : hopt -> bool) os,
  forallb P os = true -> forallb P (filter check os) = true.
Proof.
  intros P check. induction os as [|o r IH]; intros H; [reflexivity|].
  cbn [forallb] in H. apply andb_prop in H. destruct H as [Ho Hr]. cbn [filter].
  destruct (check o); [cbn [forallb]; rewrite Ho|]; apply IH; exact Hr.
Qed.

Lemma filter_offered_nrm : forall (check : hopt -> bool) exts,
  forallb (offered exts) (filter check (nrm_opts exts)) = true.
Proof.
  intros check exts. apply filter_forallb_opts. rewrite offered_nrm.
  apply forallb_forall. intros o Ho. apply offered_in. exact Ho.
Qed.

(* what extl_ok provides *)
Lemma extl_ok_parts : forall neg exts, extl_ok neg exts = true ->
  lx_opts exts = true /\ nl_free exts = true
  /\ match neg with Some f => neg_total f (nrm_opts exts) = true | None => True end
  /\ forall ext, lx_opts (seen_exts ext neg exts) = true /\ nl_free (seen_exts ext neg exts) = true
                 /\ forallb (offered exts) (seen_exts ext neg exts) = true.
Proof.
  intros neg exts H. unfold extl_ok in H. apply andb_prop in H. destruct H as [H Hn].
  apply andb_prop in H. destruct H as [Hx Hxn]. split; [exact Hx|]. split; [exact Hxn|].
  unfold seen_exts, agreed_exts. destruct neg as [f|].
  - unfold negq_table_ok in Hn. apply andb_prop in Hn. destruct Hn as [Hn Ho].
    apply andb_prop in Hn. destruct Hn as [Hn Hnl]. apply andb_prop in Hn. destruct Hn as [Ht Hw].
    split; [exact Ht|]. intros ext. auto.
  - split; [exact I|]. intros ext. destruct ext as [check|]; [|repeat split; reflexivity].
    split; [apply filter_forallb_opts, nrm_opts_lx, Hx|].
    split; [apply filter_forallb_opts, nrm_opts_nl, Hxn|apply filter_offered_nrm].
Qed.

(* the general statement: every lexable offer list, every lexable answer list.  Both peers succeed;
   the upgrader reports what it selected from the scanned offers, the dialer reports the scanned
   form of that *)
Theorem both_succeed_dialer_reports_scanned :
  forall stext sel ext neg ps exts host uri nonce B1 B2 r1 r2 trailing,
  1 <= B1 -> 1 <= B2 -> req_ok host uri nonce ps -> extl_ok neg exts = true ->
  flat r1 = d_request (dialer_upgrade (dcfgx ps exts) host uri nonce B2 r2) ->
  flat r2 = u_out (upgrader stext (ucfgx sel ext neg) B1 r1) ++ trailing ->
  let u := upgrader stext (ucfgx sel ext neg) B1 r1 in
  let d := dialer_upgrade (dcfgx ps exts) host uri nonce B2 r2 in
  u_err u = None /\ d_err d = None
  /\ u_hs u = mkHs (agreed_protocol sel ps) (seen_exts ext neg exts)
  /\ d_hs d = mkHs (agreed_protocol sel ps) (nrm_opts (seen_exts ext neg exts))
  /\ flat (d_reader d) = trailing.
Proof.
  intros stext sel ext neg ps exts host uri nonce B1 B2 r1 r2 trailing H1 H2 Hok Hxok Hf1 Hf2. cbn zeta.
  rewrite (dialer_request_x _ host uri nonce B2 r2 H2) in Hf1.
  destruct (extl_ok_parts neg exts Hxok) as [Hx [Hxn [Hneg Hag]]]. destruct (Hag ext) as [Hwf [Hnl Hoff]].
  pose proof (upgrader_accepts_dialer_request_q stext sel ext neg ps exts host uri nonce B1 r1 H1 Hok Hx Hxn Hneg Hf1) as U.
  rewrite U in *. cbn [u_out u_err u_hs] in *.
  destruct Hok as [Hps _].
  destruct (dialer_accepts_upgrader_response_q ps exts host uri nonce _ _ B2 r2 trailing H2
              (agreed_protocol_choice sel ps Hps) Hwf Hnl Hoff Hf2) as [D1 [D2 D3]].
  auto.
Qed.

(* hence: the two handshakes are equal exactly when the upgrader's selection is a fixed point of
   write-then-scan *)
Theorem agreement_iff_stable :
  forall stext sel ext neg ps exts host uri nonce B1 B2 r1 r2 trailing,
  1 <= B1 -> 1 <= B2 -> req_ok host uri nonce ps -> extl_ok neg exts = true ->
  flat r1 = d_request (dialer_upgrade (dcfgx ps exts) host uri nonce B2 r2) ->
  flat r2 = u_out (upgrader stext (ucfgx sel ext neg) B1 r1) ++ trailing ->
  let u := upgrader stext (ucfgx sel ext neg) B1 r1 in
  let d := dialer_upgrade (dcfgx ps exts) host uri nonce B2 r2 in
  u_err u = None /\ d_err d = None /\ flat (d_reader d) = trailing
  /\ (d_hs d = u_hs u <-> nrm_opts (seen_exts ext neg exts) = seen_exts ext neg exts).
Proof.
  intros stext sel ext neg ps exts host uri nonce B1 B2 r1 r2 trailing H1 H2 Hok Hxok Hf1 Hf2.
  destruct (both_succeed_dialer_reports_scanned stext sel ext neg ps exts host uri nonce B1 B2 r1 r2 trailing
              H1 H2 Hok Hxok Hf1 Hf2) as [G1 [G2 [G3 [G4 G5]]]].
  cbn zeta. split; [exact G1|]. split; [exact G2|]. split; [exact G5|]. rewrite G3, G4. split.
  - intros E. apply (f_equal hs_exts) in E. cbn [hs_exts] in E. exact E.
  - intros E. rewrite E. reflexivity.
Qed.

(* values inside the frontier on both sides: agreement, and nothing is normalised away *)
Lemma extq_ok_extl : forall neg exts, extq_ok neg exts = true ->
  extl_ok neg exts = true /\ nrm_opts exts = exts
  /\ forall ext, nrm_opts (agreed_exts ext neg exts) = agreed_exts ext neg exts.
Proof.
  intros neg exts H. unfold extq_ok in H. apply andb_prop in H. destruct H as [H Hn].
  apply andb_prop in H. destruct H as [Hq Hxn]. destruct (qv_opts_lx exts Hq) as [L1 L2].
  unfold extl_ok. rewrite L1, Hxn, L2. cbn [andb]. destruct neg as [f|].
  - unfold negq_table_ok in *. apply andb_prop in Hn. destruct Hn as [Hn Ho].
    apply andb_prop in Hn. destruct Hn as [Hn Hnl]. apply andb_prop in Hn. destruct Hn as [Ht Hw].
    destruct (qv_opts_lx _ Hw) as [A1 A2]. rewrite Ht, A1, Hnl, Ho.
    split; [reflexivity|]. split; [reflexivity|]. intros ext. exact A2.
  - split; [reflexivity|]. split; [reflexivity|]. intros ext. unfold agreed_exts.
    destruct ext as [check|]; [|reflexivity].
    apply (qv_opts_lx (filter check exts)). apply filter_forallb_opts. exact Hq.
Qed.

Theorem agreement_extensions_quoted : forall stext sel ext neg ps exts host uri nonce B1 B2 r1 r2 trailing,
  1 <= B1 -> 1 <= B2 -> req_ok host uri nonce ps -> extq_ok neg exts = true ->
  flat r1 = d_request (dialer_upgrade (dcfgx ps exts) host uri nonce B2 r2) ->
  flat r2 = u_out (upgrader stext (ucfgx sel ext neg) B1 r1) ++ trailing ->
  let u := upgrader stext (ucfgx sel ext neg) B1 r1 in
  let d := dialer_upgrade (dcfgx ps exts) host uri nonce B2 r2 in
  u_err u = None /\ d_err d = None /\ d_hs d = u_hs u
  /\ u_hs u = mkHs (agreed_protocol sel ps) (agreed_exts ext neg exts)
  /\ flat (d_reader d) = trailing.
Proof.
  intros stext sel ext neg ps exts host uri nonce B1 B2 r1 r2 trailing H1 H2 Hok Hxok Hf1 Hf2.
  destruct (extq_ok_extl neg exts Hxok) as [Hl [Hid Hst]].
  destruct (both_succeed_dialer_reports_scanned stext sel ext neg ps exts host uri nonce B1 B2 r1 r2 trailing
              H1 H2 Hok Hl Hf1 Hf2) as [G1 [G2 [G3 [G4 G5]]]].
  cbn zeta. unfold seen_exts in *. rewrite Hid in *. rewrite (Hst ext) in G4.
  split; [exact G1|]. split; [exact G2|]. split; [rewrite G3, G4; reflexivity|]. split; [exact G3|exact G5].
Qed.

(* ================= 7. outside the frontier the two peers can disagree *)
(* the offer  x; k=<61 22 22>  (a, double quote, double quote) against an upgrader whose Extension filter
   accepts everything: every hypothesis of both_succeed_dialer_reports_scanned holds (token name
   and attribute, lexable value, no LF), both peers succeed, the upgrader reports  k=<61 22>  and the
   dialer reports  k=<61> . *)
Definition wit_exts : list hopt := [mkOpt (bs "x") [(bs "k", [97; 34; 34])]].
Definition wit_host := bs "server.example.com".
Definition wit_uri := bs "/chat".
Definition wit_nonce := bs "dGhlIHNhbXBsZSBub25jZQ==".
Definition wit_r1 : reader := mkReader [] [write_upgrade_request (dcfgx [] wit_exts) wit_host wit_uri wit_nonce] TEof.
Definition wit_u := upgrader (fun _ => []) (ucfgx None (Some (fun _ => true)) None) 4096 wit_r1.
Definition wit_r2 : reader := mkReader [] [u_out wit_u] TEof.
Definition wit_d := dialer_upgrade (dcfgx [] wit_exts) wit_host wit_uri wit_nonce 4096 wit_r2.

Theorem quoted_refuted :
  exists stext sel ext neg ps exts host uri nonce B1 B2 r1 r2 trailing,
  1 <= B1 /\ 1 <= B2 /\ req_ok host uri nonce ps /\ extl_ok neg exts = true
  /\ flat r1 = d_request (dialer_upgrade (dcfgx ps exts) host uri nonce B2 r2)
  /\ flat r2 = u_out (upgrader stext (ucfgx sel ext neg) B1 r1) ++ trailing
  /\ let u := upgrader stext (ucfgx sel ext neg) B1 r1 in
     let d := dialer_upgrade (dcfgx ps exts) host uri nonce B2 r2 in
     u_err u = None /\ d_err d = None
     /\ hs_exts (u_hs u) = [mkOpt (bs "x") [(bs "k", [97; 34])]]
     /\ hs_exts (d_hs d) = [mkOpt (bs "x") [(bs "k", [97])]]
     /\ d_hs d <> u_hs u.
Proof.
  exists (fun _ => []), None, (Some (fun _ => true)), None, [], wit_exts, wit_host, wit_uri, wit_nonce,
         4096, 4096, wit_r1, wit_r2, [].
  split; [lia|]. split; [lia|]. split.
  { unfold req_ok, is_tok, clean, wit_host, wit_uri, wit_nonce.
    repeat (split || constructor); try discriminate; reflexivity. }
  split; [vm_compute; reflexivity|].
  split; [vm_compute; reflexivity|].
  split; [vm_compute; reflexivity|].
  cbn zeta. split; [vm_compute; reflexivity|]. split; [vm_compute; reflexivity|].
  split; [vm_compute; reflexivity|]. split; [vm_compute; reflexivity|].
  intros E. apply (f_equal hs_exts) in E. vm_compute in E. discriminate E.
Qed.

(* ================= 8. the frontier is exact: a value that comes back unchanged is in qv_ok *)
Lemma filter_length_le : forall (q : byte -> bool) l, (length (filter q l) <= length l)%nat.
Proof. intros q. induction l as [|c r IH]; [cbn; lia|]. cbn [filter]. destruct (q c); cbn [length]; lia. Qed.

Lemma nrm_fixed_qv : forall v, v <> [] -> nrm_value v = v -> qv_ok v = true.
Proof.
  intros v Hne H. unfold qv_ok. destruct v as [|c0 w] using rev_ind; [contradiction|]. clear IHw.
  assert (Hnn : is_nil (w ++ [c0]) = false) by (destruct w; reflexivity). rewrite Hnn. cbn [negb andb].
  unfold nrm_value in H. destruct (forallb oct_token (w ++ [c0])) eqn:Et; [reflexivity|]. cbn [orb].
  assert (H92 : no_byte 92 (w ++ [c0]) = true) by (rewrite <- H; apply remove_backslash_no92).
  rewrite H92, last_byte_snoc. cbn [andb].
  assert (Hesc : (c0 =? 34) || (c0 =? 127) = true ->
                 remove_backslash (escape_quoted (w ++ [c0])) = filter (fun c => negb (c =? 92)) w).
  { intros Hc. assert (E : escape_quoted (w ++ [c0]) = (escape_quoted w ++ [92]) ++ [c0]).
    { rewrite escape_quoted_app. cbn [escape_quoted]. unfold oct_control. rewrite (orb_comm (c0 =? 127)), Hc.
      rewrite <- app_assoc. reflexivity. }
    rewrite (rb_drop _ c0 (rev (escape_quoted w))).
    - rewrite E, removelast_last, filter_app. cbn [filter]. change (92 =? 92) with true. cbn [negb].
      rewrite app_nil_r. apply filter_escape.
    - rewrite E, !rev_app_distr. reflexivity. }
  destruct ((c0 =? 34) || (c0 =? 127)) eqn:Ec.
  - exfalso. rewrite (Hesc eq_refl) in H.
    pose proof (filter_length_le (fun c => negb (c =? 92)) w) as L. apply (f_equal (@length _)) in H.
    rewrite app_length in H. cbn [length] in H. unfold byte in *. lia.
  - apply orb_false_iff in Ec. destruct Ec as [E1 E2]. rewrite E1, E2. reflexivity.
Qed.

(* a non-token value ending in a backslash: the closing quote is taken for an escaped one, the
   string is not terminated, the lexer reports an error *)
Lemma scan_until_quote_open : forall v pb, ends_bs pb v = true ->
  scan_until_quote pb (escape_quoted v ++ [34]) = None.
Proof.
  induction v as [|c r IH]; intros pb H.
  - cbn in H. subst pb. reflexivity.
  - cbn [ends_bs] in H. cbn [escape_quoted].
    destruct (oct_control c || (c =? 34)) eqn:E.
    + assert (Hc : (c =? 92) = false).
      { unfold oct_control in E. apply orb_prop in E. destruct E as [E|E]; apply N.eqb_eq in E; subst; reflexivity. }
      cbn [app scan_until_quote]. change (92 =? 34) with false. change (92 =? 92) with true.
      cbn [andb negb]. rewrite andb_false_r. rewrite Hc in *. rewrite (IH false H). reflexivity.
    + apply orb_false_iff in E. destruct E as [_ E].
      cbn [app scan_until_quote]. rewrite E. cbn [andb]. rewrite (IH _ H). reflexivity.
Qed.

Lemma parse_unterminated : forall name k v, tokb name = true -> tokb k = true ->
  forallb oct_token v = false -> ends_bs false v = true ->
  snd (parse_options (write_options [mkOpt name [(k, v)]])) = false.
Proof.
  intros name k v Hn Hk Hvt Hend.
  assert (Hv : v <> []) by (intros ->; discriminate).
  assert (E : write_options [mkOpt name [(k, v)]] = name ++ 59 :: k ++ 61 :: 34 :: escape_quoted v ++ [34]).
  { cbn [write_options]. unfold write_option. cbn [o_name o_params write_params].
    rewrite (wts_tok _ (tokb_chars _ Hn)), (wts_tok _ (tokb_chars _ Hk)).
    unfold write_token_sanitized. rewrite Hvt. destruct v as [|c v']; [contradiction|]. cbv iota. rewrite app_nil_r.
    reflexivity. }
  assert (L : lex (write_options [mkOpt name [(k, v)]]) = [IToken name; ISep 59; IToken k; ISep 61; IBad]).
  { rewrite E. unfold lex.
    set (q := 34 :: escape_quoted v ++ [34]).
    assert (G : forall m, lex_fuel (5 + m) (name ++ 59 :: k ++ 61 :: q)
                          = [IToken name; ISep 59; IToken k; ISep 61; IBad]).
    { intros m. cbn [Nat.add lex_fuel].
      rewrite (next_item_token name (59 :: k ++ 61 :: q) (tokb_is_tok _ Hn) eq_refl). rewrite next_item_semi.
      rewrite (next_item_token k (61 :: q) (tokb_is_tok _ Hk) eq_refl). rewrite next_item_eq.
      unfold q, next_item. rewrite skip_space_nsp by reflexivity. change (34 =? 34) with true. cbv iota.
      rewrite (scan_until_quote_open v false Hend). reflexivity. }
    set (data := name ++ 59 :: k ++ 61 :: q) in *.
    assert (Hlen : (4 <= length data)%nat).
    { unfold data, q. rewrite app_length. cbn [length]. rewrite app_length. cbn [length]. rewrite app_length. cbn [length]. lia. }
    replace (S (length data)) with (5 + (length data - 4))%nat by lia.
    apply G. }
  unfold parse_options, scan_options. rewrite L. reflexivity.
Qed.

Theorem quoted_value_frontier : forall name k v, tokb name = true -> tokb k = true -> v <> [] ->
  parse_options (write_options [mkOpt name [(k, v)]]) = ([mkOpt name [(k, v)]], true) -> qv_ok v = true.
Proof.
  intros name k v Hn Hk Hne H.
  destruct (lexv_ok v) eqn:El.
  - assert (Hl : lx_opts [mkOpt name [(k, v)]] = true).
    { unfold lx_opts, lx_opt, lx_param. cbn [forallb o_name o_params fst snd]. rewrite Hn, Hk, El. reflexivity. }
    rewrite (option_list_normalised _ Hl ltac:(discriminate)) in H.
    apply nrm_fixed_qv; [exact Hne|]. unfold nrm_opts, nrm_opt, nrm_params in H.
    cbn [map o_name o_params fst snd] in H. congruence.
  - unfold lexv_ok in El. apply orb_false_iff in El. destruct El as [Et Eb].
    apply negb_false_iff in Eb.
    assert (Hend : ends_bs false v = true) by (rewrite ends_bs_last; destruct v; [contradiction|exact Eb]).
    pose proof (parse_unterminated name k v Hn Hk Et Hend) as P. rewrite H in P. discriminate P.
Qed.
