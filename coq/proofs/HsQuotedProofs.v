(* HsQuotedProofs.v — httphead option lists with quoted-string parameter values (C11).
   1. what the lexer makes of a quoted string the writer emitted; 2. the exact set of values that
   come back unchanged (qv_ok) and that every other lexable value comes back changed; 3. ScanOptions
   on a written list with lexable values = the call sequence of the NORMALISED list (nrm_opts);
   4. ParseOptions / Select / negotiateExtensions / matchSelectedExtensions on such lists;
   5. both peers composed: the upgrader reports its selection es from the scanned offers, the
   dialer reports nrm_opts es — equal on the qv_ok domain, different for the witness at the end. *)
Require Import Bytes HsBase64 HsSha1 HsBufio HsBufioProofs HsHttpHead HsHttp HsUpgrader HsUpgraderProofs
        HsDialer HsDialerProofs HsAgreementProofs HsAgreeExt HsOptionsProofs HsAgreementExtProofs HsAgreeQ.
From Coq Require Import ZifyBool ZifyN ZifyNat Btauto.
Local Open Scope list_scope.
Open Scope N_scope.

(* ================= 1. lexing a written quoted string *)
Fixpoint ends_bs (pb : bool) (v : list byte) : bool :=
  match v with [] => pb | c :: r => ends_bs (c =? 92) r end.

Lemma ends_bs_last : forall v pb, ends_bs pb v = match v with [] => pb | _ => last_byte v =? 92 end.
Proof.
  induction v as [|c r IH]; intros pb; [reflexivity|].
  cbn [ends_bs]. rewrite IH. destruct r as [|d r']; reflexivity.
Qed.

Lemma scan_until_quote_written : forall v pb rest, ends_bs pb v = false ->
  scan_until_quote pb (escape_quoted v ++ 34 :: rest) = Some (escape_quoted v, rest).
Proof.
  induction v as [|c r IH]; intros pb rest H.
  - cbn in H. subst pb. reflexivity.
  - cbn [ends_bs] in H. cbn [escape_quoted].
    destruct (oct_control c || (c =? 34)) eqn:E.
    + assert (Hc : (c =? 92) = false).
      { unfold oct_control in E. apply orb_prop in E. destruct E as [E|E]; apply N.eqb_eq in E; subst; reflexivity. }
      cbn [app scan_until_quote]. change (92 =? 34) with false. change (92 =? 92) with true.
      cbn [andb negb]. rewrite andb_false_r. rewrite Hc in *.
      rewrite (IH false rest H). reflexivity.
    + apply orb_false_iff in E. destruct E as [_ E].
      cbn [app scan_until_quote]. rewrite E. cbn [andb]. rewrite (IH _ rest H). reflexivity.
Qed.

Lemma next_item_quoted : forall v rest, ends_bs false v = false ->
  next_item (34 :: escape_quoted v ++ 34 :: rest) = Some (IString (remove_backslash (escape_quoted v)), rest).
Proof.
  intros v rest H. unfold next_item. rewrite skip_space_nsp by reflexivity.
  change (34 =? 34) with true. cbv iota. rewrite (scan_until_quote_written v false rest H). reflexivity.
Qed.

(* ================= 2. which values come back unchanged *)
Lemma escape_quoted_app : forall a b, escape_quoted (a ++ b) = escape_quoted a ++ escape_quoted b.
Proof.
  induction a as [|c a IH]; intros b; [reflexivity|].
  cbn [app escape_quoted]. rewrite IH. destruct (oct_control c || (c =? 34)); reflexivity.
Qed.

Lemma filter_escape : forall v, filter (fun c => negb (c =? 92)) (escape_quoted v) = filter (fun c => negb (c =? 92)) v.
Proof.
  induction v as [|c r IH]; [reflexivity|]. cbn [escape_quoted].
  destruct (oct_control c || (c =? 34)); cbn [filter]; change (92 =? 92) with true; cbn [negb]; rewrite IH; reflexivity.
Qed.

Lemma filter_no_byte : forall v, no_byte 92 v = true -> filter (fun c => negb (c =? 92)) v = v.
Proof.
  induction v as [|c r IH]; intros H; [reflexivity|].
  unfold no_byte in *. cbn [forallb] in H. apply andb_prop in H. destruct H as [Hc Hr].
  cbn [filter]. rewrite Hc, (IH Hr). reflexivity.
Qed.

(* the last byte of the escaped form is the last byte of the value *)
Lemma rev_escape_head : forall w, match rev (escape_quoted w), rev w with
                                   | y :: _, x :: _ => y = x
                                   | [], [] => True
                                   | _, _ => False
                                   end.
Proof.
  intros w. destruct w as [|c0 w0] using rev_ind; [exact I|].
  rewrite escape_quoted_app, !rev_app_distr. cbn [escape_quoted].
  destruct (oct_control c0 || (c0 =? 34)); reflexivity.
Qed.

Lemma no_byte_app92 : forall a b, no_byte 92 (a ++ b) = no_byte 92 a && no_byte 92 b.
Proof. intros a b. unfold no_byte. apply forallb_app. Qed.

Lemma last_byte_snoc : forall w c, last_byte (w ++ [c]) = c.
Proof. intros w c. unfold last_byte. apply last_last. Qed.

Lemma match92 : forall (A : Type) (y : byte) (a b : A), (y =? 92) = false ->
  (match y with 92 => a | _ => b end) = b.
Proof.
  intros A y a b H. destruct y as [|p]; [reflexivity|].
  do 7 (try (destruct p as [p|p|]; try reflexivity)). discriminate H.
Qed.

(* RemoveByte keeps the last byte unless the last-but-one byte is a backslash *)
Lemma rb_keep : forall d,
  match rev d with _ :: y :: _ => (y =? 92) = false | _ => True end ->
  remove_backslash d = filter (fun c => negb (c =? 92)) d.
Proof.
  intros d H. unfold remove_backslash. unfold byte in *.
  destruct (rev d) as [|x l]; [reflexivity|]. destruct l as [|y t]; [reflexivity|].
  rewrite (match92 _ y _ _ H). reflexivity.
Qed.

Lemma rb_drop : forall d x t, rev d = x :: 92 :: t ->
  remove_backslash d = filter (fun c => negb (c =? 92)) (removelast d).
Proof. intros d x t H. unfold remove_backslash. unfold byte in *. rewrite H. reflexivity. Qed.

Lemma esc_last_not92 : forall w, no_byte 92 w = true ->
  match rev (escape_quoted w) with [] => True | y :: _ => (y =? 92) = false end.
Proof.
  intros w Hw. destruct w as [|d w'] using rev_ind; [exact I|]. clear IHw'.
  rewrite no_byte_app92 in Hw. apply andb_prop in Hw. destruct Hw as [_ Hd].
  unfold no_byte in Hd. cbn [forallb] in Hd. rewrite andb_true_r in Hd. apply negb_true_iff in Hd.
  rewrite escape_quoted_app, rev_app_distr. cbn [escape_quoted].
  destruct (oct_control d || (d =? 34)); exact Hd.
Qed.

Lemma remove_backslash_survives : forall v, v <> [] ->
  no_byte 92 v = true -> (last_byte v =? 34) = false -> (last_byte v =? 127) = false ->
  remove_backslash (escape_quoted v) = v.
Proof.
  intros v Hne Hb H34 H127. destruct v as [|c0 w] using rev_ind; [contradiction|]. clear IHw.
  rewrite last_byte_snoc in H34, H127. pose proof Hb as Hall.
  rewrite no_byte_app92 in Hb. apply andb_prop in Hb. destruct Hb as [Hw Hc].
  assert (E : escape_quoted (w ++ [c0]) = escape_quoted w ++ [c0]).
  { rewrite escape_quoted_app. cbn [escape_quoted]. unfold oct_control. rewrite H34, H127. reflexivity. }
  rewrite rb_keep; [rewrite filter_escape; apply filter_no_byte; exact Hall|].
  rewrite E, rev_app_distr. cbn [rev app].
  exact (esc_last_not92 w Hw).
Qed.

Lemma qv_ok_nrm : forall v, qv_ok v = true -> nrm_value v = v.
Proof.
  intros v H. unfold qv_ok in H. apply andb_prop in H. destruct H as [Hne H].
  unfold nrm_value. destruct (forallb oct_token v); [reflexivity|]. cbn [orb] in H.
  apply andb_prop in H. destruct H as [H H127]. apply andb_prop in H. destruct H as [Hb H34].
  apply remove_backslash_survives; [destruct v; [discriminate|discriminate]|exact Hb| |];
    apply negb_true_iff; assumption.
Qed.

Lemma qv_ok_lexv : forall v, qv_ok v = true -> lexv_ok v = true.
Proof.
  intros v H. unfold qv_ok in H. apply andb_prop in H. destruct H as [Hne H]. unfold lexv_ok.
  destruct (forallb oct_token v); [reflexivity|]. cbn [orb] in *.
  apply andb_prop in H. destruct H as [H _]. apply andb_prop in H. destruct H as [Hb _].
  destruct v as [|c0 w] using rev_ind; [discriminate|]. rewrite last_byte_snoc.
  rewrite no_byte_app92 in Hb. apply andb_prop in Hb. destruct Hb as [_ Hc].
  unfold no_byte in Hc. cbn [forallb] in Hc. rewrite andb_true_r in Hc. exact Hc.
Qed.

(* ================= 3. lexing and scanning a written list with lexable values *)
Definition val_items (v : list byte) : list item :=
  match v with
  | [] => []
  | _ => [ISep 61; if forallb oct_token v then IToken v else IString (nrm_value v)]
  end.
Fixpoint param_items_q (ps : list (list byte * list byte)) : list item :=
  match ps with
  | [] => []
  | (k, v) :: r => ISep 59 :: IToken k :: val_items v ++ param_items_q r
  end.
Fixpoint opts_items_q (os : list hopt) : list item :=
  match os with
  | [] => []
  | o :: r => IToken (o_name o) :: param_items_q (o_params o)
              ++ (match r with [] => [] | _ => ISep 44 :: opts_items_q r end)
  end.

Lemma lexv_ends : forall v, lexv_ok v = true -> forallb oct_token v = false -> ends_bs false v = false.
Proof.
  intros v H Ht. unfold lexv_ok in H. rewrite Ht in H. cbn [orb] in H. rewrite ends_bs_last.
  destruct v; [reflexivity|]. apply negb_true_iff. exact H.
Qed.

Lemma lex_params_q : forall ps tail titems,
  forallb lx_param ps = true -> nontok_head tail = true ->
  (forall f, (length tail < f)%nat -> lex_fuel f tail = titems) ->
  forall f, (length (write_params ps ++ tail) < f)%nat ->
  lex_fuel f (write_params ps ++ tail) = param_items_q ps ++ titems.
Proof.
  induction ps as [|[k v] r IH]; intros tail titems Hwf Hh Ht f Hf.
  - cbn [write_params app param_items_q]. apply Ht. exact Hf.
  - cbn [forallb] in Hwf. apply andb_prop in Hwf. destruct Hwf as [Hkv Hr].
    unfold lx_param in Hkv. cbn [fst snd] in Hkv. apply andb_prop in Hkv. destruct Hkv as [Hk Hv].
    pose proof (tokb_is_tok k Hk) as Tk. pose proof (tokb_chars k Hk) as Hkt.
    assert (Hklen : (1 <= length k)%nat) by (destruct Tk as [Hne _]; destruct k; [contradiction|cbn; lia]).
    destruct v as [|c v'].
    + assert (E : write_params ((k, []) :: r) ++ tail = 59 :: k ++ (write_params r ++ tail)).
      { cbn [write_params]. rewrite (wts_tok k Hkt). cbn [app]. rewrite <- app_assoc. reflexivity. }
      rewrite E in *. cbn [length] in Hf. rewrite app_length in Hf.
      destruct f; [lia|]. cbn [lex_fuel]. rewrite next_item_semi.
      destruct f; [lia|]. cbn [lex_fuel].
      rewrite (next_item_token k _ Tk (write_params_head r tail Hh)).
      cbn [param_items_q val_items app]. f_equal. f_equal. apply IH; try assumption. lia.
    + destruct (forallb oct_token (c :: v')) eqn:Hvt.
      * assert (E : write_params ((k, c :: v') :: r) ++ tail
                    = 59 :: k ++ 61 :: (c :: v') ++ (write_params r ++ tail)).
        { cbn [write_params]. rewrite (wts_tok k Hkt), (wts_tok (c :: v') Hvt).
          cbn [app]. rewrite <- !app_assoc. cbn [app]. rewrite <- app_assoc. reflexivity. }
        rewrite E in *. cbn [length] in Hf. rewrite app_length in Hf. cbn [length] in Hf.
        rewrite app_length in Hf. cbn [length] in Hf.
        destruct f; [lia|]. cbn [lex_fuel]. rewrite next_item_semi.
        destruct f; [lia|]. cbn [lex_fuel].
        rewrite (next_item_token k (61 :: (c :: v') ++ write_params r ++ tail) Tk eq_refl).
        destruct f; [lia|]. cbn [lex_fuel]. rewrite next_item_eq.
        destruct f; [lia|]. cbn [lex_fuel].
        assert (Tv : is_tok (c :: v')) by (split; [discriminate|exact Hvt]).
        rewrite (next_item_token (c :: v') _ Tv (write_params_head r tail Hh)).
        cbn [param_items_q app]. unfold val_items. rewrite Hvt. cbn [app].
        f_equal. f_equal. f_equal. f_equal. apply IH; try assumption. lia.
      * assert (E : write_params ((k, c :: v') :: r) ++ tail
                    = 59 :: k ++ 61 :: 34 :: escape_quoted (c :: v') ++ 34 :: (write_params r ++ tail)).
        { cbn [write_params]. rewrite (wts_tok k Hkt). unfold write_token_sanitized. rewrite Hvt.
          cbn [app]. rewrite <- !app_assoc. cbn [app]. rewrite <- !app_assoc. reflexivity. }
        rewrite E in *. cbn [length] in Hf. rewrite app_length in Hf. cbn [length] in Hf.
        rewrite app_length in Hf. cbn [length] in Hf.
        destruct f; [lia|]. cbn [lex_fuel]. rewrite next_item_semi.
        destruct f; [lia|]. cbn [lex_fuel].
        rewrite (next_item_token k (61 :: 34 :: escape_quoted (c :: v') ++ 34 :: write_params r ++ tail) Tk eq_refl).
        destruct f; [lia|]. cbn [lex_fuel]. rewrite next_item_eq.
        destruct f; [lia|]. cbn [lex_fuel].
        rewrite (next_item_quoted (c :: v') _ (lexv_ends _ Hv Hvt)).
        cbn [param_items_q app]. unfold val_items, nrm_value. rewrite Hvt. cbn [app].
        f_equal. f_equal. f_equal. f_equal. apply IH; try assumption. lia.
Qed.

Lemma lex_opts_q : forall os f, lx_opts os = true -> (length (write_options os) < f)%nat ->
  lex_fuel f (write_options os) = opts_items_q os.
Proof.
  induction os as [|o r IH]; intros f Hwf Hf.
  - apply lex_fuel_nil.
  - unfold lx_opts in Hwf. cbn [forallb] in Hwf. apply andb_prop in Hwf. destruct Hwf as [Ho Hr].
    unfold lx_opt in Ho. apply andb_prop in Ho. destruct Ho as [Hn Hps].
    rewrite (write_options_cons o r Hn) in *. unfold byte in *.
    set (tail := match r with [] => [] | _ => 44 :: write_options r end) in *.
    assert (Hth : nontok_head tail = true) by (unfold tail; destruct r; reflexivity).
    rewrite app_length in Hf.
    assert (Hnlen : (1 <= length (o_name o))%nat).
    { destruct (tokb_is_tok _ Hn) as [Hne _]. destruct (o_name o); [contradiction|cbn; lia]. }
    destruct f; [lia|]. cbn [lex_fuel].
    rewrite (next_item_token (o_name o) _ (tokb_is_tok _ Hn) (write_params_head _ tail Hth)).
    cbn [opts_items_q]. f_equal.
    apply lex_params_q; try assumption; [|unfold byte in *; lia].
    intros f' Hf'. unfold tail in *. destruct r as [|o' r']; [apply lex_fuel_nil|].
    cbn [length] in Hf'. destruct f'; [lia|]. cbn [lex_fuel]. rewrite next_item_comma. f_equal.
    apply IH; [exact Hr|unfold byte in *; lia].
Qed.

Lemma lex_written_q : forall os, lx_opts os = true -> lex (write_options os) = opts_items_q os.
Proof. intros os H. unfold lex. apply lex_opts_q; [exact H|lia]. Qed.

(* the calls ScanOptions makes between the option name and the end of its parameters *)
Fixpoint calls_between_q (i : N) (name : list byte) (s : sit) (ps : list (list byte * list byte)) : list call :=
  match ps with
  | [] => []
  | (k, v) :: r =>
      flush_semi i name s
      ++ match v with
         | [] => calls_between_q i name (PendParam k) r
         | _ => (i, name, Some k, nrm_value v) :: calls_between_q i name Clean r
         end
  end.

Lemma calls_between_q_spec : forall i name ps s,
  calls_between_q i name s ps ++ flush_end i name (sit_after s ps)
  = match ps with
    | [] => flush_end i name s
    | _ => flush_semi i name s ++ map (fun kv => (i, name, Some (fst kv), nrm_value (snd kv))) ps
    end.
Proof.
  intros i name. induction ps as [|[k v] r IH]; intros s; [reflexivity|].
  cbn [calls_between_q sit_after map fst snd]. rewrite <- app_assoc. f_equal.
  destruct v as [|c v'].
  - rewrite IH. destruct r; reflexivity.
  - cbn [app]. f_equal. rewrite IH. destruct r; reflexivity.
Qed.

Lemma opt_calls_q_eq : forall i o,
  calls_between_q i (o_name o) PendName (o_params o)
  ++ flush_end i (o_name o) (sit_after PendName (o_params o)) = opt_calls i (nrm_opt o).
Proof.
  intros i o. rewrite calls_between_q_spec. unfold opt_calls, nrm_opt, nrm_params. cbn [o_name o_params].
  destruct (o_params o) as [|kv r]; [reflexivity|]. cbn [flush_semi app map fst snd]. f_equal.
  rewrite map_map. reflexivity.
Qed.

Section ScanQ.
  Variable A : Type.
  Variable it : A -> N -> list byte -> option (list byte) -> list byte -> A * control.

  Lemma step_value_item : forall i name k v x X ok a,
    x = IToken v \/ x = IString v ->
    scan_options_loop A it (ISep 61 :: x :: X) (st_of i name (PendParam k)) ok a
    = match it a i name (Some k) v with
      | (a', CBreak) => (a', true)
      | (a', CContinue) => scan_options_loop A it X (st_of i name Clean) true a'
      end.
  Proof.
    intros i name k v x X ok a [->| ->]; cbn; destruct (it a i name (Some k) v) as [a' [|]]; try reflexivity;
      rewrite N.add_0_r; reflexivity.
  Qed.

  Lemma params_loop_q : forall i name ps s a tail,
    scan_options_loop A it (param_items_q ps ++ tail) (st_of i name s) true a
    = match run_calls A it (calls_between_q i name s ps) a with
      | (a', false) => (a', true)
      | (a', true) => scan_options_loop A it tail (st_of i name (sit_after s ps)) true a'
      end.
  Proof.
    intros i name. induction ps as [|[k v] r IH]; intros s a tail; [reflexivity|].
    cbn [param_items_q calls_between_q sit_after]. rewrite run_calls_app.
    change ((ISep 59 :: IToken k :: val_items v ++ param_items_q r) ++ tail)
      with (ISep 59 :: IToken k :: (val_items v ++ param_items_q r) ++ tail).
    assert (Hv : forall c v' X ok a0,
      scan_options_loop A it ((val_items (c :: v') ++ param_items_q r) ++ X) (st_of i name (PendParam k)) ok a0
      = match it a0 i name (Some k) (nrm_value (c :: v')) with
        | (a', CBreak) => (a', true)
        | (a', CContinue) => scan_options_loop A it (param_items_q r ++ X) (st_of i name Clean) true a'
        end).
    { intros c v' X ok a0. unfold val_items. cbn [app].
      apply step_value_item. unfold nrm_value. destruct (forallb oct_token (c :: v')); [left|right]; reflexivity. }
    destruct s as [| |k0].
    - rewrite step_semi_quiet by exact I. cbn [flush_semi run_calls].
      destruct v as [|c v'].
      + cbn [val_items app]. apply IH.
      + rewrite Hv. cbn [run_calls app_call].
        destruct (it a i name (Some k) (nrm_value (c :: v'))) as [a' [|]]; [apply IH|reflexivity].
    - rewrite step_semi_quiet by exact I. cbn [flush_semi run_calls].
      destruct v as [|c v'].
      + cbn [val_items app]. apply IH.
      + rewrite Hv. cbn [run_calls app_call].
        destruct (it a i name (Some k) (nrm_value (c :: v'))) as [a' [|]]; [apply IH|reflexivity].
    - rewrite step_semi_param. cbn [flush_semi run_calls app_call].
      destruct (it a i name (Some k0) []) as [a0 [|]]; [|reflexivity].
      destruct v as [|c v'].
      + cbn [val_items app]. apply IH.
      + rewrite Hv. cbn [run_calls app_call].
        destruct (it a0 i name (Some k) (nrm_value (c :: v'))) as [a' [|]]; [apply IH|reflexivity].
  Qed.

  Lemma opts_tail_loop_q : forall r i name s a,
    scan_options_loop A it (match r with [] => [] | _ => ISep 44 :: opts_items_q r end) (st_of i name s) true a
    = (fst (run_calls A it (flush_end i name s ++ opts_calls (i + 1) (nrm_opts r)) a), true).
  Proof.
    induction r as [|o r IH]; intros i name s a.
    - cbn [nrm_opts map opts_calls]. rewrite app_nil_r. apply step_end.
    - cbn [opts_items_q nrm_opts map opts_calls]. fold (nrm_opts r). rewrite step_comma, run_calls_app.
      destruct (run_calls A it (flush_end i name s) a) as [a1 [|]]; [|reflexivity].
      rewrite params_loop_q. rewrite <- opt_calls_q_eq, <- app_assoc, run_calls_app.
      destruct (run_calls A it (calls_between_q (i + 1) (o_name o) PendName (o_params o)) a1) as [a2 [|]]; [|reflexivity].
      apply IH.
  Qed.

  (* ScanOptions on a written list with lexable values: the calls of the normalised list *)
  Theorem scan_options_written_q : forall os a, lx_opts os = true -> os <> [] ->
    scan_options A it (write_options os) a = (fst (run_calls A it (opts_calls 0 (nrm_opts os)) a), true).
  Proof.
    intros os a Hwf Hne. unfold scan_options. rewrite (lex_written_q os Hwf).
    destruct os as [|o r]; [contradiction|]. cbn [opts_items_q nrm_opts map opts_calls]. fold (nrm_opts r).
    change (scan_options_loop A it
              (IToken (o_name o) :: param_items_q (o_params o) ++ match r with [] => [] | _ :: _ => ISep 44 :: opts_items_q r end)
              (mkSo StKey 0 [] None [] false) false a)
      with (scan_options_loop A it
              (param_items_q (o_params o) ++ match r with [] => [] | _ :: _ => ISep 44 :: opts_items_q r end)
              (st_of 0 (o_name o) PendName) false a).
    rewrite must_ok_irrel by reflexivity. rewrite params_loop_q.
    rewrite <- opt_calls_q_eq, <- app_assoc, run_calls_app.
    destruct (run_calls A it (calls_between_q 0 (o_name o) PendName (o_params o)) a) as [a2 [|]]; [|reflexivity].
    apply opts_tail_loop_q.
  Qed.
End ScanQ.

(* ================= 4. ParseOptions, Select, negotiateExtensions, matchSelectedExtensions *)
Theorem option_list_normalised : forall os, lx_opts os = true -> os <> [] ->
  parse_options (write_options os) = (nrm_opts os, true).
Proof.
  intros os Hwf Hne. unfold parse_options. rewrite (scan_options_written_q _ po_it os _ Hwf Hne).
  destruct (po_opts_run (nrm_opts os) 0 None [] I) as [j' E]. rewrite E. reflexivity.
Qed.

Lemma qv_param_lx : forall kv, qv_param kv = true -> lx_param kv = true /\ nrm_value (snd kv) = snd kv.
Proof.
  intros [k v] H. unfold qv_param in H. cbn [fst snd] in *. apply andb_prop in H. destruct H as [Hk Hv].
  unfold lx_param. cbn [fst snd]. rewrite Hk. destruct v as [|c v']; [split; reflexivity|].
  cbn [is_nil orb] in Hv. rewrite (qv_ok_lexv _ Hv). split; [reflexivity|apply qv_ok_nrm; exact Hv].
Qed.

Lemma qv_opts_lx : forall os, qv_opts os = true -> lx_opts os = true /\ nrm_opts os = os.
Proof.
  induction os as [|o r IH]; intros H; [split; reflexivity|].
  unfold qv_opts in H. cbn [forallb] in H. apply andb_prop in H. destruct H as [Ho Hr].
  destruct (IH Hr) as [L1 L2]. unfold qv_opt in Ho. apply andb_prop in Ho. destruct Ho as [Hn Hps].
  assert (P : forallb lx_param (o_params o) = true /\ nrm_params (o_params o) = o_params o).
  { clear -Hps. induction (o_params o) as [|kv ps IHp]; [split; reflexivity|].
    cbn [forallb] in Hps. apply andb_prop in Hps. destruct Hps as [Hkv Hps].
    destruct (qv_param_lx kv Hkv) as [Q1 Q2]. destruct (IHp Hps) as [Q3 Q4].
    cbn [forallb nrm_params map]. fold (nrm_params ps). rewrite Q1, Q3, Q2, Q4. destruct kv; split; reflexivity. }
  destruct P as [P1 P2]. split.
  - unfold lx_opts. cbn [forallb]. fold (lx_opts r). unfold lx_opt. rewrite Hn, P1, L1. reflexivity.
  - cbn [nrm_opts map]. fold (nrm_opts r). rewrite L2. unfold nrm_opt. rewrite P2. destruct o; reflexivity.
Qed.

(* values inside the frontier come back exactly *)
Theorem option_list_roundtrip_q : forall os, qv_opts os = true -> os <> [] ->
  parse_options (write_options os) = (os, true).
Proof.
  intros os H Hne. destruct (qv_opts_lx os H) as [L1 L2].
  rewrite (option_list_normalised os L1 Hne), L2. reflexivity.
Qed.

Theorem quoted_value_roundtrip : forall name k v, tokb name = true -> tokb k = true -> qv_ok v = true ->
  parse_options (write_options [mkOpt name [(k, v)]]) = ([mkOpt name [(k, v)]], true).
Proof.
  intros name k v Hn Hk Hv. apply option_list_roundtrip_q; [|discriminate].
  unfold qv_opts, qv_opt, qv_param. cbn [forallb o_name o_params fst snd]. rewrite Hn, Hk, Hv.
  rewrite orb_true_r. reflexivity.
Qed.
