(* ReaderStreamC07.v — C07 at message level, spelled out: one text message,
   fragmented arbitrarily (control frames in between), on any transport chunking,
   read with any buffer sizes, is delivered completely and without error exactly
   when the concatenation of its fragments is valid UTF-8; otherwise the loop
   ends with the invalid-UTF-8 error, reports no data message, and whatever it
   handed out before is a prefix of the message.
   From reader_meets_spec (events, error class) and the second simulation of
   ReaderStreamC05.v (bytes handed out). *)
Require Import Bytes Stream Utf8Spec Check Frame Cipher Utf8Dfa Extracted ExtractedOk Reader ReaderStream
  BytesProofs StreamProofs CheckProofs FrameProofs CipherProofs Utf8Proofs ReaderLocalProofs
  ReaderAux ReaderInv ReaderProofs ReaderMoreProofs ReaderStreamC05.
From Coq Require Import ZifyBool ZifyN ZifyNat.
Open Scope N_scope.

(* ------------------------------------------------------------------ ws.State bits *)
Lemma st_bits_set s b :
  st_server (set_fragmented s b) = st_server s /\ st_client (set_fragmented s b) = st_client s /\
  st_extended (set_fragmented s b) = st_extended s.
Proof.
  unfold st_server, st_client, st_extended, set_fragmented. destruct b.
  - rewrite !N.lor_spec. change (N.testbit 8 0) with false. change (N.testbit 8 1) with false.
    change (N.testbit 8 2) with false. rewrite !orb_false_r. repeat split.
  - rewrite !N.land_spec. change (N.testbit 247 0) with true. change (N.testbit 247 1) with true.
    change (N.testbit 247 2) with true. rewrite !andb_true_r. repeat split.
Qed.

(* a frame with no reserved bit, the masking its receiver wants, an opcode that
   fits the position, and — if control — final and short, breaks no rule *)
Lemma frame_ok_intro c frag f :
  spec_reserved (sf_op f) = false -> sf_rsv f = 0 -> mask_ok (c_state c) f = true ->
  (spec_control (sf_op f) = true -> sf_fin f = true /\ len (sf_payload f) <= 125) ->
  (spec_control (sf_op f) = false -> (sf_op f =? 0) = frag) ->
  frame_ok c frag f = true.
Proof.
  intros Hres Hrsv Hmask Hctl Hdat. unfold frame_ok, broken, all_rules.
  destruct (st_bits_set (c_state c) frag) as (B0 & B1 & B2).
  unfold mask_ok in Hmask. apply andb_true_iff in Hmask. destruct Hmask as [Hm1 Hm2].
  assert (R1: rule_broken ReservedOp (sf_header f) (set_fragmented (c_state c) frag) = false) by exact Hres.
  assert (R2: rule_broken ControlTooLong (sf_header f) (set_fragmented (c_state c) frag) = false).
  { cbn [rule_broken sf_header h_op h_len]. destruct (spec_control (sf_op f)); [|reflexivity].
    destruct (Hctl eq_refl) as [_ H]. cbn [andb]. clear -H. lia. }
  assert (R3: rule_broken ControlNotFinal (sf_header f) (set_fragmented (c_state c) frag) = false).
  { cbn [rule_broken sf_header h_op h_fin]. destruct (spec_control (sf_op f)); [|reflexivity].
    destruct (Hctl eq_refl) as [-> _]. reflexivity. }
  assert (R4: rule_broken RsvWithoutExt (sf_header f) (set_fragmented (c_state c) frag) = false).
  { cbn [rule_broken sf_header h_rsv]. rewrite Hrsv. reflexivity. }
  assert (R5: rule_broken MaskRequired (sf_header f) (set_fragmented (c_state c) frag) = false).
  { cbn [rule_broken sf_header h_masked]. rewrite B0. destruct (st_server (c_state c)); [|reflexivity].
    cbn [negb orb andb] in *. rewrite Hm1. reflexivity. }
  assert (R6: rule_broken MaskUnexpected (sf_header f) (set_fragmented (c_state c) frag) = false).
  { cbn [rule_broken sf_header h_masked]. rewrite B1. destruct (st_client (c_state c)); [|reflexivity].
    cbn [negb orb andb] in *. destruct (sf_key f); [discriminate|reflexivity]. }
  assert (R7: rule_broken ContinuationExpected (sf_header f) (set_fragmented (c_state c) frag) = false).
  { cbn [rule_broken sf_header h_op]. rewrite st_frag_set. destruct (spec_control (sf_op f)).
    - cbn [negb]. rewrite andb_false_r. reflexivity.
    - rewrite (Hdat eq_refl). destruct frag; reflexivity. }
  assert (R8: rule_broken ContinuationUnexpected (sf_header f) (set_fragmented (c_state c) frag) = false).
  { cbn [rule_broken sf_header h_op]. rewrite st_frag_set. destruct (spec_control (sf_op f)) eqn:E.
    - destruct frag; [reflexivity|]. cbn [negb andb]. unfold spec_control in E. clear -E. lia.
    - rewrite (Hdat eq_refl). destruct frag; reflexivity. }
  cbn [filter]. rewrite R1, R2, R3, R4, R5, R6, R7, R8. reflexivity.
Qed.

Lemma Forall_firstn_ {A} (P : A -> Prop) l : Forall P l -> forall n, Forall P (firstn n l).
Proof.
  induction 1 as [|x l Hx _ IH]; intros [|n]; cbn [firstn]; try constructor; [exact Hx|apply IH].
Qed.

Lemma firstn_map_app {A B} (g : A -> B) a b n : firstn (length a + n) (map g a ++ b) = map g a ++ firstn n b.
Proof. rewrite <- (map_length g a). apply firstn_app_2. Qed.
Lemma firstn_map_app0 {A B} (g : A -> B) a b : firstn (length a) (map g a ++ b) = map g a.
Proof. rewrite <- (Nat.add_0_r (length a)), firstn_map_app, firstn_O, app_nil_r. reflexivity. Qed.

(* ------------------------------------------------------------------ UTF-8 *)
Lemma valid_prefix_viable a b : wf_bytes a -> wf_bytes b -> valid_utf8 (a ++ b) = true -> utf8_viable a = true.
Proof.
  intros Ha Hb Hv. rewrite utf8_viable_dfa by exact Ha.
  destruct (u8_run 0 a =? 12) eqn:E; [|reflexivity].
  rewrite (dfa_reject_dead a b Ha Hb) in Hv; [discriminate|lia].
Qed.

Lemma viable_false_invalid a b : wf_bytes a -> wf_bytes b -> utf8_viable a = false -> valid_utf8 (a ++ b) = false.
Proof.
  intros Ha Hb Hv. destruct (valid_utf8 (a ++ b)) eqn:E; [|reflexivity].
  rewrite (valid_prefix_viable a b Ha Hb E) in Hv. discriminate.
Qed.

Lemma ctl_ok_facts f : ctl_ok f = true ->
  spec_control (sf_op f) = true /\ spec_reserved (sf_op f) = false /\ sf_fin f = true /\ sf_rsv f = 0 /\
  len (sf_payload f) <= 125.
Proof.
  unfold ctl_ok. intros H. apply andb_true_iff in H. destruct H as [H H4].
  apply andb_true_iff in H. destruct H as [H H3]. apply andb_true_iff in H. destruct H as [H1 H2].
  assert (Ho: sf_op f = 8 \/ sf_op f = 9 \/ sf_op f = 10) by lia.
  split; [|split; [|split; [exact H2|split; lia]]]; destruct Ho as [->|[->| ->]]; reflexivity.
Qed.

(* ------------------------------------------------------------------ the spec on one text message *)
Section TextMessage.
Variable c : rcfg.
Hypothesis Hchk : c_check_utf8 c = true.
Hypothesis Hext : c_ext c = false.

Definition frame_fits (f : sframe) : Prop := mask_ok (c_state c) f = true /\ too_large c f = false.
Definition ctls_ok (fs : list sframe) : Prop := Forall (fun f => ctl_ok f = true /\ frame_fits f) fs.


(* control frames between two fragments *)
Lemma spec_ctls m : forall ctls k evs rest, ctls_ok ctls ->
  spec_run c k (Some m) evs (ctls ++ rest) =
  spec_run c (k + length ctls) (Some m)
    (evs ++ map (fun f => mkEv (sf_op f) (sf_payload f) true (m_comp m)) ctls) rest.
Proof.
  induction ctls as [|f ctls IH]; intros k evs rest Hok.
  - cbn [app length map]. rewrite Nat.add_0_r, app_nil_r. reflexivity.
  - pose proof (Forall_inv Hok) as (Hf & Hmk & Hsz). pose proof (Forall_inv_tail Hok) as Hok'.
    destruct (ctl_ok_facts f Hf) as (Hctl & Hres & Hfin & Hrsv & Hlen).
    cbn [app]. rewrite spec_run_cons. cbn [is_some].
    rewrite (frame_ok_intro c true f Hres Hrsv Hmk) by (intros; try split; congruence).
    unfold too_large in Hsz. rewrite Hsz, Hext, Hctl. cbn [negb andb].
    rewrite IH by exact Hok'. destruct m as [[o p] cm]. cbn [comp_of m_comp snd map length].
    rewrite <- app_assoc. cbn [app]. f_equal. lia.
Qed.

Definition frags_ok (l : list frag) : Prop :=
  Forall (fun x => ctls_ok (fr_ctl x) /\ wf_bytes (fr_data x) /\
                   forall fin, frame_fits (mkSF fin 0 0 (fr_key x) (fr_data x))) l.

Lemma map_ctl_events l :
  map (fun f => mkEv (sf_op f) (sf_payload f) true false) (concat (map fr_ctl l)) = msg_ctl_events l.
Proof. reflexivity. Qed.

(* the continuation part of a text message whose earlier fragments [acc] are
   still completable *)
Lemma spec_cont : forall l k acc evs, l <> [] -> frags_ok l -> wf_bytes acc ->
  let whole := acc ++ concat (map fr_data l) in
  (valid_utf8 whole = true ->
     spec_run c k (Some (1, acc, false)) evs (cont_frames l) =
     mkSR (evs ++ msg_ctl_events l ++ [mkEv 1 whole false false]) [] OClean) /\
  (valid_utf8 whole = false -> exists n,
     spec_run c k (Some (1, acc, false)) evs (cont_frames l) =
     mkSR (evs ++ firstn n (msg_ctl_events l)) [] OInvalidUtf8).
Proof.
  induction l as [|x l IH]; intros k acc evs Hne Hok Hacc whole; [contradiction|].
  pose proof (Forall_inv Hok) as (Hctls & Hdata & Hfit). pose proof (Forall_inv_tail Hok) as Hok'.
  cbn [cont_frames]. rewrite spec_ctls by exact Hctls. cbn [m_comp snd].
  set (fin := match l with [] => true | _ => false end).
  set (f := mkSF fin 0 0 (fr_key x) (fr_data x)).
  set (evs1 := evs ++ map (fun f0 => mkEv (sf_op f0) (sf_payload f0) true false) (fr_ctl x)).
  destruct (Hfit fin) as [Hmk Hsz]. fold f in Hmk, Hsz.
  rewrite spec_run_cons. cbn [is_some].
  rewrite (frame_ok_intro c true f eq_refl eq_refl Hmk) by (intros; try split; try reflexivity; discriminate).
  unfold too_large in Hsz. rewrite Hsz, Hext. cbn [negb andb f sf_op spec_control N.leb N.compare].
  change (spec_control 0) with false. cbn iota.
  unfold spec_data, msg_of. unfold wrap_of. rewrite Hchk. subst f. cbn [andb N.eqb Pos.eqb sf_fin sf_payload].
  assert (Hwa: wf_bytes (acc ++ fr_data x)) by (apply wf_bytes_app; split; assumption).
  assert (Hev1: forall tl, evs1 ++ tl = evs ++ map (fun f0 => mkEv (sf_op f0) (sf_payload f0) true false) (fr_ctl x) ++ tl)
    by (intros; unfold evs1; rewrite <- app_assoc; reflexivity).
  assert (Hctl_split: msg_ctl_events (x :: l) =
            map (fun f0 => mkEv (sf_op f0) (sf_payload f0) true false) (fr_ctl x) ++ msg_ctl_events l).
  { unfold msg_ctl_events. cbn [map concat]. rewrite map_app. reflexivity. }
  destruct l as [|y l'].
  - (* the last fragment *)
    subst fin. unfold whole. cbn [map concat]. rewrite app_nil_r.
    rewrite Hctl_split. change (msg_ctl_events []) with (@nil event). rewrite app_nil_r.
    destruct (valid_utf8 (acc ++ fr_data x)) eqn:Hv; cbn [negb]; split; intros Hvv; try discriminate.
    + cbn [cont_frames]. rewrite spec_run_nil. cbn [is_some partial_of]. rewrite Hev1. reflexivity.
    + exists (length (fr_ctl x)).
      rewrite <- (app_nil_r (map _ (fr_ctl x))), firstn_map_app0. reflexivity.
  - (* an inner fragment *)
    subst fin. cbn iota.
    assert (Hwrest: wf_bytes (concat (map fr_data (y :: l')))).
    { clear -Hok'. induction Hok' as [|z zs Hz _ IHz]; cbn [map concat]; [constructor|].
      apply wf_bytes_app. split; [apply Hz|exact IHz]. }
    assert (Hwhole: whole = (acc ++ fr_data x) ++ concat (map fr_data (y :: l'))).
    { unfold whole. cbn [map concat]. rewrite <- !app_assoc. reflexivity. }
    destruct (utf8_viable (acc ++ fr_data x)) eqn:Hvi; cbn [negb].
    + destruct (IH (S (k + length (fr_ctl x))) (acc ++ fr_data x) evs1 ltac:(discriminate) Hok' Hwa) as [IH1 IH2].
      fold (cont_frames (y :: l')). rewrite <- Hwhole in IH1, IH2. split; intros Hvv.
      * rewrite (IH1 Hvv), Hev1, Hctl_split, <- !app_assoc. reflexivity.
      * destruct (IH2 Hvv) as (n & Hn). exists (length (fr_ctl x) + n)%nat.
        rewrite Hn, Hev1, Hctl_split, firstn_map_app. reflexivity.
    + split; intros Hvv.
      * exfalso. rewrite Hwhole, (viable_false_invalid _ _ Hwa Hwrest Hvi) in Hvv. discriminate.
      * exists (length (fr_ctl x)). rewrite Hctl_split, firstn_map_app0. reflexivity.
Qed.

(* the whole message *)
Lemma spec_text_message k0 p0 l :
  wf_bytes p0 -> (forall fin, frame_fits (mkSF fin 0 1 k0 p0)) -> frags_ok l ->
  let whole := msg_payload p0 l in
  (valid_utf8 whole = true ->
     spec_run c 0 None [] (msg_frames 1 k0 p0 l) =
     mkSR (msg_ctl_events l ++ [mkEv 1 whole false false]) [] OClean) /\
  (valid_utf8 whole = false -> exists n,
     spec_run c 0 None [] (msg_frames 1 k0 p0 l) = mkSR (firstn n (msg_ctl_events l)) [] OInvalidUtf8).
Proof.
  intros Hp0 Hfit Hok whole. unfold msg_frames.
  set (fin := match l with [] => true | _ => false end).
  set (f := mkSF fin 0 1 k0 p0). destruct (Hfit fin) as [Hmk Hsz]. fold f in Hmk, Hsz.
  rewrite spec_run_cons. cbn [is_some].
  rewrite (frame_ok_intro c false f eq_refl eq_refl Hmk) by (intros; try split; try reflexivity; discriminate).
  unfold too_large in Hsz. rewrite Hsz, Hext. cbn [negb andb f sf_op].
  change (spec_control 1) with false. cbn iota.
  unfold spec_data, msg_of. subst f. cbn [sf_op]. unfold wrap_of. rewrite Hchk, Hext.
  cbn [andb N.eqb Pos.eqb sf_fin sf_payload app].
  destruct l as [|y l'].
  - subst fin. unfold whole, msg_payload, msg_ctl_events. cbn [map concat cont_frames app]. rewrite app_nil_r.
    destruct (valid_utf8 p0) eqn:Hv; cbn [negb]; split; intros Hvv; try discriminate.
    + rewrite spec_run_nil. reflexivity.
    + exists 0%nat. reflexivity.
  - subst fin. cbn iota.
    assert (Hwrest: wf_bytes (concat (map fr_data (y :: l')))).
    { clear -Hok. induction Hok as [|z zs Hz _ IHz]; cbn [map concat]; [constructor|].
      apply wf_bytes_app. split; [apply Hz|exact IHz]. }
    destruct (utf8_viable p0) eqn:Hvi; cbn [negb].
    + destruct (spec_cont (y :: l') 1%nat p0 [] ltac:(discriminate) Hok Hp0) as [H1 H2].
      fold (msg_payload p0 (y :: l')) in H1, H2. fold whole in H1, H2. split; intros Hvv.
      * rewrite (H1 Hvv). reflexivity.
      * destruct (H2 Hvv) as (n & Hn). exists n. rewrite Hn. reflexivity.
    + split; intros Hvv.
      * exfalso. unfold whole, msg_payload in Hvv. rewrite (viable_false_invalid _ _ Hp0 Hwrest Hvi) in Hvv.
        discriminate.
      * exists 0%nat. reflexivity.
Qed.

(* the message's data bytes *)
Lemma ctls_no_data ctls : ctls_ok ctls -> data_bytes_of_frames ctls = [].
Proof.
  induction 1 as [|f ctls (Hf & _) _ IH]; [reflexivity|].
  rewrite data_bytes_fr_cons, IH. destruct (ctl_ok_facts f Hf) as (-> & _). reflexivity.
Qed.

Lemma cont_data l : frags_ok l -> data_bytes_of_frames (cont_frames l) = concat (map fr_data l).
Proof.
  induction 1 as [|x l (Hc & _) _ IH]; [reflexivity|].
  cbn [cont_frames map concat]. rewrite data_bytes_fr_app, (ctls_no_data _ Hc), data_bytes_fr_cons, IH. reflexivity.
Qed.

Lemma msg_data k0 p0 l : frags_ok l -> data_bytes_of_frames (msg_frames 1 k0 p0 l) = msg_payload p0 l.
Proof. intros H. unfold msg_frames, msg_payload. rewrite data_bytes_fr_cons, (cont_data l H). reflexivity. Qed.

Lemma ctl_events_all_ctl l : frags_ok l -> forall n, all_ctl (firstn n (msg_ctl_events l)).
Proof.
  intros Hok. apply Forall_firstn_. apply Forall_forall. intros e He.
  unfold msg_ctl_events in He. apply in_map_iff in He. destruct He as (f & <- & Hin). cbn [ev_op].
  apply in_concat in Hin. destruct Hin as (ctls & Hc & Hin). apply in_map_iff in Hc. destruct Hc as (x & <- & Hx).
  pose proof (proj1 (Forall_forall _ _) Hok x Hx) as (Hcx & _).
  pose proof (proj1 (Forall_forall _ _) Hcx f Hin) as (Hf & _). apply (ctl_ok_facts f Hf).
Qed.
End TextMessage.

(* ------------------------------------------------------------------ from the frame list to the structured hypotheses *)
Lemma cont_frames_inv (P : sframe -> Prop) l : Forall P (cont_frames l) ->
  Forall (fun x => Forall P (fr_ctl x) /\ exists fin, P (mkSF fin 0 0 (fr_key x) (fr_data x))) l.
Proof.
  induction l as [|x l IH]; intros H; [constructor|].
  cbn [cont_frames] in H. apply Forall_app in H. destruct H as [H1 H2].
  constructor; [split; [exact H1|eexists; exact (Forall_inv H2)]|apply IH, (Forall_inv_tail H2)].
Qed.

Lemma evs_match_eq a : forall b, evs_match a b = true ->
  Forall (fun x => spec_control (ev_op x) = false \/ ev_inter x = true) a -> a = b.
Proof.
  induction a as [|x a IH]; intros [|y b] H Hf; cbn [evs_match] in H; try discriminate; [reflexivity|].
  apply andb_true_iff in H. destruct H as [Hxy H].
  rewrite (ev_matches_eq x y Hxy (Forall_inv Hf)), (IH b H (Forall_inv_tail Hf)). reflexivity.
Qed.

Lemma all_ctl_no_data_events evs : all_ctl evs -> data_events evs = [].
Proof.
  induction 1 as [|e evs He _ IH]; [reflexivity|].
  unfold data_events, ev_is_data in *. cbn [filter]. rewrite He. exact IH.
Qed.

Lemma ctl_events_inter l n :
  Forall (fun x => spec_control (ev_op x) = false \/ ev_inter x = true) (firstn n (msg_ctl_events l)).
Proof.
  apply Forall_firstn_. unfold msg_ctl_events. apply Forall_forall. intros e He.
  apply in_map_iff in He. destruct He as (f & <- & _). right. reflexivity.
Qed.

(* ------------------------------------------------------------------ C07, message level *)
Theorem text_message_iff_valid : forall state max k0 p0 l s bufs fuel,
  let c := mkCfg state true max false in
  let fs := msg_frames 1 k0 p0 l in
  let whole := msg_payload p0 l in
  wf_cfg c -> Forall wf_sframe fs ->
  Forall (fun f => mask_ok state f = true /\ too_large c f = false) fs ->
  Forall (fun x => Forall (fun f => ctl_ok f = true) (fr_ctl x)) l ->
  wf_src s -> tl s = TEOF -> flat s = wire fs ->
  (2 * length (wire fs) + 4 * length fs + 8 <= fuel)%nat ->
  let d := drive fuel bufs (new_reader s state false true max false CbReadAll) in
  (valid_utf8 whole = true ->
     dr_err d = RIo EEOF /\ dr_partial d = [] /\
     dr_events d = msg_ctl_events l ++ [mkEv 1 whole false false]) /\
  (valid_utf8 whole = false ->
     dr_err d = RInvalidUtf8 /\ data_events (dr_events d) = [] /\
     (exists n, dr_events d = firstn n (msg_ctl_events l)) /\
     exists tail, whole = dr_partial d ++ tail) /\
  ((dr_err d = RIo EEOF /\ In (mkEv 1 whole false false) (dr_events d)) <-> valid_utf8 whole = true).
Proof.
  intros state max k0 p0 l s bufs fuel c fs whole Hc Hwf Hfits Hctls Hw Ht Hfl Hfuel d.
  (* the structured hypotheses *)
  assert (Hp0: wf_bytes p0) by (apply (Forall_inv Hwf)).
  assert (Hfit0: forall fin, frame_fits c (mkSF fin 0 1 k0 p0)).
  { intros fin. exact (Forall_inv Hfits). }
  assert (Hok: frags_ok c l).
  { pose proof (cont_frames_inv _ l (Forall_inv_tail Hwf)) as W.
    pose proof (cont_frames_inv _ l (Forall_inv_tail Hfits)) as Fi.
    apply Forall_forall. intros x Hx.
    pose proof (proj1 (Forall_forall _ _) W x Hx) as (W1 & fin1 & W2).
    pose proof (proj1 (Forall_forall _ _) Fi x Hx) as (F1 & fin2 & F2).
    pose proof (proj1 (Forall_forall _ _) Hctls x Hx) as C1.
    split; [|split].
    - apply Forall_forall. intros f Hf. split.
      + exact (proj1 (Forall_forall _ _) C1 f Hf).
      + exact (proj1 (Forall_forall _ _) F1 f Hf).
    - apply W2.
    - intros fin. exact F2. }
  destruct (spec_text_message c eq_refl eq_refl k0 p0 l Hp0 Hfit0 Hok) as [SV SI]. fold whole fs in SV, SI.
  pose proof (reader_meets_spec c fs s bufs fuel Hc Hwf Hw Ht Hfl Hfuel) as M. cbv zeta in M.
  change (new_reader s (c_state c) false (c_check_utf8 c) (c_max c) (c_ext c) CbReadAll)
    with (new_reader s state false true max false CbReadAll) in M. fold d in M.
  unfold reader_monitor, expected_events in M.
  assert (HV: valid_utf8 whole = true ->
     dr_err d = RIo EEOF /\ dr_partial d = [] /\ dr_events d = msg_ctl_events l ++ [mkEv 1 whole false false]).
  { intros Hv. rewrite (SV Hv) in M. cbn [sr_events sr_out sr_partial] in M.
    apply andb_true_iff in M. destruct M as [M Mp]. apply andb_true_iff in M. destruct M as [Mev Merr].
    split; [|split].
    - destruct (dr_err d) as [[| |]| | | | | | | |]; try discriminate. reflexivity.
    - apply bytes_eqb_eq, Mp.
    - symmetry. apply (evs_match_eq _ _ Mev). apply Forall_app. split.
      + rewrite <- (firstn_all (msg_ctl_events l)). apply ctl_events_inter.
      + constructor; [left; reflexivity|constructor]. }
  assert (HI: valid_utf8 whole = false ->
     dr_err d = RInvalidUtf8 /\ data_events (dr_events d) = [] /\
     (exists n, dr_events d = firstn n (msg_ctl_events l)) /\ exists tail, whole = dr_partial d ++ tail).
  { intros Hv. destruct (SI Hv) as (n & Hn). rewrite Hn in M. cbn [sr_events sr_out sr_partial] in M.
    apply andb_true_iff in M. destruct M as [M _]. apply andb_true_iff in M. destruct M as [Mev Merr].
    assert (Hev: dr_events d = firstn n (msg_ctl_events l)).
    { symmetry. apply (evs_match_eq _ _ Mev), ctl_events_inter. }
    assert (Herr: dr_err d = RInvalidUtf8).
    { destruct (dr_err d) as [[| |]| | | | | | | |]; try discriminate. reflexivity. }
    pose proof (ctl_events_all_ctl c l Hok n) as Hall.
    split; [exact Herr|]. split; [rewrite Hev; apply all_ctl_no_data_events, Hall|].
    split; [exists n; exact Hev|].
    pose proof (new_reader_bnd c fs s Hc Hwf Hw Ht Hfl) as HB.
    destruct (driveR c bufs Hc fuel fs [] _ HB ltac:(lia)) as (_ & new & Hnew & Hu8).
    change (new_reader s (c_state c) false (c_check_utf8 c) (c_max c) (c_ext c) CbReadAll)
      with (new_reader s state false true max false CbReadAll) in Hnew, Hu8. fold d in Hnew, Hu8.
    cbn [app] in Hnew. destruct (Hu8 Herr) as (tail & Htail). exists tail.
    rewrite <- Hnew, Hev, (all_ctl_data _ Hall) in Htail. cbn [app] in Htail.
    unfold fs in Htail. rewrite (msg_data c k0 p0 l Hok) in Htail. symmetry. exact Htail. }
  split; [exact HV|]. split; [exact HI|]. split.
  - intros [He _]. destruct (valid_utf8 whole) eqn:Hv; [reflexivity|].
    destruct (HI eq_refl) as (He' & _). rewrite He' in He. discriminate.
  - intros Hv. destruct (HV Hv) as (He & _ & Hev). split; [exact He|].
    rewrite Hev. apply in_or_app. right. left. reflexivity.
Qed.
