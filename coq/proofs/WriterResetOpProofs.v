(* WriterResetOpProofs.v — C18/C06: the quick opcode reset (ResetOp) and SetExtensions at
   a message boundary inside histories.
   Part 1: with a destination that never fails, NOTHING the Writer computes depends on
   what the destination has received so far: running any history on a writer and on the
   same writer over another (never failing) destination gives the same results, the same
   accessors, the same new destination writes (only the call counter is shifted).
   Part 2: a writer at a message boundary (nothing buffered, not dirty, fragment counter 0,
   no sticky error) IS a freshly constructed writer over a buffer of the same size, with its
   extensions and flush mode, placed on the current destination. ResetOp produces such a
   writer from any error-free state.
   Part 3: hence the segment after ResetOp (SetExtensions at a boundary) of any history
   writes exactly what a fresh writer writes, and satisfies the C06 history monitor. *)
Require Import Bytes Stream Check Frame Cipher Extracted Writer
  BytesProofs StreamProofs FrameProofs CipherProofs CheckProofs WriterProofs WriterInv WriterFrameProofs
  WriterHistProofs.
From Coq Require Import ZifyBool ZifyN ZifyNat.
Open Scope N_scope.

(* ------------------------------------------------------------------ another destination *)
Definition redest (w : writer) (d : dest) : writer :=
  mkW d (w_state w) (w_op w) (w_exts w) (w_noflush w) (w_rawlen w) (w_buflen w) (w_buf w)
      (w_dirty w) (w_fseq w) (w_err w) (w_masks w).
Definition nf (d : dest) : Prop := d_fail_at d = None.
Definition dnil : dest := mkDest [] None.
(* [ext] = further calls, newest first *)
Definition dpush (ext : list (list byte)) (d : dest) : dest := mkDest (ext ++ d_calls d) None.
Definition with_calls (o : wobs) (k : N) : wobs :=
  mkWO (o_n o) (o_err o) (o_panic o) (o_buffered o) (o_available o) (o_size o) k.

Ltac rsimpl := cbn [redest w_dest w_state w_op w_exts w_noflush w_rawlen w_buflen w_buf w_dirty w_fseq w_err w_masks
  set_buf set_dest_err with_flush_result disable_flush set_extensions reset_op fst snd].

Lemma redest_redest w d1 d2 : redest (redest w d1) d2 = redest w d2. Proof. reflexivity. Qed.
Lemma redest_self w : redest w (w_dest w) = w. Proof. destruct w; reflexivity. Qed.
Lemma dpush_nil d : nf d -> dpush [] d = d.
Proof. unfold nf, dpush. destruct d as [c f]; cbn. intros ->. reflexivity. Qed.
Lemma dpush_dpush e2 e1 d : dpush e2 (dpush e1 d) = dpush (e2 ++ e1) d.
Proof. unfold dpush. cbn [d_calls]. rewrite app_assoc. reflexivity. Qed.
Lemma dpush_nf e d : nf (dpush e d). Proof. reflexivity. Qed.
Lemma dest_write_nf p d : nf d -> dest_write p d = (true, dpush [p] d).
Proof. unfold nf, dest_write, dpush. intros ->. reflexivity. Qed.
Lemma dest_ncalls_dpush e d : dest_ncalls (dpush e d) = len e + dest_ncalls d.
Proof. unfold dest_ncalls, dpush. cbn [d_calls]. apply len_app. Qed.
Lemma dest_log_dpush e d : dest_log (dpush e d) = dest_log d ++ rev e.
Proof. unfold dest_log, dpush. cbn [d_calls]. rewrite !rev_append_rev, !app_nil_r. apply rev_app_distr. Qed.

Lemma w_n_redest w d : w_n (redest w d) = w_n w. Proof. reflexivity. Qed.
Lemma w_available_redest w d : w_available (redest w d) = w_available w. Proof. reflexivity. Qed.
Lemma w_opcode_redest w d : w_opcode (redest w d) = w_opcode w. Proof. reflexivity. Qed.
Lemma take_mask_redest w d : take_mask (redest w d) = take_mask w. Proof. reflexivity. Qed.
Lemma wl_cond_redest p w d : wl_cond p (redest w d) = wl_cond p w. Proof. reflexivity. Qed.
Lemma set_buf_redest w d b x : set_buf (redest w d) b x = redest (set_buf w b x) d. Proof. reflexivity. Qed.
Lemma with_flush_result_redest w d e fin :
  with_flush_result (redest w d) e fin = redest (with_flush_result w e fin) d.
Proof. reflexivity. Qed.

(* ------------------------------------------------------------------ Part 1: destination independence *)
(* the result, the next state up to its destination, and the calls appended do not
   depend on the (never failing) destination *)
Definition DI {R} (X : writer -> R * writer) (w : writer) : Prop :=
  exists r w' ext, forall d, nf d -> X (redest w d) = (r, redest w' (dpush ext d)).

Lemma DI_same {R} (X : writer -> R * writer) w r w' :
  (forall d, X (redest w d) = (r, redest w' d)) -> DI X w.
Proof. intros H. exists r, w', []. intros d Hd. rewrite dpush_nil by assumption. apply H. Qed.

Lemma flush_fragment_raw_DI fin w : DI (flush_fragment_raw fin) w.
Proof.
  unfold DI, flush_fragment_raw.
  destruct (set_bits (w_exts w) (mkHeader fin 0 (w_opcode w) false zero_mask (Z.of_N (w_n w)))) as [h1|] eqn:Es.
  2:{ exists (inr (Some WExt)), w, []. intros d Hd. rsimpl. rewrite w_opcode_redest, w_n_redest, Es.
      rewrite dpush_nil by assumption. reflexivity. }
  destruct (if client_side (w_state w) then take_mask w else (zero_mask, w_masks w)) as [key masks'] eqn:Ek.
  set (h := if client_side (w_state w) then mkHeader (h_fin h1) (h_rsv h1) (h_op h1) true key (h_len h1) else h1).
  destruct (w_rawlen w - w_buflen w <? Z.to_N (header_size h)) eqn:Eo.
  { exists (inl PHeaderSpace), w, []. intros d Hd. rsimpl. rewrite w_opcode_redest, w_n_redest, Es, take_mask_redest, Ek.
    fold h. rewrite Eo. rewrite dpush_nil by assumption. reflexivity. }
  destruct (write_header h) as [er|hb] eqn:Eh.
  { exists (inl PHeaderSpace), w, []. intros d Hd. rsimpl. rewrite w_opcode_redest, w_n_redest, Es, take_mask_redest, Ek.
    fold h. rewrite Eo, Eh. rewrite dpush_nil by assumption. reflexivity. }
  exists (inr None),
    (mkW (w_dest w) (w_state w) (w_op w) (w_exts w) (w_noflush w) (w_rawlen w) (w_buflen w) (w_buf w)
         (w_dirty w) (w_fseq w) (w_err w) masks'),
    [hb ++ (if client_side (w_state w) then cipher (w_buf w) key 0 else w_buf w)].
  intros d Hd. rsimpl. rewrite w_opcode_redest, w_n_redest, Es, take_mask_redest, Ek.
  fold h. rewrite Eo, Eh. rewrite dest_write_nf by assumption. reflexivity.
Qed.

Lemma flush_fragment_DI w : DI flush_fragment w.
Proof.
  destruct ((w_n w =? 0) || (match w_err w with Some _ => true | None => false end)) eqn:Ec.
  { apply (DI_same _ w (inr (w_err w)) w). intros d. unfold flush_fragment. rsimpl. rewrite w_n_redest, Ec. reflexivity. }
  destruct (flush_fragment_raw_DI false w) as (r & w1 & ext & H).
  destruct r as [pn|e].
  - exists (inl pn), w1, ext. intros d Hd. unfold flush_fragment. rsimpl. rewrite w_n_redest, Ec, (H d Hd). reflexivity.
  - exists (inr e), (with_flush_result w1 e false), ext. intros d Hd. unfold flush_fragment. rsimpl.
    rewrite w_n_redest, Ec, (H d Hd). reflexivity.
Qed.

Lemma flush_DI w : DI flush w.
Proof.
  destruct ((negb (w_dirty w) && (w_n w =? 0)) || (match w_err w with Some _ => true | None => false end)) eqn:Ec.
  { apply (DI_same _ w (inr (w_err w)) w). intros d. unfold flush. rsimpl. rewrite w_n_redest, Ec. reflexivity. }
  destruct (flush_fragment_raw_DI true w) as (r & w1 & ext & H).
  destruct r as [pn|e].
  - exists (inl pn), w1, ext. intros d Hd. unfold flush. rsimpl. rewrite w_n_redest, Ec, (H d Hd). reflexivity.
  - exists (inr e), (with_flush_result w1 e true), ext. intros d Hd. unfold flush. rsimpl.
    rewrite w_n_redest, Ec, (H d Hd). reflexivity.
Qed.

Lemma write_through_DI p w : DI (write_through p) w.
Proof.
  unfold DI, write_through.
  destruct (w_err w) as [e0|] eqn:Ee.
  { exists (0, Some e0), w, []. intros d Hd. rsimpl. rewrite Ee, dpush_nil by assumption. reflexivity. }
  destruct (negb (w_n w =? 0)) eqn:En.
  { exists (0, Some WNotEmpty), w, []. intros d Hd. rsimpl. rewrite Ee, w_n_redest, En, dpush_nil by assumption. reflexivity. }
  destruct (set_bits (w_exts w) (mkHeader false 0 (w_opcode w) false zero_mask (Z.of_N (len p)))) as [h1|] eqn:Es.
  2:{ exists (0, Some WExt), (set_dest_err w (w_dest w) (Some WExt) (w_masks w)), []. intros d Hd. rsimpl.
      rewrite Ee, w_n_redest, En, w_opcode_redest, Es, dpush_nil by assumption. reflexivity. }
  destruct (if client_side (w_state w) then take_mask w else (zero_mask, w_masks w)) as [key masks'] eqn:Ek.
  set (h := if client_side (w_state w) then mkHeader (h_fin h1) (h_rsv h1) (h_op h1) true key (h_len h1) else h1).
  destruct (write_header h) as [er|hb] eqn:Eh.
  { exists (0, Some WDest), w, []. intros d Hd. rsimpl.
    rewrite Ee, w_n_redest, En, w_opcode_redest, Es, take_mask_redest, Ek. fold h. rewrite Eh, dpush_nil by assumption. reflexivity. }
  exists (len p, None),
    (mkW (w_dest w) (w_state w) (w_op w) (w_exts w) (w_noflush w) (w_rawlen w) (w_buflen w) (w_buf w)
         true (w_fseq w + 1) None masks'),
    [(if client_side (w_state w) then cipher p key 0 else p); hb].
  intros d Hd. rsimpl.
  rewrite Ee, w_n_redest, En, w_opcode_redest, Es, take_mask_redest, Ek. fold h. rewrite Eh.
  rewrite dest_write_nf by assumption. rewrite dest_write_nf by apply dpush_nf. rewrite dpush_dpush. reflexivity.
Qed.

(* Grow does not touch the destination *)
Lemma grow_redest n w d : grow n (redest w d) = (fst (grow n w), redest (snd (grow n w)) d).
Proof.
  unfold grow. rsimpl. rewrite w_n_redest.
  destruct (grow_loop 4 (w_state w) (w_rawlen w) (w_rawlen w - w_buflen w) (w_n w) n) as [[size off]|]; [|reflexivity].
  destruct (size <? w_rawlen w); [reflexivity|]. destruct (size =? w_rawlen w); reflexivity.
Qed.

Lemma write_loop_DI fuel : forall p acc w, DI (write_loop fuel p acc) w.
Proof.
  induction fuel as [|f IH]; intros p acc w.
  - destruct (wl_cond p w) eqn:Ec.
    + apply (DI_same _ w (inr (acc, Some WHang)) w). intros d. cbn [write_loop]. fold (wl_cond p (redest w d)).
      rewrite wl_cond_redest, Ec. reflexivity.
    + destruct (w_err w) as [e|] eqn:Ee.
      * apply (DI_same _ w (inr (acc, Some e)) w). intros d. cbn [write_loop]. fold (wl_cond p (redest w d)).
        rewrite wl_cond_redest, Ec. rsimpl. rewrite Ee. reflexivity.
      * apply (DI_same _ w (inr (acc + len p, None)) (set_buf w (w_buf w ++ p) (w_dirty w))). intros d.
        cbn [write_loop]. fold (wl_cond p (redest w d)). rewrite wl_cond_redest, Ec. rsimpl. rewrite Ee. reflexivity.
  - destruct (wl_cond p w) eqn:Ec.
    2:{ destruct (w_err w) as [e|] eqn:Ee.
        * apply (DI_same _ w (inr (acc, Some e)) w). intros d. rewrite write_loop_S, wl_cond_redest, Ec. rsimpl. rewrite Ee. reflexivity.
        * apply (DI_same _ w (inr (acc + len p, None)) (set_buf w (w_buf w ++ p) (w_dirty w))). intros d.
          rewrite write_loop_S, wl_cond_redest, Ec. rsimpl. rewrite Ee. reflexivity. }
    destruct (w_noflush w) eqn:En.
    { destruct (grow (len p) w) as [[pn|[e|]] w1] eqn:Eg.
      - apply (DI_same _ w (inl pn) w1). intros d. rewrite write_loop_S, wl_cond_redest, Ec. rsimpl. rewrite En, grow_redest, Eg. reflexivity.
      - apply (DI_same _ w (inr (acc, Some e)) w1). intros d. rewrite write_loop_S, wl_cond_redest, Ec. rsimpl. rewrite En, grow_redest, Eg. reflexivity.
      - destruct (IH p acc w1) as (r & w2 & ext & H). exists r, w2, ext. intros d Hd.
        rewrite write_loop_S, wl_cond_redest, Ec. rsimpl. rewrite En, grow_redest, Eg. cbn [fst snd]. apply H. assumption. }
    destruct (w_n w =? 0) eqn:E0.
    { destruct (write_through_DI p w) as ([nn e] & w1 & ext1 & H1).
      destruct (IH (drop nn p) (acc + nn) w1) as (r & w2 & ext2 & H2).
      exists r, w2, (ext2 ++ ext1). intros d Hd.
      rewrite write_loop_S, wl_cond_redest, Ec. rsimpl. rewrite En, w_n_redest, E0, (H1 d Hd).
      rewrite (H2 _ (dpush_nf ext1 d)), dpush_dpush. reflexivity. }
    set (nn := N.min (w_available w) (len p)).
    destruct (flush_fragment_DI (set_buf w (w_buf w ++ take nn p) (w_dirty w))) as (r1 & w2 & ext1 & H1).
    destruct r1 as [pn|e1].
    + exists (inl pn), w2, ext1. intros d Hd.
      rewrite write_loop_S, wl_cond_redest, Ec. rsimpl. rewrite En, w_n_redest, E0, w_available_redest. fold nn.
      rewrite set_buf_redest.
      rewrite (H1 d Hd). reflexivity.
    + destruct (IH (drop nn p) (acc + nn) w2) as (r & w3 & ext2 & H2).
      exists r, w3, (ext2 ++ ext1). intros d Hd.
      rewrite write_loop_S, wl_cond_redest, Ec. rsimpl. rewrite En, w_n_redest, E0, w_available_redest. fold nn.
      rewrite set_buf_redest.
      rewrite (H1 d Hd). rewrite (H2 _ (dpush_nf ext1 d)), dpush_dpush. reflexivity.
Qed.

Lemma write_DI p w : DI (write p) w.
Proof.
  destruct (write_loop_DI 8 p 0 (set_buf w (w_buf w) true)) as (r & w' & ext & H).
  exists r, w', ext. intros d Hd. unfold write. rewrite set_buf_redest. apply H. assumption.
Qed.

Lemma read_from_loop_DI fuel : forall s total w,
  exists r w' s' ext, forall d, nf d ->
    read_from_loop fuel s total (redest w d) = (r, redest w' (dpush ext d), s').
Proof.
  induction fuel as [|f IH]; intros s total w.
  { exists (inr (total, Some WHang)), w, s, []. intros d Hd. rewrite dpush_nil by assumption. reflexivity. }
  destruct (w_available w =? 0) eqn:Ea.
  - destruct (w_noflush w) eqn:En.
    + destruct (grow (w_n w) w) as [[pn|[e|]] w1] eqn:Eg.
      * exists (inl pn), w1, s, []. intros d Hd. cbn [read_from_loop]. rewrite w_available_redest, Ea. rsimpl.
        rewrite En, w_n_redest, grow_redest, Eg, dpush_nil by assumption. reflexivity.
      * exists (inr (total, Some e)), w1, s, []. intros d Hd. cbn [read_from_loop]. rewrite w_available_redest, Ea. rsimpl.
        rewrite En, w_n_redest, grow_redest, Eg, dpush_nil by assumption. reflexivity.
      * destruct (IH s total w1) as (r & w2 & s' & ext & H). exists r, w2, s', ext. intros d Hd.
        cbn [read_from_loop]. rewrite w_available_redest, Ea. rsimpl.
        rewrite En, w_n_redest, grow_redest, Eg. cbn [fst snd]. apply H. assumption.
    + destruct (flush_fragment_DI w) as (r1 & w1 & ext1 & H1). destruct r1 as [pn|[e|]].
      * exists (inl pn), w1, s, ext1. intros d Hd. cbn [read_from_loop]. rewrite w_available_redest, Ea. rsimpl.
        rewrite En, (H1 d Hd). reflexivity.
      * exists (inr (total, Some e)), w1, s, ext1. intros d Hd. cbn [read_from_loop]. rewrite w_available_redest, Ea. rsimpl.
        rewrite En, (H1 d Hd). reflexivity.
      * destruct (IH s total w1) as (r & w2 & s' & ext2 & H2). exists r, w2, s', (ext2 ++ ext1). intros d Hd.
        cbn [read_from_loop]. rewrite w_available_redest, Ea. rsimpl.
        rewrite En, (H1 d Hd). rewrite (H2 _ (dpush_nf ext1 d)), dpush_dpush. reflexivity.
  - destruct (read1 (w_available w) s) as [[b e] s'] eqn:Er.
    (* the state after the bytes were taken, whatever dirty flag the model gives it *)
    set (w1 := set_buf w (w_buf w ++ b) (w_dirty w || (0 <? len b))).
    destruct e as [[| |]|].
    + eexists _, (set_buf w1 (w_buf w1) true), _, [].
      intros d Hd. cbn [read_from_loop]. rewrite w_available_redest, Ea, Er, dpush_nil by assumption. reflexivity.
    + eexists _, w1, _, [].
      intros d Hd. cbn [read_from_loop]. rewrite w_available_redest, Ea, Er, dpush_nil by assumption. reflexivity.
    + eexists _, w1, _, [].
      intros d Hd. cbn [read_from_loop]. rewrite w_available_redest, Ea, Er, dpush_nil by assumption. reflexivity.
    + destruct (IH s' (total + len b) w1) as (r & w2 & s'' & ext & H).
      exists r, w2, s'', ext. intros d Hd. cbn [read_from_loop]. rewrite w_available_redest, Ea, Er.
      rsimpl. rewrite <- (H d Hd). reflexivity.
Qed.

(* ------------------------------------------------------------------ one operation, whole histories *)
Lemma observe_redest n e p w' ext d :
  observe n e p (redest w' (dpush ext d)) = with_calls (observe n e p w') (len ext + dest_ncalls d).
Proof. unfold observe, with_calls. rsimpl. rewrite dest_ncalls_dpush. reflexivity. Qed.

Lemma run_op_DI op w : exists o w' ext stop, forall d, nf d ->
  run_op op (redest w d) = (with_calls o (len ext + dest_ncalls d), redest w' (dpush ext d), stop).
Proof.
  destruct op as [p|data sizes|p| | |n| |xs|st op|op]; cbn [run_op].
  - destruct (write_DI p w) as (r & w' & ext & H). destruct r as [pn|[n e]].
    + exists (observe 0 None (Some pn) w'), w', ext, true. intros d Hd. rewrite (H d Hd), observe_redest. reflexivity.
    + exists (observe n e None w'), w', ext, false. intros d Hd. rewrite (H d Hd), observe_redest. reflexivity.
  - destruct (read_from_loop_DI (S (S (2 * length (flat (mkSrc (chunk_by sizes data) TEOF)) + 4)))
                (mkSrc (chunk_by sizes data) TEOF) 0 w) as (r & w' & s' & ext & H).
    destruct r as [pn|[n e]].
    + exists (observe 0 None (Some pn) w'), w', ext, true. intros d Hd. unfold read_from. rewrite (H d Hd), observe_redest. reflexivity.
    + exists (observe n e None w'), w', ext, false. intros d Hd. unfold read_from. rewrite (H d Hd), observe_redest. reflexivity.
  - destruct (write_through_DI p w) as ([n e] & w' & ext & H).
    exists (observe n e None w'), w', ext, false. intros d Hd. rewrite (H d Hd), observe_redest. reflexivity.
  - destruct (flush_fragment_DI w) as (r & w' & ext & H). destruct r as [pn|e].
    + exists (observe 0 None (Some pn) w'), w', ext, true. intros d Hd. rewrite (H d Hd), observe_redest. reflexivity.
    + exists (observe 0 e None w'), w', ext, false. intros d Hd. rewrite (H d Hd), observe_redest. reflexivity.
  - destruct (flush_DI w) as (r & w' & ext & H). destruct r as [pn|e].
    + exists (observe 0 None (Some pn) w'), w', ext, true. intros d Hd. rewrite (H d Hd), observe_redest. reflexivity.
    + exists (observe 0 e None w'), w', ext, false. intros d Hd. rewrite (H d Hd), observe_redest. reflexivity.
  - destruct (grow n w) as [[pn|e] w'] eqn:Eg.
    + exists (observe 0 None (Some pn) w'), w', [], true. intros d Hd. rewrite grow_redest, Eg. cbn [fst snd].
      rewrite <- (dpush_nil d Hd) at 1 2. rewrite observe_redest. reflexivity.
    + exists (observe 0 e None w'), w', [], false. intros d Hd. rewrite grow_redest, Eg. cbn [fst snd].
      rewrite <- (dpush_nil d Hd) at 1 2. rewrite observe_redest. reflexivity.
  - exists (observe 0 None None (disable_flush w)), (disable_flush w), [], false. intros d Hd.
    change (disable_flush (redest w d)) with (redest (disable_flush w) d).
    rewrite <- (dpush_nil d Hd) at 1 2. rewrite observe_redest. reflexivity.
  - exists (observe 0 None None (set_extensions xs w)), (set_extensions xs w), [], false. intros d Hd.
    change (set_extensions xs (redest w d)) with (redest (set_extensions xs w) d).
    rewrite <- (dpush_nil d Hd) at 1 2. rewrite observe_redest. reflexivity.
  - unfold reset_writer. rsimpl. destruct (w_rawlen w <=? reserve st (w_rawlen w)) eqn:Er.
    + exists (observe 0 None (Some PBufTooSmall) w), w, [], true. intros d Hd.
      rewrite <- (dpush_nil d Hd) at 1 2. rewrite observe_redest. reflexivity.
    + exists (observe 0 None None (mkW dnil st op [] false (w_rawlen w) (w_rawlen w - reserve st (w_rawlen w)) [] false 0 None (w_masks w))),
        (mkW dnil st op [] false (w_rawlen w) (w_rawlen w - reserve st (w_rawlen w)) [] false 0 None (w_masks w)), [], false.
      intros d Hd.
      assert (Ed: mkDest (d_calls d) (d_fail_at d) = d) by (destruct d; reflexivity). rewrite Ed.
      rewrite <- (dpush_nil d Hd) at 1 2 3. rewrite <- observe_redest. reflexivity.
  - exists (observe 0 None None (reset_op op w)), (reset_op op w), [], false. intros d Hd.
    change (reset_op op (redest w d)) with (redest (reset_op op w) d).
    rewrite <- (dpush_nil d Hd) at 1 2. rewrite observe_redest. reflexivity.
Qed.

Definition shift_calls (k : N) (o : wobs) : wobs := with_calls o (k + o_calls o).

(* every history, whatever it contains (Reset and panics included) *)
Lemma run_wops_DI : forall ops w, exists os w' ext, forall d, nf d ->
  run_wops ops (redest w d) = (map (shift_calls (dest_ncalls d)) os, redest w' (dpush ext d)).
Proof.
  induction ops as [|op rest IH]; intros w.
  { exists [], w, []. intros d Hd. rewrite dpush_nil by assumption. reflexivity. }
  destruct (run_op_DI op w) as (o & w1 & ext1 & stop & H1). destruct stop.
  - exists [with_calls o (len ext1)], w1, ext1. intros d Hd. rewrite run_wops_cons, (H1 d Hd).
    cbn [map]. unfold shift_calls, with_calls. cbn [o_n o_err o_panic o_buffered o_available o_size o_calls].
    rewrite (N.add_comm (dest_ncalls d)). reflexivity.
  - destruct (IH w1) as (os & w2 & ext2 & H2).
    exists (with_calls o (len ext1) :: map (shift_calls (len ext1)) os), w2, (ext2 ++ ext1). intros d Hd.
    rewrite run_wops_cons, (H1 d Hd). rewrite (H2 _ (dpush_nf ext1 d)), dpush_dpush.
    cbn [map]. f_equal. f_equal.
    + unfold shift_calls, with_calls. cbn [o_n o_err o_panic o_buffered o_available o_size o_calls].
      rewrite (N.add_comm (dest_ncalls d)). reflexivity.
    + rewrite map_map. apply map_ext. intros x. rewrite dest_ncalls_dpush.
      unfold shift_calls, with_calls. cbn [o_n o_err o_panic o_buffered o_available o_size o_calls].
      f_equal. lia.
Qed.

(* ------------------------------------------------------------------ Part 2: a boundary writer is a fresh writer *)
Definition flush_mode (nofl : bool) (w : writer) : writer := if nofl then disable_flush w else w.

(* message boundary: nothing buffered, no fragment sent, no sticky error *)
Record boundary (w : writer) : Prop := {
  b_buf : w_buf w = []; b_dirty : w_dirty w = false; b_fseq : w_fseq w = 0; b_err : w_err w = None }.

(* [f] is the writer NewWriterBuffer builds over a buffer as long as w's, for w's side and
   opcode and the rest of the mask oracle, given w's extensions and flush mode *)
Definition fresh_like (w f : writer) : Prop :=
  exists f0, new_writer_buffer dnil (w_state w) (w_op w) (w_rawlen w) (w_masks w) = inr f0 /\
             f = flush_mode (w_noflush w) (set_extensions (w_exts w) f0).

Lemma boundary_is_fresh w : writer_inv w -> boundary w -> fresh_like w (redest w dnil).
Proof.
  intros [H1 H2 H3 H4 H5] [B1 B2 B3 B4]. unfold fresh_like, new_writer_buffer.
  replace (w_rawlen w <=? reserve (w_state w) (w_rawlen w)) with false by lia.
  eexists. split; [reflexivity|].
  destruct w as [d st op xs nofl rl bl buf dirty fseq err masks]. cbn in *. subst.
  destruct nofl; reflexivity.
Qed.

Lemma shift_calls_0 o : shift_calls 0 o = o.
Proof. destruct o. reflexivity. Qed.

(* what a writer does from now on = what the same writer on an empty destination does *)
Lemma segment_as_fresh ops w : nf (w_dest w) ->
  let r := run_wops ops w in let rf := run_wops ops (redest w dnil) in
  dest_log (w_dest (snd r)) = dest_log (w_dest w) ++ dest_log (w_dest (snd rf)) /\
  fst r = map (shift_calls (dest_ncalls (w_dest w))) (fst rf) /\
  snd r = redest (snd rf) (w_dest (snd r)).
Proof.
  intros Hd r rf. subst r rf. destruct (run_wops_DI ops w) as (os & w' & ext & H).
  rewrite (H dnil eq_refl). pose proof (H (w_dest w) Hd) as Hw. rewrite redest_self in Hw. rewrite Hw.
  cbn [fst snd]. rsimpl. rewrite !dest_log_dpush. split; [reflexivity|]. split; [|reflexivity].
  f_equal. change (dest_ncalls dnil) with 0. rewrite <- (map_id os) at 1. apply map_ext. intros o. symmetry. apply shift_calls_0.
Qed.

(* ------------------------------------------------------------------ the monitor does not need the flush mode of the start *)
Lemma walk_history_mono steps : forall msgs pending acc cb ss plain nf1 nm1 nf2 nm2 r,
  (nf2 = true -> nf1 = true) -> (nm2 = true -> nm1 = true) ->
  walk_history steps msgs pending acc cb ss plain nf1 nm1 = Some r ->
  walk_history steps msgs pending acc cb ss plain nf2 nm2 = Some r.
Proof.
  induction steps as [|st rest IH]; intros msgs pending acc cb ss plain nf1 nm1 nf2 nm2 r Hf Hm; [auto|].
  cbn [walk_history].
  destruct (s_op st) as [p|data sizes|p| | |n| |xs|st' o|o]; try (apply IH; assumption);
    try (destruct (accepted_of st); [apply IH; assumption|auto]; fail).
  - (* Write *)
    destruct (accepted_of st); [|auto].
    destruct (nf1 && negb (o_calls (s_obs st) =? cb)) eqn:E1; [discriminate|].
    replace (nf2 && negb (o_calls (s_obs st) =? cb)) with false.
    2:{ destruct nf2; [|reflexivity]. rewrite (Hf eq_refl) in E1. symmetry. exact E1. }
    apply IH; assumption.
  - (* Flush *)
    destruct pending.
    + destruct msgs as [|m ms]; [auto|].
      destruct (bytes_eqb (msg_payload m) acc); [|auto]. cbn [andb].
      destruct (if plain && ((len acc <=? ss) || nm1) then len m =? 1 else true) eqn:E1; [|discriminate].
      replace (if plain && ((len acc <=? ss) || nm2) then len m =? 1 else true) with true.
      2:{ destruct plain; [|reflexivity]. cbn [andb] in *. destruct (len acc <=? ss); [cbn [orb] in *; congruence|].
          cbn [orb] in *. destruct nm2; [|reflexivity]. rewrite (Hm eq_refl) in E1. congruence. }
      apply IH; assumption.
    + destruct (o_calls (s_obs st) =? cb); [|auto]. apply IH; assumption.
  - (* DisableFlush *)
    apply IH; [reflexivity|]. destruct pending; auto.
Qed.

(* c06_monitor_holds for a writer that may already have flushing disabled *)
Theorem c06_monitor_boundary ops w0 comp :
  writer_inv w0 -> boundary w0 -> d_calls (w_dest w0) = [] -> nf (w_dest w0) ->
  w_op w0 < 16 -> masks_ok w0 -> exts_comp (w_exts w0) comp ->
  Forall c06_op ops -> 28 + 4 * ops_cost ops <= max_int ->
  c06_monitor (client_side (w_state w0)) (w_op w0) comp (w_buflen w0)
    (steps_of ops (fst (run_wops ops w0))) (dest_log (w_dest (snd (run_wops ops w0)))) = true.
Proof.
  intros Hi [F1 F2 F3 F4] F6 F7 Ho Hm Hx Hops Hbud.
  set (client := client_side (w_state w0)). set (op := w_op w0).
  assert (Hc: Cst client op comp w0).
  { constructor; try assumption; try reflexivity. split; [assumption|]. split; [rewrite F1; constructor|assumption]. }
  assert (HH: Hist client op comp w0 [] [] true (w_buflen w0) false).
  { constructor.
    - assumption.
    - reflexivity.
    - rewrite F3. reflexivity.
    - rewrite F1. reflexivity.
    - intros _. split; [reflexivity|assumption].
    - intros _. left. reflexivity.
    - intros _ _. reflexivity.
    - discriminate. }
  destruct (hist_run client op comp ops w0 [] [] true (w_buflen w0) false HH Hops) as (fs & Hlog & Hwf & Hpost).
  { rewrite F1, len_nil. lia. }
  assert (Hl0: log_bytes (w_dest w0) = []) by (unfold log_bytes, dest_log; rewrite F6; reflexivity).
  rewrite Hl0 in Hlog. cbn [app] in Hlog.
  pose proof (run_wops_aligned ops w0) as Hal.
  specialize (Hal (fresh_Jinv w0 Ho F1 Hm F6) (Forall_impl _ c06_op_wf Hops) F7).
  pose proof (lastb_run ops w0) as Hlast.
  destruct (run_wops ops w0) as [obs w'] eqn:Er. cbn [fst snd] in *.
  destruct Hal as (Hal & _ & _).
  unfold c06_monitor. unfold log_bytes in Hlog. rewrite Hlog, frames_of_wire by assumption.
  destruct (split_messages fs []) as [msgs tailf] eqn:Es.
  destruct (Hpost msgs tailf Es) as (H1 & H2 & acc' & H3 & H4).
  rewrite Hal, H1, H2. cbn [andb].
  rewrite F2 in H3. unfold dest_ncalls in H3. rewrite F6 in H3. cbn [len length N.of_nat] in H3.
  rewrite (walk_history_mono _ _ _ _ _ _ _ _ _ false false _ ltac:(discriminate) ltac:(discriminate) H3).
  assert (El: last_buffered (steps_of ops obs) = w_n w').
  { unfold w_n in Hlast at 1. rewrite F1 in Hlast. exact Hlast. }
  rewrite El, H4. apply bytes_eqb_eq. reflexivity.
Qed.

(* ------------------------------------------------------------------ Part 3: segments *)
Definition unshift_calls (k : N) (o : wobs) : wobs := with_calls o (o_calls o - k).

Lemma unshift_shift k os : map (unshift_calls k) (map (shift_calls k) os) = os.
Proof.
  rewrite map_map. rewrite <- (map_id os) at 2. apply map_ext. intros o.
  unfold unshift_calls, shift_calls, with_calls. cbn [o_n o_err o_panic o_buffered o_available o_size o_calls].
  destruct o as [a1 a2 a3 a4 a5 a6 a7]. cbn [o_n o_err o_panic o_buffered o_available o_size o_calls]. f_equal. lia.
Qed.

Lemma dest_log_len d : len (dest_log d) = dest_ncalls d.
Proof. unfold dest_log, dest_ncalls, len. rewrite rev_append_rev, app_nil_r, rev_length. reflexivity. Qed.

Lemma redest_inv w d : writer_inv w -> writer_inv (redest w d).
Proof. intros [H1 H2 H3 H4 H5]. constructor; assumption. Qed.

(* the C06 history monitor holds of EVERY history segment that starts at a message
   boundary, whatever the writer sent before: calls counted from the start of the
   segment, destination log = the calls made during the segment *)
Theorem segment_monitor ops w comp :
  writer_inv w -> boundary w -> nf (w_dest w) -> w_op w < 16 -> masks_ok w -> exts_comp (w_exts w) comp ->
  Forall c06_op ops -> 28 + 4 * ops_cost ops <= max_int ->
  let k := dest_ncalls (w_dest w) in
  c06_monitor (client_side (w_state w)) (w_op w) comp (w_buflen w)
    (steps_of ops (map (unshift_calls k) (fst (run_wops ops w))))
    (drop k (dest_log (w_dest (snd (run_wops ops w))))) = true.
Proof.
  intros Hi Hb Hd Ho Hm Hx Hops Hbud k.
  destruct (segment_as_fresh ops w Hd) as (Hlog & Hobs & _).
  rewrite Hlog, Hobs. fold k. rewrite unshift_shift.
  rewrite drop_app_ge by (rewrite dest_log_len; subst k; lia).
  rewrite dest_log_len. subst k. rewrite N.sub_diag, drop_0.
  apply (c06_monitor_boundary ops (redest w dnil) comp); try assumption; try reflexivity.
  - apply redest_inv. assumption.
  - destruct Hb as [B1 B2 B3 B4]. constructor; assumption.
Qed.

(* ---- ResetOp ---- *)
Lemma reset_op_inv op' w : writer_inv w -> writer_inv (reset_op op' w).
Proof. intros [H1 H2 H3 H4 H5]. constructor; wsimpl; try assumption. rewrite len_nil. lia. Qed.

Lemma reset_op_boundary op' w : w_err w = None -> boundary (reset_op op' w).
Proof. intros He. constructor; wsimpl; try reflexivity. assumption. Qed.

(* (a) after ResetOp the writer behaves as a new one over a buffer of the same size,
   same side, extensions, flush mode and remaining mask oracle, with the new opcode:
   same results and accessors, same destination writes; what h1 left in the buffer is dropped *)
Theorem reset_op_then_fresh op' w1 h2 :
  writer_inv w1 -> w_err w1 = None -> nf (w_dest w1) ->
  exists f0, new_writer_buffer dnil (w_state w1) op' (w_rawlen w1) (w_masks w1) = inr f0 /\
    let f := flush_mode (w_noflush w1) (set_extensions (w_exts w1) f0) in
    let r := run_wops h2 (reset_op op' w1) in let rf := run_wops h2 f in
    dest_log (w_dest (snd r)) = dest_log (w_dest w1) ++ dest_log (w_dest (snd rf)) /\
    fst r = map (shift_calls (dest_ncalls (w_dest w1))) (fst rf) /\
    snd r = redest (snd rf) (w_dest (snd r)).
Proof.
  intros Hi He Hd.
  destruct (boundary_is_fresh (reset_op op' w1) (reset_op_inv op' w1 Hi) (reset_op_boundary op' w1 He)) as (f0 & Hf0 & Hf).
  wsimpl. exists f0. split; [exact Hf0|]. cbv zeta. rewrite <- Hf.
  exact (segment_as_fresh h2 (reset_op op' w1) Hd).
Qed.

(* ---- SetExtensions at a message boundary ---- *)
Lemma set_extensions_inv xs w : writer_inv w -> writer_inv (set_extensions xs w).
Proof. intros [H1 H2 H3 H4 H5]. constructor; assumption. Qed.

Lemma set_extensions_boundary xs w : boundary w -> boundary (set_extensions xs w).
Proof. intros [B1 B2 B3 B4]. constructor; assumption. Qed.

Theorem set_ext_then_fresh xs w1 h2 :
  writer_inv w1 -> boundary w1 -> nf (w_dest w1) ->
  exists f0, new_writer_buffer dnil (w_state w1) (w_op w1) (w_rawlen w1) (w_masks w1) = inr f0 /\
    let f := flush_mode (w_noflush w1) (set_extensions xs f0) in
    let r := run_wops h2 (set_extensions xs w1) in let rf := run_wops h2 f in
    dest_log (w_dest (snd r)) = dest_log (w_dest w1) ++ dest_log (w_dest (snd rf)) /\
    fst r = map (shift_calls (dest_ncalls (w_dest w1))) (fst rf) /\
    snd r = redest (snd rf) (w_dest (snd r)).
Proof.
  intros Hi Hb Hd.
  destruct (boundary_is_fresh (set_extensions xs w1) (set_extensions_inv xs w1 Hi) (set_extensions_boundary xs w1 Hb)) as (f0 & Hf0 & Hf).
  wsimpl. exists f0. split; [exact Hf0|]. cbv zeta. rewrite <- Hf.
  exact (segment_as_fresh h2 (set_extensions xs w1) Hd).
Qed.

(* ------------------------------------------------------------------ histories from the constructors *)
Section Run.
Variables (client : bool) (op : N) (comp : bool).

(* one operation of a C06 history keeps the running state, never stops the run *)
Lemma run_op_C o w : Cst client op comp w -> c06_op o -> 28 + 4 * (len (w_buf w) + op_cost o) <= max_int ->
  exists o1 w1, run_op o w = (o1, w1, false) /\ Cst client op comp w1 /\
    len (w_buf w1) <= len (w_buf w) + op_cost o.
Proof.
  intros Hc Ho Hb. destruct o as [p|data sizes|p| | |n| |xs|st o|o]; cbn [c06_op op_cost run_op] in *; try contradiction.
  - destruct (write_C client op comp p w Hc Ho ltac:(lia)) as (w1 & fs & Hw & Hs & _).
    rewrite Hw. eexists _, _. split; [reflexivity|]. split; [apply Hs|]. exact (Step_buf_len _ _ _ _ _ _ _ Hs).
  - destruct (read_from_C client op comp data sizes w Hc Ho ltac:(lia)) as (w1 & s' & fs & Hw & Hs & _).
    rewrite Hw. eexists _, _. split; [reflexivity|]. split; [apply Hs|]. exact (Step_buf_len _ _ _ _ _ _ _ Hs).
  - destruct Ho as [Hp Hl]. destruct (w_buf w) as [|b0 r0] eqn:Eb.
    + destruct (Step_write_through client op comp p w Hc Eb Hp Hl) as (Hw & Hs & _).
      rewrite Hw. eexists _, _. split; [reflexivity|]. split; [apply Hs|].
      unfold sent2, wt_result. wsimpl. rewrite Eb. lia.
    + rewrite (write_through_notempty p w (c_err _ _ _ w Hc)) by (rewrite Eb; discriminate).
      eexists _, _. split; [reflexivity|]. split; [assumption|]. rewrite Eb. lia.
  - destruct (w_buf w) as [|b0 r0] eqn:Eb.
    + unfold flush_fragment, w_n. rewrite Eb, (c_err _ _ _ w Hc). cbn [len length N.of_nat N.eqb orb].
      eexists _, _. split; [reflexivity|]. split; [assumption|]. rewrite Eb, len_nil. lia.
    + destruct (Step_flush_fragment client op comp w Hc) as [Hw Hs]; [rewrite Eb; discriminate|].
      rewrite Hw. eexists _, _. split; [reflexivity|]. split; [apply Hs|]. wsimpl. rewrite len_nil. lia.
  - destruct (w_dirty w) eqn:Ed; [|destruct (w_buf w) as [|b0 r0] eqn:Eb].
    + rewrite (flush_C client op comp w Hc (or_introl Ed)).
      eexists _, _. split; [reflexivity|]. split; [apply Cst_flushed; assumption|]. wsimpl. rewrite len_nil. lia.
    + rewrite (flush_nothing w Ed Eb). eexists _, _. split; [reflexivity|]. split; [assumption|]. rewrite Eb, len_nil. lia.
    + rewrite (flush_C client op comp w Hc) by (right; rewrite Eb; discriminate).
      eexists _, _. split; [reflexivity|]. split; [apply Cst_flushed; assumption|]. wsimpl. rewrite len_nil. lia.
  - destruct (Step_grow client op comp n w Hc ltac:(lia)) as (w1 & Hg & Hc1 & _ & _ & Hb1 & _).
    rewrite Hg. eexists _, _. split; [reflexivity|]. split; [assumption|]. rewrite Hb1. lia.
  - eexists _, _. split; [reflexivity|]. split; [|wsimpl; lia].
    destruct Hc as [B1 B2 B3 B4 B5 B6 B7]. constructor; wsimpl; try assumption.
    destruct B1 as [I1 I2 I3 I4 I5]. constructor; assumption.
Qed.

(* a C06 history runs to its end; a longer history continues from its final state *)
Lemma run_wops_app_C : forall h1 rest w, Cst client op comp w -> Forall c06_op h1 ->
  28 + 4 * (len (w_buf w) + ops_cost h1) <= max_int ->
  run_wops (h1 ++ rest) w =
    (fst (run_wops h1 w) ++ fst (run_wops rest (snd (run_wops h1 w))), snd (run_wops rest (snd (run_wops h1 w)))) /\
  Cst client op comp (snd (run_wops h1 w)) /\ length (fst (run_wops h1 w)) = length h1 /\
  len (w_buf (snd (run_wops h1 w))) <= len (w_buf w) + ops_cost h1.
Proof.
  induction h1 as [|o h1 IH]; intros rest w Hc Hops Hb.
  - cbn [app run_wops fst snd length ops_cost]. destruct (run_wops rest w). cbn [fst snd app].
    split; [reflexivity|]. split; [assumption|]. split; [reflexivity|]. lia.
  - inversion Hops as [|? ? Ho Hr]; subst. cbn [ops_cost] in Hb.
    destruct (run_op_C o w Hc Ho ltac:(lia)) as (o1 & w1 & Hrun & Hc1 & Hl).
    destruct (IH rest w1 Hc1 Hr ltac:(lia)) as (E & Hc2 & Hlen & Hbl).
    cbn [app]. rewrite !run_wops_cons, Hrun, E.
    destruct (run_wops h1 w1) as [os1 w2]. cbn [fst snd] in *.
    destruct (run_wops rest w2) as [os2 w3]. cbn [fst snd app length ops_cost].
    split; [reflexivity|]. split; [assumption|]. split; [rewrite Hlen; reflexivity|]. lia.
Qed.
End Run.

(* the three constructors are NewWriterBuffer over some length *)
Lemma constructors_nwb d state op n masks w :
  (new_writer_buffer d state op n masks = inr w \/ new_writer_buffer_size d state op n masks = inr w \/
   new_writer_size d state op n masks = inr w) -> n + 14 <= max_int ->
  exists rawlen, rawlen <= max_int /\ new_writer_buffer d state op rawlen masks = inr w.
Proof.
  intros H Hn.
  assert (Hsz: forall k, k <= max_int -> (if k <=? 2 then default_write_buffer else k) <= max_int).
  { intros k Hk. destruct (k <=? 2); [vm_compute; discriminate|assumption]. }
  assert (Hhs: (if 0 <? n then n + w_header_size state n else n) <= max_int).
  { destruct (0 <? n); [|lia]. unfold w_header_size. pose proof (mask_len_cases state).
    destruct (n <? 126); [lia|]. destruct (n <=? 65535); lia. }
  destruct H as [H|[H|H]].
  - exists n. split; [lia|assumption].
  - eexists. split; [|exact H]. apply Hsz. lia.
  - eexists. split; [|exact H]. apply Hsz. assumption.
Qed.

Lemma constructed_Cst state op rawlen masks exts comp w00 :
  new_writer_buffer dnil state op rawlen masks = inr w00 -> rawlen <= max_int -> op < 16 ->
  Forall wf_key masks -> exts_comp exts comp ->
  Cst (client_side state) op comp (set_extensions exts w00) /\ w_buf (set_extensions exts w00) = [].
Proof.
  intros Hn Hr Ho Hm Hx.
  pose proof (new_writer_buffer_inv _ _ _ _ _ _ Hr Hn) as [A1 A2 A3 A4 A5].
  destruct (new_writer_buffer_fresh _ _ _ _ _ _ Hn) as (E1 & E2 & E3 & E4 & E5 & E6 & E7 & E8 & E9 & E10).
  split; [|wsimpl; assumption].
  constructor; wsimpl; try assumption.
  - constructor; assumption.
  - unfold wf_writer, masks_ok. wsimpl. rewrite E3, E6, E10. split; [assumption|]. split; [constructor|assumption].
  - rewrite E1. reflexivity.
  - rewrite E2. reflexivity.
Qed.

Lemma firstn_exact {A} (l r : list A) n : length l = n -> firstn n (l ++ r) = l.
Proof. intros <-. rewrite firstn_app, Nat.sub_diag, firstn_all. cbn. apply app_nil_r. Qed.
Lemma skipn_exact {A} (l r : list A) x n : length l = n -> skipn (S n) (l ++ x :: r) = r.
Proof.
  intros <-. rewrite skipn_app. rewrite skipn_all2 by lia.
  replace (S (length l) - length l)%nat with 1%nat by lia. reflexivity.
Qed.

(* the run of h1 ++ X :: h2 where X = ResetOp / SetExtensions: observations and final state *)
Lemma run_split client op comp h1 x h2 w0 wx :
  Cst client op comp w0 -> w_buf w0 = [] -> Forall c06_op h1 -> 28 + 4 * ops_cost h1 <= max_int ->
  (forall w, run_op x w = (observe 0 None None (wx w), wx w, false)) ->
  let w1 := snd (run_wops h1 w0) in
  let r := run_wops (h1 ++ x :: h2) w0 in
  Cst client op comp w1 /\
  firstn (length h1) (fst r) = fst (run_wops h1 w0) /\
  skipn (S (length h1)) (fst r) = fst (run_wops h2 (wx w1)) /\
  snd r = snd (run_wops h2 (wx w1)).
Proof.
  intros Hc Hb0 Hops Hbud Hx w1 r.
  destruct (run_wops_app_C client op comp h1 (x :: h2) w0 Hc Hops) as (E & Hc1 & Hlen & _).
  { rewrite Hb0, len_nil. lia. }
  subst r. rewrite E. fold w1. rewrite run_wops_cons, Hx.
  destruct (run_wops h2 (wx w1)) as [os2 w2]. cbn [fst snd].
  split; [exact Hc1|]. split; [apply firstn_exact; exact Hlen|]. split; [apply skipn_exact; exact Hlen|reflexivity].
Qed.

(* C18: ResetOp inside a history *)
Theorem reset_op_history h1 h2 op' state op n masks exts comp w00 :
  (new_writer_buffer dnil state op n masks = inr w00 \/ new_writer_buffer_size dnil state op n masks = inr w00 \/
   new_writer_size dnil state op n masks = inr w00) ->
  n + 14 <= max_int -> op < 16 -> Forall wf_key masks -> exts_comp exts comp ->
  Forall c06_op h1 -> 28 + 4 * ops_cost h1 <= max_int ->
  let w0 := set_extensions exts w00 in
  let w1 := snd (run_wops h1 w0) in
  exists f0, new_writer_buffer dnil (w_state w1) op' (w_rawlen w1) (w_masks w1) = inr f0 /\
    let f := flush_mode (w_noflush w1) (set_extensions (w_exts w1) f0) in
    let r := run_wops (h1 ++ WResetOp op' :: h2) w0 in
    let rf := run_wops h2 f in
    dest_log (w_dest (snd r)) = dest_log (w_dest w1) ++ dest_log (w_dest (snd rf)) /\
    firstn (length h1) (fst r) = fst (run_wops h1 w0) /\
    skipn (S (length h1)) (fst r) = map (shift_calls (dest_ncalls (w_dest w1))) (fst rf) /\
    snd r = redest (snd rf) (w_dest (snd r)).
Proof.
  intros Hn Hmax Ho Hm Hx Hops Hbud w0 w1.
  destruct (constructors_nwb _ _ _ _ _ _ Hn Hmax) as (rawlen & Hr & Hnwb).
  destruct (constructed_Cst state op rawlen masks exts comp w00 Hnwb Hr Ho Hm Hx) as [Hc Hb0]. fold w0 in Hc, Hb0.
  destruct (run_split _ _ _ h1 (WResetOp op') h2 w0 (reset_op op') Hc Hb0 Hops Hbud ltac:(reflexivity))
    as (Hc1 & Hfirst & Hskip & Hsnd). fold w1 in Hc1, Hskip, Hsnd.
  destruct (reset_op_then_fresh op' w1 h2 (c_inv _ _ _ _ Hc1) (c_err _ _ _ _ Hc1) (c_dest _ _ _ _ Hc1))
    as (f0 & Hf0 & Hlog & Hobs & Hw).
  exists f0. split; [exact Hf0|]. cbv zeta. rewrite Hfirst, Hskip, Hsnd. auto.
Qed.

(* C06: ... and the segment after ResetOp satisfies the history monitor with the new opcode *)
Theorem history_after_reset_op h1 h2 op' state op n masks exts comp w00 :
  (new_writer_buffer dnil state op n masks = inr w00 \/ new_writer_buffer_size dnil state op n masks = inr w00 \/
   new_writer_size dnil state op n masks = inr w00) ->
  n + 14 <= max_int -> op < 16 -> op' < 16 -> Forall wf_key masks -> exts_comp exts comp ->
  Forall c06_op h1 -> 28 + 4 * ops_cost h1 <= max_int ->
  Forall c06_op h2 -> 28 + 4 * ops_cost h2 <= max_int ->
  let w0 := set_extensions exts w00 in
  let w1 := snd (run_wops h1 w0) in
  let r := run_wops (h1 ++ WResetOp op' :: h2) w0 in
  let k := dest_ncalls (w_dest w1) in
  c06_monitor (client_side state) op' comp (w_buflen w1)
    (steps_of h2 (map (unshift_calls k) (skipn (S (length h1)) (fst r))))
    (drop k (dest_log (w_dest (snd r)))) = true.
Proof.
  intros Hn Hmax Ho Ho' Hm Hx Hops Hbud Hops2 Hbud2 w0 w1 r k.
  destruct (constructors_nwb _ _ _ _ _ _ Hn Hmax) as (rawlen & Hr & Hnwb).
  destruct (constructed_Cst state op rawlen masks exts comp w00 Hnwb Hr Ho Hm Hx) as [Hc Hb0]. fold w0 in Hc, Hb0.
  destruct (run_split _ _ _ h1 (WResetOp op') h2 w0 (reset_op op') Hc Hb0 Hops Hbud ltac:(reflexivity))
    as (Hc1 & _ & Hskip & Hsnd). fold w1 in Hc1, Hskip, Hsnd. fold r in Hskip, Hsnd.
  rewrite Hskip, Hsnd. rewrite <- (c_client _ _ _ _ Hc1).
  apply (segment_monitor h2 (reset_op op' w1) comp); try assumption.
  - apply reset_op_inv, (c_inv _ _ _ _ Hc1).
  - apply reset_op_boundary, (c_err _ _ _ _ Hc1).
  - exact (c_dest _ _ _ _ Hc1).
  - destruct (c_wf _ _ _ _ Hc1) as (_ & _ & Hmk). exact Hmk.
  - exact (c_exts _ _ _ _ Hc1).
Qed.

(* SetExtensions at a message boundary inside a history *)
Theorem set_ext_history h1 h2 xs state op n masks exts comp w00 :
  (new_writer_buffer dnil state op n masks = inr w00 \/ new_writer_buffer_size dnil state op n masks = inr w00 \/
   new_writer_size dnil state op n masks = inr w00) ->
  n + 14 <= max_int -> op < 16 -> Forall wf_key masks -> exts_comp exts comp ->
  Forall c06_op h1 -> 28 + 4 * ops_cost h1 <= max_int ->
  let w0 := set_extensions exts w00 in
  let w1 := snd (run_wops h1 w0) in
  w_buf w1 = [] -> w_dirty w1 = false -> w_fseq w1 = 0 ->
  exists f0, new_writer_buffer dnil (w_state w1) op (w_rawlen w1) (w_masks w1) = inr f0 /\
    let f := flush_mode (w_noflush w1) (set_extensions xs f0) in
    let r := run_wops (h1 ++ WSetExt xs :: h2) w0 in
    let rf := run_wops h2 f in
    dest_log (w_dest (snd r)) = dest_log (w_dest w1) ++ dest_log (w_dest (snd rf)) /\
    firstn (length h1) (fst r) = fst (run_wops h1 w0) /\
    skipn (S (length h1)) (fst r) = map (shift_calls (dest_ncalls (w_dest w1))) (fst rf) /\
    snd r = redest (snd rf) (w_dest (snd r)).
Proof.
  intros Hn Hmax Ho Hm Hx Hops Hbud w0 w1 B1 B2 B3.
  destruct (constructors_nwb _ _ _ _ _ _ Hn Hmax) as (rawlen & Hr & Hnwb).
  destruct (constructed_Cst state op rawlen masks exts comp w00 Hnwb Hr Ho Hm Hx) as [Hc Hb0]. fold w0 in Hc, Hb0.
  destruct (run_split _ _ _ h1 (WSetExt xs) h2 w0 (set_extensions xs) Hc Hb0 Hops Hbud ltac:(reflexivity))
    as (Hc1 & Hfirst & Hskip & Hsnd). fold w1 in Hc1, Hskip, Hsnd.
  assert (Hbd: boundary w1) by (constructor; try assumption; exact (c_err _ _ _ _ Hc1)).
  destruct (set_ext_then_fresh xs w1 h2 (c_inv _ _ _ _ Hc1) Hbd (c_dest _ _ _ _ Hc1))
    as (f0 & Hf0 & Hlog & Hobs & Hw).
  rewrite (c_op _ _ _ _ Hc1) in Hf0.
  exists f0. split; [exact Hf0|]. cbv zeta. rewrite Hfirst, Hskip, Hsnd. auto.
Qed.

Theorem history_after_set_ext h1 h2 xs comp' state op n masks exts comp w00 :
  (new_writer_buffer dnil state op n masks = inr w00 \/ new_writer_buffer_size dnil state op n masks = inr w00 \/
   new_writer_size dnil state op n masks = inr w00) ->
  n + 14 <= max_int -> op < 16 -> Forall wf_key masks -> exts_comp exts comp -> exts_comp xs comp' ->
  Forall c06_op h1 -> 28 + 4 * ops_cost h1 <= max_int ->
  Forall c06_op h2 -> 28 + 4 * ops_cost h2 <= max_int ->
  let w0 := set_extensions exts w00 in
  let w1 := snd (run_wops h1 w0) in
  w_buf w1 = [] -> w_dirty w1 = false -> w_fseq w1 = 0 ->
  let r := run_wops (h1 ++ WSetExt xs :: h2) w0 in
  let k := dest_ncalls (w_dest w1) in
  c06_monitor (client_side state) op comp' (w_buflen w1)
    (steps_of h2 (map (unshift_calls k) (skipn (S (length h1)) (fst r))))
    (drop k (dest_log (w_dest (snd r)))) = true.
Proof.
  intros Hn Hmax Ho Hm Hx Hx' Hops Hbud Hops2 Hbud2 w0 w1 B1 B2 B3 r k.
  destruct (constructors_nwb _ _ _ _ _ _ Hn Hmax) as (rawlen & Hr & Hnwb).
  destruct (constructed_Cst state op rawlen masks exts comp w00 Hnwb Hr Ho Hm Hx) as [Hc Hb0]. fold w0 in Hc, Hb0.
  destruct (run_split _ _ _ h1 (WSetExt xs) h2 w0 (set_extensions xs) Hc Hb0 Hops Hbud ltac:(reflexivity))
    as (Hc1 & _ & Hskip & Hsnd). fold w1 in Hc1, Hskip, Hsnd. fold r in Hskip, Hsnd.
  assert (Hbd: boundary w1) by (constructor; try assumption; exact (c_err _ _ _ _ Hc1)).
  rewrite Hskip, Hsnd. rewrite <- (c_client _ _ _ _ Hc1), <- (c_op _ _ _ _ Hc1).
  apply (segment_monitor h2 (set_extensions xs w1) comp'); try assumption.
  - apply set_extensions_inv, (c_inv _ _ _ _ Hc1).
  - apply set_extensions_boundary, Hbd.
  - exact (c_dest _ _ _ _ Hc1).
  - wsimpl. rewrite (c_op _ _ _ _ Hc1). assumption.
  - destruct (c_wf _ _ _ _ Hc1) as (_ & _ & Hmk). exact Hmk.
Qed.

(* ------------------------------------------------------------------ a final Flush leaves a message boundary *)
(* not dirty = nothing of a message is under way *)
Definition clean (w : writer) : Prop := w_dirty w = false -> w_fseq w = 0 /\ w_buf w = [].

Lemma run_op_clean client op comp o w : Cst client op comp w -> c06_op o ->
  28 + 4 * (len (w_buf w) + op_cost o) <= max_int -> clean w ->
  clean (snd (fst (run_op o w))) /\ (o = WFlush -> boundary (snd (fst (run_op o w)))).
Proof.
  intros Hc Ho Hb Hcl. destruct o as [p|data sizes|p| | |n| |xs|st o|o]; cbn [c06_op op_cost run_op] in *; try contradiction.
  - destruct (write_C client op comp p w Hc Ho ltac:(lia)) as (w1 & fs & Hw & _ & Hd & _).
    rewrite Hw. cbn [fst snd]. split; [intros Hx; congruence|discriminate].
  - destruct (read_from_C client op comp data sizes w Hc Ho ltac:(lia)) as (w1 & s' & fs & Hw & _ & Hd).
    rewrite Hw. cbn [fst snd]. split; [intros Hx; congruence|discriminate].
  - destruct Ho as [Hp Hl]. destruct (w_buf w) as [|b0 r0] eqn:Eb.
    + destruct (Step_write_through client op comp p w Hc Eb Hp Hl) as (Hw & _ & Hd).
      rewrite Hw. cbn [fst snd]. split; [intros Hx; congruence|discriminate].
    + rewrite (write_through_notempty p w (c_err _ _ _ w Hc)) by (rewrite Eb; discriminate).
      cbn [fst snd]. split; [exact Hcl|discriminate].
  - destruct (w_buf w) as [|b0 r0] eqn:Eb.
    + unfold flush_fragment, w_n. rewrite Eb, (c_err _ _ _ w Hc). cbn [len length N.of_nat N.eqb orb fst snd].
      split; [exact Hcl|discriminate].
    + destruct (Step_flush_fragment client op comp w Hc) as [Hw _]; [rewrite Eb; discriminate|].
      rewrite Hw. cbn [fst snd]. split; [|discriminate]. intros Hx. wsimpl.
      destruct (Hcl Hx) as [_ Hy]. congruence.
  - destruct (w_dirty w) eqn:Ed; [|destruct (w_buf w) as [|b0 r0] eqn:Eb].
    + rewrite (flush_C client op comp w Hc (or_introl Ed)). cbn [fst snd].
      split; [intros _; split; reflexivity|]. intros _. constructor; reflexivity.
    + rewrite (flush_nothing w Ed Eb). cbn [fst snd]. split; [exact Hcl|].
      intros _. destruct (Hcl Ed) as [Hf _]. constructor; try assumption. exact (c_err _ _ _ w Hc).
    + destruct (Hcl Ed) as [_ Hy]. congruence.
  - destruct (Step_grow client op comp n w Hc ltac:(lia)) as (w1 & Hg & _ & _ & Hf1 & Hb1 & _ & Hd1 & _).
    rewrite Hg. cbn [fst snd]. split; [|discriminate]. unfold clean. rewrite Hf1, Hb1, Hd1. exact Hcl.
  - cbn [fst snd]. split; [exact Hcl|discriminate].
Qed.

Lemma run_wops_clean client op comp : forall h w, Cst client op comp w -> Forall c06_op h ->
  28 + 4 * (len (w_buf w) + ops_cost h) <= max_int -> clean w -> clean (snd (run_wops h w)).
Proof.
  induction h as [|o h IH]; intros w Hc Hops Hb Hcl; [exact Hcl|].
  inversion Hops as [|? ? Ho Hr]; subst. cbn [ops_cost] in Hb.
  destruct (run_op_C client op comp o w Hc Ho ltac:(lia)) as (o1 & w1 & Hrun & Hc1 & Hl).
  destruct (run_op_clean client op comp o w Hc Ho ltac:(lia) Hcl) as [Hcl1 _]. rewrite Hrun in Hcl1. cbn [fst snd] in Hcl1.
  rewrite run_wops_cons, Hrun. specialize (IH w1 Hc1 Hr ltac:(lia) Hcl1).
  destruct (run_wops h w1) as [os w2]. exact IH.
Qed.

Lemma flush_ends_at_boundary client op comp h w : Cst client op comp w -> Forall c06_op h ->
  28 + 4 * (len (w_buf w) + ops_cost h) <= max_int -> clean w ->
  boundary (snd (run_wops (h ++ [WFlush]) w)).
Proof.
  intros Hc Hops Hb Hcl.
  destruct (run_wops_app_C client op comp h [WFlush] w Hc Hops Hb) as (E & Hc1 & _ & Hbl).
  pose proof (run_wops_clean client op comp h w Hc Hops Hb Hcl) as Hcl1.
  rewrite E. cbn [snd]. set (w1 := snd (run_wops h w)) in *.
  destruct (run_op_clean client op comp WFlush w1 Hc1 I ltac:(cbn [op_cost]; lia) Hcl1) as [_ Hbd].
  specialize (Hbd eq_refl). rewrite run_wops_cons.
  destruct (run_op WFlush w1) as [[o1 w2] stop]. cbn [fst snd] in Hbd. destruct stop; exact Hbd.
Qed.

Lemma ops_cost_app a b : ops_cost (a ++ b) = ops_cost a + ops_cost b.
Proof. induction a as [|o a IH]; cbn [app ops_cost]; [reflexivity|]. rewrite IH. lia. Qed.

(* from the constructors: after h ++ [Flush] the writer stands at a message boundary *)
Lemma constructed_flush_boundary h state op n masks exts comp w00 :
  (new_writer_buffer dnil state op n masks = inr w00 \/ new_writer_buffer_size dnil state op n masks = inr w00 \/
   new_writer_size dnil state op n masks = inr w00) ->
  n + 14 <= max_int -> op < 16 -> Forall wf_key masks -> exts_comp exts comp ->
  Forall c06_op h -> 28 + 4 * ops_cost h <= max_int ->
  boundary (snd (run_wops (h ++ [WFlush]) (set_extensions exts w00))).
Proof.
  intros Hn Hmax Ho Hm Hx Hops Hbud.
  destruct (constructors_nwb _ _ _ _ _ _ Hn Hmax) as (rawlen & Hr & Hnwb).
  destruct (constructed_Cst state op rawlen masks exts comp w00 Hnwb Hr Ho Hm Hx) as [Hc Hb0].
  apply (flush_ends_at_boundary _ _ _ h _ Hc Hops); [rewrite Hb0, len_nil; lia|].
  destruct (new_writer_buffer_fresh _ _ _ _ _ _ Hnwb) as (_ & _ & _ & _ & _ & E6 & _ & E8 & _).
  intros _. wsimpl. split; assumption.
Qed.

(* SetExtensions after a final Flush: no side condition left *)
Theorem set_ext_after_flush_history h1 h2 xs state op n masks exts comp w00 :
  (new_writer_buffer dnil state op n masks = inr w00 \/ new_writer_buffer_size dnil state op n masks = inr w00 \/
   new_writer_size dnil state op n masks = inr w00) ->
  n + 14 <= max_int -> op < 16 -> Forall wf_key masks -> exts_comp exts comp ->
  Forall c06_op h1 -> 28 + 4 * ops_cost h1 <= max_int ->
  let w0 := set_extensions exts w00 in
  let w1 := snd (run_wops (h1 ++ [WFlush]) w0) in
  exists f0, new_writer_buffer dnil (w_state w1) op (w_rawlen w1) (w_masks w1) = inr f0 /\
    let f := flush_mode (w_noflush w1) (set_extensions xs f0) in
    let r := run_wops ((h1 ++ [WFlush]) ++ WSetExt xs :: h2) w0 in
    let rf := run_wops h2 f in
    dest_log (w_dest (snd r)) = dest_log (w_dest w1) ++ dest_log (w_dest (snd rf)) /\
    firstn (length (h1 ++ [WFlush])) (fst r) = fst (run_wops (h1 ++ [WFlush]) w0) /\
    skipn (S (length (h1 ++ [WFlush]))) (fst r) = map (shift_calls (dest_ncalls (w_dest w1))) (fst rf) /\
    snd r = redest (snd rf) (w_dest (snd r)).
Proof.
  intros Hn Hmax Ho Hm Hx Hops Hbud w0 w1.
  destruct (constructed_flush_boundary h1 state op n masks exts comp w00 Hn Hmax Ho Hm Hx Hops Hbud) as [B1 B2 B3 B4].
  apply (set_ext_history (h1 ++ [WFlush]) h2 xs state op n masks exts comp w00); try assumption.
  - apply Forall_app. split; [assumption|]. constructor; [exact I|constructor].
  - rewrite ops_cost_app. cbn [ops_cost op_cost]. lia.
Qed.

Theorem history_after_flush_set_ext h1 h2 xs comp' state op n masks exts comp w00 :
  (new_writer_buffer dnil state op n masks = inr w00 \/ new_writer_buffer_size dnil state op n masks = inr w00 \/
   new_writer_size dnil state op n masks = inr w00) ->
  n + 14 <= max_int -> op < 16 -> Forall wf_key masks -> exts_comp exts comp -> exts_comp xs comp' ->
  Forall c06_op h1 -> 28 + 4 * ops_cost h1 <= max_int ->
  Forall c06_op h2 -> 28 + 4 * ops_cost h2 <= max_int ->
  let w0 := set_extensions exts w00 in
  let w1 := snd (run_wops (h1 ++ [WFlush]) w0) in
  let r := run_wops ((h1 ++ [WFlush]) ++ WSetExt xs :: h2) w0 in
  let k := dest_ncalls (w_dest w1) in
  c06_monitor (client_side state) op comp' (w_buflen w1)
    (steps_of h2 (map (unshift_calls k) (skipn (S (length (h1 ++ [WFlush]))) (fst r))))
    (drop k (dest_log (w_dest (snd r)))) = true.
Proof.
  intros Hn Hmax Ho Hm Hx Hx' Hops Hbud Hops2 Hbud2 w0 w1.
  destruct (constructed_flush_boundary h1 state op n masks exts comp w00 Hn Hmax Ho Hm Hx Hops Hbud) as [B1 B2 B3 B4].
  apply (history_after_set_ext (h1 ++ [WFlush]) h2 xs comp' state op n masks exts comp w00); try assumption.
  - apply Forall_app. split; [assumption|]. constructor; [exact I|constructor].
  - rewrite ops_cost_app. cbn [ops_cost op_cost]. lia.
Qed.
