(* ControlWriterProofs.v — C08 (E): whatever is written to a ControlWriter, the
   destination receives nothing or ONE final frame of at most 125 payload bytes
   carrying exactly the accepted writes; an oversized write is refused and changes
   nothing. *)
Require Import Bytes Stream Check Frame Cipher Extracted Writer
  BytesProofs StreamProofs FrameProofs CipherProofs CheckProofs WriterProofs WriterInv WriterFrameProofs WriterHistProofs.
From Coq Require Import ZifyBool ZifyN ZifyNat.
Open Scope N_scope.

(* the caller's view of a sequence of ControlWriter.Write calls *)
Fixpoint ctl_writes (ps : list (list byte)) (c : cwriter) : list (list byte * wobs) * cwriter :=
  match ps with
  | [] => ([], c)
  | p :: r =>
    let '(res, c1) := control_write p c in
    let o := match res with
             | inr (n, e) => observe n e None (c_w c1)
             | inl pn => observe 0 None (Some pn) (c_w c1)
             end in
    let '(l, c2) := ctl_writes r c1 in ((p, o) :: l, c2)
  end.

Definition accepted_writes (ws : list (list byte * wobs)) : list byte :=
  concat (map (fun w => match o_err (snd w) with None => fst w | Some _ => [] end) ws).

(* a write that would exceed the limit is refused and changes nothing *)
Lemma control_write_overflow p c : c_limit c < c_n c + len p ->
  control_write p c = (inr (0, Some WOverflow), c).
Proof. intros H. unfold control_write. replace (c_limit c <? c_n c + len p) with true by lia. reflexivity. Qed.

Section Ctl.
Variables (client : bool) (op : N).

(* the control writer between calls: everything accepted so far is buffered *)
Record Ctl (c : cwriter) (acc : list byte) : Prop := {
  k_cst : Cst client op false (c_w c);
  k_buf : w_buf (c_w c) = acc;
  k_n : c_n c = len acc;
  k_limit : c_limit c <= w_buflen (c_w c);
  k_125 : c_limit c <= 125;
  k_fseq : w_fseq (c_w c) = 0;
  k_noflush : w_noflush (c_w c) = false;
  k_calls : d_calls (w_dest (c_w c)) = [];
  k_clean : w_dirty (c_w c) = false -> acc = [];
  k_fits : len acc <= c_limit c }.

Lemma control_write_ok p c acc : Ctl c acc -> wf_bytes p ->
  let '(res, c1) := control_write p c in
  (c_limit c < c_n c + len p /\ res = inr (0, Some WOverflow) /\ c1 = c) \/
  (c_n c + len p <= c_limit c /\ res = inr (len p, None) /\ Ctl c1 (acc ++ p)).
Proof.
  intros [K1 K2 K3 K4 K5 K6 K7 K8 K9 K10] Hp. unfold control_write.
  destruct (c_limit c <? c_n c + len p) eqn:E; [cbv beta iota; left; repeat split; lia|].
  assert (Hfit: len (w_buf (c_w c)) + len p <= w_buflen (c_w c)) by (rewrite K2; lia).
  destruct (write_C client op false p (c_w c) K1 Hp) as (w1 & fs & Hw & Hs & Hd & Hcase).
  { unfold max_int. rewrite K2. lia. }
  rewrite Hw. cbv beta iota. right. destruct Hcase as [->|[_ Hov]]; [|lia].
  split; [lia|]. split; [reflexivity|].
  pose proof (s_data _ _ _ _ _ _ _ Hs) as Hdata. cbn [map concat app] in Hdata.
  constructor; cbn [c_w c_limit c_n].
  - apply Hs.
  - rewrite Hdata, K2. reflexivity.
  - rewrite K3, len_app. reflexivity.
  - rewrite (s_size _ _ _ _ _ _ _ Hs K7). assumption.
  - assumption.
  - rewrite (s_fseq _ _ _ _ _ _ _ Hs), K6. reflexivity.
  - rewrite (s_noflush _ _ _ _ _ _ _ Hs). assumption.
  - rewrite (s_same _ _ _ _ _ _ _ Hs eq_refl). assumption.
  - congruence.
  - rewrite len_app. lia.
Qed.

Lemma ctl_writes_ok : forall ps c acc, Ctl c acc -> Forall wf_bytes ps ->
  let '(ws, c1) := ctl_writes ps c in
  Ctl c1 (acc ++ accepted_writes ws) /\ Forall (fun w => o_panic (snd w) = None) ws.
Proof.
  induction ps as [|p r IH]; intros c acc Hk Hps.
  - cbn. rewrite app_nil_r. split; [assumption|constructor].
  - inversion Hps as [|? ? Hp Hr]; subst. cbn [ctl_writes].
    pose proof (control_write_ok p c acc Hk Hp) as H.
    destruct (control_write p c) as [res c1].
    destruct H as [(Hov & -> & ->)|(Hfit & -> & Hk1)].
    + specialize (IH c acc Hk Hr). destruct (ctl_writes r c) as [l c2]. destruct IH as [IH1 IH2].
      unfold accepted_writes. cbn [map concat fst snd observe o_err app]. split; [exact IH1|].
      constructor; [reflexivity|assumption].
    + specialize (IH c1 (acc ++ p) Hk1 Hr). destruct (ctl_writes r c1) as [l c2]. destruct IH as [IH1 IH2].
      unfold accepted_writes. cbn [map concat fst snd observe o_err]. rewrite app_assoc. split; [exact IH1|].
      constructor; [reflexivity|assumption].
Qed.

(* Flush of the control writer: nothing, or one final frame with the accepted bytes *)
Lemma control_flush_ok c acc ws : Ctl c acc -> accepted_writes ws = acc ->
  let '(r, c2) := control_flush c in
  r = inr None /\ c08_ctl_monitor client op ws (dest_log (w_dest (c_w c2))) = true.
Proof.
  intros [K1 K2 K3 K4 K5 K6 K7 K8 K9 K10] Hacc. unfold control_flush.
  destruct (w_dirty (c_w c)) eqn:Hd.
  - rewrite (flush_C client op false (c_w c) K1 (or_introl Hd)).
    destruct (flush_fragment_raw_C client op false true (c_w c) K1) as [_ Hg].
    set (f := out_frame (c_w c) true (w_rsv (c_w c)) (w_buf (c_w c))) in *.
    split; [reflexivity|]. cbn [c_w]. unfold sent1, with_dest. wsimpl.
    unfold c08_ctl_monitor, push, dest_log. cbn [d_calls]. rewrite K8. cbn [rev_append concat]. rewrite app_nil_r.
    rewrite <- (app_nil_r (frame_bytes f)). change (frame_bytes f ++ []) with (wire [f]).
    destruct Hg as (Hwf & Hfin & Hop & Hm & Hrsv).
    rewrite frames_of_wire by (constructor; [assumption|constructor]).
    rewrite Hfin, Hop, Hm, K6. cbn [N.eqb]. rewrite N.eqb_refl, Bool.eqb_reflx. cbn [andb].
    fold (accepted_writes ws). rewrite Hacc.
    replace (pf_unmasked f) with acc by (subst f; rewrite out_frame_unmasked; symmetry; assumption).
    replace (bytes_eqb acc acc) with true by (symmetry; apply bytes_eqb_eq; reflexivity).
    rewrite andb_true_r.
    assert (Hl: len (pf_payload f) = len acc).
    { subst f. unfold out_frame. cbn [pf_payload]. rewrite K2. destruct (client_side _); [|reflexivity].
      unfold len. rewrite mask_spec_length. reflexivity. }
    rewrite Hl. lia.
  - rewrite (flush_nothing (c_w c) Hd) by (rewrite K2; auto). rewrite (c_err _ _ _ _ K1).
    split; [reflexivity|]. cbn [c_w]. unfold c08_ctl_monitor, dest_log. rewrite K8. reflexivity.
Qed.
End Ctl.

(* the two constructors establish the invariant *)
Lemma new_writer_buffer_Ctl state op rawlen masks w limit :
  new_writer_buffer (mkDest [] None) state op rawlen masks = inr w ->
  rawlen <= 125 + w_header_size state 125 -> limit = w_buflen w \/ (limit = 125 /\ rawlen = 125 + w_header_size state 125) ->
  op < 16 -> Forall wf_key masks ->
  Ctl (client_side state) op (mkCtl w limit 0) [].
Proof.
  intros Hn Hr Hlim Ho Hm.
  assert (Hr': rawlen <= max_int).
  { unfold w_header_size, mask_len, max_int in *. destruct (client_side state); cbn in Hr; lia. }
  pose proof (new_writer_buffer_inv _ _ _ _ _ _ Hr' Hn) as Hi.
  destruct (new_writer_buffer_fresh _ _ _ _ _ _ Hn) as (E1 & E2 & E3 & E4 & E5 & E6 & E7 & E8 & E9 & E10).
  assert (Hbl: w_buflen w <= 125 /\ (rawlen = 125 + w_header_size state 125 -> w_buflen w = 125)).
  { assert (Hb: w_buflen w = rawlen - reserve state rawlen).
    { unfold new_writer_buffer in Hn. destruct (rawlen <=? reserve state rawlen); [discriminate|].
      injection Hn as <-. reflexivity. }
    rewrite Hb. clear -Hr. unfold reserve, w_header_size in *. change (125 <? 126) with true in *. cbv iota in *.
    pose proof (mask_len_cases state) as Hm. destruct (rawlen <=? 125 + mask_len state + 2) eqn:G1; lia. }
  constructor; cbn [c_w c_limit c_n].
  - constructor; try assumption.
    + split; [rewrite E3; assumption|]. split; [rewrite E6; constructor|]. unfold masks_ok. rewrite E10. assumption.
    + rewrite E1. reflexivity.
    + rewrite E2. reflexivity.
    + left. auto.
  - assumption.
  - reflexivity.
  - destruct Hlim as [->|[-> Hx]]; [lia|]. destruct Hbl as [_ Hb]. rewrite (Hb Hx). lia.
  - destruct Hlim as [->|[-> _]]; lia.
  - assumption.
  - assumption.
  - rewrite E1. reflexivity.
  - reflexivity.
  - rewrite len_nil. lia.
Qed.

(* C08 (E): NewControlWriter *)
Theorem control_writer_monitor state op masks ps c0 :
  new_control_writer (mkDest [] None) state op masks = inr c0 ->
  op < 16 -> Forall wf_key masks -> Forall wf_bytes ps ->
  let '(ws, c1) := ctl_writes ps c0 in
  let '(r, c2) := control_flush c1 in
  Forall (fun w => o_panic (snd w) = None) ws /\ r = inr None /\
  c08_ctl_monitor (client_side state) op ws (dest_log (w_dest (c_w c2))) = true.
Proof.
  intros Hn Ho Hm Hps. unfold new_control_writer, new_writer_size, new_writer_buffer_size in Hn.
  cbn [N.ltb N.compare] in Hn.
  set (rawlen := 125 + w_header_size state 125) in *.
  assert (Hraw: (if rawlen <=? 2 then default_write_buffer else rawlen) = rawlen).
  { subst rawlen. unfold w_header_size, mask_len. destruct (client_side state); reflexivity. }
  rewrite Hraw in Hn.
  destruct (new_writer_buffer _ state op rawlen masks) as [pn|w] eqn:Ew; [discriminate|]. injection Hn as <-.
  pose proof (new_writer_buffer_Ctl state op rawlen masks w 125 Ew (N.le_refl _) (or_intror (conj eq_refl eq_refl)) Ho Hm) as Hk.
  pose proof (ctl_writes_ok _ _ ps _ [] Hk Hps) as H.
  destruct (ctl_writes ps _) as [ws c1]. destruct H as [Hk1 Hpan]. cbn [app] in Hk1.
  pose proof (control_flush_ok _ _ c1 _ ws Hk1 eq_refl) as H2.
  destruct (control_flush c1) as [r c2]. destruct H2 as [-> Hmon]. auto.
Qed.

(* C08 (E): NewControlWriterBuffer, every buffer length that does not panic *)
Theorem control_writer_buffer_monitor state op buflen masks ps c0 :
  new_control_writer_buffer (mkDest [] None) state op buflen masks = inr c0 ->
  op < 16 -> Forall wf_key masks -> Forall wf_bytes ps ->
  let '(ws, c1) := ctl_writes ps c0 in
  let '(r, c2) := control_flush c1 in
  Forall (fun w => o_panic (snd w) = None) ws /\ r = inr None /\
  c08_ctl_monitor (client_side state) op ws (dest_log (w_dest (c_w c2))) = true.
Proof.
  intros Hn Ho Hm Hps. unfold new_control_writer_buffer in Hn.
  set (rawlen := N.min buflen (125 + w_header_size state 125)) in *.
  destruct (new_writer_buffer _ state op rawlen masks) as [pn|w] eqn:Ew; [discriminate|]. injection Hn as <-.
  pose proof (new_writer_buffer_Ctl state op rawlen masks w (w_buflen w) Ew ltac:(subst rawlen; lia) (or_introl eq_refl) Ho Hm) as Hk.
  pose proof (ctl_writes_ok _ _ ps _ [] Hk Hps) as H.
  destruct (ctl_writes ps _) as [ws c1]. destruct H as [Hk1 Hpan]. cbn [app] in Hk1.
  pose proof (control_flush_ok _ _ c1 _ ws Hk1 eq_refl) as H2.
  destruct (control_flush c1) as [r c2]. destruct H2 as [-> Hmon]. auto.
Qed.
