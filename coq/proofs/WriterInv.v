(* WriterInv.v — C06 (A): the size invariant of wsutil.Writer, preserved by every
   operation; under it no operation panics and no loop of the model runs out of
   fuel (Write, Grow and ReadFrom terminate). *)
Require Import Bytes Stream Check Frame Cipher Extracted Writer BytesProofs StreamProofs FrameProofs WriterProofs.
From Coq Require Import ZifyBool ZifyN ZifyNat.
Open Scope N_scope.

Ltac wsimpl := cbn [w_dest w_state w_op w_exts w_noflush w_rawlen w_buflen w_buf w_dirty w_fseq w_err w_masks
  set_buf set_dest_err with_flush_result disable_flush set_extensions reset_op fst snd] in *.

(* largest Go int: frame lengths and buffer sizes stay below it *)
Definition max_int : N := 9223372036854775807.

(* ------------------------------------------------------------------ arithmetic *)
Lemma mask_len_cases state : mask_len state = 0 \/ mask_len state = 4.
Proof. unfold mask_len. destruct (client_side state); auto. Qed.

Lemma reserve_cases state n :
  reserve state n = mask_len state + 2 \/ reserve state n = mask_len state + 4 \/ reserve state n = mask_len state + 10.
Proof. unfold reserve. destruct (_ <=? _); [auto|]. destruct (_ <=? _); auto. Qed.

Lemma reserve_le14 state n : reserve state n <= 14.
Proof. pose proof (reserve_cases state n). pose proof (mask_len_cases state). lia. Qed.

Lemma reserve_ge2 state n : 2 <= reserve state n.
Proof. pose proof (reserve_cases state n). lia. Qed.

Lemma reserve_mono state a b : a <= b -> reserve state a <= reserve state b.
Proof.
  intros H. unfold reserve.
  destruct (a <=? 125 + mask_len state + 2) eqn:E1; destruct (b <=? 125 + mask_len state + 2) eqn:E2;
  destruct (a <=? 65535 + mask_len state + 4) eqn:E3; destruct (b <=? 65535 + mask_len state + 4) eqn:E4; lia.
Qed.

Lemma ceil_pow2_bounds x : 0 < x -> x < ceil_pow2 x /\ ceil_pow2 x <= 2 * x.
Proof.
  intros H. unfold ceil_pow2. replace (x =? 0) with false by lia.
  destruct (N.log2_spec x H) as [H1 H2].
  rewrite N.add_1_r. rewrite N.pow_succ_r' in *. lia.
Qed.

(* ------------------------------------------------------------------ the Grow loop *)
(* number of header-size thresholds still above [size] *)
Definition rrank (state size : N) : nat :=
  if size <=? 125 + mask_len state + 2 then 2%nat
  else if size <=? 65535 + mask_len state + 4 then 1%nat else 0%nat.

Lemma grow_loop_pass fuel state size off b n :
  n <= size - off - b -> grow_loop fuel state size off b n = Some (size, off).
Proof. intros H. destruct fuel; cbn [grow_loop]; replace (n <=? size - off - b) with true by lia; reflexivity. Qed.

Lemma grow_loop_ok fuel : forall state size b n,
  (rrank state size < fuel)%nat ->
  exists size', grow_loop fuel state size (reserve state size) b n = Some (size', reserve state size')
    /\ n <= size' - reserve state size' - b
    /\ (size' = size \/ (size < size' /\ size' <= 2 * (14 + b + n) /\ size - reserve state size - b < n)).
Proof.
  induction fuel as [|f IH]; intros state size b n Hr; [lia|].
  destruct (n <=? size - reserve state size - b) eqn:E.
  - exists size. rewrite grow_loop_pass by lia. repeat split; [lia|auto].
  - cbn [grow_loop]. rewrite E.
    set (x := reserve state size + b + n).
    pose proof (reserve_ge2 state size) as H2. pose proof (reserve_le14 state size) as H14.
    destruct (ceil_pow2_bounds x ltac:(lia)) as [Hx1 Hx2].
    set (s1 := ceil_pow2 x) in *.
    assert (Hs: size < s1) by lia.
    pose proof (reserve_mono state size s1 ltac:(lia)) as Hm.
    destruct (N.eq_dec (reserve state s1) (reserve state size)) as [Heq|Hne].
    + exists s1. rewrite grow_loop_pass by lia. repeat split; [lia|right; lia].
    + assert (Hr1: (rrank state s1 < f)%nat).
      { clear IH. unfold rrank, reserve in *.
        destruct (size <=? 125 + mask_len state + 2) eqn:E1; destruct (s1 <=? 125 + mask_len state + 2) eqn:E2;
        destruct (size <=? 65535 + mask_len state + 4) eqn:E3; destruct (s1 <=? 65535 + mask_len state + 4) eqn:E4; lia. }
      destruct (IH state s1 b n Hr1) as (s2 & Hg & Hn & Hc).
      exists s2. rewrite Hg. repeat split; [lia|]. right. lia.
Qed.

(* ------------------------------------------------------------------ the invariant *)
Record writer_inv (w : writer) : Prop := {
  wi_buflen : w_buflen w = w_rawlen w - reserve (w_state w) (w_rawlen w);
  wi_reserve : reserve (w_state w) (w_rawlen w) < w_rawlen w;
  wi_fill : len (w_buf w) <= w_buflen w;
  wi_max : w_rawlen w <= max_int;
  wi_err : w_err w <> Some WHang }.

Lemma inv_offset w : writer_inv w -> w_rawlen w - w_buflen w = reserve (w_state w) (w_rawlen w).
Proof. intros [H1 H2 _ _ _]. lia. Qed.

Lemma inv_buflen_pos w : writer_inv w -> 0 < w_buflen w.
Proof. intros [H1 H2 _ _ _]. lia. Qed.

(* constructors *)
Lemma new_writer_buffer_inv d state op rawlen masks w :
  rawlen <= max_int -> new_writer_buffer d state op rawlen masks = inr w -> writer_inv w.
Proof.
  unfold new_writer_buffer. intros Hm. destruct (rawlen <=? reserve state rawlen) eqn:E; [discriminate|].
  intros H. injection H as <-. constructor; wsimpl; try reflexivity; try lia; [rewrite len_nil; lia|discriminate].
Qed.

Lemma new_writer_buffer_fresh d state op rawlen masks w :
  new_writer_buffer d state op rawlen masks = inr w ->
  w_dest w = d /\ w_state w = state /\ w_op w = op /\ w_exts w = [] /\ w_noflush w = false /\
  w_buf w = [] /\ w_dirty w = false /\ w_fseq w = 0 /\ w_err w = None /\ w_masks w = masks.
Proof.
  unfold new_writer_buffer. destruct (rawlen <=? reserve state rawlen); [discriminate|].
  intros H. injection H as <-. repeat split.
Qed.

Lemma new_writer_buffer_size_inv d state op n masks w :
  n <= max_int -> new_writer_buffer_size d state op n masks = inr w -> writer_inv w.
Proof.
  unfold new_writer_buffer_size. intros Hm. apply new_writer_buffer_inv.
  destruct (n <=? 2); [|assumption]. vm_compute. discriminate.
Qed.

Lemma new_writer_size_inv d state op n masks w :
  n + 14 <= max_int -> new_writer_size d state op n masks = inr w -> writer_inv w.
Proof.
  unfold new_writer_size. intros Hm. apply new_writer_buffer_size_inv.
  destruct (0 <? n); [|lia]. unfold w_header_size.
  pose proof (mask_len_cases state). destruct (n <? 126); [lia|]. destruct (n <=? 65535); lia.
Qed.

(* ------------------------------------------------------------------ Grow *)
Definition resized (w : writer) (size : N) : writer :=
  mkW (w_dest w) (w_state w) (w_op w) (w_exts w) (w_noflush w) size (size - reserve (w_state w) size) (w_buf w)
      (w_dirty w) (w_fseq w) (w_err w) (w_masks w).

Lemma grow_spec n w : writer_inv w -> 2 * (14 + len (w_buf w) + n) <= max_int ->
  exists w', grow n w = (inr None, w') /\ writer_inv w' /\ len (w_buf w) + n <= w_buflen w'
    /\ (w' = w \/ (w_buflen w < len (w_buf w) + n /\ exists size, w_rawlen w < size /\ w' = resized w size)).
Proof.
  intros Hi Hb. unfold grow. rewrite (inv_offset w Hi). unfold w_n.
  destruct (grow_loop_ok 4 (w_state w) (w_rawlen w) (len (w_buf w)) n) as (s & Hg & Hn & Hc).
  { unfold rrank. destruct (_ <=? _); [lia|]. destruct (_ <=? _); lia. }
  rewrite Hg. destruct Hi as [H1 H2 H3 H4 H5].
  destruct Hc as [->|(Hlt & Hle & Hpos)]; [|rewrite <- H1 in Hpos].
  - rewrite N.ltb_irrefl, N.eqb_refl. exists w. split; [reflexivity|]. split; [constructor; assumption|].
    split; [lia|auto].
  - replace (s <? w_rawlen w) with false by lia. replace (s =? w_rawlen w) with false by lia.
    eexists. split; [reflexivity|]. pose proof (reserve_le14 (w_state w) s).
    split; [constructor; wsimpl; try lia; assumption|]. split; [wsimpl; lia|].
    right. split; [lia|]. exists s. split; [lia|reflexivity].
Qed.

(* ------------------------------------------------------------------ headers *)
Lemma set_bits_pres exts : forall h h', set_bits exts h = Some h' ->
  h_fin h' = h_fin h /\ h_op h' = h_op h /\ h_masked h' = h_masked h /\ h_mask h' = h_mask h /\ h_len h' = h_len h.
Proof.
  induction exts as [|c r IH]; intros h h' H; cbn [set_bits] in H.
  - injection H as <-. repeat split.
  - destruct (negb (N.land (h_rsv h) 4 =? 0)); [discriminate|].
    apply IH in H. destruct (negb (op_is_data (h_op h)) || (h_op h =? 0)); [exact H|].
    destruct c; [|exact H]. cbn [h_fin h_op h_masked h_mask h_len] in H. exact H.
Qed.

Lemma header_size_w (h : header) state n : n <= max_int ->
  h_len h = Z.of_N n -> h_masked h = client_side state ->
  header_size h = Z.of_N (w_header_size state n).
Proof.
  unfold max_int. intros Hn Hl Hm. unfold header_size, w_header_size, mask_len. rewrite Hl, Hm.
  destruct (n <? 126) eqn:E1.
  - replace (Z.of_N n <? 126)%Z with true by lia. destruct (client_side state); lia.
  - replace (Z.of_N n <? 126)%Z with false by lia. destruct (n <=? 65535) eqn:E2.
    + replace (Z.of_N n <=? 65535)%Z with true by lia. destruct (client_side state); lia.
    + replace (Z.of_N n <=? 65535)%Z with false by lia.
      replace (Z.of_N n <=? 9223372036854775807)%Z with true by lia. destruct (client_side state); lia.
Qed.

Lemma write_header_some h : (0 <= h_len h <= 9223372036854775807)%Z -> exists hb, write_header h = inr hb.
Proof.
  intros Hl. unfold write_header.
  destruct (h_len h <=? 125)%Z; [eexists; reflexivity|].
  destruct (h_len h <=? 65535)%Z; [eexists; reflexivity|].
  replace (h_len h <=? 9223372036854775807)%Z with true by lia. eexists; reflexivity.
Qed.

(* ------------------------------------------------------------------ flushFragment *)
Definition with_dest (w : writer) (d : dest) (masks : list (list byte)) : writer :=
  mkW d (w_state w) (w_op w) (w_exts w) (w_noflush w) (w_rawlen w) (w_buflen w) (w_buf w)
      (w_dirty w) (w_fseq w) (w_err w) masks.

Lemma flush_fragment_raw_A fin w : writer_inv w ->
  (exists w', flush_fragment_raw fin w = (inr (Some WExt), w) /\ w' = w) \/
  exists e d m, flush_fragment_raw fin w = (inr e, with_dest w d m) /\ (e = None \/ e = Some WDest).
Proof.
  intros Hi. unfold flush_fragment_raw.
  destruct (set_bits (w_exts w) _) as [h1|] eqn:Es; [|left; exists w; split; reflexivity].
  right. apply set_bits_pres in Es. cbn [h_fin h_op h_masked h_mask h_len] in Es.
  destruct Es as (Ef & Eo & Em & Emk & El).
  destruct (if client_side (w_state w) then take_mask w else (zero_mask, w_masks w)) as [key masks'] eqn:Ek.
  set (h := if client_side (w_state w) then _ else h1).
  assert (Hl: h_len h = Z.of_N (w_n w)) by (subst h; destruct (client_side (w_state w)); cbn [h_len]; assumption).
  assert (Hm: h_masked h = client_side (w_state w))
    by (subst h; destruct (client_side (w_state w)); cbn [h_masked]; [reflexivity|assumption]).
  pose proof Hi as [H1 H2 H3 H4 H5]. unfold w_n in *.
  assert (Hn: len (w_buf w) <= max_int) by lia.
  rewrite (header_size_w h (w_state w) (len (w_buf w)) Hn Hl Hm). rewrite N2Z.id.
  rewrite (inv_offset w Hi).
  pose proof (reserve_fits (w_state w) (w_rawlen w) (len (w_buf w)) ltac:(lia)) as Hf.
  replace (reserve (w_state w) (w_rawlen w) <? w_header_size (w_state w) (len (w_buf w))) with false by lia.
  destruct (write_header_some h) as [hb Hhb]; [unfold max_int in *; lia|]. rewrite Hhb.
  destruct (dest_write _ _) as [ok d'].
  exists (if ok then None else Some WDest), d', masks'. split; [reflexivity|]. destruct ok; auto.
Qed.

Lemma with_dest_inv w d m : writer_inv w -> writer_inv (with_dest w d m).
Proof. intros [H1 H2 H3 H4 H5]. constructor; assumption. Qed.

Lemma with_flush_result_inv w e fin : writer_inv w -> e <> Some WHang -> writer_inv (with_flush_result w e fin).
Proof. intros [H1 H2 H3 H4 H5] He. constructor; wsimpl; try assumption. rewrite len_nil. lia. Qed.

Definition is_err (e : option werror) : bool := match e with Some _ => true | None => false end.

(* FlushFragment and Flush never panic; afterwards the buffer is empty or untouched *)
Lemma flush_fragment_A w : writer_inv w ->
  exists e w', flush_fragment w = (inr e, w') /\ e <> Some WHang /\ writer_inv w' /\
    ((w' = w /\ e = w_err w /\ (w_buf w = [] \/ w_err w <> None)) \/
     (w_buf w' = [] /\ w_err w' = e /\ w_buf w <> [] /\ w_err w = None /\ w_buflen w' = w_buflen w /\ w_noflush w' = w_noflush w)).
Proof.
  intros Hi. unfold flush_fragment, w_n.
  destruct ((len (w_buf w) =? 0) || _) eqn:E.
  - exists (w_err w), w. split; [reflexivity|]. split; [apply Hi|]. split; [assumption|].
    left. split; [reflexivity|]. split; [reflexivity|]. apply orb_true_iff in E. destruct E as [E|E].
    + left. destruct (w_buf w); [reflexivity|]. rewrite len_cons in E. lia.
    + right. destruct (w_err w); discriminate.
  - apply orb_false_iff in E. destruct E as [E1 E2].
    assert (Hb: w_buf w <> []) by (intro Hb; rewrite Hb in E1; discriminate).
    assert (He0: w_err w = None) by (destruct (w_err w); [discriminate|reflexivity]).
    destruct (flush_fragment_raw_A false w Hi) as [(w' & H & _)|(e & d & m & H & He)]; rewrite H.
    + eexists _, _. split; [reflexivity|]. split; [discriminate|].
      split; [apply with_flush_result_inv; [assumption|discriminate]|].
      right. wsimpl. auto 10.
    + eexists _, _. split; [reflexivity|]. split; [destruct He as [->| ->]; discriminate|].
      split; [apply with_flush_result_inv; [apply with_dest_inv; assumption|destruct He as [->| ->]; discriminate]|].
      right. wsimpl. auto 10.
Qed.

Lemma flush_A w : writer_inv w ->
  exists e w', flush w = (inr e, w') /\ e <> Some WHang /\ writer_inv w' /\
    ((w' = w /\ e = w_err w) \/
     (w_buf w' = [] /\ w_err w' = e /\ w_err w = None /\ w_buflen w' = w_buflen w /\ w_noflush w' = w_noflush w)).
Proof.
  intros Hi. unfold flush.
  destruct (_ || _) eqn:E.
  - exists (w_err w), w. split; [reflexivity|]. split; [apply Hi|]. split; [assumption|]. left. auto.
  - apply orb_false_iff in E. destruct E as [E1 E2].
    assert (He0: w_err w = None) by (destruct (w_err w); [discriminate|reflexivity]).
    destruct (flush_fragment_raw_A true w Hi) as [(w' & H & _)|(e & d & m & H & He)]; rewrite H.
    + eexists _, _. split; [reflexivity|]. split; [discriminate|].
      split; [apply with_flush_result_inv; [assumption|discriminate]|].
      right. wsimpl. auto 10.
    + eexists _, _. split; [reflexivity|]. split; [destruct He as [->| ->]; discriminate|].
      split; [apply with_flush_result_inv; [apply with_dest_inv; assumption|destruct He as [->| ->]; discriminate]|].
      right. wsimpl. auto 10.
Qed.

(* ------------------------------------------------------------------ WriteThrough *)
Lemma write_through_A p w : writer_inv w ->
  exists n e w', write_through p w = ((n, e), w') /\ e <> Some WHang /\ writer_inv w' /\
    w_buf w' = w_buf w /\ w_buflen w' = w_buflen w /\ w_noflush w' = w_noflush w /\ n <= len p /\
    (w_err w = None -> w_buf w = [] -> len p <= max_int ->
       (n = len p /\ e = None /\ w_err w' = None) \/ (n = 0 /\ w_err w' <> None)).
Proof.
  intros Hi. pose proof Hi as [H1 H2 H3 H4 H5]. unfold write_through.
  destruct (w_err w) as [e0|] eqn:Ee.
  { exists 0, (Some e0), w. split; [reflexivity|]. split; [congruence|]. split; [assumption|].
    repeat (split; [reflexivity|]). split; [lia|]. discriminate. }
  unfold w_n. destruct (negb (len (w_buf w) =? 0)) eqn:En.
  { exists 0, (Some WNotEmpty), w. split; [reflexivity|]. split; [discriminate|]. split; [assumption|].
    repeat (split; [reflexivity|]). split; [lia|]. intros _ Hb. rewrite Hb in En. discriminate. }
  destruct (set_bits (w_exts w) _) as [h1|] eqn:Es.
  2:{ eexists 0, (Some WExt), _. split; [reflexivity|]. split; [discriminate|].
      split; [constructor; wsimpl; try assumption; discriminate|].
      wsimpl. repeat (split; [reflexivity|]). split; [lia|]. intros _ _ _. right. split; [reflexivity|discriminate]. }
  apply set_bits_pres in Es. cbn [h_fin h_op h_masked h_mask h_len] in Es.
  destruct Es as (Ef & Eo & Em & Emk & El).
  destruct (if client_side (w_state w) then take_mask w else (zero_mask, w_masks w)) as [key masks'] eqn:Ek.
  set (h := if client_side (w_state w) then _ else h1).
  assert (Hl: h_len h = Z.of_N (len p)) by (subst h; destruct (client_side (w_state w)); cbn [h_len]; assumption).
  destruct (write_header h) as [er|hb] eqn:Ehb.
  { exists 0, (Some WDest), w. split; [reflexivity|]. split; [discriminate|]. split; [assumption|].
    repeat (split; [reflexivity|]). split; [lia|]. intros _ _ Hp. exfalso.
    destruct (write_header_some h) as [hb Hhb]; [unfold max_int in *; lia|]. congruence. }
  destruct (dest_write hb (w_dest w)) as [ok1 d1].
  destruct (if ok1 then dest_write _ d1 else (false, d1)) as [ok d2].
  eexists _, _, _. split; [reflexivity|]. split; [destruct ok; discriminate|].
  split; [constructor; wsimpl; try assumption; destruct ok; discriminate|].
  wsimpl. repeat (split; [reflexivity|]). split; [destruct ok; lia|].
  intros _ _ _. destruct ok; [left; auto|right; split; [reflexivity|discriminate]].
Qed.

(* ------------------------------------------------------------------ the Write loop *)
Definition wl_cond (p : list byte) (w : writer) : bool :=
  (w_available w <? len p) && (match w_err w with None => true | Some _ => false end).

Definition wl_post (w : writer) (lp : N) (res : (wpanic + (N * option werror)) * writer) : Prop :=
  exists n e w', res = (inr (n, e), w') /\ e <> Some WHang /\ writer_inv w' /\
    len (w_buf w') <= len (w_buf w) + lp.

Lemma set_buf_inv w b d : writer_inv w -> len b <= w_buflen w -> writer_inv (set_buf w b d).
Proof. intros [H1 H2 H3 H4 H5] Hb. constructor; wsimpl; assumption. Qed.

Lemma write_loop_S f p acc w : write_loop (S f) p acc w =
  if wl_cond p w then
      if w_noflush w then
        let '(r, w1) := grow (len p) w in
        match r with
        | inl pn => (inl pn, w1)
        | inr (Some e) => (inr (acc, Some e), w1)
        | inr None => write_loop f p acc w1
        end
      else if w_n w =? 0 then
        let '((nn, _), w1) := write_through p w in
        write_loop f (drop nn p) (acc + nn) w1
      else
        let nn := N.min (w_available w) (len p) in
        let w1 := set_buf w (w_buf w ++ take nn p) (w_dirty w) in
        let '(r, w2) := flush_fragment w1 in
        match r with
        | inl pn => (inl pn, w2)
        | inr _ => write_loop f (drop nn p) (acc + nn) w2
        end
  else
    match w_err w with
    | Some e => (inr (acc, Some e), w)
    | None => (inr (acc + len p, None), set_buf w (w_buf w ++ p) (w_dirty w))
    end.
Proof. reflexivity. Qed.

Lemma wl_done fuel p acc w : writer_inv w -> wl_cond p w = false ->
  wl_post w (len p) (write_loop fuel p acc w).
Proof.
  intros Hi Hc. unfold wl_cond in Hc.
  assert (E: write_loop fuel p acc w = match w_err w with
    | Some e => (inr (acc, Some e), w)
    | None => (inr (acc + len p, None), set_buf w (w_buf w ++ p) (w_dirty w)) end)
    by (destruct fuel; cbn [write_loop]; rewrite Hc; reflexivity).
  rewrite E. destruct (w_err w) as [e|] eqn:Ee.
  - exists acc, (Some e), w. split; [reflexivity|]. split; [rewrite <- Ee; apply Hi|]. split; [assumption|lia].
  - eexists _, _, _. split; [reflexivity|]. split; [discriminate|].
    rewrite andb_true_r in Hc. unfold w_available, w_n in Hc. pose proof Hi as [H1 H2 H3 H4 H5].
    split; [apply set_buf_inv; [assumption|rewrite len_app; lia]|]. wsimpl. rewrite len_app. lia.
Qed.

Lemma wl_post_weaken w w1 lp lp1 res : len (w_buf w1) + lp1 <= len (w_buf w) + lp ->
  wl_post w1 lp1 res -> wl_post w lp res.
Proof.
  intros Hl (n & e & w' & H & He & Hi & Hb). exists n, e, w'. repeat (split; [assumption|]). lia.
Qed.

Lemma wl_noflush f p acc w : writer_inv w -> 2 * (14 + len (w_buf w) + len p) <= max_int ->
  wl_cond p w = true -> w_noflush w = true -> wl_post w (len p) (write_loop (S f) p acc w).
Proof.
  intros Hi Hb Hc Hn. rewrite write_loop_S, Hc, Hn. cbv zeta.
  destruct (grow_spec (len p) w Hi Hb) as (w1 & Hg & Hi1 & Hfit & Hsame). rewrite Hg.
  assert (Hb1: w_buf w1 = w_buf w /\ w_err w1 = w_err w)
    by (destruct Hsame as [->|(_ & s & _ & ->)]; split; reflexivity).
  destruct Hb1 as [Hb1 He1].
  apply (wl_post_weaken w w1 _ (len p)); [rewrite Hb1; lia|].
  apply wl_done; [assumption|]. unfold wl_cond, w_available, w_n. rewrite Hb1.
  replace (w_buflen w1 - len (w_buf w) <? len p) with false by lia. reflexivity.
Qed.

Lemma wl_empty f p acc w : writer_inv w -> len p <= max_int ->
  wl_cond p w = true -> w_noflush w = false -> w_buf w = [] -> wl_post w (len p) (write_loop (S f) p acc w).
Proof.
  intros Hi Hb Hc Hn Hbuf. rewrite write_loop_S, Hc, Hn. cbv zeta.
  unfold w_n. rewrite Hbuf. cbn [len length N.of_nat N.eqb].
  destruct (write_through_A p w Hi) as (n & e & w1 & Hw & He & Hi1 & Hb1 & Hbl & Hnf & Hnp & Hprog).
  rewrite Hw. unfold wl_cond in Hc. apply andb_true_iff in Hc. destruct Hc as [Hc1 Hc2].
  assert (Ee: w_err w = None) by (destruct (w_err w); [discriminate|reflexivity]).
  apply (wl_post_weaken w w1 _ (len (drop n p))); [rewrite Hb1, len_drop; lia|].
  apply wl_done; [assumption|]. unfold wl_cond.
  destruct (Hprog Ee Hbuf Hb) as [(-> & _ & He1)|(-> & He1)].
  - rewrite drop_all by lia. rewrite len_nil. replace (w_available w1 <? 0) with false by lia. reflexivity.
  - destruct (w_err w1); [apply andb_false_r|congruence].
Qed.

Lemma wl_full f p acc w : writer_inv w -> len p <= max_int ->
  wl_cond p w = true -> w_noflush w = false -> w_buf w <> [] ->
  wl_post w (len p) (write_loop (S (S f)) p acc w).
Proof.
  intros Hi Hb Hc Hn Hbuf. rewrite write_loop_S, Hc, Hn. cbv zeta.
  unfold w_n at 1. replace (len (w_buf w) =? 0) with false
    by (destruct (w_buf w); [congruence|rewrite len_cons; lia]).
  unfold wl_cond in Hc. apply andb_true_iff in Hc. destruct Hc as [Hc1 Hc2].
  assert (Ee: w_err w = None) by (destruct (w_err w); [discriminate|reflexivity]).
  pose proof Hi as [H1 H2 H3 H4 H5]. unfold w_available, w_n in *.
  replace (N.min (w_buflen w - len (w_buf w)) (len p)) with (w_buflen w - len (w_buf w)) by lia.
  set (nn := w_buflen w - len (w_buf w)).
  set (w1 := set_buf w (w_buf w ++ take nn p) (w_dirty w)).
  assert (Hl1: len (w_buf w1) = w_buflen w) by (subst w1; wsimpl; rewrite len_app, len_take; lia).
  assert (Hi1: writer_inv w1) by (apply set_buf_inv; [assumption|rewrite len_app, len_take; lia]).
  destruct (flush_fragment_A w1 Hi1) as (e & w2 & Hf & He & Hi2 & Hcase). rewrite Hf.
  assert (Hne: w_buf w1 <> []).
  { intro H0. rewrite H0, len_nil in Hl1. pose proof (inv_buflen_pos w Hi). lia. }
  destruct Hcase as [(-> & _ & [Hx|Hx])|(Hb2 & He2 & _ & _ & Hbl2 & Hnf2)]; [contradiction|subst w1; wsimpl; congruence|].
  apply (wl_post_weaken w w2 _ (len (drop nn p))); [rewrite Hb2, len_nil, len_drop; lia|].
  destruct (wl_cond (drop nn p) w2) eqn:Ec2.
  - apply wl_empty; try assumption; [rewrite len_drop; lia|subst w1; wsimpl; congruence].
  - apply wl_done; assumption.
Qed.

(* Write(p): no panic, terminates, keeps the invariant *)
Lemma write_A p w : writer_inv w -> 2 * (14 + len (w_buf w) + len p) <= max_int ->
  wl_post w (len p) (write p w).
Proof.
  intros Hi Hb. unfold write.
  set (w0 := set_buf w (w_buf w) true).
  assert (Hi0: writer_inv w0) by (apply set_buf_inv; [assumption|apply Hi]).
  change (len (w_buf w)) with (len (w_buf w0)) in Hb.
  apply (wl_post_weaken w w0 _ (len p)); [subst w0; wsimpl; lia|].
  destruct (wl_cond p w0) eqn:Ec; [|apply wl_done; assumption].
  destruct (w_noflush w0) eqn:En; [apply wl_noflush; assumption|].
  destruct (w_buf w0) as [|b r] eqn:Eb.
  - apply wl_empty; try assumption. lia.
  - apply wl_full; try assumption; [lia|congruence].
Qed.

(* ------------------------------------------------------------------ the ReadFrom loop *)
Lemma read1_len k s : len (fst (fst (read1 k s))) <= k \/ k = 0.
Proof.
  unfold read1. destruct (chunks s) as [|c cs]; cbn [fst]; [rewrite len_nil; lia|].
  destruct (k <? len c) eqn:E; cbn [fst]; [rewrite len_take|]; lia.
Qed.

Lemma chunk_by_flat sizes : forall bs, concat (chunk_by sizes bs) = bs.
Proof.
  induction sizes as [|k ks IH]; intros bs.
  - destruct bs; cbn [chunk_by concat]; [reflexivity|apply app_nil_r].
  - destruct bs as [|b r] eqn:E; [reflexivity|]. rewrite <- E. 
    assert (Hu: chunk_by (k :: ks) bs = take (if k =? 0 then 1 else k) bs :: chunk_by ks (drop (if k =? 0 then 1 else k) bs))
      by (rewrite E; reflexivity).
    rewrite Hu. cbn [concat]. rewrite IH. apply take_drop.
Qed.

Lemma chunk_by_wf sizes : forall bs, wf_chunks (chunk_by sizes bs).
Proof.
  induction sizes as [|k ks IH]; intros bs.
  - destruct bs; cbn [chunk_by]; constructor; [discriminate|constructor].
  - destruct bs as [|b r] eqn:E; [constructor|]. rewrite <- E.
    assert (Hu: chunk_by (k :: ks) bs = take (if k =? 0 then 1 else k) bs :: chunk_by ks (drop (if k =? 0 then 1 else k) bs))
      by (rewrite E; reflexivity).
    rewrite Hu. constructor; [|apply IH].
    intro H. apply (f_equal len) in H. rewrite len_take in H. rewrite E in H. rewrite len_cons in H. change (len (@nil byte)) with 0 in H. destruct (k =? 0) eqn:Ek; lia.
Qed.

Definition rf_need (s : src) (w : writer) : nat :=
  (2 * length (flat s) + (if (w_available w =? 0)%N then 2 else 1))%nat.

Definition rf_post (w : writer) (lp : N) (res : (wpanic + (N * option werror)) * writer * src) : Prop :=
  exists n e w' s', res = (inr (n, e), w', s') /\ e <> Some WHang /\ writer_inv w' /\
    len (w_buf w') <= len (w_buf w) + lp.

Lemma read_from_loop_A fuel : forall s total w, writer_inv w -> wf_src s ->
  2 * (14 + 2 * (len (w_buf w) + len (flat s))) <= max_int ->
  (rf_need s w <= fuel)%nat ->
  rf_post w (len (flat s)) (read_from_loop fuel s total w).
Proof.
  induction fuel as [|f IH]; intros s total w Hi Hs Hb Hf.
  { unfold rf_need in Hf. destruct (w_available w =? 0); lia. }
  cbn [read_from_loop]. pose proof Hi as [H1 H2 H3 H4 H5].
  pose proof (inv_buflen_pos w Hi) as Hpos.
  destruct (w_available w =? 0) eqn:Ea.
  - (* buffer full *)
    assert (Hfull: len (w_buf w) = w_buflen w) by (unfold w_available, w_n in Ea; lia).
    destruct (w_noflush w) eqn:En.
    + destruct (grow_spec (w_n w) w Hi) as (w1 & Hg & Hi1 & Hfit & Hsame); [unfold w_n; lia|]. rewrite Hg.
      assert (Hb1: w_buf w1 = w_buf w)
        by (destruct Hsame as [->|(_ & sz & _ & ->)]; reflexivity).
      unfold w_n in Hfit.
      assert (Ha1: (w_available w1 =? 0) = false) by (unfold w_available, w_n; rewrite Hb1; lia).
      destruct (IH s total w1 Hi1 Hs) as (n & e & w' & s' & Hr & He & Hi' & Hl).
      * rewrite Hb1. exact Hb.
      * unfold rf_need in *. rewrite Ha1. rewrite Ea in Hf. lia.
      * exists n, e, w', s'. rewrite Hb1 in Hl. auto.
    + destruct (flush_fragment_A w Hi) as (e & w1 & Hff & He & Hi1 & Hcase). rewrite Hff.
      destruct e as [e|].
      { exists total, (Some e), w1, s. split; [reflexivity|]. split; [assumption|]. split; [assumption|].
        destruct Hcase as [(-> & _)|(Hb1 & _)]; [lia|rewrite Hb1, len_nil; lia]. }
      destruct Hcase as [(-> & Hew & [Hx|Hx])|(Hb1 & He1 & Hne & Hew & Hbl1 & Hnf1)].
      * rewrite Hx, len_nil in Hfull. lia.
      * congruence.
      * assert (Ha1: (w_available w1 =? 0) = false) by (unfold w_available, w_n; rewrite Hb1, len_nil; lia).
        destruct (IH s total w1 Hi1 Hs) as (n & e & w' & s' & Hr & He' & Hi' & Hl).
        -- rewrite Hb1, len_nil. lia.
        -- unfold rf_need in *. rewrite Ha1. rewrite Ea in Hf. lia.
        -- exists n, e, w', s'. rewrite Hb1, len_nil in Hl. repeat (split; [assumption|]). lia.
  - (* room: one Read of the source *)
    assert (Hk: 0 < w_available w) by lia.
    pose proof (read1_props_u (w_available w) s Hs Hk) as Hr.
    pose proof (read1_len (w_available w) s) as Hlen.
    destruct (read1 (w_available w) s) as [[b e] s'] eqn:Er. cbn [fst] in Hlen.
    assert (Hlb: len b <= w_available w) by lia. clear Hlen.
    assert (Hi1: forall d, writer_inv (set_buf w (w_buf w ++ b) d)).
    { intro d. apply set_buf_inv; [assumption|]. rewrite len_app. unfold w_available, w_n in Hlb. lia. }
    destruct e as [e|].
    + destruct Hr as (-> & Hfl & ->).
      assert (Hi2: forall d0 d, writer_inv (set_buf (set_buf w (w_buf w ++ []) d0) (w_buf w ++ []) d)).
      { intros d0 d. apply set_buf_inv; [apply Hi1|]. rewrite app_nil_r. assumption. }
      destruct (tl s).
      * eexists _, _, _, _. split; [reflexivity|]. split; [discriminate|]. split; [wsimpl; apply Hi2|].
        wsimpl. rewrite app_nil_r. lia.
      * eexists _, _, _, _. split; [reflexivity|]. split; [discriminate|]. split; [apply Hi1|].
        wsimpl. rewrite app_nil_r. lia.
    + destruct Hr as (Hbne & Hfl & Hs' & Htl).
      assert (Hlb0: 0 < len b) by (destruct b; [congruence|rewrite len_cons; lia]).
      assert (Hlf: len (flat s) = len b + len (flat s')) by (rewrite Hfl, len_app; reflexivity).
      destruct (IH s' (total + len b) _ (Hi1 (w_dirty w || (0 <? len b))) Hs') as (n & e & w' & s'' & Hr & He' & Hi' & Hl).
      * wsimpl. rewrite len_app. lia.
      * unfold rf_need in *. rewrite Ea in Hf.
        assert (length (flat s) = length b + length (flat s'))%nat by (rewrite Hfl, app_length; reflexivity).
        unfold len in Hlb0. destruct (w_available (set_buf _ _ _) =? 0); lia.
      * exists n, e, w', s''. split; [assumption|]. split; [assumption|]. split; [assumption|].
        wsimpl. rewrite len_app in Hl. lia.
Qed.

Lemma read_from_A s w : writer_inv w -> wf_src s ->
  2 * (14 + 2 * (len (w_buf w) + len (flat s))) <= max_int ->
  rf_post w (len (flat s)) (read_from s w).
Proof.
  intros Hi Hs Hb. unfold read_from. apply read_from_loop_A; try assumption.
  unfold rf_need. destruct (_ =? 0); lia.
Qed.

(* ------------------------------------------------------------------ histories *)
(* one step of run_wops *)
Definition run_op (op : wop) (w : writer) : wobs * writer * bool :=
  match op with
  | WWrite p =>
    let '(r, w1) := write p w in
    match r with inl pn => (observe 0 None (Some pn) w1, w1, true)
               | inr (n, e) => (observe n e None w1, w1, false) end
  | WReadFrom data sizes =>
    let '(r, w1, _) := read_from (mkSrc (chunk_by sizes data) TEOF) w in
    match r with inl pn => (observe 0 None (Some pn) w1, w1, true)
               | inr (n, e) => (observe n e None w1, w1, false) end
  | WWriteThrough p =>
    let '((n, e), w1) := write_through p w in (observe n e None w1, w1, false)
  | WFlushFragment =>
    let '(r, w1) := flush_fragment w in
    match r with inl pn => (observe 0 None (Some pn) w1, w1, true)
               | inr e => (observe 0 e None w1, w1, false) end
  | WFlush =>
    let '(r, w1) := flush w in
    match r with inl pn => (observe 0 None (Some pn) w1, w1, true)
               | inr e => (observe 0 e None w1, w1, false) end
  | WGrow n =>
    let '(r, w1) := grow n w in
    match r with inl pn => (observe 0 None (Some pn) w1, w1, true)
               | inr e => (observe 0 e None w1, w1, false) end
  | WDisableFlush => let w1 := disable_flush w in (observe 0 None None w1, w1, false)
  | WSetExt xs => let w1 := set_extensions xs w in (observe 0 None None w1, w1, false)
  | WReset st op =>
    match reset_writer (mkDest (d_calls (w_dest w)) (d_fail_at (w_dest w))) st op w with
    | inl pn => (observe 0 None (Some pn) w, w, true)
    | inr w1 => (observe 0 None None w1, w1, false)
    end
  | WResetOp op => let w1 := reset_op op w in (observe 0 None None w1, w1, false)
  end.

Lemma run_wops_cons op rest w : run_wops (op :: rest) w =
  let '(o, w1, stop) := run_op op w in
  if stop then ([o], w1) else let '(os, w2) := run_wops rest w1 in (o :: os, w2).
Proof. reflexivity. Qed.

Definition is_reset (o : wop) : bool := match o with WReset _ _ => true | _ => false end.
Definition no_reset (ops : list wop) : bool := forallb (fun o => negb (is_reset o)) ops.

(* the sizes an operation asks the buffer to hold *)
Definition op_cost (o : wop) : N :=
  match o with
  | WWrite p => len p
  | WReadFrom data _ => len data
  | WGrow n => n
  | _ => 0
  end.
Fixpoint ops_cost (ops : list wop) : N :=
  match ops with [] => 0 | o :: r => op_cost o + ops_cost r end.

Definition obs_safe (o : wobs) : Prop := o_panic o = None /\ o_err o <> Some WHang.

Lemma run_op_A op w : writer_inv w -> is_reset op = false ->
  28 + 4 * (len (w_buf w) + op_cost op) <= max_int ->
  exists o w', run_op op w = (o, w', false) /\ obs_safe o /\ writer_inv w' /\
    len (w_buf w') <= len (w_buf w) + op_cost op.
Proof.
  intros Hi Hr Hb. destruct op as [p|data sizes|p| | |n| |xs|st op|op]; cbn [run_op op_cost] in *; try discriminate.
  - destruct (write_A p w Hi ltac:(lia)) as (n & e & w' & H & He & Hi' & Hl). rewrite H.
    eexists _, _. split; [reflexivity|]. split; [split; [reflexivity|exact He]|]. auto.
  - set (s := mkSrc (chunk_by sizes data) TEOF).
    assert (Hfl: flat s = data) by apply chunk_by_flat.
    destruct (read_from_A s w Hi) as (n & e & w' & s' & H & He & Hi' & Hl).
    { apply chunk_by_wf. } { rewrite Hfl. lia. }
    rewrite H. rewrite Hfl in Hl.
    eexists _, _. split; [reflexivity|]. split; [split; [reflexivity|exact He]|]. auto.
  - destruct (write_through_A p w Hi) as (n & e & w' & H & He & Hi' & Hb' & _). rewrite H.
    eexists _, _. split; [reflexivity|]. split; [split; [reflexivity|exact He]|]. split; [assumption|]. rewrite Hb'. lia.
  - destruct (flush_fragment_A w Hi) as (e & w' & H & He & Hi' & Hc). rewrite H.
    eexists _, _. split; [reflexivity|]. split; [split; [reflexivity|exact He]|]. split; [assumption|].
    destruct Hc as [(-> & _)|(Hb' & _)]; [lia|rewrite Hb', len_nil; lia].
  - destruct (flush_A w Hi) as (e & w' & H & He & Hi' & Hc). rewrite H.
    eexists _, _. split; [reflexivity|]. split; [split; [reflexivity|exact He]|]. split; [assumption|].
    destruct Hc as [(-> & _)|(Hb' & _)]; [lia|rewrite Hb', len_nil; lia].
  - destruct (grow_spec n w Hi ltac:(lia)) as (w' & H & Hi' & _ & Hc). rewrite H.
    eexists _, _. split; [reflexivity|]. split; [split; [reflexivity|discriminate]|]. split; [assumption|].
    destruct Hc as [->|(_ & s & _ & ->)]; unfold resized; wsimpl; lia.
  - eexists _, _. split; [reflexivity|]. split; [split; [reflexivity|discriminate]|].
    destruct Hi as [H1 H2 H3 H4 H5]. split; [constructor; assumption|]. wsimpl. lia.
  - eexists _, _. split; [reflexivity|]. split; [split; [reflexivity|discriminate]|].
    destruct Hi as [H1 H2 H3 H4 H5]. split; [constructor; assumption|]. wsimpl. lia.
  - eexists _, _. split; [reflexivity|]. split; [split; [reflexivity|discriminate]|].
    destruct Hi as [H1 H2 H3 H4 H5]. split; [constructor; wsimpl; try assumption; rewrite len_nil; lia|].
    wsimpl. rewrite len_nil. lia.
Qed.

(* C06 (A): every history without Reset keeps the invariant, never panics and
   never exhausts the fuel of a model loop *)
Theorem run_wops_safe : forall ops w, writer_inv w -> no_reset ops = true ->
  28 + 4 * (len (w_buf w) + ops_cost ops) <= max_int ->
  Forall obs_safe (fst (run_wops ops w)) /\ writer_inv (snd (run_wops ops w)) /\
  length (fst (run_wops ops w)) = length ops.
Proof.
  induction ops as [|op rest IH]; intros w Hi Hr Hb.
  - cbn. auto.
  - cbn [no_reset forallb] in Hr. apply andb_true_iff in Hr. destruct Hr as [Hr1 Hr2].
    cbn [ops_cost] in Hb.
    destruct (run_op_A op w Hi) as (o & w1 & Hs & Ho & Hi1 & Hl).
    { destruct (is_reset op); [discriminate|reflexivity]. } { lia. }
    rewrite run_wops_cons, Hs.
    destruct (IH w1 Hi1 Hr2 ltac:(lia)) as (HF & Hi2 & Hlen).
    destruct (run_wops rest w1) as [os w2]. cbn [fst snd] in *.
    split; [constructor; assumption|]. split; [assumption|]. cbn [length]. rewrite Hlen. reflexivity.
Qed.
